"""C50 -- a rejected MTest step leaves no trace.
Engine H: Gallina model of the state fields of StudyCurrentState / CurrentState with update / revert and arbitrary
attempts (C50Model.v), Coq theorems for every type of field values; tie: the REAL StudyCurrentState.cxx,
StructureCurrentState.cxx, CurrentState.cxx compiled from /repo, (1) field by field against the model on tagged states
and random sequences of update / revert / scribbling on end-of-step fields, (2) inside the REAL GenericSolver::execute with a
fault-injecting scripted behaviour: final state of the faulty run compared bit-wise with a direct run over the accepted steps.
Extension: (3) the Newton branch (u1 not empty: 2 unknowns, constant stiffness, several passes per attempt, linear prediction, the
real acceleration algorithms) with faults at chosen (attempt, pass) and non-convergence within iterMax, faulty vs direct bit-wise;
(4) every acceleration algorithm of the factory fed with the passes of a rejected attempt and then a new attempt, against a fresh
object (bit-wise); (5) generated .mtest problems with a fault-injecting mfront behaviour run by the real mtest binary and by an mtest
compiled from the working tree: the rows of the faulty run equal those of the direct run over the accepted times, bit-wise."""
import os, re, sys
from vlib import guarded_main
sys.path.insert(0, os.path.join(os.path.dirname(os.path.abspath(__file__)), "..", "C48"))
import mtlib, mtstage

ALGOS = ["Cast3M", "Secant", "AlternateSecant", "AlternateDelta2", "Alternate2Delta", "CrossedSecant", "CrossedDelta2", "Crossed2Delta", "Crossed2Deltabis",
         "Steffensen", "IronsTuck", "UAnderson", "FAnderson"]
REPO_SRC = ["mtest/src/GenericSolver.cxx", "mtest/src/Solver.cxx", "mtest/src/StudyCurrentState.cxx",
            "mtest/src/StructureCurrentState.cxx", "mtest/src/CurrentState.cxx", "mtest/src/Study.cxx", "mtest/src/SolverOptions.cxx",
            "mtest/src/AccelerationAlgorithm.cxx", "mtest/src/AccelerationAlgorithmFactory.cxx", "mtest/src/CastemAccelerationAlgorithm.cxx",
            "mtest/src/SecantAccelerationAlgorithm.cxx", "mtest/src/AlternateSecantAccelerationAlgorithm.cxx",
            "mtest/src/AlternateDelta2AccelerationAlgorithm.cxx", "mtest/src/Alternate2DeltaAccelerationAlgorithm.cxx",
            "mtest/src/CrossedSecantAccelerationAlgorithm.cxx", "mtest/src/CrossedDelta2AccelerationAlgorithm.cxx",
            "mtest/src/Crossed2DeltaAccelerationAlgorithm.cxx", "mtest/src/Crossed2DeltabisAccelerationAlgorithm.cxx",
            "mtest/src/SteffensenAccelerationAlgorithm.cxx", "mtest/src/IronsTuckAccelerationAlgorithm.cxx",
            "mtest/src/UAndersonAccelerationAlgorithm.cxx", "mtest/src/FAndersonAccelerationAlgorithm.cxx"]
# Crossed2Deltabis keeps the last iterate of whatever ran before (csa_x2) and uses it as X{n-2} at pass 3: after a rejected attempt the accepted
# results (and even the steps accepted) differ from the direct run (finding, props/C50/fix_crossed2deltabis_history.diff)
K_STALE = "acc:%s:stale-history"
K_STALE_RUN = "nrun:%s:stale-history-changes-accepted-results"
NSF = ["u_1[0]", "u_1[1]", "u0[0]", "u0[1]", "u1[0]", "u1[1]", "u10[0]", "u10[1]", "dt_1", "period", "iterations", "subSteps"]
LIBS = ["-lTFELMTest", "-lTFELMathParser", "-lTFELMathKriging", "-lTFELMath", "-lTFELUtilities", "-lTFELException",
        "-lTFELTests", "-lTFELSystem", "-lMFrontLogStream"]
SFIELDS = ["u_1", "u0", "u1", "u10", "dt_1", "period", "iterations", "subSteps"]
CFIELDS = ["s_1", "s0", "s1", "e0", "e1", "iv_1", "iv0", "iv1", "se0", "se1", "de0", "de1"]
MUT = {0: "u1", 1: "u10", 2: "s1", 3: "e1", 4: "iv1", 5: "se1", 6: "de1"}

HEADER = """From Coq Require Import ZArith List.
From C50 Require Import C50Model.
Import ListNotations.
Local Open Scope Z_scope.
Definition setc (f : nat) (v : Z) (c : cstate Z) : cstate Z :=
  match f with
  | 2%nat => mkC Z (s_1 Z c) (s0 Z c) v (e0 Z c) (e1 Z c) (iv_1 Z c) (iv0 Z c) (iv1 Z c) (se0 Z c) (se1 Z c) (de0 Z c) (de1 Z c)
  | 3%nat => mkC Z (s_1 Z c) (s0 Z c) (s1 Z c) (e0 Z c) v (iv_1 Z c) (iv0 Z c) (iv1 Z c) (se0 Z c) (se1 Z c) (de0 Z c) (de1 Z c)
  | 4%nat => mkC Z (s_1 Z c) (s0 Z c) (s1 Z c) (e0 Z c) (e1 Z c) (iv_1 Z c) (iv0 Z c) v (se0 Z c) (se1 Z c) (de0 Z c) (de1 Z c)
  | 5%nat => mkC Z (s_1 Z c) (s0 Z c) (s1 Z c) (e0 Z c) (e1 Z c) (iv_1 Z c) (iv0 Z c) (iv1 Z c) (se0 Z c) v (de0 Z c) (de1 Z c)
  | 6%nat => mkC Z (s_1 Z c) (s0 Z c) (s1 Z c) (e0 Z c) (e1 Z c) (iv_1 Z c) (iv0 Z c) (iv1 Z c) (se0 Z c) (se1 Z c) (de0 Z c) v
  | _ => c
  end.
Definition mut (f : nat) (v : Z) (s : sstate Z) : sstate Z :=
  mkS Z (u_1 Z s) (u0 Z s) (match f with 0%nat => v | _ => u1 Z s end) (match f with 1%nat => v | _ => u10 Z s end) (dt_1 Z s)
      (period Z s) (iterations Z s) (subSteps Z s) (map (setc f v) (points Z s)).
Definition dumpc (c : cstate Z) : list Z :=
  [s_1 Z c; s0 Z c; s1 Z c; e0 Z c; e1 Z c; iv_1 Z c; iv0 Z c; iv1 Z c; se0 Z c; se1 Z c; de0 Z c; de1 Z c].
Definition dump (s : sstate Z) : list Z :=
  [u_1 Z s; u0 Z s; u1 Z s; u10 Z s; dt_1 Z s; Z.of_nat (period Z s); Z.of_nat (iterations Z s); Z.of_nat (subSteps Z s)] ++ flat_map dumpc (points Z s).
"""


def main(c):
    exe = c.cxx("driver", ["driver.cxx"], REPO_SRC, flags=["-ffp-contract=off"], libs=LIBS, link_repo_libs=True)
    c.trusted("driver props/C50/driver.cxx (tagged states, scripted fault-injecting Study around the real GenericSolver::execute, branch `iterate2`)",
              "files not listed in the driver's repo_sources come from the libraries built in /repo/_build",
              "the list of fields read by an attempt (all but e0/e1/iterations/subSteps) was established by reading MTest::prepare, "
              "SingleStructureScheme and the behaviour wrappers, it is not extracted mechanically",
              "Newton branch: scripted two-unknown Study (constant stiffness, history dependent non linear law written in the driver); acceleration algorithms "
              "compiled from the working tree and taken from the real factory",
              "mtest stage: the mfront and mtest binaries of /repo/_build, g++ for the generated behaviours, the `tree mtest` of props/C48/mtlib.py (MTestMain.cxx, MTest.cxx, "
              "GenericSolver.cxx, StudyCurrentState.cxx ... compiled from the working tree in front of libTFELMTest.so), result file parser")
    rng = c.rng
    # ---------------------------------------------------------------- (1) field level
    cases = []
    for k in range(c.pick(300, 3000)):
        np_ = rng.randint(1, 3)
        tags = list(range(1, 6 + 12 * np_))
        rng.shuffle(tags)
        ops = []
        for _ in range(rng.randint(1, 8)):
            u = rng.random()
            if u < 0.3:
                ops.append(("U", rng.randint(100, 200)))
            elif u < 0.6:
                ops.append(("R",))
            else:
                ops.append(("M", rng.randrange(7), rng.randint(1000, 9999)))
        cases.append((np_, tags, ops))
    lines, v = [], [HEADER]
    for np_, tags, ops in cases:
        lines.append("OPS %d %s %d %s" % (np_, " ".join(map(str, tags)), len(ops), " ".join(" ".join(map(str, o)) for o in ops)))
        pts = "; ".join("mkC Z " + " ".join(str(x) for x in tags[5 + 12 * p:17 + 12 * p]) for p in range(np_))
        term = "(mkS Z %d %d %d %d %d 1 0 0 [%s])" % (tags[0], tags[1], tags[2], tags[3], tags[4], pts)
        for o in ops:
            term = {"U": lambda: "(supdate Z %d %s)" % (o[1], term), "R": lambda: "(srevert Z %s)" % term,
                    "M": lambda: "(mut %d%%nat %d %s)" % (o[1], o[2], term)}[o[0]]()
        v.append("Eval vm_compute in dump %s." % term)
    # ---------------------------------------------------------------- (2) through GenericSolver::execute
    runs = []
    for k in range(c.pick(150, 1500)):
        msub = rng.choice([3, 5, 8])
        nsteps = rng.randint(1, 3)
        t = 0.0
        steps = []
        for _ in range(nsteps):
            d = rng.choice([0.5, 1.0, 2.0])
            steps.append((t, t + d))
            t += d
        script = [1 if rng.random() > rng.choice([0.15, 0.35]) else 0 for _ in range(rng.randint(1, 14))]
        runs.append((msub, steps, script))
    runs[0] = (5, [(0.0, 1.0)], [0, 0, 1, 1, 0, 1])
    for msub, steps, script in runs:
        lines.append("RUN %d %d %s %d %s" % (msub, len(steps), " ".join("%s %s" % (a.hex(), b.hex()) for a, b in steps), len(script), " ".join(map(str, script))))
    rc, out, err = c.run([exe], input="\n".join(lines) + "\n", timeout=600)
    res = [l for l in out.splitlines() if l[:2] in ("D ", "S ", "X ", "E ")]
    if rc != 0 or len(res) != len(lines):
        c.report("driver", "driver failed (rc=%d, %d answers for %d commands): %s" % (rc, len(res), len(lines), err[-400:]), {"stderr": err[-3000:]}, False)
        return
    rc, mout, merr = c.coq_eval(["C50Model.v"], "\n".join(v) + "\n", timeout=900)
    if rc != 0:
        c.report("model-eval", "model evaluation failed: " + merr[-500:], {"stderr": merr[-3000:]}, False)
        return
    model = [[int(x) for x in re.findall(r"-?\d+", m)] for m in re.findall(r"=\s*\[([^\]]*)\]", mout.replace("%Z", ""))]
    if len(model) != len(cases):
        c.report("model-eval", "model returned %d results for %d cases" % (len(model), len(cases)), {"stdout": mout[-2000:]}, False)
        return
    names = lambda np_: SFIELDS + ["point%d.%s" % (p, f) for p in range(np_) for f in CFIELDS]
    for (np_, tags, ops), line, mm in zip(cases, res[:len(cases)], model):
        c.count(1, ("ops", np_, tuple(tags), tuple(ops)), any(o[0] == "R" for o in ops))
        real = [float.fromhex(x) if "x" in x else float(x) for x in line.split()[1:]]
        diff = [n for n, a, b in zip(names(np_), real, mm) if a != b]
        # independent statement on the real dump: after `M.. R` (scribble + revert) from a state at rest nothing observable changed
        if (diff or len(real) != len(mm)) and len(c.violations) < 4:
            c.report("ops:%d:%s:%s" % (np_, ",".join(map(str, tags)), ";".join(" ".join(map(str, o)) for o in ops)),
                     "StudyCurrentState with %d point(s), fields tagged %r, after operations %r (U=update(dt), R=revert, M f v=write v into end-of-step field %r): "
                     "fields %r differ from the model (real %r, model %r)" % (np_, tags, ops, MUT, diff, real, mm),
                     {"npoints": np_, "tags": tags, "ops": ops, "real": real, "model": mm, "differing_fields": diff}, True)
    c.sample({"ops_case": {"points": cases[0][0], "tags": cases[0][1], "ops": cases[0][2]}, "real_dump": res[0]})
    # direct runs over the accepted steps
    faulty = res[len(cases):]
    lines2, idxs = [], []
    for i, ((msub, steps, script), line) in enumerate(zip(runs, faulty)):
        t = line.split()
        if t[1] != "done":
            c.count(1, ("run-raise", i), False)
            continue
        na = int(t[3])
        acc = [(float.fromhex(t[4 + 2 * j]), float.fromhex(t[5 + 2 * j])) for j in range(na)]
        lines2.append("RUN %d %d %s 0" % (msub, na, " ".join("%s %s" % (a.hex(), (a + d).hex()) for a, d in acc)))
        idxs.append((i, acc))
    rc, out2, err2 = c.run([exe], input="\n".join(lines2) + "\n", timeout=600)
    res2 = [l for l in out2.splitlines() if l[:2] in ("S ", "X ", "E ")]
    if rc != 0 or len(res2) != len(lines2):
        c.report("driver2", "driver failed on the direct runs: " + err2[-400:], {"stderr": err2[-3000:]}, False)
        return
    nrej = 0
    for (i, acc), line2 in zip(idxs, res2):
        msub, steps, script = runs[i]
        f = faulty[i].split()
        d = line2.split()
        df, dd = f[f.index("D") + 1:], d[d.index("D") + 1:]
        nm = names(2)
        rejected = int(df[7])
        nrej += rejected
        c.count(1, ("run", msub, tuple(steps), tuple(script)), rejected > 0)
        diff = [n for n, a, b in zip(nm, df, dd) if a != b and n not in ("iterations", "subSteps")]
        acc2 = [(float.fromhex(d[4 + 2 * j]), float.fromhex(d[5 + 2 * j])) for j in range(int(d[3]))]
        if (diff or acc2 != acc or d[1] != "done") and len(c.violations) < 4:
            c.report("run:%d:%s:%s" % (msub, ",".join("%s-%s" % s for s in steps), "".join(map(str, script))),
                     "GenericSolver::execute over %r with mSubSteps=%d and a behaviour failing at attempts %r accepted steps %r after %d rejections; "
                     "a direct run over these steps ends in a different state: fields %r (faulty %r, direct %r)" % (
                         steps, msub, [k for k, ok in enumerate(script) if not ok], acc, rejected, diff, dict(zip(nm, df)), dict(zip(nm, dd))),
                     {"steps": steps, "mSubSteps": msub, "script": script, "accepted": acc, "faulty": faulty[i], "direct": line2}, True)
        if i == 0:
            c.sample({"run": {"steps": steps, "script": script}, "faulty": faulty[i][:300], "direct": line2[:300]})
    c.log("field level and iterate2 branch done")
    na, stale_algos = stage_accel(c, exe)
    c.log("acceleration algorithms done")
    nn = stage_newton(c, exe, stale_algos)
    c.log("Newton branch done")
    nm = stage_mtest(c)
    c.log("mtest stage done")
    c.coverage["rule"] = ("seeded (VERIF_SEED). Field level: %d tagged states (1-3 integration points, all 5+12n fields distinct) x 1-8 operations among update(dt) / "
                          "revert / write into one end-of-step field, every field compared with the model. Solver level: %d runs of 1-3 requested steps with "
                          "mSubSteps 3/5/8 and scripted failures (15%%/35%% of up to 14 attempts, nested bisection), %d rejected attempts in total, final state "
                          "compared bit-wise with the direct run. Newton branch: %d runs (2 unknowns, 2 points, iterMax 4..12, with/without linear prediction, no / each of the 13 "
                          "acceleration algorithms, faults at chosen (attempt, pass) and non-convergence), %d rejected attempts, %d runs compared bit-wise with the direct run. "
                          "Acceleration algorithms: %d stale-vs-fresh comparisons over the 13 algorithms of the factory. mtest: %d generated problems x 2 binaries, %d faulty runs with "
                          "%d rejected attempts compared row by row, bit-wise, with the direct run over the accepted times. non-trivial = contains a revert / at least one rejected attempt" % (
                              len(cases), len(runs), nrej, nn[0], nn[1], nn[2], na, nm[0], nm[1], nm[2]))
    c.coverage["traces_validated_against_impl"] = len(cases) + len(idxs) + nn[2] + na + nm[1]
    r = c.coq(["C50Model.v", "C50Proofs.v", "C50Accel.v", "Properties_C50.v"], timeout=600)
    if not r.ok:
        c.coq_failures(r)


def stage_newton(c, exe, stale_algos):
    """the Newton branch of GenericSolver::execute with faults, faulty vs direct"""
    rng = c.rng
    reported, nrep = set(), 0
    runs = [(6, 6, 0, "none", [(0.0, 1.0)], [(1, 3)]),            # the behaviour fails at pass 3 of the first attempt: u10 != u0 when revert() is called
            (6, 3, 0, "none", [(0.0, 2.0)], []),                  # non-convergence within iterMax = 3 passes
            (8, 8, 1, "Cast3M", [(0.0, 1.0), (1.0, 3.0)], [(2, 5), (4, 2)]),
            (6, 6, 0, "Crossed2Deltabis", [(0.0, 1.0), (1.0, 5.0)], [(2, 3), (4, 4), (10, 5)])]
    for k in range(c.pick(150, 1200)):
        itmax = rng.choice([3, 4, 6, 8, 12])
        t, steps = 0.0, []
        for _ in range(rng.randint(1, 3)):
            d = rng.choice([0.5, 1.0, 2.0, 4.0])
            steps.append((t, t + d))
            t += d
        faults = sorted(set((rng.randint(1, 12), rng.randint(1, min(itmax, 5))) for _ in range(rng.choice([0, 1, 1, 2, 3]))))
        runs.append((rng.choice([5, 6, 8]), itmax, int(rng.random() < 0.5), rng.choice(["none"] * 4 + ALGOS), steps, faults))
    line = lambda msub, itmax, lp, alg, steps, faults: "NRUN %d %d %d %s %d %s %d %s" % (
        msub, itmax, lp, alg, len(steps), " ".join("%s %s" % (a.hex(), b.hex()) for a, b in steps), len(faults), " ".join("%d %d" % f for f in faults))
    rc, out, err = c.run([exe], input="\n".join(line(*r) for r in runs) + "\n", timeout=600)
    res = [l for l in out.splitlines() if l[:2] in ("S ", "X ", "E ")]
    if rc != 0 or len(res) != len(runs):
        c.report("driver-newton", "driver failed on the Newton runs (rc=%d, %d answers for %d): %s" % (rc, len(res), len(runs), err[-400:]), {"stderr": err[-3000:]}, False)
        return (len(runs), 0, 0)
    direct, idx = [], []
    for i, (r, l) in enumerate(zip(runs, res)):
        t = l.split()
        if t[0] != "S" or t[1] != "done":
            c.count(1, ("nrun-raise", i), False)
            continue
        na = int(t[3])
        acc = [(float.fromhex(t[4 + 2 * j]), float.fromhex(t[5 + 2 * j])) for j in range(na)]
        direct.append(line(r[0], r[1], r[2], r[3], [(a, a + d) for a, d in acc], []))
        idx.append((i, acc))
    rc, out2, err2 = c.run([exe], input="\n".join(direct) + "\n", timeout=600)
    res2 = [l for l in out2.splitlines() if l[:2] in ("S ", "X ", "E ")]
    if rc != 0 or len(res2) != len(direct):
        c.report("driver-newton2", "driver failed on the direct Newton runs: " + err2[-400:], {"stderr": err2[-3000:]}, False)
        return (len(runs), 0, 0)
    names = NSF + ["point%d.%s" % (p, f) for p in range(2) for f in CFIELDS]
    nrej = 0
    for (i, acc), l2 in zip(idx, res2):
        msub, itmax, lp, alg, steps, faults = runs[i]
        f, d = res[i].split(), l2.split()
        df, dd = f[f.index("D") + 1:], d[d.index("D") + 1:]
        rejected = int(df[names.index("subSteps")])
        nrej += rejected
        c.count(1, ("nrun", msub, itmax, lp, alg, tuple(steps), tuple(faults)), rejected > 0)
        diff = [n for n, a, b in zip(names, df, dd) if a != b and n not in ("iterations", "subSteps")]
        acc2 = [(float.fromhex(d[4 + 2 * j]), float.fromhex(d[5 + 2 * j])) for j in range(int(d[3]))] if d[1] == "done" else None
        val = lambda x: float.fromhex(x) if "x" in x else float(x)
        if (diff or acc2 != acc) and alg in stale_algos:
            # an algorithm observed (stage_accel) to read the history of a rejected attempt: one report under a stable key
            if alg not in reported:
                reported.add(alg)
                c.report(K_STALE_RUN % alg, "GenericSolver::execute, Newton branch, acceleration %s over %r (iterMax=%d, mSubSteps=%d, %s) with the behaviour failing at (attempt, pass) %r "
                         "accepted the steps %r after %d rejections; a direct run over these steps %s: the algorithm reads the iterates left by the rejected attempt" % (
                             alg, steps, itmax, msub, "linear prediction" if lp else "no prediction", faults, acc, rejected,
                             "ends in a state that is not bit-wise the same (fields %r)" % diff if acc2 == acc else "does not accept them as they are (it accepts %r)" % (acc2,)),
                         {"steps": steps, "mSubSteps": msub, "iterMax": itmax, "linear_prediction": lp, "acceleration": alg, "faults": faults, "accepted": acc,
                          "faulty": res[i], "direct": l2, "how": "echo '%s' | <props/C50 driver>" % line(*runs[i])}, True)
            continue
        if (diff or acc2 != acc) and nrep < 3:
            nrep += 1
            c.report("nrun:%d:%d:%d:%s:%s:%s" % (msub, itmax, lp, alg, ",".join("%s-%s" % st for st in steps), ",".join("%d.%d" % ft for ft in faults)),
                     "GenericSolver::execute, Newton branch (2 unknowns, iterMax=%d, mSubSteps=%d, %s, acceleration %s) over %r with the behaviour failing at (attempt, pass) %r "
                     "accepted the steps %r after %d rejections; a direct run over these steps %s: fields %r (faulty %r, direct %r)" % (
                         itmax, msub, "linear prediction" if lp else "no prediction", alg, steps, faults, acc, rejected,
                         "ends in a different state" if acc2 == acc else "does not accept them as they are (%r)" % (acc2,), diff,
                         {n: val(a) for n, a in zip(names, df) if n in diff}, {n: val(b) for n, b in zip(names, dd) if n in diff}),
                     {"steps": steps, "mSubSteps": msub, "iterMax": itmax, "linear_prediction": lp, "acceleration": alg, "faults": faults, "accepted": acc,
                      "faulty": res[i], "direct": l2, "how": "echo '%s' | <props/C50 driver>" % line(*runs[i])}, True)
        if i == 0:
            c.sample({"newton_run": {"steps": steps, "faults": faults, "iterMax": itmax}, "faulty": res[i][:300], "direct": l2[:300]})
    return (len(runs), nrej, len(idx))


def stage_accel(c, exe):
    """each acceleration algorithm: passes of a rejected attempt, then a new attempt, against a fresh object"""
    rng = c.rng
    cases = []
    for alg in ALGOS:
        for k in range(c.pick(12, 100)):
            n, nj, nr = rng.randint(1, 3), rng.randint(1, 9), rng.randint(3, 12)
            sc = rng.choice([1.0, 1e-3, 1e3])
            data = [[rng.uniform(-1, 1) * sc * (0.5 ** (j % 6)) for _ in range(3 * n)] for j in range(nj + nr)]
            cases.append((alg, n, nj, nr, data))
    rc, out, err = c.run([exe], input="\n".join("ACC %s %d %d %d %s" % (alg, n, nj, nr, " ".join(x.hex() for row in data for x in row)) for alg, n, nj, nr, data in cases) + "\n", timeout=600)
    res = [l for l in out.splitlines() if l[:2] in ("H ", "X ", "E ")]
    if rc != 0 or len(res) != len(cases):
        c.report("driver-acc", "driver failed on the acceleration algorithms (rc=%d, %d answers for %d): %s" % (rc, len(res), len(cases), err[-400:]), {"stderr": err[-3000:]}, False)
        return 0, set()
    seen, errs = set(), set()
    for (alg, n, nj, nr, data), l in zip(cases, res):
        c.count(1, ("acc", alg, n, nj, nr, tuple(data[0])), True)
        if l[0] != "H":
            if alg not in errs:
                errs.add(alg)
                c.report("acc:%s:error" % alg, "acceleration algorithm %s: %s" % (alg, l[:300]), {"algorithm": alg, "n": n, "data": data}, True)
            continue
        a, b = l[2:].split("|")
        a, b = a.split(), b.split()
        if a != b and alg not in seen:
            seen.add(alg)
            k = next(i for i, (x, y) in enumerate(zip(a, b)) if x != y)
            c.report(K_STALE % alg, "acceleration algorithm %s (%d unknowns): after the %d passes of a rejected attempt, pass %d of the next attempt returns %s whereas a fresh "
                     "object fed with the same passes returns %s: the history of the rejected attempt is read" % (alg, n, nj, k // n + 1, a[k], b[k]),
                     {"algorithm": alg, "unknowns": n, "passes_of_the_rejected_attempt": data[:nj], "passes_of_the_next_attempt (u1 increment, du, r)": data[nj:],
                      "stale": a, "fresh": b}, True)
    return len(cases), seen


def gen_mtest_problem(rng, idx):
    """a bisection-mode problem on a dyadic time grid whose behaviour fails (time step limit) or does not converge within iterMax"""
    for _ in range(50):
        pb = mtstage.gen_problem(rng, idx)
        if pb.get("dyn") or not (pb.get("dtmax") or pb.get("itmax")):
            continue
        pb["name"] = "f%03d" % idx
        u = rng.random()
        if u < 0.3 and pb["beh"] == "VNorton":
            pb["accel"] = rng.choice(["Cast3M", "Secant", "IronsTuck", "Steffensen", "UAnderson", "FAnderson"])
            pb["stiffness"] = "Elastic"
            pb["itmax"] = rng.choice([8, 12, 20])
            pb["msub"] = 10
        elif u < 0.5:
            pb["prediction"] = "LinearPrediction"
        return pb
    return pb


def stage_mtest(c):
    c.repo_build(["mtest", "mfront"])
    lib = mtlib.build_behaviours(c)
    tmtest = mtlib.build_tree_mtest(c)
    rng = c.rng
    wd = os.path.join(c.work, "mtest")
    pbs = [gen_mtest_problem(rng, i) for i in range(c.pick(30, 250))]
    ncmp = nrej = nrep = 0
    for pb in pbs:
        for who, exe in (("real", mtlib.real_mtest()), ("tree", tmtest)):
            d = os.path.join(wd, who)
            os.makedirs(d, exist_ok=True)
            text = mtlib.write_problem(os.path.join(d, pb["name"] + ".mtest"), pb, lib)
            rc, o = mtlib.run(c, exe, d, pb["name"])
            rows = mtlib.parse_res(os.path.join(d, pb["name"] + ".res"))
            per, its, sub, ok = mtlib.summary(o)
            c.count(1, ("mtest", who, text), bool(ok and sub))
            if not (ok and rc == 0 and rows):
                continue
            raw = [l.split() for l in open(os.path.join(d, pb["name"] + ".res")) if l.strip() and not l.startswith("#")]
            dpb = dict(pb, name=pb["name"] + "_direct", times=[r[0] for r in rows])
            dtext = mtlib.write_problem(os.path.join(d, dpb["name"] + ".mtest"), dpb, lib)
            rc2, o2 = mtlib.run(c, exe, d, dpb["name"])
            per2, its2, sub2, ok2 = mtlib.summary(o2)
            try:
                raw2 = [l.split() for l in open(os.path.join(d, dpb["name"] + ".res")) if l.strip() and not l.startswith("#")]
            except OSError:
                raw2 = []
            ncmp += 1
            nrej += sub or 0
            bad = None
            if not (ok2 and rc2 == 0) or sub2:
                bad = "the direct run over the accepted times %s" % ("needs %d sub-steps itself" % sub2 if ok2 else "fails: " + o2[-300:])
            elif raw2 != raw:
                k = next((i for i, (a, b) in enumerate(zip(raw, raw2)) if a != b), min(len(raw), len(raw2)))
                bad = "the direct run over the accepted times differs from row %d on (time %s): faulty %s / direct %s" % (
                    k, raw[k][0] if k < len(raw) else "-", " ".join(raw[k][:9]) if k < len(raw) else "-", " ".join(raw2[k][:9]) if k < len(raw2) else "-")
            if bad and nrep < 3:
                nrep += 1
                c.report("mtest:%s:%s" % (who, pb["name"]), "%s mtest on\n%s\naccepted the times %r after %d rejected attempts; %s" % (who, text, [r[0] for r in rows], sub or 0, bad),
                         {"mtest_file": text, "direct_mtest_file": dtext, "binary": exe}, True)
            if pb["name"] == "f000":
                c.sample({"mtest_problem": text, "binary": who, "accepted_times": [r[0] for r in rows], "rejected_attempts": sub, "identical_to_direct_run": bad is None})
    return (len(pbs), ncmp, nrej)


guarded_main("C50", main)

"""C50 -- a rejected MTest step leaves no trace.
Engine H: Gallina model of the state fields of StudyCurrentState / CurrentState with update / revert and arbitrary
attempts (C50Model.v), Coq theorems for every type of field values; tie: the REAL StudyCurrentState.cxx,
StructureCurrentState.cxx, CurrentState.cxx compiled from /repo, (1) field by field against the model on tagged states
and random sequences of update / revert / scribbling on end-of-step fields, (2) inside the REAL GenericSolver::execute with a
fault-injecting scripted behaviour: final state of the faulty run compared bit-wise with a direct run over the accepted steps."""
import re
from vlib import guarded_main

REPO_SRC = ["mtest/src/GenericSolver.cxx", "mtest/src/Solver.cxx", "mtest/src/StudyCurrentState.cxx",
            "mtest/src/StructureCurrentState.cxx", "mtest/src/CurrentState.cxx", "mtest/src/Study.cxx", "mtest/src/SolverOptions.cxx"]
LIBS = ["-lTFELMTest", "-lTFELMathParser", "-lTFELMathKriging", "-lTFELMath", "-lTFELUtilities", "-lTFELException",
        "-lTFELTests", "-lTFELSystem", "-lMFrontLogStream"]
SFIELDS = ["u_1", "u0", "u1", "u10", "dt_1", "period", "iterations", "subSteps"]
CFIELDS = ["s_1", "s0", "s1", "e0", "e1", "iv_1", "iv0", "iv1", "se0", "se1", "de0", "de1"]
MUT = {0: "u1", 1: "u10", 2: "s1", 3: "e1", 4: "iv1", 5: "se1", 6: "de1"}

HEADER = """From Coq Require Import ZArith List.
From C50 Require Import C50Model.
Import ListNotations.
Local Open Scope Z_scope.
Definition setc (f : nat) (v : Z) (c : cstate Z) : cstate Z :=
  match f with
  | 2%nat => mkC Z (s_1 Z c) (s0 Z c) v (e0 Z c) (e1 Z c) (iv_1 Z c) (iv0 Z c) (iv1 Z c) (se0 Z c) (se1 Z c) (de0 Z c) (de1 Z c)
  | 3%nat => mkC Z (s_1 Z c) (s0 Z c) (s1 Z c) (e0 Z c) v (iv_1 Z c) (iv0 Z c) (iv1 Z c) (se0 Z c) (se1 Z c) (de0 Z c) (de1 Z c)
  | 4%nat => mkC Z (s_1 Z c) (s0 Z c) (s1 Z c) (e0 Z c) (e1 Z c) (iv_1 Z c) (iv0 Z c) v (se0 Z c) (se1 Z c) (de0 Z c) (de1 Z c)
  | 5%nat => mkC Z (s_1 Z c) (s0 Z c) (s1 Z c) (e0 Z c) (e1 Z c) (iv_1 Z c) (iv0 Z c) (iv1 Z c) (se0 Z c) v (de0 Z c) (de1 Z c)
  | 6%nat => mkC Z (s_1 Z c) (s0 Z c) (s1 Z c) (e0 Z c) (e1 Z c) (iv_1 Z c) (iv0 Z c) (iv1 Z c) (se0 Z c) (se1 Z c) (de0 Z c) v
  | _ => c
  end.
Definition mut (f : nat) (v : Z) (s : sstate Z) : sstate Z :=
  mkS Z (u_1 Z s) (u0 Z s) (match f with 0%nat => v | _ => u1 Z s end) (match f with 1%nat => v | _ => u10 Z s end) (dt_1 Z s)
      (period Z s) (iterations Z s) (subSteps Z s) (map (setc f v) (points Z s)).
Definition dumpc (c : cstate Z) : list Z :=
  [s_1 Z c; s0 Z c; s1 Z c; e0 Z c; e1 Z c; iv_1 Z c; iv0 Z c; iv1 Z c; se0 Z c; se1 Z c; de0 Z c; de1 Z c].
Definition dump (s : sstate Z) : list Z :=
  [u_1 Z s; u0 Z s; u1 Z s; u10 Z s; dt_1 Z s; Z.of_nat (period Z s); Z.of_nat (iterations Z s); Z.of_nat (subSteps Z s)] ++ flat_map dumpc (points Z s).
"""


def main(c):
    exe = c.cxx("driver", ["driver.cxx"], REPO_SRC, flags=["-ffp-contract=off"], libs=LIBS, link_repo_libs=True)
    c.trusted("driver props/C50/driver.cxx (tagged states, scripted fault-injecting Study around the real GenericSolver::execute, branch `iterate2`)",
              "files not listed in the driver's repo_sources come from the libraries built in /repo/_build",
              "the list of fields read by an attempt (all but e0/e1/iterations/subSteps) was established by reading MTest::prepare, "
              "SingleStructureScheme and the behaviour wrappers, it is not extracted mechanically",
              "the real Newton iteration (`iterate`, u1 non empty) and real behaviours are not executed by this check")
    rng = c.rng
    # ---------------------------------------------------------------- (1) field level
    cases = []
    for k in range(c.pick(300, 3000)):
        np_ = rng.randint(1, 3)
        tags = list(range(1, 6 + 12 * np_))
        rng.shuffle(tags)
        ops = []
        for _ in range(rng.randint(1, 8)):
            u = rng.random()
            if u < 0.3:
                ops.append(("U", rng.randint(100, 200)))
            elif u < 0.6:
                ops.append(("R",))
            else:
                ops.append(("M", rng.randrange(7), rng.randint(1000, 9999)))
        cases.append((np_, tags, ops))
    lines, v = [], [HEADER]
    for np_, tags, ops in cases:
        lines.append("OPS %d %s %d %s" % (np_, " ".join(map(str, tags)), len(ops), " ".join(" ".join(map(str, o)) for o in ops)))
        pts = "; ".join("mkC Z " + " ".join(str(x) for x in tags[5 + 12 * p:17 + 12 * p]) for p in range(np_))
        term = "(mkS Z %d %d %d %d %d 1 0 0 [%s])" % (tags[0], tags[1], tags[2], tags[3], tags[4], pts)
        for o in ops:
            term = {"U": lambda: "(supdate Z %d %s)" % (o[1], term), "R": lambda: "(srevert Z %s)" % term,
                    "M": lambda: "(mut %d%%nat %d %s)" % (o[1], o[2], term)}[o[0]]()
        v.append("Eval vm_compute in dump %s." % term)
    # ---------------------------------------------------------------- (2) through GenericSolver::execute
    runs = []
    for k in range(c.pick(150, 1500)):
        msub = rng.choice([3, 5, 8])
        nsteps = rng.randint(1, 3)
        t = 0.0
        steps = []
        for _ in range(nsteps):
            d = rng.choice([0.5, 1.0, 2.0])
            steps.append((t, t + d))
            t += d
        script = [1 if rng.random() > rng.choice([0.15, 0.35]) else 0 for _ in range(rng.randint(1, 14))]
        runs.append((msub, steps, script))
    runs[0] = (5, [(0.0, 1.0)], [0, 0, 1, 1, 0, 1])
    for msub, steps, script in runs:
        lines.append("RUN %d %d %s %d %s" % (msub, len(steps), " ".join("%s %s" % (a.hex(), b.hex()) for a, b in steps), len(script), " ".join(map(str, script))))
    rc, out, err = c.run([exe], input="\n".join(lines) + "\n", timeout=600)
    res = [l for l in out.splitlines() if l[:2] in ("D ", "S ", "X ", "E ")]
    if rc != 0 or len(res) != len(lines):
        c.report("driver", "driver failed (rc=%d, %d answers for %d commands): %s" % (rc, len(res), len(lines), err[-400:]), {"stderr": err[-3000:]}, False)
        return
    rc, mout, merr = c.coq_eval(["C50Model.v"], "\n".join(v) + "\n", timeout=900)
    if rc != 0:
        c.report("model-eval", "model evaluation failed: " + merr[-500:], {"stderr": merr[-3000:]}, False)
        return
    model = [[int(x) for x in re.findall(r"-?\d+", m)] for m in re.findall(r"=\s*\[([^\]]*)\]", mout.replace("%Z", ""))]
    if len(model) != len(cases):
        c.report("model-eval", "model returned %d results for %d cases" % (len(model), len(cases)), {"stdout": mout[-2000:]}, False)
        return
    names = lambda np_: SFIELDS + ["point%d.%s" % (p, f) for p in range(np_) for f in CFIELDS]
    for (np_, tags, ops), line, mm in zip(cases, res[:len(cases)], model):
        c.count(1, ("ops", np_, tuple(tags), tuple(ops)), any(o[0] == "R" for o in ops))
        real = [float.fromhex(x) if "x" in x else float(x) for x in line.split()[1:]]
        diff = [n for n, a, b in zip(names(np_), real, mm) if a != b]
        # independent statement on the real dump: after `M.. R` (scribble + revert) from a state at rest nothing observable changed
        if (diff or len(real) != len(mm)) and len(c.violations) < 4:
            c.report("ops:%d:%s:%s" % (np_, ",".join(map(str, tags)), ";".join(" ".join(map(str, o)) for o in ops)),
                     "StudyCurrentState with %d point(s), fields tagged %r, after operations %r (U=update(dt), R=revert, M f v=write v into end-of-step field %r): "
                     "fields %r differ from the model (real %r, model %r)" % (np_, tags, ops, MUT, diff, real, mm),
                     {"npoints": np_, "tags": tags, "ops": ops, "real": real, "model": mm, "differing_fields": diff}, True)
    c.sample({"ops_case": {"points": cases[0][0], "tags": cases[0][1], "ops": cases[0][2]}, "real_dump": res[0]})
    # direct runs over the accepted steps
    faulty = res[len(cases):]
    lines2, idxs = [], []
    for i, ((msub, steps, script), line) in enumerate(zip(runs, faulty)):
        t = line.split()
        if t[1] != "done":
            c.count(1, ("run-raise", i), False)
            continue
        na = int(t[3])
        acc = [(float.fromhex(t[4 + 2 * j]), float.fromhex(t[5 + 2 * j])) for j in range(na)]
        lines2.append("RUN %d %d %s 0" % (msub, na, " ".join("%s %s" % (a.hex(), (a + d).hex()) for a, d in acc)))
        idxs.append((i, acc))
    rc, out2, err2 = c.run([exe], input="\n".join(lines2) + "\n", timeout=600)
    res2 = [l for l in out2.splitlines() if l[:2] in ("S ", "X ", "E ")]
    if rc != 0 or len(res2) != len(lines2):
        c.report("driver2", "driver failed on the direct runs: " + err2[-400:], {"stderr": err2[-3000:]}, False)
        return
    nrej = 0
    for (i, acc), line2 in zip(idxs, res2):
        msub, steps, script = runs[i]
        f = faulty[i].split()
        d = line2.split()
        df, dd = f[f.index("D") + 1:], d[d.index("D") + 1:]
        nm = names(2)
        rejected = int(df[7])
        nrej += rejected
        c.count(1, ("run", msub, tuple(steps), tuple(script)), rejected > 0)
        diff = [n for n, a, b in zip(nm, df, dd) if a != b and n not in ("iterations", "subSteps")]
        acc2 = [(float.fromhex(d[4 + 2 * j]), float.fromhex(d[5 + 2 * j])) for j in range(int(d[3]))]
        if (diff or acc2 != acc or d[1] != "done") and len(c.violations) < 4:
            c.report("run:%d:%s:%s" % (msub, ",".join("%s-%s" % s for s in steps), "".join(map(str, script))),
                     "GenericSolver::execute over %r with mSubSteps=%d and a behaviour failing at attempts %r accepted steps %r after %d rejections; "
                     "a direct run over these steps ends in a different state: fields %r (faulty %r, direct %r)" % (
                         steps, msub, [k for k, ok in enumerate(script) if not ok], acc, rejected, diff, dict(zip(nm, df)), dict(zip(nm, dd))),
                     {"steps": steps, "mSubSteps": msub, "script": script, "accepted": acc, "faulty": faulty[i], "direct": line2}, True)
        if i == 0:
            c.sample({"run": {"steps": steps, "script": script}, "faulty": faulty[i][:300], "direct": line2[:300]})
    c.coverage["rule"] = ("seeded (VERIF_SEED). Field level: %d tagged states (1-3 integration points, all 5+12n fields distinct) x 1-8 operations among update(dt) / "
                          "revert / write into one end-of-step field, every field compared with the model. Solver level: %d runs of 1-3 requested steps with "
                          "mSubSteps 3/5/8 and scripted failures (15%%/35%% of up to 14 attempts, nested bisection), %d rejected attempts in total, final state "
                          "compared bit-wise with the direct run. non-trivial = contains a revert / at least one rejected attempt" % (len(cases), len(runs), nrej))
    c.coverage["traces_validated_against_impl"] = len(cases) + len(idxs)
    r = c.coq(["C50Model.v", "C50Proofs.v", "Properties_C50.v"], timeout=600)
    if not r.ok:
        c.coq_failures(r)


guarded_main("C50", main)

From Coq Require Import List Lia.
From C50 Require Import C50Model.
Import ListNotations.

Section Proofs.
Variable V : Type.
Notation cstate := (cstate V).
Notation sstate := (sstate V).

(* an attempt (iterate / iterate2 and everything they call) only writes end-of-step and scratch fields ... *)
Definition keeps_begin (it : sstate -> sstate) : Prop := forall s, sbegin V (it s) = sbegin V s.
(* ... and its effect on the observable fields depends only on the observable fields *)
Definition reads_obs (it : sstate -> sstate) : Prop :=
  forall a b, sobs V a = sobs V b -> sobs V (it a) = sobs V (it b).
Definition wf_event (e : event V) : Prop :=
  match e with Accept _ it _ => keeps_begin it /\ reads_obs it | Reject _ it => keeps_begin it /\ reads_obs it end.

(* observable part of a point at rest, from its begin-of-step fields *)
Definition of_begin (b : V * V * V * V * V * V) :=
  match b with (a1, a2, a3, a4, a5, a6) => ((a1, a2, a3, a4, a5, a6), a2, a4, a5, a6) end.

Lemma cobs_crevert c : cobs V (crevert V c) = of_begin (cbegin V c).
Proof. destruct c; reflexivity. Qed.
Lemma cobs_rest c : crest V c -> cobs V c = of_begin (cbegin V c).
Proof. destruct c; unfold crest; simpl. intros (-> & -> & -> & ->). reflexivity. Qed.
Lemma crest_crevert c : crest V (crevert V c).
Proof. destruct c; unfold crest; simpl; auto. Qed.
Lemma crest_cupdate c : crest V (cupdate V c).
Proof. destruct c; unfold crest; simpl; auto. Qed.

Lemma map_cobs_rest pts : Forall (crest V) pts -> map (cobs V) pts = map of_begin (map (cbegin V) pts).
Proof. induction 1; simpl; auto. now rewrite cobs_rest, IHForall. Qed.
Lemma map_cobs_crevert pts : map (cobs V) (map (crevert V) pts) = map of_begin (map (cbegin V) pts).
Proof. induction pts; simpl; auto. now rewrite cobs_crevert, IHpts. Qed.

(* a rejected attempt leaves no trace on what the next attempt reads *)
Lemma reject_no_trace it s : srest V s -> keeps_begin it -> sobs V (reject V it s) = sobs V s.
Proof.
  intros (R1 & R2 & R3) K. specialize (K s). unfold reject, srevert, sobs, sbegin in *. simpl in *.
  inversion K as [[A B C D E]]. rewrite map_cobs_crevert, E, <- (map_cobs_rest _ R3), R1, R2, A, B, C, D. reflexivity.
Qed.

Lemma srest_reject it s : srest V (reject V it s).
Proof.
  unfold reject, srevert, srest; simpl. repeat split; auto.
  apply Forall_forall. intros c Hc. apply in_map_iff in Hc. destruct Hc as (c' & <- & _). apply crest_crevert.
Qed.
Lemma srest_accept it dt s : srest V (accept V it dt s).
Proof.
  unfold accept, supdate, srest; simpl. repeat split; auto.
  apply Forall_forall. intros c Hc. apply in_map_iff in Hc. destruct Hc as (c' & <- & _). apply crest_cupdate.
Qed.

(* the observable part after update is a function of the observable part before *)
Definition cupd_obs (o : (V * V * V * V * V * V) * V * V * V * V) :=
  match o with ((a1, a2, a3, a4, a5, a6), b1, b2, b3, b4) => ((a1, b1, a4, b2, b3, b4), b1, b2, b3, b4) end.
Lemma cobs_cupdate c : cobs V (cupdate V c) = cupd_obs (cobs V c).
Proof. destruct c; reflexivity. Qed.
Lemma map_cobs_cupdate pts : map (cobs V) (map (cupdate V) pts) = map cupd_obs (map (cobs V) pts).
Proof. induction pts; simpl; auto. now rewrite cobs_cupdate, IHpts. Qed.

Lemma accept_obs it dt a b : reads_obs it -> sobs V a = sobs V b -> sobs V (accept V it dt a) = sobs V (accept V it dt b).
Proof.
  intros Rd H. specialize (Rd a b H). unfold accept, supdate, sobs in *. simpl in *.
  inversion Rd as [[A B C D E F G]]. rewrite !map_cobs_cupdate, G. reflexivity.
Qed.

(* nested sub-stepping: the run with rejected attempts and the direct run over the accepted steps agree *)
Lemma run_no_trace evs : Forall wf_event evs -> forall a b, srest V a -> srest V b -> sobs V a = sobs V b ->
  sobs V (run V evs a) = sobs V (run V (accepted_only V evs) b).
Proof.
  induction 1 as [|e evs He Hr IH]; intros a b Ra Rb Hab; simpl; auto.
  destruct e as [it dt|it]; simpl in *; destruct He as (K & Rd).
  - apply IH; try apply srest_accept. now apply accept_obs.
  - apply IH; auto; [apply srest_reject|]. now rewrite reject_no_trace.
Qed.

Lemma faulty_equals_direct evs s : Forall wf_event evs -> srest V s ->
  sobs V (run V evs s) = sobs V (run V (accepted_only V evs) s).
Proof. intros H R. now apply run_no_trace. Qed.

(* counters: period counts accepted steps only, subSteps counts rejections *)
Lemma run_period evs : Forall wf_event evs -> forall s,
  period V (run V evs s) = (period V s + length (accepted_only V evs))%nat.
Proof.
  induction 1 as [|e evs He Hr IH]; intros s; simpl; [lia|].
  destruct e as [it dt|it]; simpl in *; destruct He as (K & _); rewrite IH.
  - specialize (K s). unfold accept, sbegin in *; simpl in *. inversion K. lia.
  - specialize (K s). unfold reject, sbegin in *; simpl in *. inversion K. lia.
Qed.

End Proofs.

(* C50 -- model (definitions only) of the state kept by MTest between time steps:
   StudyCurrentState (u_1,u0,u1,u10,dt_1,period,iterations,subSteps) holding one CurrentState per integration point
   (s_1,s0,s1,e0,e1,iv_1,iv0,iv1,se0,se1,de0,de1), with StudyCurrentState::update / revert
   (mtest/src/StudyCurrentState.cxx), update/revert(StructureCurrentState&) (StructureCurrentState.cxx: map over the points)
   and update/revert(CurrentState&) (CurrentState.cxx).  Field values are of an arbitrary type V. *)
From Coq Require Import List.
Import ListNotations.

Section Model.
Variable V : Type.

Record cstate := mkC { s_1 : V; s0 : V; s1 : V; e0 : V; e1 : V; iv_1 : V; iv0 : V; iv1 : V;
                       se0 : V; se1 : V; de0 : V; de1 : V }.

Record sstate := mkS { u_1 : V; u0 : V; u1 : V; u10 : V; dt_1 : V;
                       period : nat; iterations : nat; subSteps : nat; points : list cstate }.

(* update(CurrentState&) *)
Definition cupdate (c : cstate) : cstate :=
  mkC (s_1 c) (s1 c) (s1 c) (e0 c) (e1 c) (iv0 c) (iv1 c) (iv1 c) (se1 c) (se1 c) (de1 c) (de1 c).
(* revert(CurrentState&) *)
Definition crevert (c : cstate) : cstate :=
  mkC (s_1 c) (s0 c) (s0 c) (e0 c) (e0 c) (iv_1 c) (iv0 c) (iv0 c) (se0 c) (se0 c) (de0 c) (de0 c).

(* StudyCurrentState::update(dt) *)
Definition supdate (dt : V) (s : sstate) : sstate :=
  mkS (u0 s) (u1 s) (u1 s) (u1 s) dt (period s) (iterations s) (subSteps s) (map cupdate (points s)).
(* StudyCurrentState::revert() *)
Definition srevert (s : sstate) : sstate :=
  mkS (u_1 s) (u0 s) (u0 s) (u0 s) (dt_1 s) (period s) (iterations s) (subSteps s) (map crevert (points s)).

(* what GenericSolver::execute does around an attempt `it` (the effect of iterate on the state) *)
Definition accept (it : sstate -> sstate) (dt : V) (s : sstate) : sstate :=
  let s' := supdate dt (it s) in
  mkS (u_1 s') (u0 s') (u1 s') (u10 s') (dt_1 s') (S (period s')) (iterations s') (subSteps s') (points s').
Definition reject (it : sstate -> sstate) (s : sstate) : sstate :=
  let s' := it s in
  srevert (mkS (u_1 s') (u0 s') (u1 s') (u10 s') (dt_1 s') (period s') (iterations s') (S (subSteps s')) (points s')).

Inductive event := Accept (it : sstate -> sstate) (dt : V) | Reject (it : sstate -> sstate).

Fixpoint run (evs : list event) (s : sstate) : sstate :=
  match evs with
  | [] => s
  | Accept it dt :: r => run r (accept it dt s)
  | Reject it :: r => run r (reject it s)
  end.

Definition accepted_only (evs : list event) : list event :=
  filter (fun e => match e with Accept _ _ => true | Reject _ => false end) evs.

(* ---- observations *)
(* begin-of-step fields of a point / of the study: never written by an attempt *)
Definition cbegin (c : cstate) := (s_1 c, s0 c, iv_1 c, iv0 c, se0 c, de0 c).
Definition sbegin (s : sstate) := (u_1 s, u0 s, dt_1 s, period s, map cbegin (points s)).
(* every field an attempt may read: all but the scratch fields e0/e1 (rewritten by prepare / the residual computation from
   u0/u1 before any read) and the statistics counters iterations/subSteps *)
Definition cobs (c : cstate) := (cbegin c, s1 c, iv1 c, se1 c, de1 c).
Definition sobs (s : sstate) := (u_1 s, u0 s, u1 s, u10 s, dt_1 s, period s, map cobs (points s)).

(* state at rest (just after update, or initial): end-of-step fields equal begin-of-step fields *)
Definition crest (c : cstate) : Prop := s1 c = s0 c /\ iv1 c = iv0 c /\ se1 c = se0 c /\ de1 c = de0 c.
Definition srest (s : sstate) : Prop := u1 s = u0 s /\ u10 s = u0 s /\ Forall crest (points s).

End Model.

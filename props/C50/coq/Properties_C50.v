(* C50 -- property theorems (statements only; proofs in C50Proofs.v; model in C50Model.v), for every type V of field values. *)
From Coq Require Import List.
From C50 Require Import C50Model C50Proofs C50Accel.

(* a rejected attempt followed by revert leaves every field read by the next attempt as it was *)
Theorem C50_rejected_attempt_leaves_no_trace : forall (V : Type) it (s : sstate V),
  srest V s -> keeps_begin V it -> sobs V (reject V it s) = sobs V s.
Proof. exact reject_no_trace. Qed.
Print Assumptions C50_rejected_attempt_leaves_no_trace.

(* nested sub-stepping: a run with rejected attempts ends in the same observable state as the direct run over the accepted steps *)
Theorem C50_faulty_run_equals_direct_run : forall (V : Type) evs (s : sstate V),
  Forall (wf_event V) evs -> srest V s -> sobs V (run V evs s) = sobs V (run V (accepted_only V evs) s).
Proof. exact faulty_equals_direct. Qed.
Print Assumptions C50_faulty_run_equals_direct_run.

(* update and revert both produce states at rest *)
Theorem C50_update_revert_rest : forall (V : Type) it dt (s : sstate V),
  srest V (accept V it dt s) /\ srest V (reject V it s).
Proof. intros; split; [apply srest_accept | apply srest_reject]. Qed.
Print Assumptions C50_update_revert_rest.

(* the period counts accepted steps only *)
Theorem C50_period_counts_accepted_steps : forall (V : Type) evs (s : sstate V), Forall (wf_event V) evs ->
  period V (run V evs s) = (period V s + length (accepted_only V evs))%nat.
Proof. intros V evs s H; exact (run_period V evs H s). Qed.
Print Assumptions C50_period_counts_accepted_steps.

(* history of the acceleration algorithms of the shift-register family (Cast3M: depth 3, trigger >= 3; secant: 2, >= 3; Irons-Tuck: 2,
   >= 2; Steffensen: 3, >= 3): GenericSolver never clears it after a rejected attempt, but with depth <= trigger the unknowns produced
   by every pass of the next attempt do not depend on what the rejected attempt left behind *)
Theorem C50_stale_acceleration_history_is_never_read : forall (X U : Type) (d trig : nat) entry accel newton,
  d <= trig -> forall (h h' : list X) (u : U) n,
  snd (passes X U d trig entry accel newton n h u) = snd (passes X U d trig entry accel newton n h' u).
Proof. exact stale_history_is_never_read. Qed.
Print Assumptions C50_stale_acceleration_history_is_never_read.

(* and from pass `depth` on the register itself is the one of a run that never attempted the rejected step *)
Theorem C50_acceleration_register_rewritten : forall (X U : Type) (d trig : nat) entry accel newton,
  d <= trig -> forall (h h' : list X) (u : U) n, d <= n -> length h <= d -> length h' <= d ->
  fst (passes X U d trig entry accel newton n h u) = fst (passes X U d trig entry accel newton n h' u).
Proof. exact register_rewritten. Qed.
Print Assumptions C50_acceleration_register_rewritten.

(* the hypothesis depth <= trigger cannot be dropped *)
Theorem C50_history_may_be_read_when_register_deeper_than_trigger :
  exists (d trig : nat) (entry : nat -> nat -> nat) accel newton (h h' : list nat) (u : nat) (n : nat),
  trig < d /\ snd (passes nat nat d trig entry accel newton n h u) <> snd (passes nat nat d trig entry accel newton n h' u).
Proof. exact history_read_when_deeper_than_trigger. Qed.
Print Assumptions C50_history_may_be_read_when_register_deeper_than_trigger.

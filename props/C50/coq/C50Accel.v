(* C50 -- the history kept by MTest's acceleration algorithms (Cast3M, secant, Irons-Tuck, Steffensen ...: a shift register of the
   last d passes, read only from pass `trig` on) across a rejected attempt.  GenericSolver.cxx::iterate never clears it (a failed
   attempt returns without postExecuteTasks, preExecuteTasks of these algorithms does nothing): what holds is that a register
   of depth d <= trig has been entirely rewritten by the current attempt before it is first read. *)
From Coq Require Import List Arith Lia.
Import ListNotations.

Section Accel.
Variables X U : Type.          (* X: what is stored per pass (unknowns, residual); U: the unknowns *)
Variables d trig : nat.        (* depth of the register, first pass at which it is read (AccelerationTrigger) *)
Variable entry : nat -> U -> X.             (* what pass i stores for the unknowns u *)
Variable accel : nat -> list X -> U -> U.   (* the accelerated unknowns: a function of the register *)
Variable newton : nat -> U -> U.            (* the raw correction of pass i (computeStiffnessMatrixAndResidual, LUSolve, u1 -= du) *)

(* execute(): shift the register, store the current pass *)
Definition push (x : X) (h : list X) : list X := firstn d (x :: h).

Definition acc_pass (i : nat) (st : list X * U) : list X * U :=
  let u' := newton i (snd st) in
  let h' := push (entry i u') (fst st) in
  (h', if trig <=? i then accel i h' u' else u').

(* passes 1 .. n of one attempt, starting from the register h left by whatever happened before *)
Fixpoint passes (n : nat) (h : list X) (u : U) : list X * U :=
  match n with
  | O => (h, u)
  | S k => acc_pass (S k) (passes k h u)
  end.

Lemma firstn_firstn_le {A} (k m : nat) (l : list A) : k <= m -> firstn k (firstn m l) = firstn k l.
Proof. intros H. rewrite firstn_firstn. now rewrite Nat.min_l. Qed.

Lemma firstn_eq_le {A} (k m : nat) (l l' : list A) : k <= m -> firstn m l = firstn m l' -> firstn k l = firstn k l'.
Proof. intros H E. rewrite <- (firstn_firstn_le k m l H), <- (firstn_firstn_le k m l' H). now rewrite E. Qed.

Lemma push_length x h : length (push x h) <= d.
Proof. unfold push. apply firstn_le_length. Qed.

(* the unknowns produced by the passes of an attempt, and the part of the register they have written, do not depend on the
   register found at the beginning of the attempt *)
Lemma passes_forget (Hd : d <= trig) h h' u : forall n,
  snd (passes n h u) = snd (passes n h' u) /\
  firstn (Nat.min n d) (fst (passes n h u)) = firstn (Nat.min n d) (fst (passes n h' u)).
Proof.
  induction n as [|n (IHu & IHh)]; [split; reflexivity|].
  cbn [passes]. unfold acc_pass. cbn [fst snd]. rewrite IHu.
  set (u' := newton (S n) (snd (passes n h' u))).
  assert (P : firstn (Nat.min (S n) d) (push (entry (S n) u') (fst (passes n h u))) =
              firstn (Nat.min (S n) d) (push (entry (S n) u') (fst (passes n h' u)))).
  { unfold push. rewrite !firstn_firstn_le by lia.
    destruct (Nat.min (S n) d) as [|m] eqn:Em; [reflexivity|]. cbn [firstn]. f_equal.
    apply (firstn_eq_le m (Nat.min n d)); [lia|exact IHh]. }
  split; [|exact P].
  destruct (trig <=? S n) eqn:Et; [|reflexivity].
  apply Nat.leb_le in Et. f_equal.
  assert (Em : Nat.min (S n) d = d) by lia. rewrite Em in P.
  rewrite !firstn_all2 in P by apply push_length. exact P.
Qed.

(* every pass of the attempt gives the same unknowns whatever the previous (rejected) attempt left in the register *)
Theorem stale_history_is_never_read (Hd : d <= trig) h h' u n : snd (passes n h u) = snd (passes n h' u).
Proof. apply passes_forget; assumption. Qed.

(* from pass d on the register itself is the one of a run started with an empty history *)
Theorem register_rewritten (Hd : d <= trig) h h' u n : d <= n -> length h <= d -> length h' <= d ->
  fst (passes n h u) = fst (passes n h' u).
Proof.
  intros Hn Lh Lh'. destruct (passes_forget Hd h h' u n) as (_ & P). rewrite Nat.min_r in P by lia.
  destruct n as [|n]; [cbn [passes fst]; destruct h, h'; cbn [length] in *; try lia; reflexivity|].
  cbn [passes] in *. unfold acc_pass in *. cbn [fst] in *. rewrite !firstn_all2 in P by apply push_length. exact P.
Qed.

End Accel.

(* when the register is deeper than the trigger (Crossed2Deltabis: three iterates kept, read from pass 2 on) the guarantee is lost:
   an algorithm of that shape can return unknowns that depend on what was there before the attempt *)
Lemma history_read_when_deeper_than_trigger : exists (d trig : nat) (entry : nat -> nat -> nat) accel newton (h h' : list nat) (u : nat) (n : nat),
  trig < d /\ snd (passes nat nat d trig entry accel newton n h u) <> snd (passes nat nat d trig entry accel newton n h' u).
Proof.
  exists 2, 1, (fun _ u => u), (fun _ h _ => nth 1 h 0), (fun _ u => u), [5], [7], 0, 1. split; [lia|]. cbn. discriminate.
Qed.

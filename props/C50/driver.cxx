// C50 driver: the REAL StudyCurrentState / StructureCurrentState / CurrentState update & revert (compiled from /repo), alone (OPS)
// and inside the REAL GenericSolver::execute with a fault-injecting scripted "behaviour" (RUN).
//   OPS <npoints> <tags: 5 study fields + 12 per point> <nops> (U <dt> | R | M <field> <value>)*     -> D <dump>
//   RUN <mSubSteps> <nsteps> (ti te)* <nscript> (0|1)*    -> S <status> A <n> (t dt)* D <dump>
// dump = u_1 u0 u1 u10 dt_1 period iterations subSteps then per point s_1 s0 s1 e0 e1 iv_1 iv0 iv1 se0 se1 de0 de1
//   NRUN <mSubSteps> <iterMax> <linear prediction 0|1> <algorithm|none> <nsteps> (ti te)* <nfaults> (attempt pass)*
//        the Newton branch (u1 not empty, 2 unknowns, 2 integration points, constant stiffness so that several passes are needed, real
//        acceleration algorithm from the factory) with a fault-injecting "behaviour"    -> S <status> A <n> (t dt)* D <dumpn>
//        dumpn = u_1(2) u0(2) u1(2) u10(2) dt_1 period iterations subSteps then per point the 12 fields
//   ACC <algorithm> <n> <njunk> <nreal> then (njunk + nreal) x (u1(n) du(n) r(n)): the real acceleration algorithm fed with the passes of
//        a rejected attempt then with those of a new attempt (preExecuteTasks in between), against a fresh object fed with the new attempt only
//        -> H <nreal x n values: stale> | <nreal x n values: fresh>
#include <cstdio>
#include <cstdlib>
#include <string>
#include <vector>
#include <sstream>
#include <iostream>
#include "MTest/Study.hxx"
#include "MTest/StudyCurrentState.hxx"
#include "MTest/StructureCurrentState.hxx"
#include "MTest/CurrentState.hxx"
#include "MTest/SolverWorkSpace.hxx"
#include "MTest/SolverOptions.hxx"
#include "MTest/GenericSolver.hxx"
#include "MFront/MFrontLogStream.hxx"
#include "MTest/AccelerationAlgorithm.hxx"
#include "MTest/AccelerationAlgorithmFactory.hxx"
#include <cmath>
#include <set>

using mtest::real;

static double rd(std::istream& is) {
  std::string s;
  is >> s;
  return std::strtod(s.c_str(), nullptr);
}

static void setup(mtest::StudyCurrentState& scs, const std::size_t np, const std::vector<real>& tags, const bool with_u) {
  if (with_u) {
    scs.initialize(1);
    scs.u_1[0] = tags[0];
    scs.u0[0] = tags[1];
    scs.u1[0] = tags[2];
    scs.u10[0] = tags[3];
  }
  scs.dt_1 = tags[4];
  auto& st = scs.getStructureCurrentState("");
  st.istates.resize(np);
  for (std::size_t p = 0; p != np; ++p) {
    auto& c = st.istates[p];
    const real* t = &tags[5 + 12 * p];
    for (auto* v : {&c.s_1, &c.s0, &c.s1, &c.e0, &c.e1, &c.iv_1, &c.iv0, &c.iv1}) v->resize(1);
    c.s_1[0] = t[0]; c.s0[0] = t[1]; c.s1[0] = t[2]; c.e0[0] = t[3]; c.e1[0] = t[4];
    c.iv_1[0] = t[5]; c.iv0[0] = t[6]; c.iv1[0] = t[7];
    c.se0 = t[8]; c.se1 = t[9]; c.de0 = t[10]; c.de1 = t[11];
  }
}

static void dump(const mtest::StudyCurrentState& scs, const bool with_u) {
  if (with_u) {
    std::printf(" %a %a %a %a", scs.u_1[0], scs.u0[0], scs.u1[0], scs.u10[0]);
  } else {
    std::printf(" 0x0p+0 0x0p+0 0x0p+0 0x0p+0");
  }
  std::printf(" %a %u %u %u", scs.dt_1, scs.period, scs.iterations, scs.subSteps);
  const auto& st = scs.getStructureCurrentState("");
  for (const auto& c : st.istates) {
    std::printf(" %a %a %a %a %a %a %a %a %a %a %a %a", c.s_1[0], c.s0[0], c.s1[0], c.e0[0], c.e1[0], c.iv_1[0], c.iv0[0],
                c.iv1[0], c.se0, c.se1, c.de0, c.de1);
  }
  std::printf("\n");
}

struct FaultyStudy final : mtest::Study {
  std::vector<bool> script;
  mutable std::size_t k = 0;
  mutable std::vector<std::pair<real, real>> attempts;
  mutable std::vector<unsigned int> periods;
  size_type getNumberOfUnknowns() const override { return 0; }
  void initializeCurrentState(mtest::StudyCurrentState&) const override {}
  void initializeWorkSpace(mtest::SolverWorkSpace&) const override {}
  // like MTest::prepare: the begin-of-step driving variables are recomputed from begin-of-step data
  std::pair<bool, real> prepare(mtest::StudyCurrentState& scs, const real, const real) const override {
    for (auto& c : scs.getStructureCurrentState("").istates) c.e0[0] = 100 + scs.period;
    return {true, 1};
  }
  void makeLinearPrediction(mtest::StudyCurrentState&, const real) const override {}
  bool doPackagingStep(mtest::StudyCurrentState&) const override { return true; }
  std::pair<bool, real> computePredictionStiffnessAndResidual(mtest::StudyCurrentState&, tfel::math::matrix<real>&,
                                                               tfel::math::vector<real>&, const real&, const real&,
                                                               const mtest::StiffnessMatrixType) const override {
    return {true, 1};
  }
  // the "behaviour integration": reads every field an attempt may read, writes the end-of-step fields; on a scripted
  // failure it leaves garbage in every end-of-step field and reports failure
  std::pair<bool, real> computeStiffnessMatrixAndResidual(mtest::StudyCurrentState& scs, tfel::math::matrix<real>&,
                                                           tfel::math::vector<real>&, const real t, const real dt,
                                                           const mtest::StiffnessMatrixType) const override {
    const bool ok = this->k < this->script.size() ? this->script[this->k] : true;
    ++(this->k);
    this->attempts.push_back({t, dt});
    this->periods.push_back(scs.period);
    ++scs.iterations;
    real g = 1e9 + 17 * static_cast<real>(this->k);
    for (auto& c : scs.getStructureCurrentState("").istates) {
      if (!ok) {
        c.s1[0] = g; c.iv1[0] = -g / 3; c.e1[0] = g / 7; c.se1 = g * 2; c.de1 = -g * 5;
        g += 1;
      } else {
        const real de = dt * (1 + t) + c.e0[0] / 64;
        const real olds1 = c.s1[0], oldiv1 = c.iv1[0], oldse1 = c.se1, oldde1 = c.de1;
        c.e1[0] = c.e0[0] + de;
        c.s1[0] = c.s0[0] / 2 + 3 * de + c.iv0[0] / 4 + olds1 / 8 + c.s_1[0] / 16 + scs.dt_1 / 32;
        c.iv1[0] = c.iv0[0] + de * de + c.iv_1[0] / 8 + oldiv1 / 16;
        c.se1 = c.se0 + c.s1[0] * de + oldse1 / 1024;
        c.de1 = c.de0 + c.iv1[0] * dt + oldde1 / 1024;
      }
    }
    return {ok, ok ? 1. : 0.5};
  }
  real getErrorNorm(const tfel::math::vector<real>&) const override { return 0; }
  bool checkConvergence(mtest::StudyCurrentState&, const tfel::math::vector<real>&, const tfel::math::vector<real>&,
                        const mtest::SolverOptions&, const unsigned int, const real, const real) const override {
    return true;
  }
  std::vector<std::string> getFailedCriteriaDiagnostic(const mtest::StudyCurrentState&, const tfel::math::vector<real>&,
                                                       const tfel::math::vector<real>&, const mtest::SolverOptions&,
                                                       const real, const real) const override {
    return {};
  }
  void computeLoadingCorrection(mtest::StudyCurrentState&, mtest::SolverWorkSpace&, const mtest::SolverOptions&, const real,
                                const real) const override {}
  bool postConvergence(mtest::StudyCurrentState&, const real, const real, const unsigned int) const override { return true; }
  void setModellingHypothesis(const std::string&) override {}
  void printOutput(const real, const mtest::StudyCurrentState&, const bool) const override {}
  void setDefaultModellingHypothesis() override {}

 protected:
  void setGaussPointPositionForEvolutionsEvaluation(const mtest::CurrentState&) const override {}
};

// ---- Newton branch: 2 unknowns, 2 integration points with the scalar strain e_p = b_p . u, a non linear history dependent "behaviour"
// reading every field an attempt may read; constant stiffness (several passes per attempt); faults at chosen (attempt, pass)
struct NewtonFaultyStudy final : mtest::Study {
  static constexpr real b[2][2] = {{1, 0.5}, {-0.25, 1}};
  std::set<std::pair<unsigned int, unsigned int>> faults;
  mutable unsigned int attempt = 0, pass = 0;
  mutable std::vector<std::pair<real, real>> attempts;
  mutable std::vector<unsigned int> periods;
  size_type getNumberOfUnknowns() const override { return 2; }
  void initializeCurrentState(mtest::StudyCurrentState&) const override {}
  void initializeWorkSpace(mtest::SolverWorkSpace&) const override {}
  // like MTest::prepare: the driving variables at the beginning of the step are recomputed from u0
  std::pair<bool, real> prepare(mtest::StudyCurrentState& scs, const real t, const real dt) const override {
    auto& pts = scs.getStructureCurrentState("").istates;
    for (std::size_t p = 0; p != 2; ++p) pts[p].e0[0] = b[p][0] * scs.u0[0] + b[p][1] * scs.u0[1];
    ++(this->attempt);
    this->pass = 0;
    this->attempts.push_back({t, dt});
    this->periods.push_back(scs.period);
    return {true, 1};
  }
  // like MTest::makeLinearPrediction
  void makeLinearPrediction(mtest::StudyCurrentState& scs, const real dt) const override {
    if (scs.period > 1) {
      const auto r = dt / scs.dt_1;
      scs.u1 = scs.u0 + (scs.u0 - scs.u_1) * r;
      for (auto& c : scs.getStructureCurrentState("").istates) {
        c.iv1[0] = c.iv0[0] + (c.iv0[0] - c.iv_1[0]) * r;
        c.s1[0] = c.s0[0] + (c.s0[0] - c.s_1[0]) * r;
      }
    }
  }
  bool doPackagingStep(mtest::StudyCurrentState&) const override { return true; }
  std::pair<bool, real> computePredictionStiffnessAndResidual(mtest::StudyCurrentState&, tfel::math::matrix<real>&,
                                                               tfel::math::vector<real>&, const real&, const real&,
                                                               const mtest::StiffnessMatrixType) const override {
    return {true, 1};
  }
  std::pair<bool, real> computeStiffnessMatrixAndResidual(mtest::StudyCurrentState& scs, tfel::math::matrix<real>& K,
                                                           tfel::math::vector<real>& r, const real t, const real dt,
                                                           const mtest::StiffnessMatrixType) const override {
    ++(this->pass);
    auto& pts = scs.getStructureCurrentState("").istates;
    if (this->faults.count({this->attempt, this->pass}) != 0) {
      real g = 1e9 + 17 * static_cast<real>(this->attempt) + this->pass;
      for (auto& c : pts) {
        c.s1[0] = g; c.iv1[0] = -g / 3; c.e1[0] = g / 7; c.se1 = g * 2; c.de1 = -g * 5;
        g += 1;
      }
      return {false, 0.5};
    }
    const real tn = t + dt;
    r[0] = -tn / 2;
    r[1] = -tn * tn / 8;
    for (std::size_t i = 0; i != 2; ++i)
      for (std::size_t j = 0; j != 2; ++j) K(i, j) = 0;
    for (std::size_t p = 0; p != 2; ++p) {
      auto& c = pts[p];
      c.e1[0] = b[p][0] * scs.u1[0] + b[p][1] * scs.u1[1];
      const real de = c.e1[0] - c.e0[0];
      c.iv1[0] = c.iv0[0] + dt * std::tanh(c.s0[0] + 2 * de) / 8 + c.iv_1[0] / 64;
      c.s1[0] = c.s0[0] + 4 * de - 2 * (c.iv1[0] - c.iv0[0]) + de * de * de / 2 + c.s_1[0] / 128 + scs.dt_1 / 256;
      c.se1 = c.se0 + c.s1[0] * de;
      c.de1 = c.de0 + (c.iv1[0] - c.iv0[0]) * c.s1[0];
      for (std::size_t i = 0; i != 2; ++i) {
        r[i] += b[p][i] * c.s1[0];
        for (std::size_t j = 0; j != 2; ++j) K(i, j) += 4 * b[p][i] * b[p][j];
      }
    }
    return {true, 1};
  }
  real getErrorNorm(const tfel::math::vector<real>& du) const override { return std::max(std::abs(du[0]), std::abs(du[1])); }
  bool checkConvergence(mtest::StudyCurrentState&, const tfel::math::vector<real>& du, const tfel::math::vector<real>& r,
                        const mtest::SolverOptions& o, const unsigned int, const real, const real) const override {
    return (std::abs(du[0]) <= o.eeps) && (std::abs(du[1]) <= o.eeps) && (std::abs(r[0]) <= o.seps) && (std::abs(r[1]) <= o.seps);
  }
  std::vector<std::string> getFailedCriteriaDiagnostic(const mtest::StudyCurrentState&, const tfel::math::vector<real>&,
                                                       const tfel::math::vector<real>&, const mtest::SolverOptions&,
                                                       const real, const real) const override {
    return {};
  }
  void computeLoadingCorrection(mtest::StudyCurrentState&, mtest::SolverWorkSpace&, const mtest::SolverOptions&, const real,
                                const real) const override {}
  bool postConvergence(mtest::StudyCurrentState&, const real, const real, const unsigned int) const override { return true; }
  void setModellingHypothesis(const std::string&) override {}
  void printOutput(const real, const mtest::StudyCurrentState&, const bool) const override {}
  void setDefaultModellingHypothesis() override {}

 protected:
  void setGaussPointPositionForEvolutionsEvaluation(const mtest::CurrentState&) const override {}
};

static void dumpn(const mtest::StudyCurrentState& scs) {
  for (const auto* v : {&scs.u_1, &scs.u0, &scs.u1, &scs.u10}) std::printf(" %a %a", (*v)[0], (*v)[1]);
  std::printf(" %a %u %u %u", scs.dt_1, scs.period, scs.iterations, scs.subSteps);
  for (const auto& c : scs.getStructureCurrentState("").istates) {
    std::printf(" %a %a %a %a %a %a %a %a %a %a %a %a", c.s_1[0], c.s0[0], c.s1[0], c.e0[0], c.e1[0], c.iv_1[0], c.iv0[0],
                c.iv1[0], c.se0, c.se1, c.de0, c.de1);
  }
  std::printf("\n");
}

int main() {
  mfront::setVerboseMode(mfront::VERBOSE_QUIET);
  std::string line;
  while (std::getline(std::cin, line)) {
    std::istringstream is(line);
    std::string cmd;
    is >> cmd;
    if (cmd.empty()) continue;
    try {
      if (cmd == "OPS") {
        std::size_t np, nops;
        is >> np;
        std::vector<real> tags(5 + 12 * np);
        for (auto& x : tags) x = rd(is);
        mtest::StudyCurrentState scs;
        setup(scs, np, tags, true);
        is >> nops;
        for (std::size_t i = 0; i != nops; ++i) {
          std::string op;
          is >> op;
          if (op == "U") {
            scs.update(rd(is));
          } else if (op == "R") {
            scs.revert();
          } else if (op == "M") {  // a failed attempt scribbles on end-of-step fields
            int f;
            is >> f;
            const real v = rd(is);
            auto& pts = scs.getStructureCurrentState("").istates;
            if (f == 0) scs.u1[0] = v;
            if (f == 1) scs.u10[0] = v;
            for (auto& c : pts) {
              if (f == 2) c.s1[0] = v;
              if (f == 3) c.e1[0] = v;
              if (f == 4) c.iv1[0] = v;
              if (f == 5) c.se1 = v;
              if (f == 6) c.de1 = v;
            }
          }
        }
        std::printf("D");
        dump(scs, true);
      } else if (cmd == "RUN") {
        mtest::SolverOptions o;
        std::size_t ns, nscript;
        is >> o.mSubSteps >> ns;
        std::vector<std::pair<real, real>> steps(ns);
        for (auto& s : steps) {
          s.first = rd(is);
          s.second = rd(is);
        }
        is >> nscript;
        FaultyStudy s;
        for (std::size_t i = 0; i != nscript; ++i) {
          int ok;
          is >> ok;
          s.script.push_back(ok != 0);
        }
        mtest::StudyCurrentState scs;
        std::vector<real> tags(5 + 12 * 2);
        for (std::size_t i = 0; i != tags.size(); ++i) tags[i] = 0;
        tags[4] = 0.;
        // a state at rest with non trivial begin-of-step values
        for (std::size_t p = 0; p != 2; ++p) {
          real* t = &tags[5 + 12 * p];
          t[0] = 3 + p; t[1] = 5 + p; t[2] = 5 + p; t[5] = 0.25; t[6] = 0.5 + p; t[7] = 0.5 + p; t[8] = 2; t[9] = 2; t[10] = 1; t[11] = 1;
        }
        setup(scs, 2, tags, false);  // u1 empty: GenericSolver uses `iterate2`
        mtest::SolverWorkSpace wk;
        std::string status = "done";
        try {
          for (const auto& st : steps) mtest::GenericSolver().execute(scs, wk, s, o, st.first, st.second);
        } catch (std::exception& e) {
          status = "raise";
        }
        std::printf("S %s A", status.c_str());
        std::size_t na = 0;
        for (std::size_t i = 0; i != s.attempts.size(); ++i) {
          const auto nxt = i + 1 < s.attempts.size() ? s.periods[i + 1] : scs.period;
          if (nxt > s.periods[i]) ++na;
        }
        std::printf(" %zu", na);
        for (std::size_t i = 0; i != s.attempts.size(); ++i) {
          const auto nxt = i + 1 < s.attempts.size() ? s.periods[i + 1] : scs.period;
          if (nxt > s.periods[i]) std::printf(" %a %a", s.attempts[i].first, s.attempts[i].second);
        }
        std::printf(" D");
        dump(scs, false);
      } else if (cmd == "NRUN") {
        mtest::SolverOptions o;
        std::size_t ns, nf;
        int lp;
        std::string alg;
        is >> o.mSubSteps >> o.iterMax >> lp >> alg >> ns;
        o.ppolicy = lp ? mtest::PredictionPolicy::LINEARPREDICTION : mtest::PredictionPolicy::NOPREDICTION;
        o.ktype = mtest::StiffnessMatrixType::ELASTIC;
        o.eeps = 1e-9;
        o.seps = 1e-8;
        if (alg != "none") {
          o.aa = mtest::AccelerationAlgorithmFactory::getAccelerationAlgorithmFactory().getAlgorithm(alg);
          o.aa->initialize(2);
        }
        std::vector<std::pair<real, real>> steps(ns);
        for (auto& st : steps) {
          st.first = rd(is);
          st.second = rd(is);
        }
        NewtonFaultyStudy s;
        is >> nf;
        for (std::size_t i = 0; i != nf; ++i) {
          unsigned int a, k;
          is >> a >> k;
          s.faults.insert({a, k});
        }
        mtest::StudyCurrentState scs;
        std::vector<real> tags(5 + 12 * 2, 0.);
        for (std::size_t p = 0; p != 2; ++p) {
          real* t = &tags[5 + 12 * p];
          t[0] = 0.125 + p / 8.; t[1] = 0.25 + p / 4.; t[2] = t[1]; t[5] = 0.0625; t[6] = 0.125 + p / 16.; t[7] = t[6]; t[8] = 2; t[9] = 2; t[10] = 1; t[11] = 1;
        }
        scs.initialize(2);
        setup(scs, 2, tags, false);
        scs.u_1[0] = 0.03125; scs.u_1[1] = -0.0625;
        scs.u0[0] = 0.0625; scs.u0[1] = -0.03125;
        scs.u1 = scs.u0;
        scs.u10 = scs.u0;
        scs.dt_1 = 0.5;
        mtest::SolverWorkSpace wk;
        wk.K.resize(2, 2);
        wk.p_lu.resize(2);
        wk.x.resize(2);
        wk.r.resize(2, 0.);
        wk.du.resize(2, 0.);
        std::string status = "done";
        try {
          for (const auto& st : steps) mtest::GenericSolver().execute(scs, wk, s, o, st.first, st.second);
        } catch (std::exception& e) {
          status = "raise";
        }
        std::printf("S %s A", status.c_str());
        std::size_t na = 0;
        for (std::size_t i = 0; i != s.attempts.size(); ++i) {
          const auto nxt = i + 1 < s.attempts.size() ? s.periods[i + 1] : scs.period;
          if (nxt > s.periods[i]) ++na;
        }
        std::printf(" %zu", na);
        for (std::size_t i = 0; i != s.attempts.size(); ++i) {
          const auto nxt = i + 1 < s.attempts.size() ? s.periods[i + 1] : scs.period;
          if (nxt > s.periods[i]) std::printf(" %a %a", s.attempts[i].first, s.attempts[i].second);
        }
        std::printf(" D");
        dumpn(scs);
      } else if (cmd == "ACC") {
        std::string alg;
        std::size_t n, nj, nr;
        is >> alg >> n >> nj >> nr;
        std::vector<std::vector<real>> data(nj + nr, std::vector<real>(3 * n));
        for (auto& row : data)
          for (auto& x : row) x = rd(is);
        auto run = [&](const bool stale) {
          auto aa = mtest::AccelerationAlgorithmFactory::getAccelerationAlgorithmFactory().getAlgorithm(alg);
          aa->initialize(static_cast<unsigned short>(n));
          tfel::math::vector<real> u1(n), du(n), r(n);
          auto feed = [&](const std::size_t b, const std::size_t e, const bool print) {
            aa->preExecuteTasks();
            tfel::math::vector<real> prev(n, 0.);
            for (std::size_t k = b; k != e; ++k) {
              for (std::size_t i = 0; i != n; ++i) {
                // the unknowns given to the algorithm: its previous output corrected by the scripted increment
                u1[i] = (k == b ? 0. : prev[i]) + data[k][i];
                du[i] = data[k][n + i];
                r[i] = data[k][2 * n + i];
              }
              aa->execute(u1, du, r, 1e-9, 1e-8, static_cast<unsigned short>(k - b + 1));
              prev = u1;
              if (print)
                for (std::size_t i = 0; i != n; ++i) std::printf(" %a", u1[i]);
            }
          };
          if (stale) feed(0, nj, false);  // the passes of a rejected attempt: `iterate` returns without postExecuteTasks
          feed(nj, nj + nr, true);
        };
        std::printf("H");
        run(true);
        std::printf(" |");
        run(false);
        std::printf("\n");
      } else {
        std::printf("E unknown\n");
      }
    } catch (std::exception& e) {
      std::string m = e.what();
      for (auto& ch : m)
        if (ch == '\n') ch = ' ';
      std::printf("X %s\n", m.c_str());
    }
    std::fflush(stdout);
  }
  return 0;
}

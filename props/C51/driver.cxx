// C51 driver: runs the REAL tfel-check comparisons and the REAL MTest tests on inputs given bit-exactly on stdin.
// Floats are exchanged as C99 hex-float / "nan" / "inf" strings (strtod), printed with %a.
// Protocol (one command per line):
//   CMP <absolute|relative|relabs|mixed> <prec> <prec2> <n> a1 b1 ... an bn        -> R <success> <failed rows | -1>
//   AREA <none|linear|spline> <prec> <nA> tA.. vA.. <nB> tB.. vB..       -> R <success> <"Area error" of the log (14 digits)> | X <exception>
//   ANA <eps> <n> v1 fv1 ... vn fvn                                                   -> R <success> | T <index of the throwing check>
//   REF <eps> <nvalues> ref.. <n> p1 v1 ... pn vn  (reference column read from a file through TextData)
//   REFF <eps> <formula> <nvalues> ref.. <n> p1 v1 ...   (reference = formula of column $1)
//   FILECMP <kind> <prec> <prec2> <fileA> <fileB> <col>  (values read from text files by the real Column/TextData)
#include <cstdio>
#include <cstdlib>
#include <cstring>
#include <cmath>
#include <string>
#include <vector>
#include <sstream>
#include <iostream>
#include <fstream>
#include <memory>
#include <unistd.h>
#include "TFEL/Check/Column.hxx"
#include "TFEL/Check/Comparison.hxx"
#include "TFEL/Check/AbsoluteComparison.hxx"
#include "TFEL/Check/RelativeComparison.hxx"
#include "TFEL/Check/RelativeAndAbsoluteComparison.hxx"
#include "TFEL/Check/MixedComparison.hxx"
#include "TFEL/Check/AreaComparison.hxx"
#include "TFEL/Check/NoInterpolation.hxx"
#include "TFEL/Check/LinearInterpolation.hxx"
#include "TFEL/Check/SplineInterpolation.hxx"
#include "TFEL/Utilities/TextData.hxx"
#include "MTest/Evolution.hxx"
#include "MTest/CurrentState.hxx"
#include "MTest/AnalyticalTest.hxx"
#include "MTest/ReferenceFileComparisonTest.hxx"

using namespace tfel::check;

static double rd(std::istream& is) {
  std::string s;
  is >> s;
  return std::strtod(s.c_str(), nullptr);
}

static std::string tmpdir;

static std::string write_file(const std::string& n, const std::vector<std::vector<double>>& cols) {
  const auto p = tmpdir + "/" + n;
  std::ofstream f(p);
  char buf[64];
  const auto nr = cols.empty() ? 0u : cols[0].size();
  for (std::size_t i = 0; i != nr; ++i) {
    for (std::size_t j = 0; j != cols.size(); ++j) {
      std::snprintf(buf, sizeof(buf), "%.17g", cols[j][i]);
      f << (j ? " " : "") << buf;
    }
    f << '\n';
  }
  return p;
}

static std::shared_ptr<Column> make_column(const std::string& file, const int c, const std::vector<double>& v) {
  auto col = std::make_shared<Column>(c);
  col->setFilename(file);
  col->resizeValues(v.size());
  for (std::size_t i = 0; i != v.size(); ++i) {
    col->setValue(i, v[i]);
  }
  return col;
}

static int failed_rows(const std::string& log) {
  for (const std::string k : {"Failed comparisons (for column) : ", "Failed comparisons count (for column) : "}) {
    const auto p = log.find(k);
    if (p != std::string::npos) return std::atoi(log.c_str() + p + k.size());
  }
  return -1;
}

static std::unique_ptr<Comparison> make_cmp(const std::string& k) {
  if (k == "absolute") return std::make_unique<AbsoluteComparison>();
  if (k == "relative") return std::make_unique<RelativeComparison>();
  if (k == "relabs") return std::make_unique<RelativeAndAbsoluteComparison>();
  if (k == "mixed") return std::make_unique<MixedComparison>();
  if (k == "area") return std::make_unique<AreaComparison>();
  std::fprintf(stderr, "unknown comparison %s\n", k.c_str());
  std::exit(2);
}

struct SeqEvolution final : mtest::Evolution {
  mutable std::vector<double> v;
  mutable std::size_t i = 0;
  double operator()(const double) const override { return v.at(i); }
  bool isConstant() const override { return false; }
  void setValue(const double) override {}
  void setValue(const double, const double) override {}
};

int main(int argc, char** argv) {
  tmpdir = argc > 1 ? argv[1] : ".";
  const auto dummy = write_file("dummy.txt", {{0.}, {0.}});
  std::string line;
  while (std::getline(std::cin, line)) {
    std::istringstream is(line);
    std::string cmd;
    is >> cmd;
    if (cmd.empty()) continue;
    try {
      if (cmd == "CMP") {
        std::string k;
        is >> k;
        const double prec = rd(is), prec2 = rd(is);
        std::size_t n;
        is >> n;
        std::vector<double> a(n), b(n);
        for (std::size_t i = 0; i != n; ++i) {
          a[i] = rd(is);
          b[i] = rd(is);
        }
        auto c1 = make_column(dummy, 1, a);
        auto c2 = make_column(dummy, 2, b);
        auto ci = std::make_shared<Column>(1);
        auto cmp = make_cmp(k);
        cmp->setParameters(c1, c2, prec, prec2, ci, "none", false, ci, std::make_shared<NoInterpolation>());
        cmp->compare();
        std::printf("R %d %d\n", cmp->hasSucceed() ? 1 : 0, failed_rows(cmp->getMsgLog()));
      } else if (cmd == "FILECMP") {
        std::string k, fa, fb;
        is >> k;
        const double prec = rd(is), prec2 = rd(is);
        int col;
        is >> fa >> fb >> col;
        auto c1 = std::make_shared<Column>(col);
        c1->setFilename(fa);
        auto c2 = std::make_shared<Column>(col);
        c2->setFilename(fb);
        auto ci = std::make_shared<Column>(1);
        auto cmp = make_cmp(k);
        cmp->setParameters(c1, c2, prec, prec2, ci, "none", false, ci, std::make_shared<NoInterpolation>());
        cmp->compare();
        std::printf("R %d %d %zu\n", cmp->hasSucceed() ? 1 : 0, failed_rows(cmp->getMsgLog()), c1->getValues().size());
      } else if (cmd == "AREA") {
        std::string it;
        is >> it;
        const double prec = rd(is);
        std::size_t nA, nB;
        is >> nA;
        std::vector<double> tA(nA), vA(nA);
        for (auto& x : tA) x = rd(is);
        for (auto& x : vA) x = rd(is);
        is >> nB;
        std::vector<double> tB(nB), vB(nB);
        for (auto& x : tB) x = rd(is);
        for (auto& x : vB) x = rd(is);
        const auto fa = write_file("areaA.txt", {tA, std::vector<double>(nA, 0.)});
        const auto fb = write_file("areaB.txt", {tB, std::vector<double>(nB, 0.)});
        auto c1 = make_column(fa, 2, vA);
        auto c2 = make_column(fb, 2, vB);
        auto ci = std::make_shared<Column>(1);
        std::shared_ptr<Interpolation> ip;
        if (it == "linear") {
          ip = std::make_shared<LinearInterpolation>();
        } else if (it == "spline") {
          ip = std::make_shared<SplineInterpolation>();
        } else {
          ip = std::make_shared<NoInterpolation>();
        }
        auto cmp = make_cmp("area");
        cmp->setParameters(c1, c2, prec, 0., ci, it, false, ci, ip);
        cmp->compare();
        const auto log = cmp->getMsgLog();
        const std::string k = "Area error : ";
        const auto pos = log.find(k);
        std::string av = "?";
        if (pos != std::string::npos) {
          std::istringstream ls(log.substr(pos + k.size()));
          ls >> av;
        }
        std::printf("R %d %s\n", cmp->hasSucceed() ? 1 : 0, av.c_str());
      } else if (cmd == "ANA") {
        const double eps = rd(is);
        std::size_t n;
        is >> n;
        std::vector<double> v(n), fv(n);
        for (std::size_t i = 0; i != n; ++i) {
          v[i] = rd(is);
          fv[i] = rd(is);
        }
        auto ev = std::make_shared<SeqEvolution>();
        ev->v = fv;
        mtest::EvolutionManager evm;
        evm["x"] = ev;
        std::size_t idx = 0;
        mtest::AnalyticalTest t("x", "var", [&](const mtest::CurrentState&) { return v.at(idx); }, evm, eps);
        mtest::CurrentState s;
        bool thrown = false;
        for (idx = 0; idx != n; ++idx) {
          ev->i = idx;
          try {
            t.check(s, double(idx), 1., static_cast<unsigned int>(idx));
          } catch (std::exception&) {
            std::printf("T %zu\n", idx);
            thrown = true;
            break;
          }
        }
        if (!thrown) std::printf("R %d\n", t.getResults().success() ? 1 : 0);
      } else if (cmd == "REF" || cmd == "REFF") {
        const double eps = rd(is);
        std::string formula;
        if (cmd == "REFF") is >> formula;
        std::size_t nv, n;
        is >> nv;
        std::vector<double> ref(nv);
        for (auto& x : ref) x = rd(is);
        is >> n;
        std::vector<unsigned int> p(n);
        std::vector<double> v(n);
        for (std::size_t i = 0; i != n; ++i) {
          is >> p[i];
          v[i] = rd(is);
        }
        const auto f = write_file("ref.txt", {ref});
        tfel::utilities::TextData d(f);
        std::size_t idx = 0;
        auto g = [&](const mtest::CurrentState&) { return v.at(idx); };
        std::unique_ptr<mtest::ReferenceFileComparisonTest> t;
        if (cmd == "REF") {
          t = std::make_unique<mtest::ReferenceFileComparisonTest>(d, 1u, "var", g, eps);
        } else {
          mtest::EvolutionManager evm;
          t = std::make_unique<mtest::ReferenceFileComparisonTest>(d, evm, formula, "var", g, eps);
        }
        mtest::CurrentState s;
        bool thrown = false;
        for (idx = 0; idx != n; ++idx) {
          try {
            t->check(s, double(idx), 1., p[idx]);
          } catch (std::exception&) {
            std::printf("T %zu\n", idx);
            thrown = true;
            break;
          }
        }
        if (!thrown) std::printf("R %d\n", t->getResults().success() ? 1 : 0);
      } else {
        std::printf("E unknown command\n");
      }
    } catch (std::exception& e) {
      std::string m = e.what();
      for (auto& ch : m)
        if (ch == '\n') ch = ' ';
      std::printf("X %s\n", m.c_str());
    }
    std::fflush(stdout);
  }
  return 0;
}

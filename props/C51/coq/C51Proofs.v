From Flocq Require Import Core BinarySingleNaN PrimFloat.
From Coq Require Import List Bool ZArith Reals Lia Lra Floats.
From C51 Require Import C51Model C51Spec.
Notation float := PrimFloat.float.
Notation Bfin := BinarySingleNaN.is_finite.
Notation HP := Flocq.IEEE754.PrimFloat.Hprec.
Notation HM := Flocq.IEEE754.PrimFloat.Hmax.
#[local] Existing Instance Flocq.IEEE754.PrimFloat.Hprec.
#[local] Existing Instance Flocq.IEEE754.PrimFloat.Hmax.
Import ListNotations.
Local Open Scope float_scope.

(* ------------------------------------------------------------------ classification lemmas *)
Lemma fin_equiv x : finite x = Bfin (Prim2B x).
Proof. apply is_finite_equiv. Qed.

Lemma sub_finite_inv a b : finite (a - b) = true ->
  finite a = true /\ finite b = true.
Proof.
  rewrite !fin_equiv, sub_equiv.
  destruct (Prim2B a) as [sa|sa| |sa ma ea Ha], (Prim2B b) as [sb|sb| |sb mb eb Hb]; simpl; auto;
    try discriminate; destruct sa, sb; simpl; auto; discriminate.
Qed.

Lemma abs_finite x : finite (abs x) = finite x.
Proof. rewrite !fin_equiv, abs_equiv. now destruct (Prim2B x). Qed.

(* +inf or NaN *)
Definition pinf_or_nan (x : float) : bool :=
  match Prim2B x with B754_nan => true | B754_infinity false => true | _ => false end.

Lemma abs_nonfinite x : finite x = false -> pinf_or_nan (abs x) = true.
Proof. unfold pinf_or_nan. rewrite fin_equiv, abs_equiv. now destruct (Prim2B x). Qed.

Lemma pinf_or_nan_sub x m : pinf_or_nan x = true -> pinf_or_nan (x - m) = true.
Proof.
  unfold pinf_or_nan. rewrite sub_equiv.
  destruct (Prim2B x) as [sa|sa| |sa ma ea Ha]; try discriminate;
  destruct (Prim2B m) as [sb|sb| |sb mb eb Hb]; simpl; auto; destruct sa; try discriminate; destruct sb; simpl; auto.
Qed.

Lemma pinf_or_nan_not_le x p : pinf_or_nan x = true -> finite p = true -> (x <=? p) = false.
Proof.
  unfold pinf_or_nan. rewrite fin_equiv, leb_equiv. unfold Bleb.
  destruct (Prim2B x) as [sa|sa| |sa ma ea Ha]; try discriminate;
  destruct (Prim2B p) as [sb|sb| |sb mb eb Hb]; simpl; auto; try discriminate; destruct sa; try discriminate; destruct sb; auto.
Qed.

Lemma pinf_or_nan_div x d : pinf_or_nan x = true -> finite (x / d) = false.
Proof.
  unfold pinf_or_nan. rewrite fin_equiv, div_equiv.
  destruct (Prim2B x) as [sa|sa| |sa ma ea Ha]; try discriminate;
  destruct (Prim2B d) as [sb|sb| |sb mb eb Hb]; simpl; auto.
Qed.

Lemma le_finite_r x p : (x <=? p) = true -> finite p = true -> pinf_or_nan x = false.
Proof.
  intros H Hp. destruct (pinf_or_nan x) eqn:E; auto. rewrite (pinf_or_nan_not_le _ _ E Hp) in H. discriminate.
Qed.

Lemma finite_or_pn x : pinf_or_nan (abs x) = false -> finite x = true.
Proof. intros H. destruct (finite x) eqn:E; auto. now rewrite (abs_nonfinite _ E) in H. Qed.

(* ------------------------------------------------------------------ positivity of the relative denominator *)
Definition posnz (x : float) : bool :=
  match Prim2B x with B754_finite false _ _ _ => true | B754_infinity false => true | _ => false end.
(* +0 or positive finite *)
Definition nonneg_fin (x : float) : bool :=
  match Prim2B x with B754_finite false _ _ _ => true | B754_zero false => true | _ => false end.

Lemma eps100_B : exists m e H, Prim2B eps100 = B754_finite false m e H.
Proof.
  destruct (Prim2B eps100) as [s|s| |s m e H] eqn:E.
  - exfalso. assert (X : Prim2SF eps100 = B2SF (Prim2B eps100)) by (now rewrite B2SF_Prim2B). rewrite E in X. vm_compute in X. destruct s; discriminate.
  - exfalso. assert (X : Prim2SF eps100 = B2SF (Prim2B eps100)) by (now rewrite B2SF_Prim2B). rewrite E in X. vm_compute in X. destruct s; discriminate.
  - exfalso. assert (X : Prim2SF eps100 = B2SF (Prim2B eps100)) by (now rewrite B2SF_Prim2B). rewrite E in X. vm_compute in X. discriminate.
  - assert (X : Prim2SF eps100 = B2SF (Prim2B eps100)) by (now rewrite B2SF_Prim2B). rewrite E in X. vm_compute in X.
    destruct s; [discriminate|]. eauto.
Qed.

Lemma B2R_pos_finite_false m e H : (0 < B2R (B754_finite false m e H : binary_float FloatOps.prec FloatOps.emax))%R.
Proof. simpl. apply F2R_gt_0. simpl. lia. Qed.

Lemma nonneg_fin_B2R x : nonneg_fin x = true -> Bfin (Prim2B x) = true /\ (0 <= B2R (Prim2B x))%R /\ Bsign (Prim2B x) = false.
Proof.
  unfold nonneg_fin. destruct (Prim2B x) as [s|s| |s m e H]; try discriminate; destruct s; try discriminate; intros _.
  - simpl. repeat split; auto. lra.
  - repeat split; auto. left. apply B2R_pos_finite_false.
Qed.

Lemma plus_eps_posnz x : nonneg_fin x = true -> posnz (x + eps100) = true.
Proof.
  intros Hx. destruct (nonneg_fin_B2R _ Hx) as (Fx & Px & Sx).
  destruct eps100_B as (m & e & H & E).
  unfold posnz. rewrite add_equiv, E.
  pose proof (Bplus_correct _ _ HP HM mode_NE (Prim2B x) (B754_finite false m e H) Fx eq_refl) as C.
  pose proof (B2R_pos_finite_false m e H) as PE.
  set (y := B754_finite false m e H) in *.
  destruct (Rlt_bool _ _) in C.
  - destruct C as (C1 & C2 & C3).
    rewrite Rcompare_Gt in C3 by lra.
    assert (Pz : (0 < B2R (Bplus mode_NE (Prim2B x) y))%R).
    { rewrite C1. apply Rlt_le_trans with (B2R y); auto.
      apply round_ge_generic; [apply fexp_correct; exact HP | apply valid_rnd_N | apply generic_format_B2R | lra]. }
    destruct (Bplus mode_NE (Prim2B x) y) as [s|s| |s m' e' H']; simpl in *; try discriminate; try lra.
    now subst s.
  - destruct C as (C1 & C2). rewrite Sx in C1. simpl in C1.
    destruct (Bplus mode_NE (Prim2B x) y) as [s|s| |s m' e' H']; simpl in C1; try discriminate.
    now inversion C1.
Qed.

Lemma abs_nonneg_fin x : finite x = true -> nonneg_fin (abs x) = true.
Proof. unfold nonneg_fin. rewrite fin_equiv, abs_equiv. now destruct (Prim2B x). Qed.

Lemma fmin_cases x y : fmin x y = x \/ fmin x y = y.
Proof. unfold fmin. destruct (y <? x); auto. Qed.

(* +inf / positive = +inf or NaN *)
Lemma pinf_div_posnz n d : pinf_or_nan n = true -> posnz d = true -> pinf_or_nan (n / d) = true.
Proof.
  unfold pinf_or_nan, posnz. rewrite div_equiv.
  destruct (Prim2B n) as [sa|sa| |sa ma ea Ha]; try discriminate;
  destruct (Prim2B d) as [sb|sb| |sb mb eb Hb]; simpl; auto; try discriminate; destruct sa, sb; simpl; auto; discriminate.
Qed.

Lemma pinf_div_nonfin n d : pinf_or_nan n = true -> finite d = false -> pinf_or_nan (n / d) = true.
Proof.
  unfold pinf_or_nan. rewrite fin_equiv, div_equiv.
  destruct (Prim2B n) as [sa|sa| |sa ma ea Ha]; try discriminate;
  destruct (Prim2B d) as [sb|sb| |sb mb eb Hb]; simpl; auto; try discriminate.
Qed.

Lemma add_nonfinite_l x y : finite x = false -> Bfin (Prim2B y) = true -> finite (x + y) = false.
Proof.
  rewrite !fin_equiv, add_equiv.
  destruct (Prim2B x) as [sa|sa| |sa ma ea Ha]; try discriminate;
  destruct (Prim2B y) as [sb|sb| |sb mb eb Hb]; simpl; auto; try discriminate.
Qed.

(* the relative error of a pair with a non finite member is +inf or NaN *)
Lemma rel_err_nonfinite a b : finite (a - b) = false -> pinf_or_nan (rel_err a b) = true.
Proof.
  intros Hn. unfold rel_err.
  pose proof (abs_nonfinite _ Hn) as Hnum.
  destruct (finite a) eqn:Fa; destruct (finite b) eqn:Fb.
  - apply pinf_div_posnz; auto. apply plus_eps_posnz.
    destruct (fmin_cases (abs a) (abs b)) as [->| ->]; now apply abs_nonneg_fin.
  - (* b not finite: the minimum is |a| (finite, non negative) or |b| = +inf/NaN *)
    destruct (fmin_cases (abs a) (abs b)) as [->| ->].
    + apply pinf_div_posnz; auto. apply plus_eps_posnz. now apply abs_nonneg_fin.
    + apply pinf_div_nonfin; auto. apply add_nonfinite_l.
      * now rewrite abs_finite.
      * destruct eps100_B as (m & e & H & ->). reflexivity.
  - destruct (fmin_cases (abs a) (abs b)) as [->| ->].
    + apply pinf_div_nonfin; auto. apply add_nonfinite_l.
      * now rewrite abs_finite.
      * destruct eps100_B as (m & e & H & ->). reflexivity.
    + apply pinf_div_posnz; auto. apply plus_eps_posnz. now apply abs_nonneg_fin.
  - destruct (fmin_cases (abs a) (abs b)) as [->| ->];
      (apply pinf_div_nonfin; auto; apply add_nonfinite_l;
       [ now rewrite abs_finite | destruct eps100_B as (m & e & H & ->); reflexivity ]).
Qed.

Lemma rel_le_finite a b p : (rel_err a b <=? p) = true -> finite p = true -> finite a = true /\ finite b = true.
Proof.
  intros H Hp. apply sub_finite_inv. destruct (finite (a - b)) eqn:E; auto.
  rewrite (pinf_or_nan_not_le _ _ (rel_err_nonfinite _ _ E) Hp) in H. discriminate.
Qed.

Lemma abs_le_finite a b p : (abs (a - b) <=? p) = true -> finite p = true -> finite a = true /\ finite b = true.
Proof. intros H Hp. apply sub_finite_inv. apply finite_or_pn. eapply le_finite_r; eauto. Qed.

Lemma mixed_le_finite mk prec prec2 a b : (mixed_err mk prec prec2 a b <=? 0) = true -> finite a = true /\ finite b = true.
Proof.
  intros H. apply sub_finite_inv. destruct (finite (a - b)) eqn:E; auto.
  unfold mixed_err in H.
  rewrite (pinf_or_nan_not_le _ 0) in H; [discriminate| |reflexivity].
  apply pinf_or_nan_sub, pinf_or_nan_sub. now apply abs_nonfinite.
Qed.

(* ------------------------------------------------------------------ soundness of the NaN-safe comparisons *)
Lemma exceeds_notle_false e p : exceeds TolNotLe e p = false -> (e <=? p) = true.
Proof. simpl. now destruct (e <=? p). Qed.

Lemma verdict_in fails rows : verdict fails rows = true -> forall r, In r rows -> fails r = false.
Proof. unfold verdict. rewrite forallb_forall. intros H r Hr. specialize (H r Hr). now destruct (fails r). Qed.

Lemma absolute_sound prec rows : Finite prec -> absolute TolNotLe prec rows = true -> rows_sound (absolute_within prec) rows.
Proof.
  intros Hp H a b Hin. pose proof (verdict_in _ _ H _ Hin) as F. unfold absolute_row_fails in F. simpl fst in F; simpl snd in F.
  apply exceeds_notle_false in F. destruct (abs_le_finite _ _ _ F Hp). repeat split; auto.
Qed.

Lemma relative_sound prec rows : Finite prec -> relative TolNotLe prec rows = true -> rows_sound (relative_within prec) rows.
Proof.
  intros Hp H a b Hin. pose proof (verdict_in _ _ H _ Hin) as F. unfold relative_row_fails in F. simpl fst in F; simpl snd in F.
  apply exceeds_notle_false in F. destruct (rel_le_finite _ _ _ F Hp). repeat split; auto.
Qed.

Lemma relabs_sound prec prec2 rows : Finite prec -> Finite prec2 ->
  relabs TolNotLe prec prec2 rows = true -> rows_sound (relabs_within prec prec2) rows.
Proof.
  intros Hp Hp2 H a b Hin. pose proof (verdict_in _ _ H _ Hin) as F. unfold relabs_row_fails in F. simpl fst in F; simpl snd in F.
  apply andb_false_iff in F. destruct F as [F|F]; apply exceeds_notle_false in F.
  - destruct (rel_le_finite _ _ _ F Hp). repeat split; auto. now left.
  - destruct (abs_le_finite _ _ _ F Hp2). repeat split; auto. now right.
Qed.

Lemma mixed_sound prec prec2 rows : mixed TolNotLe MixAbs prec prec2 rows = true -> rows_sound (mixed_within prec prec2) rows.
Proof.
  intros H a b Hin. pose proof (verdict_in _ _ H _ Hin) as F. unfold mixed_row_fails in F. simpl fst in F; simpl snd in F.
  apply exceeds_notle_false in F. destruct (mixed_le_finite _ _ _ _ _ F). repeat split; auto.
Qed.

Lemma mixed_signed_sound prec prec2 rows : mixed TolNotLe MixSigned prec prec2 rows = true -> rows_sound (mixed_within_signed prec prec2) rows.
Proof.
  intros H a b Hin. pose proof (verdict_in _ _ H _ Hin) as F. unfold mixed_row_fails in F. simpl fst in F; simpl snd in F.
  apply exceeds_notle_false in F. destruct (mixed_le_finite _ _ _ _ _ F). repeat split; auto.
Qed.

(* ------------------------------------------------------------------ comparing a column with itself *)
Definition is_zero_b (x : float) : bool := match Prim2B x with B754_zero _ => true | _ => false end.
(* zero or NaN *)
Definition zn (x : float) : bool := match Prim2B x with B754_zero _ => true | B754_nan => true | _ => false end.

Lemma sub_self_zero a : finite a = true -> is_zero_b (a - a) = true.
Proof.
  rewrite fin_equiv. intros Fa. unfold is_zero_b. rewrite sub_equiv.
  pose proof (Bminus_correct _ _ HP HM mode_NE (Prim2B a) (Prim2B a) Fa Fa) as C.
  replace (B2R (Prim2B a) - B2R (Prim2B a))%R with 0%R in C by ring.
  rewrite round_0 in C by apply valid_rnd_N. rewrite Rabs_R0 in C.
  rewrite Rlt_bool_true in C by apply bpow_gt_0.
  destruct C as (C1 & C2 & _).
  destruct (Bminus mode_NE (Prim2B a) (Prim2B a)) as [s|s| |s m e H]; simpl in *; try discriminate; auto.
  apply eq_0_F2R in C1. simpl in C1. destruct s; discriminate.
Qed.

Lemma sub_self_zn a : zn (a - a) = true.
Proof.
  destruct (finite a) eqn:Fa.
  - pose proof (sub_self_zero _ Fa) as Z. unfold is_zero_b in Z. unfold zn. now destruct (Prim2B (a - a)).
  - unfold zn. rewrite fin_equiv in Fa. rewrite sub_equiv.
    destruct (Prim2B a) as [s|s| |s m e H]; try discriminate; simpl; auto. now destruct s.
Qed.

Lemma abs_zero z : is_zero_b z = true -> is_zero_b (abs z) = true.
Proof. unfold is_zero_b. rewrite abs_equiv. now destruct (Prim2B z). Qed.
Lemma abs_zn z : zn z = true -> zn (abs z) = true.
Proof. unfold zn. rewrite abs_equiv. now destruct (Prim2B z). Qed.

Lemma Prim2B_zero : Prim2B 0 = B754_zero false.
Proof. change 0 with zero. rewrite zero_equiv. apply Prim2B_B2Prim. Qed.

Lemma zero_not_exceeds k z p : is_zero_b z = true -> nonneg p -> exceeds k z p = false.
Proof.
  unfold is_zero_b, nonneg. intros Hz Hp. rewrite leb_equiv, Prim2B_zero in Hp.
  destruct k; simpl; [rewrite ltb_equiv | rewrite leb_equiv];
  destruct (Prim2B z) as [sz|sz| |sz mz ez Hz']; try discriminate;
  destruct (Prim2B p) as [sp|sp| |sp mp ep Hp']; try discriminate; auto;
  destruct sp; try discriminate; auto.
Qed.

Lemma zero_div_posnz n d : is_zero_b n = true -> posnz d = true -> is_zero_b (n / d) = true.
Proof.
  unfold is_zero_b, posnz. rewrite div_equiv.
  destruct (Prim2B n) as [sa|sa| |sa ma ea Ha]; try discriminate;
  destruct (Prim2B d) as [sb|sb| |sb mb eb Hb]; simpl; auto; try discriminate.
Qed.

Lemma rel_err_self a : finite a = true -> is_zero_b (rel_err a a) = true.
Proof.
  intros Fa. unfold rel_err. apply zero_div_posnz.
  - apply abs_zero, sub_self_zero, Fa.
  - apply plus_eps_posnz. destruct (fmin_cases (abs a) (abs a)) as [->| ->]; now apply abs_nonneg_fin.
Qed.

Lemma verdict_self fails col :
  (forall a, In a col -> fails (a, a) = false) -> verdict fails (self_rows col) = true.
Proof.
  intros H. unfold verdict, self_rows. apply forallb_forall. intros r Hr.
  apply in_map_iff in Hr. destruct Hr as (a & <- & Ha). now rewrite H.
Qed.

Lemma absolute_self k prec col : all_finite col -> nonneg prec -> absolute k prec (self_rows col) = true.
Proof.
  intros Hf Hp. apply verdict_self. intros a Ha. unfold absolute_row_fails. simpl.
  apply zero_not_exceeds; auto. apply abs_zero, sub_self_zero, Hf, Ha.
Qed.

Lemma relative_self k prec col : all_finite col -> nonneg prec -> relative k prec (self_rows col) = true.
Proof.
  intros Hf Hp. apply verdict_self. intros a Ha. unfold relative_row_fails. simpl.
  apply zero_not_exceeds; auto. apply rel_err_self, Hf, Ha.
Qed.

Lemma relabs_self k prec prec2 col : all_finite col -> nonneg prec -> relabs k prec prec2 (self_rows col) = true.
Proof.
  intros Hf Hp. apply verdict_self. intros a Ha. unfold relabs_row_fails. simpl.
  rewrite zero_not_exceeds; auto. apply rel_err_self, Hf, Ha.
Qed.

(* ------------------------------------------------------------------ refutations for the `err > prec` form *)
Lemma absolute_gt_refuted : exists prec rows, Finite prec /\ absolute TolGt prec rows = true /\ ~ rows_sound (absolute_within prec) rows.
Proof.
  exists 0x1p-10, [(1, 1); (nan, 2); (3, 3)]. split; [reflexivity|]. split; [vm_compute; reflexivity|].
  intros H. destruct (H nan 2) as (F & _); [simpl; auto|]. vm_compute in F. discriminate.
Qed.
Lemma relative_gt_refuted : exists prec rows, Finite prec /\ relative TolGt prec rows = true /\ ~ rows_sound (relative_within prec) rows.
Proof.
  exists 0x1p-10, [(1, 1); (nan, 2); (3, 3)]. split; [reflexivity|]. split; [vm_compute; reflexivity|].
  intros H. destruct (H nan 2) as (F & _); [simpl; auto|]. vm_compute in F. discriminate.
Qed.
Lemma relabs_gt_refuted : exists prec prec2 rows, Finite prec /\ Finite prec2 /\ relabs TolGt prec prec2 rows = true /\ ~ rows_sound (relabs_within prec prec2) rows.
Proof.
  exists 0x1p-10, 0x1p-10, [(1, 1); (2, nan); (3, 3)]. split; [reflexivity|]. split; [reflexivity|]. split; [vm_compute; reflexivity|].
  intros H. destruct (H 2 nan) as (_ & F & _); [simpl; auto|]. vm_compute in F. discriminate.
Qed.
Lemma mixed_gt_refuted : exists prec prec2 rows, Finite prec /\ Finite prec2 /\ mixed TolGt MixSigned prec prec2 rows = true /\ ~ rows_sound (mixed_within_signed prec prec2) rows.
Proof.
  exists 0x1p-10, 0x1p-10, [(1, 1); (nan, 2); (3, 3)]. split; [reflexivity|]. split; [reflexivity|]. split; [vm_compute; reflexivity|].
  intros H. destruct (H nan 2) as (F & _); [simpl; auto|]. vm_compute in F. discriminate.
Qed.
(* the signed relative tolerance of the pinned Mixed comparison rejects a column compared with itself *)
Lemma mixed_signed_self_refuted : exists k prec prec2 col, all_finite col /\ nonneg prec /\ nonneg prec2 /\ mixed k MixSigned prec prec2 (self_rows col) = false.
Proof.
  exists TolGt, 0x1p-3, 0, [-10]. repeat split; try reflexivity.
  intros a [<-|[]]. reflexivity.
Qed.

(* ------------------------------------------------------------------ MTest tests *)
Lemma sub_finite_not_nan a b : finite a = true -> finite b = true -> BinarySingleNaN.is_nan (Prim2B (a - b)) = false.
Proof.
  rewrite !fin_equiv, sub_equiv. intros Fa Fb.
  pose proof (Bminus_correct _ _ HP HM mode_NE (Prim2B a) (Prim2B b) Fa Fb) as C.
  destruct (Rlt_bool _ _) in C.
  - destruct C as (_ & C & _). now destruct (Bminus mode_NE (Prim2B a) (Prim2B b)).
  - destruct C as (C & _). rewrite <- is_nan_SF_B2SF, C. apply is_nan_binary_overflow.
Qed.

Lemma Bcompare_some (x y : binary_float FloatOps.prec FloatOps.emax) :
  BinarySingleNaN.is_nan x = false -> BinarySingleNaN.is_nan y = false -> Bcompare x y <> None.
Proof.
  destruct x as [sa|sa| |sa ma ea Ha]; try discriminate;
  destruct y as [sb|sb| |sb mb eb Hb]; try discriminate; unfold Bcompare; simpl; intros _ _;
  try discriminate; try (destruct sa; discriminate); try (destruct sb; discriminate);
  try (destruct sa, sb; try discriminate; destruct (ea ?= eb)%Z; discriminate).
Qed.

Lemma not_gt_le e p : BinarySingleNaN.is_nan (Prim2B e) = false -> finite p = true -> (p <? e) = false -> (e <=? p) = true.
Proof.
  rewrite fin_equiv, ltb_equiv, leb_equiv. unfold Bltb, Bleb, SFltb, SFleb. intros Hn Hp.
  change (SFcompare (B2SF (Prim2B p)) (B2SF (Prim2B e))) with (Bcompare (Prim2B p) (Prim2B e)).
  change (SFcompare (B2SF (Prim2B e)) (B2SF (Prim2B p))) with (Bcompare (Prim2B e) (Prim2B p)).
  rewrite (Bcompare_swap _ _ (Prim2B e) (Prim2B p)).
  assert (Np : BinarySingleNaN.is_nan (Prim2B p) = false) by (now destruct (Prim2B p)).
  pose proof (Bcompare_some _ _ Hn Np) as S.
  destruct (Bcompare (Prim2B e) (Prim2B p)) as [[]|]; simpl; auto; try discriminate; try congruence.
Qed.

Lemma not_exceeds_le k e p : BinarySingleNaN.is_nan (Prim2B e) = false -> finite p = true -> exceeds k e p = false -> (e <=? p) = true.
Proof.
  destruct k; simpl; intros Hn Hp H.
  - now apply not_gt_le.
  - now destruct (e <=? p).
Qed.

Lemma abs_not_nan x : BinarySingleNaN.is_nan (Prim2B x) = false -> BinarySingleNaN.is_nan (Prim2B (abs x)) = false.
Proof. rewrite abs_equiv. now destruct (Prim2B x). Qed.

Definition analytical_rows_sound (eps : float) (rows : list (float * float)) : Prop :=
  forall v fv, In (v, fv) rows -> Finite v /\ Finite fv /\ le_tol (abs (v - fv)) eps.

Lemma analytical_from_sound k eps rows : Finite eps -> forall i ok,
  analytical_from k eps i ok rows = Verdict true -> ok = true /\ analytical_rows_sound eps rows.
Proof.
  intros He. induction rows as [|[v fv] rows IH]; intros i ok H; simpl in H.
  - inversion H. split; auto. intros ? ? [].
  - destruct (finite v) eqn:Fv; simpl in H; [|discriminate].
    destruct (finite fv) eqn:Ffv; simpl in H; [|discriminate].
    apply IH in H. destruct H as (H1 & H2). apply andb_true_iff in H1. destruct H1 as (-> & H1).
    split; auto. intros v' fv' [E|Hin]; [|now apply H2].
    inversion E; subst. repeat split; auto.
    apply (not_exceeds_le k); auto.
    + apply abs_not_nan, sub_finite_not_nan; auto.
    + now destruct (exceeds k (abs (v' - fv')) eps).
Qed.

Lemma analytical_sound k eps rows : Finite eps -> analytical k eps rows = Verdict true -> analytical_rows_sound eps rows.
Proof. intros He H. now destruct (analytical_from_sound k eps rows He 0%nat true H). Qed.

Definition reffile_rows_sound (eps : float) (refs : list float) (rows : list (nat * float)) : Prop :=
  forall p v, In (p, v) rows -> exists r, nth_error refs p = Some r /\ Finite v /\ Finite r /\ le_tol (abs (v - r)) eps.

Lemma reffile_from_sound eps refs rows : Finite eps -> forall i ok,
  reffile_from TolNotLe eps refs i ok rows = Verdict true -> ok = true /\ reffile_rows_sound eps refs rows.
Proof.
  intros He. induction rows as [|[p v] rows IH]; intros i ok H; simpl in H.
  - inversion H. split; auto. intros ? ? [].
  - destruct (nth_error refs p) as [r|] eqn:En.
    + destruct (finite v) eqn:Fv; simpl in H; [|discriminate].
      apply IH in H. destruct H as (H1 & H2). apply andb_true_iff in H1. destruct H1 as (-> & H1).
      split; auto. intros p' v' [E|Hin]; [|now apply H2].
      inversion E; subst. exists r. split; auto.
      assert (L : (abs (v' - r) <=? eps) = true) by (now destruct (abs (v' - r) <=? eps)).
      destruct (abs_le_finite _ _ _ L He). repeat split; auto.
    + apply IH in H. destruct H; discriminate.
Qed.

Lemma reffile_sound eps refs rows : Finite eps -> reffile TolNotLe eps refs rows = Verdict true -> reffile_rows_sound eps refs rows.
Proof. intros He H. now destruct (reffile_from_sound eps refs rows He 0%nat true H). Qed.

Lemma reffile_gt_refuted : exists eps refs rows, Finite eps /\ reffile TolGt eps refs rows = Verdict true /\ ~ reffile_rows_sound eps refs rows.
Proof.
  exists 0x1p-10, [1; nan; 3], [(0%nat, 1); (1%nat, 2); (2%nat, 3)]. split; [reflexivity|]. split; [vm_compute; reflexivity|].
  intros H. destruct (H 1%nat 2) as (r & E & _ & F & _); [simpl; auto|]. simpl in E. inversion E; subst. vm_compute in F. discriminate.
Qed.

(* ------------------------------------------------------------------ AreaComparison *)
Lemma area_above_tolerance_fails interp prec tA vA tB vB ar :
  area_value interp tA vA tB vB = Some ar -> (prec <? ar) = true -> area TolGt interp prec tA vA tB vB = Some false.
Proof. intros E H. unfold area. rewrite E. simpl. now rewrite H. Qed.

Lemma insert_one_id interp a pre post vs :
  (a =? a) = true -> (forall t, In t pre -> (a <? t) = false) ->
  insert_one interp a (pre ++ a :: post) vs = (pre ++ a :: post, vs).
Proof.
  intros Ha. revert vs. induction pre as [|t pre IH]; intros vs Hp; simpl.
  - unfold fneq. now rewrite Ha.
  - destruct (fneq a t); auto. rewrite (Hp t) by (simpl; auto).
    specialize (IH (tl vs) (fun t0 H0 => Hp t0 (or_intror H0))).
    revert IH. destruct (pre ++ a :: post) as [|t' l] eqn:E; [destruct pre; discriminate|]. intros IH.
    rewrite IH. destruct vs; reflexivity.
Qed.

Lemma merge_into_id interp src ts vs :
  (forall a, In a src -> insert_one interp a ts vs = (ts, vs)) -> merge_into interp src ts vs = (ts, vs).
Proof. induction src; simpl; intros H; auto. rewrite H by (simpl; auto). apply IHsrc. intros; apply H; simpl; auto. Qed.

Lemma ordered_insert_id interp ts vs a : ordered_abscissas ts -> In a ts -> insert_one interp a ts vs = (ts, vs).
Proof.
  intros (Hn & Ho) Hin. destruct (In_nth_error _ _ Hin) as (i & Ei).
  pose proof Ei as Ei'. destruct (nth_error_split _ _ Ei) as (pre & post & E & Hl). 
  rewrite E. apply insert_one_id.
  - apply Hn, Hin.
  - intros t Ht. destruct (In_nth_error _ _ Ht) as (j & Ej).
    assert (j < length pre)%nat by (apply nth_error_Some; congruence).
    apply (Ho j i t a); [lia | | exact Ei']. rewrite E, nth_error_app1; auto.
Qed.

Lemma zn_add x y : zn x = true -> zn y = true -> zn (x + y) = true.
Proof.
  unfold zn. rewrite add_equiv.
  destruct (Prim2B x) as [sa|sa| |sa ma ea Ha]; try discriminate;
  destruct (Prim2B y) as [sb|sb| |sb mb eb Hb]; try discriminate; simpl; auto. now destruct (Bool.eqb sa sb).
Qed.
Lemma mul_zn x y : zn y = true -> zn (x * y) = true.
Proof.
  unfold zn. rewrite mul_equiv.
  destruct (Prim2B y) as [sb|sb| |sb mb eb Hb]; try discriminate;
  destruct (Prim2B x) as [sa|sa| |sa ma ea Ha]; simpl; auto.
Qed.
Lemma zn_div x d : zn x = true -> zn (x / d) = true.
Proof.
  unfold zn. rewrite div_equiv.
  destruct (Prim2B x) as [sa|sa| |sa ma ea Ha]; try discriminate;
  destruct (Prim2B d) as [sb|sb| |sb mb eb Hb]; simpl; auto.
Qed.
Lemma zn_not_gt z p : zn z = true -> (p <? 0) = false -> (p <? z) = false.
Proof.
  unfold zn. rewrite !ltb_equiv, Prim2B_zero. unfold Bltb.
  destruct (Prim2B z) as [sa|sa| |sa ma ea Ha]; try discriminate;
  destruct (Prim2B p) as [sb|sb| |sb mb eb Hb]; simpl; auto.
Qed.

Lemma absdiffs_self vs : absdiffs vs vs = Some (map (fun a => abs (a - a)) vs).
Proof. induction vs; simpl; auto. now rewrite IHvs. Qed.

Lemma trapz_zn ts : forall ds acc, ts <> [] -> length ds = length ts ->
  (forall d, In d ds -> zn d = true) -> zn acc = true -> exists r, trapz acc ts ds = Some r /\ zn r = true.
Proof.
  induction ts as [|t0 ts IH]; intros ds acc Hne Hl Hd Ha; [congruence|].
  destruct ts as [|t1 ts].
  - exists acc. split; auto.
  - destruct ds as [|d0 [|d1 ds]]; try discriminate.
    change (trapz acc (t0 :: t1 :: ts) (d0 :: d1 :: ds)) with (trapz (acc + ((t1 - t0) * (d1 + d0)) / 2) (t1 :: ts) (d1 :: ds)).
    apply IH; try discriminate.
    + simpl in *. lia.
    + intros d Hin. apply Hd. simpl in *. tauto.
    + apply zn_add; auto. apply zn_div, mul_zn, zn_add; apply Hd; simpl; auto.
Qed.

Lemma area_identical prec ts vs : ordered_abscissas ts -> ts <> [] -> length vs = length ts ->
  (prec <? 0) = false -> area TolGt no_interp prec ts vs ts vs = Some true.
Proof.
  intros Ho Hne Hl Hp. unfold area, area_value.
  rewrite merge_into_id by (intros; now apply ordered_insert_id).
  rewrite merge_into_id by (intros; now apply ordered_insert_id).
  rewrite absdiffs_self.
  destruct (trapz_zn ts (map (fun a => abs (a - a)) vs) 0) as (r & -> & Zr); auto.
  - now rewrite map_length.
  - intros d Hd. apply in_map_iff in Hd. destruct Hd as (a & <- & _). apply abs_zn, sub_self_zn.
  - destruct vs as [|v0 vs']. { destruct ts; [congruence|discriminate]. }
    simpl. rewrite zn_not_gt; auto. now apply zn_div.
Qed.

(* C51 -- Area comparison, theorems for the form found in the pinned tree (`area > prec`, area divided by the
   SIGNED maximum of the reference): used by the check while it observes the known findings
   area:negative-reference-maximum-passes / F15:area:nan-passes.  The soundness statement is FALSE of this form
   (refuted by witnesses); what still holds is proved, and the corrected form is proved sound.
   Statements only; proofs are in C51AreaProofs.v. *)
From Coq Require Import List.
From C51 Require Import C51Model C51Spec C51Proofs C51AreaProofs.
Import ListNotations.

(* A = (-1,-1), B = (-100,-100) on t = (0,1), tolerance 2^-10: success although the normalised area is 99 *)
Theorem C51_area_sound_refuted_negative_reference : exists prec ts va vb,
  Finite prec /\ ordered_abscissas ts /\ all_finite va /\ all_finite vb /\
  area_g TolGt NormMax none_mk prec ts va ts vb = Some true /\ above_tol (normalised_area ts va vb) prec.
Proof. exact area_pinned_refuted_negative_reference. Qed.
Print Assumptions C51_area_sound_refuted_negative_reference.

(* A = (1,NaN), B = (1,2): success although the normalised area is NaN *)
Theorem C51_area_sound_refuted_nan : exists prec ts va vb,
  Finite prec /\ ordered_abscissas ts /\
  area_g TolGt NormMax none_mk prec ts va ts vb = Some true /\ ~ le_tol (normalised_area ts va vb) prec.
Proof. exact area_pinned_refuted_nan. Qed.
Print Assumptions C51_area_sound_refuted_nan.

(* what holds of the pinned form as well *)
Theorem C51_area_identical_curves_succeed : forall mk prec ts vs, ordered_abscissas ts -> ts <> [] ->
  length vs = length ts -> not_negative prec -> area_g TolGt NormMax mk prec ts vs ts vs = Some true.
Proof. exact area_identical_pinned. Qed.
Print Assumptions C51_area_identical_curves_succeed.

Theorem C51_area_above_tolerance_fails : forall k nk mk prec tA vA tB vB ar,
  area_value_g nk mk tA vA tB vB = Some ar -> exceeds k ar prec = true -> area_g k nk mk prec tA vA tB vB = Some false.
Proof. exact area_g_above_tolerance_fails. Qed.
Print Assumptions C51_area_above_tolerance_fails.

(* the corrected form (the proposed fix) is sound and still accepts identical finite curves *)
Theorem C51_area_corrected_form_sound : forall mk prec ts va vb, ordered_abscissas ts -> ts <> [] ->
  length va = length ts -> length vb = length ts ->
  (area_g TolNotLe NormAbsMax mk prec ts va ts vb = Some true -> le_tol (normalised_area ts va vb) prec) /\
  (steps_finite ts -> all_finite va -> nonneg prec -> area_g TolNotLe NormAbsMax mk prec ts va ts va = Some true).
Proof.
  intros mk prec ts va vb Ho Hne Ha Hb. split; [now apply area_same_grid_sound|].
  intros; now apply area_identical_fixed.
Qed.
Print Assumptions C51_area_corrected_form_sound.

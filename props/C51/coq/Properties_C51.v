(* C51 -- property theorems for the NaN-safe comparisons (`!(err <= prec)`, Mixed with prec*|reference|):
   used by the check when the code in /repo is observed to implement these forms.
   Statements only; proofs are in C51Proofs.v.  Models: C51Model.v, specification: C51Spec.v. *)
From Coq Require Import List.
From C51 Require Import C51Model C51Spec C51Proofs.
Import ListNotations.

(* success => every compared pair is finite and within the criterion (finite tolerances) *)
Theorem C51_absolute_sound : forall prec rows, Finite prec ->
  absolute TolNotLe prec rows = true -> rows_sound (absolute_within prec) rows.
Proof. exact absolute_sound. Qed.
Print Assumptions C51_absolute_sound.

Theorem C51_relative_sound : forall prec rows, Finite prec ->
  relative TolNotLe prec rows = true -> rows_sound (relative_within prec) rows.
Proof. exact relative_sound. Qed.
Print Assumptions C51_relative_sound.

Theorem C51_relative_and_absolute_sound : forall prec prec2 rows, Finite prec -> Finite prec2 ->
  relabs TolNotLe prec prec2 rows = true -> rows_sound (relabs_within prec prec2) rows.
Proof. exact relabs_sound. Qed.
Print Assumptions C51_relative_and_absolute_sound.

Theorem C51_mixed_sound : forall prec prec2 rows,
  mixed TolNotLe MixAbs prec prec2 rows = true -> rows_sound (mixed_within prec prec2) rows.
Proof. exact mixed_sound. Qed.
Print Assumptions C51_mixed_sound.

(* comparing a finite column with itself succeeds (whatever the form of the tolerance test) *)
Theorem C51_self_comparison_succeeds : forall k prec prec2 col, all_finite col -> nonneg prec ->
  absolute k prec (self_rows col) = true /\ relative k prec (self_rows col) = true /\
  relabs k prec prec2 (self_rows col) = true.
Proof. intros; exact (conj (absolute_self _ _ _ H H0) (conj (relative_self _ _ _ H H0) (relabs_self _ _ _ _ H H0))). Qed.
Print Assumptions C51_self_comparison_succeeds.

(* MTest @Test: a successful sequence of checks never threw and every pair is finite and within eps *)
Theorem C51_analytical_test_sound : forall k eps rows, Finite eps ->
  analytical k eps rows = Verdict true -> analytical_rows_sound eps rows.
Proof. exact analytical_sound. Qed.
Print Assumptions C51_analytical_test_sound.

Theorem C51_reference_file_test_sound : forall eps refs rows, Finite eps ->
  reffile TolNotLe eps refs rows = Verdict true -> reffile_rows_sound eps refs rows.
Proof. exact reffile_sound. Qed.
Print Assumptions C51_reference_file_test_sound.

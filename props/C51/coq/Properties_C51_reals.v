(* C51 -- success of the NaN-safe comparisons implies the documented inequality over the REAL numbers represented
   by the doubles (R_of x = Flocq's B2R (Prim2B x)), up to an explicit rounding slack:
     up t = t + 2^-53 |t| + 2^-1075        (u_rnd = 2^-53, eta_rnd = 2^-1075).
   These theorems hold for the form `!(err <= prec)`; they are false of `err > prec` (NaN rows pass), which is
   what Properties_C51_pinned.v refutes.  Statements only; proofs are in C51RealProofs.v. *)
From Coq Require Import List Reals.
From Flocq Require Import Core.
From C51 Require Import C51Model C51Spec C51Proofs C51RealProofs.
Import ListNotations.
Local Open Scope R_scope.

(* the slack and the guard of the relative denominator, spelled out *)
Theorem C51_slack_and_guard_are_explicit :
  (forall t, up t = t + bpow radix2 (-53) * Rabs t + bpow radix2 (-1075)) /\ R_of eps100 = 100 * bpow radix2 (-1022).
Proof. split; [reflexivity | exact R_of_eps100]. Qed.
Print Assumptions C51_slack_and_guard_are_explicit.

(* Absolute: every pair finite and |A - B| <= up prec *)
Theorem C51_absolute_sound_real : forall prec rows, Finite prec -> absolute TolNotLe prec rows = true ->
  forall a b, In (a, b) rows -> Finite a /\ Finite b /\ Rabs (R_of a - R_of b) <= up (R_of prec).
Proof. exact absolute_sound_real. Qed.
Print Assumptions C51_absolute_sound_real.

(* Relative: |A - B| <= up (up prec * up (min(|A|,|B|) + 100 DBL_MIN)) *)
Theorem C51_relative_sound_real : forall prec rows, Finite prec -> relative TolNotLe prec rows = true ->
  forall a b, In (a, b) rows -> Finite a /\ Finite b /\
    Rabs (R_of a - R_of b) <= up (up (R_of prec) * up (Rmin (Rabs (R_of a)) (Rabs (R_of b)) + R_of eps100)).
Proof. exact relative_sound_real. Qed.
Print Assumptions C51_relative_sound_real.

(* RelativeAndAbsolute: one of the two *)
Theorem C51_relative_and_absolute_sound_real : forall prec prec2 rows, Finite prec -> Finite prec2 ->
  relabs TolNotLe prec prec2 rows = true ->
  forall a b, In (a, b) rows -> Finite a /\ Finite b /\
    (Rabs (R_of a - R_of b) <= up (up (R_of prec) * up (Rmin (Rabs (R_of a)) (Rabs (R_of b)) + R_of eps100)) \/
     Rabs (R_of a - R_of b) <= up (R_of prec2)).
Proof. exact relabs_sound_real. Qed.
Print Assumptions C51_relative_and_absolute_sound_real.

(* Mixed: |A - B| <= up (up (prec |B|) + up (prec2 + 2^-1075)); either the products prec * |b| do not overflow, or
   the absolute tolerance is not negative (with prec * |b| = +inf and prec2 < 0 the code accepts rows that the
   real criterion rejects: prec = 1.0000000001, b = DBL_MAX, prec2 = -DBL_MAX, a = 0) *)
Theorem C51_mixed_sound_real : forall prec prec2 rows, Finite prec -> Finite prec2 -> nonneg prec2 ->
  mixed TolNotLe MixAbs prec prec2 rows = true ->
  forall a b, In (a, b) rows -> Finite a /\ Finite b /\
    Rabs (R_of a - R_of b) <= up (up (R_of prec * Rabs (R_of b)) + up (R_of prec2 + bpow radix2 (-1075))).
Proof. exact mixed_sound_real_nonneg. Qed.
Print Assumptions C51_mixed_sound_real.

Theorem C51_mixed_sound_real_no_overflow : forall prec prec2 rows, Finite prec2 ->
  (forall a b, In (a, b) rows -> Finite (PrimFloat.mul prec (PrimFloat.abs b))) ->
  mixed TolNotLe MixAbs prec prec2 rows = true ->
  forall a b, In (a, b) rows -> Finite a /\ Finite b /\
    Rabs (R_of a - R_of b) <= up (up (R_of prec * Rabs (R_of b)) + up (R_of prec2 + bpow radix2 (-1075))).
Proof. exact mixed_sound_real. Qed.
Print Assumptions C51_mixed_sound_real_no_overflow.

(* MTest @Test: analytical (either form of the test) and reference file (NaN-safe form) *)
Theorem C51_analytical_test_sound_real : forall k eps rows, Finite eps -> analytical k eps rows = Verdict true ->
  forall v fv, In (v, fv) rows -> Finite v /\ Finite fv /\ Rabs (R_of v - R_of fv) <= up (R_of eps).
Proof. exact analytical_sound_real. Qed.
Print Assumptions C51_analytical_test_sound_real.

Theorem C51_reference_file_test_sound_real : forall eps refs rows, Finite eps -> reffile TolNotLe eps refs rows = Verdict true ->
  forall p v, In (p, v) rows -> exists r, nth_error refs p = Some r /\ Finite v /\ Finite r /\
                                          Rabs (R_of v - R_of r) <= up (R_of eps).
Proof. exact reffile_sound_real. Qed.
Print Assumptions C51_reference_file_test_sound_real.

(* C51 -- specification, written independently of the models of the code.
   All arithmetic is IEEE-754 binary64 (Coq primitive floats): a criterion "e <= tol" evaluated in floating
   point is false as soon as e or tol is NaN. *)
From Coq Require Import Floats List Bool.
Import ListNotations.
Local Open Scope float_scope.

Definition Finite (x : float) : Prop := PrimFloat.is_finite x = true.
(* IEEE `e <= p` *)
Definition le_tol (e p : float) : Prop := (e <=? p) = true.
Definition nonneg (p : float) : Prop := (0 <=? p) = true.
(* IEEE `not (p < 0)` and `p < e` *)
Definition not_negative (p : float) : Prop := (p <? 0) = false.
Definition above_tol (e p : float) : Prop := (p <? e) = true.

Definition DBL_MIN : float := 0x1p-1022.
Definition smaller (x y : float) : float := if y <? x then y else x.

(* documented per-row criteria (a = value of the first column, b = value of the second/reference column) *)
Definition absolute_within (prec a b : float) : Prop := le_tol (abs (a - b)) prec.
Definition relative_within (prec a b : float) : Prop :=
  le_tol (abs (a - b) / (smaller (abs a) (abs b) + 100 * DBL_MIN)) prec.
Definition relabs_within (prec prec2 a b : float) : Prop :=
  relative_within prec a b \/ absolute_within prec2 a b.
(* mixed: |a-b| <= prec*|b| + prec2, tested as |a-b| - prec*|b| - prec2 <= 0 *)
Definition mixed_within (prec prec2 a b : float) : Prop := le_tol (abs (a - b) - prec * abs b - prec2) 0.
(* what the pinned tree tests: |a-b| - prec*b - prec2 <= 0 (tolerance shrinks for negative references) *)
Definition mixed_within_signed (prec prec2 a b : float) : Prop := le_tol (abs (a - b) - prec * b - prec2) 0.

(* a successful comparison is sound when every compared pair is finite and within the criterion *)
Definition rows_sound (W : float -> float -> Prop) (rows : list (float * float)) : Prop :=
  forall a b, In (a, b) rows -> Finite a /\ Finite b /\ W a b.

Definition self_rows (col : list float) : list (float * float) := map (fun a => (a, a)) col.
Definition all_finite (col : list float) : Prop := forall a, In a col -> Finite a.

(* abscissas in non-decreasing order, none NaN *)
Definition ordered_abscissas (ts : list float) : Prop :=
  (forall t, In t ts -> (t =? t) = true) /\
  (forall i j ti tj, (i < j)%nat -> nth_error ts i = Some ti -> nth_error ts j = Some tj -> (tj <? ti) = false).

(* ---------------------------------------------------------------- Area, two curves given on the SAME grid
   (no interpolation is involved then).  Trapezoidal area of |a - b|, segment terms summed from the left,
   normalised by the largest magnitude of the reference (first) curve; a null area is null whatever the
   normalisation (the reference may be identically zero). *)
Fixpoint segments (ts ds : list float) : list float :=
  match ts, ds with
  | t0 :: ((t1 :: _) as ts'), d0 :: ((d1 :: _) as ds') => ((t1 - t0) * (d1 + d0)) / 2 :: segments ts' ds'
  | _, _ => []
  end.
Definition gaps (va vb : list float) : list float := map (fun p => abs (fst p - snd p)) (combine va vb).
Definition area_between (ts va vb : list float) : float := fold_left PrimFloat.add (segments ts (gaps va vb)) 0.
Definition largest_magnitude (va : list float) : float :=
  fold_left (fun m v => if m <? abs v then abs v else m) va (abs (hd 0 va)).
Definition normalised_area (ts va vb : list float) : float :=
  let ar := area_between ts va vb in
  if ar =? 0 then ar else ar / largest_magnitude va.

(* consecutive abscissas are at a finite distance (no overflow of t1 - t0) *)
Definition steps_finite (ts : list float) : Prop :=
  forall i ti tj, nth_error ts i = Some ti -> nth_error ts (S i) = Some tj -> Finite (tj - ti).

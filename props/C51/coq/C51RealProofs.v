(* C51 -- from the binary64 criteria to inequalities over the real numbers represented by the doubles
   (Flocq: B2R (Prim2B x)), with an explicit rounding slack. *)
From Flocq Require Import Core BinarySingleNaN PrimFloat Ulp.
From Coq Require Import List Bool ZArith Reals Lia Lra Psatz Floats.
From C51 Require Import C51Model C51Spec C51Proofs.
#[local] Existing Instance Flocq.IEEE754.PrimFloat.Hprec.
#[local] Existing Instance Flocq.IEEE754.PrimFloat.Hmax.
Import ListNotations.
Local Open Scope R_scope.

(* the real number represented by a finite double *)
Definition R_of (x : float) : R := B2R (Prim2B x).
(* unit roundoff 2^-53 and half of the smallest denormal 2^-1075 *)
Definition u_rnd : R := bpow radix2 (-53).
Definition eta_rnd : R := bpow radix2 (-1075).
(* `up t` : the largest real that a tolerance test `fl(x) <= t` may let through *)
Definition up (t : R) : R := t + u_rnd * Rabs t + eta_rnd.

Notation fexp64 := (FLT_exp (3 - FloatOps.emax - FloatOps.prec) FloatOps.prec).
Notation rnd := (round radix2 fexp64 (round_mode mode_NE)).

Lemma u_rnd_bounds : 0 < u_rnd < 1.
Proof. unfold u_rnd. split; [apply bpow_gt_0|]. change 1 with (bpow radix2 0). apply bpow_lt. lia. Qed.
Lemma eta_rnd_pos : 0 < eta_rnd.
Proof. apply bpow_gt_0. Qed.

(* |fl(x) - x| <= u |fl(x)| + eta *)
Lemma rnd_err x : Rabs (rnd x - x) <= u_rnd * Rabs (rnd x) + eta_rnd.
Proof.
  simpl round_mode.
  pose proof (error_le_half_ulp_round radix2 fexp64 (fun x => negb (Z.even x)) x) as H.
  set (r := round radix2 fexp64 (Znearest (fun x => negb (Z.even x))) x) in *.
  pose proof u_rnd_bounds as Hu. pose proof eta_rnd_pos as He.
  assert (Hr := Rabs_pos r).
  destruct (Rlt_or_le (Rabs r) (bpow radix2 ((3 - FloatOps.emax - FloatOps.prec) + FloatOps.prec))) as [Hs|Hl].
  - rewrite (ulp_FLT_small radix2 _ FloatOps.prec) in H by exact Hs.
    replace (/ 2 * bpow radix2 (3 - FloatOps.emax - FloatOps.prec)) with eta_rnd in H.
    + nra.
    + unfold eta_rnd. change (/ 2) with (/ IZR 2). change (/ IZR 2) with (bpow radix2 (-1)). rewrite <- bpow_plus. reflexivity.
  - assert (Hl' : bpow radix2 ((3 - FloatOps.emax - FloatOps.prec) + FloatOps.prec - 1) <= Rabs r).
    { eapply Rle_trans; [|exact Hl]. apply bpow_le. lia. }
    pose proof (ulp_FLT_le radix2 _ FloatOps.prec r Hl') as Hul.
    replace (bpow radix2 (1 - FloatOps.prec)) with (2 * u_rnd) in Hul.
    + nra.
    + unfold u_rnd. change 2 with (bpow radix2 1). rewrite <- bpow_plus. reflexivity.
Qed.

Lemma up_mono x y : x <= y -> x + u_rnd * Rabs x <= y + u_rnd * Rabs y.
Proof.
  pose proof u_rnd_bounds as Hu. intros H. unfold Rabs. destruct (Rcase_abs x), (Rcase_abs y); nra.
Qed.

(* fl(x) <= t  =>  x <= up t *)
Lemma rnd_le_up x t : rnd x <= t -> x <= up t.
Proof.
  intros H. pose proof (rnd_err x) as E. apply Rabs_le_inv in E. pose proof (up_mono _ _ H). unfold up. lra.
Qed.

Lemma rnd_opp x : rnd (- x) = - rnd x.
Proof. simpl round_mode. apply round_NE_opp. Qed.

(* |fl(x)| <= t  =>  |x| <= up t *)
Lemma rnd_abs_le_up x t : Rabs (rnd x) <= t -> Rabs x <= up t.
Proof.
  intros H. apply Rabs_le_inv in H. unfold Rabs at 1. destruct (Rcase_abs x).
  - apply rnd_le_up. rewrite rnd_opp. lra.
  - apply rnd_le_up. lra.
Qed.

(* ---------------------------------------------------------------- float operations on finite doubles *)
Lemma sub_R a b : finite a = true -> finite b = true -> finite (a - b)%float = true ->
  R_of (a - b)%float = rnd (R_of a - R_of b).
Proof.
  rewrite !fin_equiv. unfold R_of. rewrite sub_equiv. intros Fa Fb Fs.
  pose proof (Bminus_correct _ _ HP HM mode_NE _ _ Fa Fb) as C.
  destruct (Rlt_bool _ _) in C.
  - apply C.
  - exfalso. revert C Fs. destruct (Bminus mode_NE (Prim2B a) (Prim2B b)); unfold binary_overflow; simpl; intros C Fs;
      try discriminate Fs; destruct C as [C _]; discriminate C.
Qed.

Lemma abs_R x : R_of (abs x) = Rabs (R_of x).
Proof. unfold R_of. rewrite abs_equiv. apply B2R_Babs. Qed.

Lemma leb_R x y : finite x = true -> finite y = true -> (x <=? y)%float = true -> R_of x <= R_of y.
Proof.
  rewrite !fin_equiv, leb_equiv. unfold R_of. intros Fx Fy H.
  rewrite (Bleb_correct _ _ (Prim2B x) (Prim2B y) Fx Fy) in H.
  destruct (Rle_bool_spec (B2R (Prim2B x)) (B2R (Prim2B y))); [assumption|discriminate].
Qed.

(* ---------------------------------------------------------------- |a - b| within an absolute tolerance *)
Lemma abs_le_real a b p : finite p = true -> (abs (a - b) <=? p)%float = true ->
  finite a = true /\ finite b = true /\ Rabs (R_of a - R_of b) <= up (R_of p).
Proof.
  intros Fp H. destruct (abs_le_finite _ _ _ H Fp) as (Fa & Fb). repeat split; auto.
  assert (Fs : finite (a - b)%float = true) by (apply finite_or_pn; now apply (le_finite_r _ p)).
  assert (Fas : finite (abs (a - b)) = true) by now rewrite abs_finite.
  pose proof (leb_R _ _ Fas Fp H) as L. rewrite abs_R, sub_R in L by auto.
  now apply rnd_abs_le_up.
Qed.

(* ---------------------------------------------------------------- the criteria over the reals *)
(* |A - B| <= prec (1 + 2^-53) + 2^-1075 *)
Definition absolute_within_R (prec a b : float) : Prop := Rabs (R_of a - R_of b) <= up (R_of prec).

Lemma absolute_sound_real prec rows : Finite prec -> absolute TolNotLe prec rows = true ->
  rows_sound (absolute_within_R prec) rows.
Proof.
  intros Hp H a b Hin. destruct (absolute_sound prec rows Hp H a b Hin) as (_ & _ & W).
  exact (abs_le_real a b prec Hp W).
Qed.

Definition analytical_rows_sound_R (eps : float) (rows : list (float * float)) : Prop :=
  forall v fv, In (v, fv) rows -> Finite v /\ Finite fv /\ Rabs (R_of v - R_of fv) <= up (R_of eps).
Lemma analytical_sound_real k eps rows : Finite eps -> analytical k eps rows = Verdict true ->
  analytical_rows_sound_R eps rows.
Proof.
  intros He H v fv Hin. destruct (analytical_sound k eps rows He H v fv Hin) as (_ & _ & W).
  exact (abs_le_real v fv eps He W).
Qed.

Definition reffile_rows_sound_R (eps : float) (refs : list float) (rows : list (nat * float)) : Prop :=
  forall p v, In (p, v) rows -> exists r, nth_error refs p = Some r /\ Finite v /\ Finite r /\
                                          Rabs (R_of v - R_of r) <= up (R_of eps).
Lemma reffile_sound_real eps refs rows : Finite eps -> reffile TolNotLe eps refs rows = Verdict true ->
  reffile_rows_sound_R eps refs rows.
Proof.
  intros He H p v Hin. destruct (reffile_sound eps refs rows He H p v Hin) as (r & E & _ & _ & W).
  exists r. split; auto. exact (abs_le_real v r eps He W).
Qed.

(* ---------------------------------------------------------------- relative criterion *)
(* |fl(x) - x| <= u |x| + eta *)
Lemma rnd_err_x x : Rabs (rnd x - x) <= u_rnd * Rabs x + eta_rnd.
Proof.
  simpl round_mode.
  pose proof (error_le_half_ulp radix2 fexp64 (fun x => negb (Z.even x)) x) as H.
  pose proof u_rnd_bounds as Hu. pose proof eta_rnd_pos as He.
  assert (Hr := Rabs_pos x).
  destruct (Rlt_or_le (Rabs x) (bpow radix2 ((3 - FloatOps.emax - FloatOps.prec) + FloatOps.prec))) as [Hs|Hl].
  - rewrite (ulp_FLT_small radix2 _ FloatOps.prec) in H by exact Hs.
    replace (/ 2 * bpow radix2 (3 - FloatOps.emax - FloatOps.prec)) with eta_rnd in H.
    + nra.
    + unfold eta_rnd. change (/ 2) with (/ IZR 2). change (/ IZR 2) with (bpow radix2 (-1)). rewrite <- bpow_plus. reflexivity.
  - assert (Hl' : bpow radix2 ((3 - FloatOps.emax - FloatOps.prec) + FloatOps.prec - 1) <= Rabs x).
    { eapply Rle_trans; [|exact Hl]. apply bpow_le. lia. }
    pose proof (ulp_FLT_le radix2 _ FloatOps.prec x Hl') as Hul.
    replace (bpow radix2 (1 - FloatOps.prec)) with (2 * u_rnd) in Hul.
    + nra.
    + unfold u_rnd. change 2 with (bpow radix2 1). rewrite <- bpow_plus. reflexivity.
Qed.

(* fl(x) <= up x *)
Lemma rnd_le_up_x x : rnd x <= up x.
Proof. pose proof (rnd_err_x x) as E. apply Rabs_le_inv in E. unfold up. lra. Qed.

Lemma up_le x y : x <= y -> up x <= up y.
Proof. intros H. pose proof (up_mono _ _ H). unfold up. lra. Qed.

Lemma rnd_nonneg x : 0 <= x -> 0 <= rnd x.
Proof.
  intros H. rewrite <- (round_0 radix2 fexp64 (round_mode mode_NE)).
  apply round_le; [apply fexp_correct; exact HP | apply valid_rnd_round_mode | exact H].
Qed.

Lemma R_of_SF x : R_of x = SF2R radix2 (Prim2SF x).
Proof. unfold R_of, Prim2B. apply B2R_SF2B. Qed.

Definition MAXF : float := 0x1.fffffffffffffp+1023%float.

Lemma R_of_MAXF : R_of MAXF = bpow radix2 1024 - bpow radix2 971.
Proof.
  rewrite R_of_SF. replace (Prim2SF MAXF) with (S754_finite false 9007199254740991 971) by (vm_compute; reflexivity).
  unfold SF2R, F2R. simpl cond_Zopp. simpl Fnum. simpl Fexp.
  replace 1024%Z with (53 + 971)%Z by reflexivity. rewrite bpow_plus.
  replace (IZR 9007199254740991) with (bpow radix2 53 - 1).
  - ring.
  - change (bpow radix2 53) with (IZR (2 ^ 53)). rewrite <- minus_IZR. reflexivity.
Qed.

Lemma finite_le_MAXF x : finite x = true -> Rabs (R_of x) <= R_of MAXF.
Proof.
  intros _. rewrite R_of_MAXF. apply (abs_B2R_le_emax_minus_prec FloatOps.prec FloatOps.emax HP (Prim2B x)).
Qed.

Lemma eps100_fin : Bfin (Prim2B eps100) = true.
Proof. destruct eps100_B as (m & e & H & E). now rewrite E. Qed.
Lemma eps100_pos : 0 < R_of eps100.
Proof. destruct eps100_B as (m & e & H & E). unfold R_of. rewrite E. apply B2R_pos_finite_false. Qed.

(* MAX + eps100 = MAX: adding the guard of the relative denominator never overflows *)
Lemma rnd_MAX_eps : rnd (R_of MAXF + R_of eps100) = R_of MAXF.
Proof.
  assert (FM : Bfin (Prim2B MAXF) = true) by (rewrite <- fin_equiv; reflexivity).
  pose proof (Bplus_correct _ _ HP HM mode_NE (Prim2B MAXF) (Prim2B eps100) FM eps100_fin) as C.
  assert (E : Bplus mode_NE (Prim2B MAXF) (Prim2B eps100) = Prim2B MAXF).
  { rewrite <- add_equiv. f_equal. }
  rewrite E in C. destruct (Rlt_bool _ _) in C.
  - symmetry. apply C.
  - exfalso. destruct C as [C _]. revert C FM. destruct (Prim2B MAXF); unfold binary_overflow; simpl; intros C FM; try discriminate FM; discriminate C.
Qed.

Lemma add_eps_R m : nonneg_fin m = true ->
  finite (m + eps100)%float = true /\ R_of (m + eps100)%float = rnd (R_of m + R_of eps100).
Proof.
  intros Hm. destruct (nonneg_fin_B2R _ Hm) as (Fm & Pm & _).
  pose proof (Bplus_correct _ _ HP HM mode_NE (Prim2B m) (Prim2B eps100) Fm eps100_fin) as C.
  rewrite Rlt_bool_true in C.
  - rewrite fin_equiv. unfold R_of. rewrite add_equiv. split; apply C.
  - pose proof eps100_pos as PE. fold (R_of m) in *. fold (R_of eps100) in *.
    rewrite Rabs_pos_eq by (apply rnd_nonneg; lra).
    apply Rle_lt_trans with (R_of MAXF).
    + rewrite <- rnd_MAX_eps. apply round_le; [apply fexp_correct; exact HP | apply valid_rnd_round_mode |].
      assert (X := finite_le_MAXF m). rewrite fin_equiv in X. specialize (X Fm). apply Rabs_le_inv in X. lra.
    + rewrite R_of_MAXF. pose proof (bpow_gt_0 radix2 971). change FloatOps.emax with 1024%Z. lra.
Qed.

Lemma ltb_R x y : finite x = true -> finite y = true -> ((x <? y)%float = true <-> R_of x < R_of y).
Proof.
  rewrite !fin_equiv, ltb_equiv. unfold R_of. intros Fx Fy.
  rewrite (Bltb_correct _ _ (Prim2B x) (Prim2B y) Fx Fy).
  destruct (Rlt_bool_spec (B2R (Prim2B x)) (B2R (Prim2B y))); split; auto; try discriminate; lra.
Qed.

Lemma fmin_R x y : finite x = true -> finite y = true -> R_of (fmin x y) = Rmin (R_of x) (R_of y).
Proof.
  intros Fx Fy. unfold fmin. pose proof (ltb_R y x Fy Fx) as L.
  destruct (y <? x)%float.
  - rewrite Rmin_right; auto. apply Rlt_le, L; auto.
  - rewrite Rmin_left; auto. apply Rnot_lt_le. intros H. apply L in H. discriminate.
Qed.

Lemma abs_sign_false x : finite x = true -> Bsign (Prim2B (abs x)) = false.
Proof. rewrite fin_equiv, abs_equiv. now destruct (Prim2B x). Qed.

Lemma posnz_fin_pos d : posnz d = true -> finite d = true -> 0 < R_of d /\ Bsign (Prim2B d) = false.
Proof.
  unfold posnz, R_of. rewrite fin_equiv.
  destruct (Prim2B d) as [s|s| |s m e H]; try discriminate; destruct s; try discriminate; intros _ _.
  split; auto. apply B2R_pos_finite_false.
Qed.

(* fl(n / d) <= p, n >= 0, d > 0 finite  =>  N <= up P * D (an overflowing quotient is +inf and is rejected) *)
Lemma div_le_real n d p : finite n = true -> finite d = true -> Bsign (Prim2B n) = false -> Bsign (Prim2B d) = false ->
  0 < R_of d -> finite p = true -> (n / d <=? p)%float = true -> R_of n <= up (R_of p) * R_of d.
Proof.
  intros Fn Fd Sn Sd Pd Fp H.
  assert (Zd : B2R (Prim2B d) <> 0) by (fold (R_of d); lra).
  pose proof (Bdiv_correct _ _ HP HM mode_NE (Prim2B n) (Prim2B d) Zd) as C.
  destruct (Rlt_bool _ _) in C.
  - destruct C as (C1 & C2 & _).
    assert (Fq : finite (n / d)%float = true) by (rewrite fin_equiv, div_equiv, C2, <- fin_equiv; exact Fn).
    pose proof (leb_R _ _ Fq Fp H) as L. unfold R_of at 1 in L. rewrite div_equiv, C1 in L.
    apply rnd_le_up in L. fold (R_of n) (R_of d) in L.
    replace (R_of n) with (R_of n / R_of d * R_of d) by (field; lra).
    apply Rmult_le_compat_r; lra.
  - exfalso. rewrite Sn, Sd in C. unfold binary_overflow in C. simpl in C.
    revert H. rewrite leb_equiv. unfold Bleb. rewrite div_equiv, C.
    rewrite fin_equiv in Fp. destruct (Prim2B p) as [s|s| |s m e Hb]; try discriminate; simpl; try discriminate; destruct s; discriminate.
Qed.

(* |A - B| <= up (up P * up (min(|A|,|B|) + 100*DBL_MIN)) *)
Definition relative_within_R (prec a b : float) : Prop :=
  Rabs (R_of a - R_of b) <= up (up (R_of prec) * up (Rmin (Rabs (R_of a)) (Rabs (R_of b)) + R_of eps100)).

Lemma rel_le_real a b p : finite p = true -> (rel_err a b <=? p)%float = true ->
  finite a = true /\ finite b = true /\ relative_within_R p a b.
Proof.
  intros Fp H. destruct (rel_le_finite _ _ _ H Fp) as (Fa & Fb). repeat split; auto.
  assert (Fs : finite (a - b)%float = true).
  { destruct (finite (a - b)%float) eqn:E; auto.
    rewrite (pinf_or_nan_not_le _ _ (rel_err_nonfinite _ _ E) Fp) in H. discriminate. }
  set (n := abs (a - b)) in *. set (m := fmin (abs a) (abs b)) in *.
  assert (Fn : finite n = true) by (unfold n; now rewrite abs_finite).
  assert (Hm : nonneg_fin m = true) by (unfold m; destruct (fmin_cases (abs a) (abs b)) as [-> | ->]; now apply abs_nonneg_fin).
  destruct (add_eps_R m Hm) as (Fd & Rd).
  destruct (posnz_fin_pos _ (plus_eps_posnz m Hm) Fd) as (Pd & Sd).
  unfold rel_err in H. fold n m in H.
  pose proof (div_le_real n (m + eps100)%float p Fn Fd (abs_sign_false _ Fs) Sd Pd Fp H) as L.
  assert (RN : R_of n = Rabs (rnd (R_of a - R_of b))) by (unfold n; rewrite abs_R, sub_R; auto).
  assert (RM : R_of m = Rmin (Rabs (R_of a)) (Rabs (R_of b))).
  { unfold m. rewrite fmin_R, !abs_R; auto; now rewrite abs_finite. }
  assert (N0 : 0 <= R_of n) by (rewrite RN; apply Rabs_pos).
  pose proof (rnd_le_up_x (R_of m + R_of eps100)) as UD. rewrite <- Rd in UD.
  unfold relative_within_R. rewrite <- RM.
  apply Rle_trans with (up (R_of n)).
  - apply rnd_abs_le_up. rewrite RN. apply Rle_refl.
  - apply up_le. set (D := R_of (m + eps100)%float) in *. set (UP := up (R_of p)) in *.
    assert (0 <= UP) by (destruct (Rle_or_lt 0 UP); auto; exfalso; nra).
    apply Rle_trans with (UP * D); auto. apply Rmult_le_compat_l; auto.
Qed.

Lemma relative_sound_real prec rows : Finite prec -> relative TolNotLe prec rows = true ->
  rows_sound (relative_within_R prec) rows.
Proof.
  intros Hp H a b Hin. pose proof (verdict_in _ _ H (a, b) Hin) as F. unfold relative_row_fails in F. simpl in F.
  apply exceeds_notle_false in F. exact (rel_le_real a b prec Hp F).
Qed.

Definition relabs_within_R (prec prec2 a b : float) : Prop := relative_within_R prec a b \/ absolute_within_R prec2 a b.

Lemma relabs_sound_real prec prec2 rows : Finite prec -> Finite prec2 -> relabs TolNotLe prec prec2 rows = true ->
  rows_sound (relabs_within_R prec prec2) rows.
Proof.
  intros Hp Hp2 H a b Hin. pose proof (verdict_in _ _ H (a, b) Hin) as F. unfold relabs_row_fails in F. simpl in F.
  apply andb_false_iff in F. destruct F as [F|F]; apply exceeds_notle_false in F.
  - destruct (rel_le_real a b prec Hp F) as (Fa & Fb & W). repeat split; auto. now left.
  - destruct (abs_le_real a b prec2 Hp2 F) as (Fa & Fb & W). repeat split; auto. now right.
Qed.

(* the guard of the relative denominator is exactly 100 * 2^-1022 *)
Lemma R_of_eps100 : R_of eps100 = 100 * bpow radix2 (-1022).
Proof.
  rewrite R_of_SF. replace (Prim2SF eps100) with (S754_finite false 7036874417766400 (-1068)) by (vm_compute; reflexivity).
  unfold SF2R, F2R. simpl cond_Zopp. simpl Fnum. simpl Fexp.
  replace (-1022)%Z with (46 + -1068)%Z by reflexivity. rewrite bpow_plus.
  replace (IZR 7036874417766400) with (100 * bpow radix2 46).
  - ring.
  - change (bpow radix2 46) with (IZR (2 ^ 46)). rewrite <- mult_IZR. reflexivity.
Qed.

(* ---------------------------------------------------------------- mixed criterion *)
Lemma mul_R x y : finite (x * y)%float = true -> R_of (x * y)%float = rnd (R_of x * R_of y).
Proof.
  rewrite fin_equiv. unfold R_of. rewrite mul_equiv. intros Fm.
  pose proof (Bmult_correct _ _ HP HM mode_NE (Prim2B x) (Prim2B y)) as C.
  destruct (Rlt_bool _ _) in C.
  - apply C.
  - exfalso. revert C Fm. destruct (Bmult mode_NE (Prim2B x) (Prim2B y)); unfold binary_overflow; simpl; intros C Fm;
      try discriminate Fm; discriminate C.
Qed.

Lemma pinf_or_nan_sub_inv x y : pinf_or_nan (x - y)%float = false -> pinf_or_nan x = false.
Proof. intros H. destruct (pinf_or_nan x) eqn:E; auto. now rewrite (pinf_or_nan_sub _ y E) in H. Qed.

(* a non-negative finite minus a finite number is finite unless it overflows to +inf *)
Lemma sub_finite_pos x y : finite x = true -> finite y = true -> Bsign (Prim2B x) = false ->
  pinf_or_nan (x - y)%float = false -> finite (x - y)%float = true.
Proof.
  rewrite !fin_equiv. unfold pinf_or_nan. rewrite sub_equiv. intros Fx Fy Sx.
  pose proof (Bminus_correct _ _ HP HM mode_NE _ _ Fx Fy) as C.
  destruct (Rlt_bool _ _) in C.
  - intros _. apply C.
  - destruct C as [C _]. rewrite Sx in C. unfold binary_overflow in C. simpl in C.
    destruct (Bminus mode_NE (Prim2B x) (Prim2B y)) as [s|s| |s m e Hb]; simpl in C; try discriminate C; auto.
    inversion C. subst s. discriminate.
Qed.

Lemma sign_R x : finite x = true -> (Bsign (Prim2B x) = true -> R_of x <= 0) /\ (Bsign (Prim2B x) = false -> 0 <= R_of x).
Proof.
  rewrite fin_equiv. unfold R_of. destruct (Prim2B x) as [s|s| |s m e Hb]; try discriminate; intros _; simpl.
  - split; intros _; lra.
  - split; intros ->; [apply F2R_le_0 | apply F2R_ge_0]; simpl; lia.
Qed.

(* fl(x - y) <= 0 for finite x, y  =>  X - Y <= 2^-1075 (an overflow to -inf has X <= 0 <= Y) *)
Lemma sub_le0_real x y : finite x = true -> finite y = true -> (x - y <=? 0)%float = true -> R_of x - R_of y <= eta_rnd.
Proof.
  intros Fx Fy H. pose proof Fx as Fx'. pose proof Fy as Fy'. rewrite fin_equiv in Fx', Fy'.
  pose proof (Bminus_correct _ _ HP HM mode_NE _ _ Fx' Fy') as C.
  destruct (Rlt_bool _ _) in C.
  - destruct C as (C1 & C2 & _).
    assert (Fs : finite (x - y)%float = true) by (rewrite fin_equiv, sub_equiv; exact C2).
    assert (F0 : finite 0%float = true) by reflexivity.
    pose proof (leb_R _ _ Fs F0 H) as L. unfold R_of at 1 in L. rewrite sub_equiv, C1 in L.
    replace (R_of 0%float) with 0 in L by (unfold R_of; rewrite Prim2B_zero; reflexivity).
    apply rnd_le_up in L. unfold up in L. rewrite Rabs_R0 in L. fold (R_of x) (R_of y) in L. lra.
  - destruct C as (C & Sxy). unfold binary_overflow in C. simpl in C.
    assert (Sx : Bsign (Prim2B x) = true).
    { revert H. rewrite leb_equiv, Prim2B_zero. unfold Bleb. rewrite sub_equiv, C. destruct (Bsign (Prim2B x)); auto. }
    rewrite Sx in Sxy. destruct (Bsign (Prim2B y)) eqn:Sy; [discriminate|].
    pose proof (proj1 (sign_R x Fx) Sx). pose proof (proj2 (sign_R y Fy) Sy). pose proof eta_rnd_pos. lra.
Qed.

(* |A - B| <= up (up (prec |B|) + up (prec2 + 2^-1075)) *)
Definition mixed_within_R (prec prec2 a b : float) : Prop :=
  Rabs (R_of a - R_of b) <= up (up (R_of prec * Rabs (R_of b)) + up (R_of prec2 + eta_rnd)).

Lemma mixed_le_real prec prec2 a b : finite prec2 = true -> finite (prec * abs b)%float = true ->
  (mixed_err MixAbs prec prec2 a b <=? 0)%float = true ->
  finite a = true /\ finite b = true /\ mixed_within_R prec prec2 a b.
Proof.
  intros Fp2 Fr H. destruct (mixed_le_finite _ _ _ _ _ H) as (Fa & Fb). repeat split; auto.
  unfold mixed_err in H. set (n := abs (a - b)) in *. set (r := (prec * abs b)%float) in *.
  assert (F0 : finite 0%float = true) by reflexivity.
  pose proof (le_finite_r _ _ H F0) as P2.
  pose proof (pinf_or_nan_sub_inv _ _ P2) as P1.
  pose proof (pinf_or_nan_sub_inv _ _ P1) as Pn.
  assert (Fs : finite (a - b)%float = true) by (apply finite_or_pn; exact Pn).
  assert (Fn : finite n = true) by (unfold n; now rewrite abs_finite).
  assert (F1 : finite (n - r)%float = true) by (apply sub_finite_pos; auto; apply abs_sign_false; exact Fs).
  pose proof (sub_le0_real _ _ F1 Fp2 H) as L2.
  rewrite (sub_R n r Fn Fr F1) in L2.
  assert (L1 : rnd (R_of n - R_of r) <= R_of prec2 + eta_rnd) by lra.
  apply rnd_le_up in L1.
  assert (RN : R_of n = Rabs (rnd (R_of a - R_of b))) by (unfold n; rewrite abs_R, sub_R; auto).
  assert (RR : R_of r <= up (R_of prec * Rabs (R_of b))).
  { unfold r. rewrite mul_R by exact Fr. rewrite abs_R. apply rnd_le_up_x. }
  unfold mixed_within_R. apply Rle_trans with (up (R_of n)).
  - apply rnd_abs_le_up. rewrite RN. apply Rle_refl.
  - apply up_le. lra.
Qed.


(* an overflowing product is larger than every finite double *)
Lemma rnd_MAXF : rnd (R_of MAXF) = R_of MAXF.
Proof. apply round_generic; [apply valid_rnd_round_mode|]. unfold R_of. apply generic_format_B2R. Qed.

Lemma overflow_gt_MAXF x : Rlt_bool (Rabs (rnd x)) (bpow radix2 FloatOps.emax) = false -> R_of MAXF < Rabs x.
Proof.
  intros H. destruct (Rlt_or_le (R_of MAXF) (Rabs x)) as [L|L]; auto. exfalso.
  rewrite Rlt_bool_true in H; [discriminate|].
  simpl round_mode. rewrite <- round_NE_abs by (apply fexp_correct; exact HP).
  apply Rle_lt_trans with (R_of MAXF).
  - rewrite <- rnd_MAXF. apply round_le; [apply fexp_correct; exact HP | apply valid_rnd_round_mode | exact L].
  - rewrite R_of_MAXF. pose proof (bpow_gt_0 radix2 971). change FloatOps.emax with 1024%Z. lra.
Qed.

Lemma le_up x : x <= up x.
Proof. unfold up. pose proof u_rnd_bounds. pose proof eta_rnd_pos. pose proof (Rabs_pos x). nra. Qed.

(* without the side condition on prec * |b|: the absolute tolerance must not be negative then *)
Lemma mixed_le_real_ovf prec prec2 a b : finite prec = true -> finite prec2 = true -> nonneg prec2 ->
  (mixed_err MixAbs prec prec2 a b <=? 0)%float = true ->
  finite a = true /\ finite b = true /\ mixed_within_R prec prec2 a b.
Proof.
  intros Fp Fp2 Np2 H. destruct (finite (prec * abs b)%float) eqn:Fr; [now apply mixed_le_real|].
  destruct (mixed_le_finite _ _ _ _ _ H) as (Fa & Fb). repeat split; auto.
  unfold mixed_err in H. set (n := abs (a - b)) in *. set (r := (prec * abs b)%float) in *.
  assert (F0 : finite 0%float = true) by reflexivity.
  pose proof (le_finite_r _ _ H F0) as P2.
  pose proof (pinf_or_nan_sub_inv _ _ P2) as P1.
  pose proof (pinf_or_nan_sub_inv _ _ P1) as Pn.
  assert (Fs : finite (a - b)%float = true) by (apply finite_or_pn; exact Pn).
  assert (Fn : finite n = true) by (unfold n; now rewrite abs_finite).
  assert (Fab : finite (abs b) = true) by now rewrite abs_finite.
  pose proof (Bmult_correct _ _ HP HM mode_NE (Prim2B prec) (Prim2B (abs b))) as C.
  destruct (Rlt_bool _ _) eqn:OV in C.
  - exfalso. destruct C as (_ & C & _). unfold r in Fr. rewrite fin_equiv, mul_equiv, C, <- !fin_equiv, Fp, Fab in Fr. discriminate.
  - rewrite (abs_sign_false b Fb) in C. unfold binary_overflow in C. simpl in C. rewrite xorb_false_r in C.
    destruct (Bsign (Prim2B prec)) eqn:Sp.
    + exfalso. revert P1. unfold pinf_or_nan. rewrite sub_equiv. unfold r. rewrite mul_equiv.
      rewrite fin_equiv in Fn.
      destruct (Bmult mode_NE (Prim2B prec) (Prim2B (abs b))) as [s|s| |s m e Hb]; simpl in C; try discriminate C.
      inversion C. subst s. destruct (Prim2B n) as [s'|s'| |s' m' e' Hb']; try discriminate Fn; simpl; discriminate.
    + apply overflow_gt_MAXF in OV. fold (R_of prec) (R_of (abs b)) in OV. rewrite abs_R in OV.
      pose proof (proj2 (sign_R prec Fp) Sp) as P0.
      rewrite Rabs_pos_eq in OV by (apply Rmult_le_pos; [exact P0|apply Rabs_pos]).
      pose proof (finite_le_MAXF n Fn) as NM. apply Rabs_le_inv in NM.
      assert (RN : R_of n = Rabs (rnd (R_of a - R_of b))) by (unfold n; rewrite abs_R, sub_R; auto).
      assert (Q2 : 0 <= R_of prec2).
      { replace 0 with (R_of 0%float) by (unfold R_of; rewrite Prim2B_zero; reflexivity). now apply leb_R. }
      unfold mixed_within_R. apply Rle_trans with (up (R_of n)).
      * apply rnd_abs_le_up. rewrite RN. apply Rle_refl.
      * apply up_le. pose proof (le_up (R_of prec * Rabs (R_of b))). pose proof (le_up (R_of prec2 + eta_rnd)).
        pose proof eta_rnd_pos. lra.
Qed.

Lemma mixed_sound_real prec prec2 rows : Finite prec2 ->
  (forall a b, In (a, b) rows -> Finite (prec * abs b)%float) ->
  mixed TolNotLe MixAbs prec prec2 rows = true -> rows_sound (mixed_within_R prec prec2) rows.
Proof.
  intros Hp2 Hr H a b Hin. pose proof (verdict_in _ _ H (a, b) Hin) as F. unfold mixed_row_fails in F. simpl in F.
  apply exceeds_notle_false in F. exact (mixed_le_real prec prec2 a b Hp2 (Hr a b Hin) F).
Qed.

Lemma mixed_sound_real_nonneg prec prec2 rows : Finite prec -> Finite prec2 -> nonneg prec2 ->
  mixed TolNotLe MixAbs prec prec2 rows = true -> rows_sound (mixed_within_R prec prec2) rows.
Proof.
  intros Hp Hp2 Np2 H a b Hin. pose proof (verdict_in _ _ H (a, b) Hin) as F. unfold mixed_row_fails in F. simpl in F.
  apply exceeds_notle_false in F. exact (mixed_le_real_ovf prec prec2 a b Hp Hp2 Np2 F).
Qed.

(* C51 -- proofs about the general Area model (area_g): normalisation variants, any interpolation. *)
From Flocq Require Import Core BinarySingleNaN PrimFloat.
From Coq Require Import List Bool ZArith Reals Lia Lra Floats.
From C51 Require Import C51Model C51Spec C51Proofs.
#[local] Existing Instance Flocq.IEEE754.PrimFloat.Hprec.
#[local] Existing Instance Flocq.IEEE754.PrimFloat.Hmax.
Import ListNotations.
Local Open Scope float_scope.

Lemma area_is_area_g k interp prec tA vA tB vB :
  area k interp prec tA vA tB vB = area_g k NormMax (fun _ _ => interp) prec tA vA tB vB.
Proof.
  unfold area, area_g, area_value, area_value_g, normalise.
  destruct (merge_into interp tA tB vB) as (tB1, vB1). destruct (merge_into interp tB1 tA vA) as (tA1, vA1).
  destruct (absdiffs vA1 vB1); auto.
Qed.

Lemma area_g_above_tolerance_fails k nk mk prec tA vA tB vB ar :
  area_value_g nk mk tA vA tB vB = Some ar -> exceeds k ar prec = true -> area_g k nk mk prec tA vA tB vB = Some false.
Proof. intros E H. unfold area_g. rewrite E. now rewrite H. Qed.

(* on a common ordered grid nothing is inserted, whatever the interpolation *)
Lemma area_value_g_same_grid nk mk ts va vb : ordered_abscissas ts ->
  area_value_g nk mk ts va ts vb =
  match absdiffs va vb with
  | None => None
  | Some ds => match trapz 0 ts ds with None => None | Some ar => normalise nk ar va end
  end.
Proof.
  intros Ho. unfold area_value_g.
  rewrite merge_into_id by (intros; now apply ordered_insert_id).
  rewrite merge_into_id by (intros; now apply ordered_insert_id).
  reflexivity.
Qed.

Lemma absdiffs_gaps va : forall vb, length va = length vb -> absdiffs va vb = Some (gaps va vb).
Proof.
  induction va as [|a va IH]; intros [|b vb] Hl; try discriminate; auto.
  simpl in Hl. simpl. rewrite IH by lia. reflexivity.
Qed.

Lemma gaps_length va : forall vb, length va = length vb -> length (gaps va vb) = length va.
Proof. intros vb Hl. unfold gaps. rewrite map_length, combine_length. lia. Qed.

Lemma trapz_segments ts : forall ds acc, ts <> [] -> length ds = length ts ->
  trapz acc ts ds = Some (fold_left PrimFloat.add (segments ts ds) acc).
Proof.
  induction ts as [|t0 ts IH]; intros ds acc Hne Hl; [congruence|].
  destruct ts as [|t1 ts].
  - destruct ds as [|d0 [|d1 ds]]; try discriminate; reflexivity.
  - destruct ds as [|d0 [|d1 ds]]; try discriminate.
    change (trapz acc (t0 :: t1 :: ts) (d0 :: d1 :: ds)) with (trapz (acc + ((t1 - t0) * (d1 + d0)) / 2) (t1 :: ts) (d1 :: ds)).
    rewrite IH; try discriminate; [reflexivity | simpl in *; lia].
Qed.

Lemma normalise_abs_spec ts va vb : va <> [] ->
  normalise NormAbsMax (area_between ts va vb) va = Some (normalised_area ts va vb).
Proof.
  destruct va as [|v0 va]; [congruence|]. intros _. unfold normalise, normalised_area, fneq, fmax_abs_list, largest_magnitude.
  simpl hd. destruct (area_between ts (v0 :: va) vb =? 0); reflexivity.
Qed.

Lemma area_g_same_grid k mk prec ts va vb : ordered_abscissas ts -> ts <> [] ->
  length va = length ts -> length vb = length ts ->
  area_g k NormAbsMax mk prec ts va ts vb = Some (negb (exceeds k (normalised_area ts va vb) prec)).
Proof.
  intros Ho Hne Ha Hb. unfold area_g. rewrite area_value_g_same_grid by auto.
  rewrite absdiffs_gaps by congruence.
  rewrite trapz_segments; auto; [|rewrite gaps_length; congruence].
  change (fold_left PrimFloat.add (segments ts (gaps va vb)) 0) with (area_between ts va vb).
  rewrite normalise_abs_spec; auto. destruct va; [destruct ts; [congruence|discriminate]|discriminate].
Qed.

(* success => the normalised area is (not NaN and) within the tolerance *)
Lemma area_same_grid_sound mk prec ts va vb : ordered_abscissas ts -> ts <> [] ->
  length va = length ts -> length vb = length ts ->
  area_g TolNotLe NormAbsMax mk prec ts va ts vb = Some true -> le_tol (normalised_area ts va vb) prec.
Proof.
  intros Ho Hne Ha Hb. rewrite area_g_same_grid by auto. intros E. inversion E as [E'].
  apply negb_true_iff in E'. now apply exceeds_notle_false.
Qed.

(* a normalised area that is not within the tolerance (above it, or NaN) is rejected *)
Lemma area_same_grid_complete mk prec ts va vb : ordered_abscissas ts -> ts <> [] ->
  length va = length ts -> length vb = length ts ->
  (normalised_area ts va vb <=? prec) = false -> area_g TolNotLe NormAbsMax mk prec ts va ts vb = Some false.
Proof. intros Ho Hne Ha Hb H. rewrite area_g_same_grid by auto. simpl. now rewrite H. Qed.

(* ---------------------------------------------------------------- identical finite curves: exact zero *)

Lemma zero_add x y : is_zero_b x = true -> is_zero_b y = true -> is_zero_b (x + y) = true.
Proof.
  unfold is_zero_b. rewrite add_equiv.
  destruct (Prim2B x) as [sa|sa| |sa ma ea Ha]; try discriminate;
  destruct (Prim2B y) as [sb|sb| |sb mb eb Hb]; try discriminate; simpl. now destruct (Bool.eqb sa sb).
Qed.
Lemma fin_mul_zero x y : finite x = true -> is_zero_b y = true -> is_zero_b (x * y) = true.
Proof.
  unfold is_zero_b. rewrite fin_equiv, mul_equiv.
  destruct (Prim2B y) as [sb|sb| |sb mb eb Hb]; try discriminate;
  destruct (Prim2B x) as [sa|sa| |sa ma ea Ha]; simpl; auto; discriminate.
Qed.
Lemma posnz_two : posnz 2 = true.
Proof. reflexivity. Qed.

Lemma segments_zero ts : forall ds, steps_finite ts -> (forall d, In d ds -> is_zero_b d = true) ->
  forall s, In s (segments ts ds) -> is_zero_b s = true.
Proof.
  induction ts as [|t0 ts IH]; intros ds Hs Hd s Hin; [destruct Hin|].
  destruct ts as [|t1 ts]; [destruct Hin|].
  destruct ds as [|d0 [|d1 ds]]; try (now destruct Hin).
  change (segments (t0 :: t1 :: ts) (d0 :: d1 :: ds)) with (((t1 - t0) * (d1 + d0)) / 2 :: segments (t1 :: ts) (d1 :: ds)) in Hin.
  destruct Hin as [<-|Hin].
  - apply zero_div_posnz; [|apply posnz_two]. apply fin_mul_zero.
    + apply (Hs 0%nat t0 t1); reflexivity.
    + apply zero_add; apply Hd; simpl; auto.
  - apply (IH (d1 :: ds)); auto.
    + intros i ti tj Hi Hj. apply (Hs (S i) ti tj); auto.
    + intros d Hd'. apply Hd. simpl in *. tauto.
Qed.

Lemma fold_add_zero l : forall acc, is_zero_b acc = true -> (forall s, In s l -> is_zero_b s = true) ->
  is_zero_b (fold_left PrimFloat.add l acc) = true.
Proof.
  induction l as [|s l IH]; intros acc Ha Hl; simpl; auto.
  apply IH; [apply zero_add; auto; apply Hl; simpl; auto | intros; apply Hl; simpl; auto].
Qed.

Lemma zero_eqb_zero z : is_zero_b z = true -> (z =? 0) = true.
Proof.
  unfold is_zero_b. rewrite eqb_equiv, Prim2B_zero. unfold Beqb.
  destruct (Prim2B z) as [sa|sa| |sa ma ea Ha]; try discriminate. reflexivity.
Qed.

Lemma area_identical_fixed k mk prec ts vs : ordered_abscissas ts -> ts <> [] -> length vs = length ts ->
  steps_finite ts -> all_finite vs -> nonneg prec -> area_g k NormAbsMax mk prec ts vs ts vs = Some true.
Proof.
  intros Ho Hne Hl Hs Hf Hp. rewrite area_g_same_grid by auto. f_equal. apply negb_true_iff.
  assert (Z : is_zero_b (area_between ts vs vs) = true).
  { unfold area_between. apply fold_add_zero; [reflexivity|].
    apply segments_zero; auto. intros d Hd. unfold gaps in Hd. apply in_map_iff in Hd.
    destruct Hd as ((a, b) & <- & Hab). pose proof (in_combine_l _ _ _ _ Hab) as Ia.
    assert (a = b) as <-.
    { clear - Hab. induction vs; simpl in Hab; [tauto|]. destruct Hab as [E|H]; [now inversion E|auto]. }
    simpl. apply abs_zero, sub_self_zero, Hf, Ia. }
  unfold normalised_area. rewrite (zero_eqb_zero _ Z). now apply zero_not_exceeds.
Qed.

(* identical curves in the pinned form, any interpolation (NaN and infinities included) *)
Lemma area_identical_pinned mk prec ts vs : ordered_abscissas ts -> ts <> [] -> length vs = length ts ->
  (prec <? 0) = false -> area_g TolGt NormMax mk prec ts vs ts vs = Some true.
Proof.
  intros Ho Hne Hl Hp. unfold area_g. rewrite area_value_g_same_grid by auto.
  rewrite absdiffs_self.
  destruct (trapz_zn ts (map (fun a => abs (a - a)) vs) 0) as (r & -> & Zr); auto.
  - now rewrite map_length.
  - intros d Hd. apply in_map_iff in Hd. destruct Hd as (a & <- & _). apply abs_zn, sub_self_zn.
  - destruct vs as [|v0 vs']. { destruct ts; [congruence|discriminate]. }
    simpl. rewrite zn_not_gt; auto. now apply zn_div.
Qed.

(* ---------------------------------------------------------------- the pinned form is refuted *)
Lemma area_pinned_refuted_negative_reference : exists prec ts va vb,
  Finite prec /\ ordered_abscissas ts /\ all_finite va /\ all_finite vb /\
  area_g TolGt NormMax none_mk prec ts va ts vb = Some true /\ above_tol (normalised_area ts va vb) prec.
Proof.
  exists 0x1p-10, [0; 1], [-1; -1], [-100; -100].
  split; [reflexivity|]. split.
  - split.
    + intros t [<-|[<-|[]]]; reflexivity.
    + intros i j ti tj Hij Hi Hj. destruct i as [|[|i]], j as [|[|j]]; simpl in Hi, Hj; try lia;
        try (destruct i; discriminate); try (destruct j; discriminate); inversion Hi; inversion Hj; subst; reflexivity.
  - split; [intros a [<-|[<-|[]]]; reflexivity|]. split; [intros a [<-|[<-|[]]]; reflexivity|].
    split; vm_compute; reflexivity.
Qed.

Lemma area_pinned_refuted_nan : exists prec ts va vb,
  Finite prec /\ ordered_abscissas ts /\
  area_g TolGt NormMax none_mk prec ts va ts vb = Some true /\ ~ le_tol (normalised_area ts va vb) prec.
Proof.
  exists 0x1p-10, [0; 1], [1; nan], [1; 2].
  split; [reflexivity|]. split.
  - split.
    + intros t [<-|[<-|[]]]; reflexivity.
    + intros i j ti tj Hij Hi Hj. destruct i as [|[|i]], j as [|[|j]]; simpl in Hi, Hj; try lia;
        try (destruct i; discriminate); try (destruct j; discriminate); inversion Hi; inversion Hj; subst; reflexivity.
  - split; [vm_compute; reflexivity|]. unfold le_tol. vm_compute. discriminate.
Qed.

Lemma area_same_grid_above_fails mk prec ts va vb : ordered_abscissas ts -> ts <> [] ->
  length va = length ts -> length vb = length ts ->
  (above_tol (normalised_area ts va vb) prec \/ ~ le_tol (normalised_area ts va vb) prec) ->
  area_g TolNotLe NormAbsMax mk prec ts va ts vb = Some false.
Proof.
  intros Ho Hne Ha Hb H. apply area_same_grid_complete; auto.
  destruct (normalised_area ts va vb <=? prec) eqn:E; auto. exfalso. destruct H as [H|H]; [|now apply H].
  unfold above_tol in H. revert E H. rewrite leb_equiv, ltb_equiv. unfold Bleb, Bltb, SFltb, SFleb.
  set (x := Prim2B (normalised_area ts va vb)). set (p := Prim2B prec).
  change (SFcompare (B2SF p) (B2SF x)) with (Bcompare p x).
  change (SFcompare (B2SF x) (B2SF p)) with (Bcompare x p).
  rewrite (Bcompare_swap _ _ x p). destruct (Bcompare x p) as [[| |]|]; simpl; discriminate.
Qed.

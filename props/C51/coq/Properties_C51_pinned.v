(* C51 -- theorems for the forms found in the pinned tree (`err > prec`, Mixed with prec*reference): used by
   the check while it observes that the code in /repo implements them (known findings F15 and Mixed/negative).
   The soundness statements are FALSE of these forms: refuted by witnesses; what still holds is proved.
   Statements only; proofs are in C51Proofs.v. *)
From Coq Require Import List.
From C51 Require Import C51Model C51Spec C51Proofs.
Import ListNotations.

Theorem C51_absolute_sound_refuted : exists prec rows, Finite prec /\
  absolute TolGt prec rows = true /\ ~ rows_sound (absolute_within prec) rows.
Proof. exact absolute_gt_refuted. Qed.
Print Assumptions C51_absolute_sound_refuted.

Theorem C51_relative_sound_refuted : exists prec rows, Finite prec /\
  relative TolGt prec rows = true /\ ~ rows_sound (relative_within prec) rows.
Proof. exact relative_gt_refuted. Qed.
Print Assumptions C51_relative_sound_refuted.

Theorem C51_relative_and_absolute_sound_refuted : exists prec prec2 rows, Finite prec /\ Finite prec2 /\
  relabs TolGt prec prec2 rows = true /\ ~ rows_sound (relabs_within prec prec2) rows.
Proof. exact relabs_gt_refuted. Qed.
Print Assumptions C51_relative_and_absolute_sound_refuted.

Theorem C51_mixed_sound_refuted : exists prec prec2 rows, Finite prec /\ Finite prec2 /\
  mixed TolGt MixSigned prec prec2 rows = true /\ ~ rows_sound (mixed_within_signed prec prec2) rows.
Proof. exact mixed_gt_refuted. Qed.
Print Assumptions C51_mixed_sound_refuted.

Theorem C51_mixed_self_comparison_refuted : exists k prec prec2 col, all_finite col /\ nonneg prec /\ nonneg prec2 /\
  mixed k MixSigned prec prec2 (self_rows col) = false.
Proof. exact mixed_signed_self_refuted. Qed.
Print Assumptions C51_mixed_self_comparison_refuted.

Theorem C51_reference_file_test_sound_refuted : exists eps refs rows, Finite eps /\
  reffile TolGt eps refs rows = Verdict true /\ ~ reffile_rows_sound eps refs rows.
Proof. exact reffile_gt_refuted. Qed.
Print Assumptions C51_reference_file_test_sound_refuted.

(* what holds of the pinned forms as well *)
Theorem C51_self_comparison_succeeds : forall k prec prec2 col, all_finite col -> nonneg prec ->
  absolute k prec (self_rows col) = true /\ relative k prec (self_rows col) = true /\
  relabs k prec prec2 (self_rows col) = true.
Proof. intros; exact (conj (absolute_self _ _ _ H H0) (conj (relative_self _ _ _ H H0) (relabs_self _ _ _ _ H H0))). Qed.
Print Assumptions C51_self_comparison_succeeds.

Theorem C51_analytical_test_sound : forall k eps rows, Finite eps ->
  analytical k eps rows = Verdict true -> analytical_rows_sound eps rows.
Proof. exact analytical_sound. Qed.
Print Assumptions C51_analytical_test_sound.

(* the NaN-safe forms (the proposed fix) are sound *)
Theorem C51_nan_safe_forms_sound : forall prec prec2 eps rows refs rrows, Finite prec -> Finite prec2 -> Finite eps ->
  (absolute TolNotLe prec rows = true -> rows_sound (absolute_within prec) rows) /\
  (relative TolNotLe prec rows = true -> rows_sound (relative_within prec) rows) /\
  (relabs TolNotLe prec prec2 rows = true -> rows_sound (relabs_within prec prec2) rows) /\
  (mixed TolNotLe MixAbs prec prec2 rows = true -> rows_sound (mixed_within prec prec2) rows) /\
  (reffile TolNotLe eps refs rrows = Verdict true -> reffile_rows_sound eps refs rrows).
Proof. intros; exact (conj (absolute_sound _ _ H) (conj (relative_sound _ _ H) (conj (relabs_sound _ _ _ H H0) (conj (mixed_sound _ _ _) (reffile_sound _ _ _ H1))))). Qed.
Print Assumptions C51_nan_safe_forms_sound.

(* C51 -- Area comparison, theorems for the corrected form (`!(area <= prec)`, area normalised by the largest
   magnitude of the reference curve, a null area left as it is): used by the check when the code in /repo is
   observed to implement this form.  Statements only; proofs are in C51AreaProofs.v.
   `mk` is the interpolation (None, Linear, anything): on a common grid no point is inserted. *)
From Coq Require Import List.
From C51 Require Import C51Model C51Spec C51Proofs C51AreaProofs.
Import ListNotations.

(* identical finite curves on ordered abscissas succeed, whatever the interpolation and the form of the test *)
Theorem C51_area_identical_curves_succeed : forall k mk prec ts vs, ordered_abscissas ts -> ts <> [] ->
  length vs = length ts -> steps_finite ts -> all_finite vs -> nonneg prec ->
  area_g k NormAbsMax mk prec ts vs ts vs = Some true.
Proof. exact area_identical_fixed. Qed.
Print Assumptions C51_area_identical_curves_succeed.

(* two curves on the same ordered grid: success => the normalised area of the specification is within the
   tolerance (in particular it is not NaN) *)
Theorem C51_area_same_grid_sound : forall mk prec ts va vb, ordered_abscissas ts -> ts <> [] ->
  length va = length ts -> length vb = length ts ->
  area_g TolNotLe NormAbsMax mk prec ts va ts vb = Some true -> le_tol (normalised_area ts va vb) prec.
Proof. exact area_same_grid_sound. Qed.
Print Assumptions C51_area_same_grid_sound.

(* ... and a normalised area above the tolerance (or NaN) is rejected *)
Theorem C51_area_same_grid_above_tolerance_fails : forall mk prec ts va vb, ordered_abscissas ts -> ts <> [] ->
  length va = length ts -> length vb = length ts ->
  (above_tol (normalised_area ts va vb) prec \/ ~ le_tol (normalised_area ts va vb) prec) ->
  area_g TolNotLe NormAbsMax mk prec ts va ts vb = Some false.
Proof. exact area_same_grid_above_fails. Qed.
Print Assumptions C51_area_same_grid_above_tolerance_fails.

(* any grids, any interpolation: the verdict is the tolerance test on the computed normalised area *)
Theorem C51_area_above_tolerance_fails : forall k nk mk prec tA vA tB vB ar,
  area_value_g nk mk tA vA tB vB = Some ar -> exceeds k ar prec = true -> area_g k nk mk prec tA vA tB vB = Some false.
Proof. exact area_g_above_tolerance_fails. Qed.
Print Assumptions C51_area_above_tolerance_fails.

(* C51 -- executable models (definitions only) of the five tfel-check comparisons
   (tfel-check/src/{Absolute,Relative,RelativeAndAbsolute,Mixed,Area}Comparison.cxx, method compare())
   and of the two MTest tests (mtest/src/AnalyticalTest.cxx, ReferenceFileComparisonTest.cxx, method check()),
   on Coq's primitive floats (IEEE-754 binary64, round to nearest even = the C++ `double` arithmetic
   compiled with -ffp-contract=off).

   The test that decides whether an error exceeds a tolerance is a parameter of the models:
     TolGt    : `err > prec`        (what the pinned tree writes; false when err is NaN)
     TolNotLe : `!(err <= prec)`    (the NaN-safe form)
   The check finds out which one the code in /repo implements by running it (correspondence). *)
From Coq Require Import Floats List Bool ZArith.
Import ListNotations.
Local Open Scope float_scope.

Inductive tolkind := TolGt | TolNotLe.

Definition exceeds (k : tolkind) (e p : float) : bool :=
  match k with
  | TolGt => PrimFloat.ltb p e
  | TolNotLe => negb (PrimFloat.leb e p)
  end.

(* 100 * std::numeric_limits<double>::min() *)
Definition eps100 : float := 100 * 0x1p-1022.

(* std::min(x, y) = (y < x) ? y : x *)
Definition fmin (x y : float) : float := if PrimFloat.ltb y x then y else x.

Definition abs_err (a b : float) : float := abs (a - b).
Definition rel_err (a b : float) : float := abs (a - b) / (fmin (abs a) (abs b) + eps100).
(* Mixed: the relative part of the tolerance is `prec * vb` in the pinned tree (MixSigned: negative for a
   negative reference value) or `prec * |vb|` (MixAbs) *)
Inductive mixedkind := MixSigned | MixAbs.
Definition mixed_err (mk : mixedkind) (prec prec2 a b : float) : float :=
  abs (a - b) - prec * (match mk with MixSigned => b | MixAbs => abs b end) - prec2.

(* one row fails *)
Definition absolute_row_fails k prec (r : float * float) : bool :=
  exceeds k (abs_err (fst r) (snd r)) prec.
Definition relative_row_fails k prec (r : float * float) : bool :=
  exceeds k (rel_err (fst r) (snd r)) prec.
Definition relabs_row_fails k prec prec2 (r : float * float) : bool :=
  exceeds k (rel_err (fst r) (snd r)) prec && exceeds k (abs_err (fst r) (snd r)) prec2.
Definition mixed_row_fails k mk prec prec2 (r : float * float) : bool :=
  exceeds k (mixed_err mk prec prec2 (fst r) (snd r)) 0.

(* verdict (hasSucceed) and number of failed rows ("Failed comparisons (for column)") *)
Definition verdict (fails : float * float -> bool) (rows : list (float * float)) : bool :=
  forallb (fun r => negb (fails r)) rows.
Definition nfailed (fails : float * float -> bool) (rows : list (float * float)) : nat :=
  length (filter fails rows).

Definition absolute k prec rows := verdict (absolute_row_fails k prec) rows.
Definition relative k prec rows := verdict (relative_row_fails k prec) rows.
Definition relabs k prec prec2 rows := verdict (relabs_row_fails k prec prec2) rows.
Definition mixed k mk prec prec2 rows := verdict (mixed_row_fails k mk prec prec2) rows.

(* ---------------------------------------------------------------- AreaComparison *)
(* `a != b` on doubles *)
Definition fneq (a b : float) : bool := negb (PrimFloat.eqb a b).

(* the inner loop of AreaComparison::compare for one abscissa `a` of the other curve:
   scan j = 0,1,...; stop at the first j with a == t[j]; insert a before the first t[j] > a;
   append a (with the interpolated value taken at the OLD last abscissa, as the code does) when the
   last abscissa is < a.  `interp` is integralInterpolation->getValue. *)
Fixpoint insert_one (interp : float -> float) (a : float) (ts vs : list float) : list float * list float :=
  match ts with
  | [] => ([], vs)
  | t :: ts' =>
      if fneq a t then
        if PrimFloat.ltb a t then (a :: t :: ts', interp a :: vs)
        else match ts' with
             | [] => if PrimFloat.ltb t a then ([t; a], vs ++ [interp t]) else ([t], vs)
             | _ => let (rt, rv) := insert_one interp a ts' (tl vs) in
                    (t :: rt, match vs with [] => rv | v :: _ => v :: rv end)
             end
      else (ts, vs)
  end.

Fixpoint merge_into (interp : float -> float) (src : list float) (ts vs : list float) : list float * list float :=
  match src with
  | [] => (ts, vs)
  | a :: src' => let (ts1, vs1) := insert_one interp a ts vs in merge_into interp src' ts1 vs1
  end.

(* trapezoidalIntegration; None where std::vector::at throws *)
Fixpoint trapz (acc : float) (ts ds : list float) : option float :=
  match ts, ds with
  | t0 :: ((t1 :: _) as ts'), d0 :: ((d1 :: _) as ds') =>
      trapz (acc + ((t1 - t0) * (d1 + d0)) / 2) ts' ds'
  | [_], _ => Some acc
  | _, _ => None
  end.

Fixpoint absdiffs (va vb : list float) : option (list float) :=
  match va, vb with
  | [], _ => Some []
  | a :: va', b :: vb' => match absdiffs va' vb' with Some l => Some (abs (a - b) :: l) | None => None end
  | _ :: _, [] => None
  end.

Definition fmax_list (v0 : float) (l : list float) : float :=
  fold_left (fun m v => if PrimFloat.ltb m v then v else m) l v0.

(* normalised area, as computed (interpolation `None`: getValue = 0) *)
Definition area_value (interp : float -> float) (tA vA tB vB : list float) : option float :=
  let (tB1, vB1) := merge_into interp tA tB vB in
  let (tA1, vA1) := merge_into interp tB1 tA vA in
  match absdiffs vA1 vB1 with
  | None => None
  | Some ds =>
      match trapz 0 tA1 ds with
      | None => None
      | Some ar =>
          match vA with
          | [] => None
          | v0 :: _ => Some (ar / fmax_list v0 vA)
          end
      end
  end.

Definition area (k : tolkind) (interp : float -> float) (prec : float) (tA vA tB vB : list float) : option bool :=
  match area_value interp tA vA tB vB with
  | None => None
  | Some ar => Some (negb (exceeds k ar prec))
  end.

Definition no_interp (x : float) : float := 0.

(* ---------------------------------------------------------------- AreaComparison, general form
   * the interpolation object is rebuilt from the ORIGINAL (abscissas, values) of the curve that receives the
     new points: `integralInterpolation->interpolate(timesB, valB)` before the points of A are merged into B,
     `interpolate(timesA, valA)` before the points of (the enlarged) B are merged into A;
   * the normalisation is a parameter:
       NormMax    : area / max_i vA_i                       (pinned tree: the maximum keeps its sign)
       NormAbsMax : area / max_i |vA_i|, a null area is left as it is (0/0 would be NaN for a null reference)
   `area_value interp` above is `area_value_g NormMax (fun _ _ => interp)`. *)
Inductive normkind := NormMax | NormAbsMax.

Definition fmax_abs_list (v0 : float) (l : list float) : float :=
  fold_left (fun m v => if PrimFloat.ltb m (abs v) then abs v else m) l (abs v0).

Definition normalise (nk : normkind) (ar : float) (vA : list float) : option float :=
  match vA with
  | [] => None
  | v0 :: _ =>
      match nk with
      | NormMax => Some (ar / fmax_list v0 vA)
      | NormAbsMax => Some (if fneq ar 0 then ar / fmax_abs_list v0 vA else ar)
      end
  end.

Definition area_value_g (nk : normkind) (mk : list float -> list float -> float -> float)
           (tA vA tB vB : list float) : option float :=
  let (tB1, vB1) := merge_into (mk tB vB) tA tB vB in
  let (tA1, vA1) := merge_into (mk tA vA) tB1 tA vA in
  match absdiffs vA1 vB1 with
  | None => None
  | Some ds =>
      match trapz 0 tA1 ds with
      | None => None
      | Some ar => normalise nk ar vA
      end
  end.

Definition area_g (k : tolkind) (nk : normkind) (mk : list float -> list float -> float -> float)
           (prec : float) (tA vA tB vB : list float) : option bool :=
  match area_value_g nk mk tA vA tB vB with
  | None => None
  | Some ar => Some (negb (exceeds k ar prec))
  end.

Definition none_mk (ts vs : list float) : float -> float := no_interp.

(* LinearInterpolation = tfel::check::Linearization: a std::map<double,double> filled with insert() (an abscissa
   already present keeps its FIRST value; +0 and -0 are the same key), evaluated with lower_bound:
   before the first key / after the last key: the first / last value; otherwise
   (y1 - y0) / (x1 - x0) * (x - x0) + y0 between the neighbours (also when x equals the key x1).
   NaN abscissas break the ordering required by std::map and are not modelled. *)
Fixpoint lin_insert (t v : float) (m : list (float * float)) : list (float * float) :=
  match m with
  | [] => [(t, v)]
  | (t', v') :: m' =>
      if PrimFloat.ltb t t' then (t, v) :: m
      else if PrimFloat.ltb t' t then (t', v') :: lin_insert t v m'
      else m
  end.

Fixpoint lin_lookup (x : float) (prev : option (float * float)) (m : list (float * float)) : float :=
  match m with
  | [] => match prev with Some (_, y0) => y0 | None => 0 end
  | (x1, y1) :: m' =>
      if PrimFloat.ltb x1 x then lin_lookup x (Some (x1, y1)) m'
      else match prev with
           | None => y1
           | Some (x0, y0) => (y1 - y0) / (x1 - x0) * (x - x0) + y0
           end
  end.

Definition linear_mk (ts vs : list float) : float -> float :=
  let m := fold_left (fun m tv => lin_insert (fst tv) (snd tv) m) (combine ts vs) [] in
  fun x => lin_lookup x None m.

(* ---------------------------------------------------------------- MTest tests *)
Definition finite (x : float) : bool := PrimFloat.is_finite x.   (* std::isfinite *)

(* outcome of a sequence of check() calls: an exception (index of the call), or the final verdict *)
Inductive outcome := Throws (i : nat) | Verdict (ok : bool).

(* AnalyticalTest::check on (computed value v, value of the analytical formula fv) *)
Fixpoint analytical_from (k : tolkind) (eps : float) (i : nat) (ok : bool) (rows : list (float * float)) : outcome :=
  match rows with
  | [] => Verdict ok
  | (v, fv) :: rows' =>
      if negb (finite v) then Throws i
      else if negb (finite fv) then Throws i
      else analytical_from k eps (S i) (ok && negb (exceeds k (abs (v - fv)) eps)) rows'
  end.
Definition analytical k eps rows := analytical_from k eps 0 true rows.

(* ReferenceFileComparisonTest::check on (period p, computed value v), reference column `refs` *)
Fixpoint reffile_from (k : tolkind) (eps : float) (refs : list float) (i : nat) (ok : bool)
         (rows : list (nat * float)) : outcome :=
  match rows with
  | [] => Verdict ok
  | (p, v) :: rows' =>
      match nth_error refs p with
      | None => reffile_from k eps refs (S i) false rows'
      | Some r =>
          if negb (finite v) then Throws i
          else reffile_from k eps refs (S i) (ok && negb (exceeds k (abs (v - r)) eps)) rows'
      end
  end.
Definition reffile k eps refs rows := reffile_from k eps refs 0 true rows.

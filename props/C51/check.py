"""C51 -- MTest and tfel-check verdicts are sound.
Engine H: executable Gallina models of the five tfel-check comparisons (Area with interpolation None and Linear) and the
two MTest tests on Coq primitive floats (C51Model.v), theorems in Coq (soundness in binary64 and over the reals with an
explicit rounding slack, self-comparison, Area), and a bit-exact tie: the REAL *Comparison.cxx / Linearization.cxx /
AnalyticalTest.cxx / ReferenceFileComparisonTest.cxx are compiled from /repo into driver.cxx and run on the same inputs
(negatives, zeros, NaN, +-inf, ties at the tolerance) as the model under vm_compute.  The form of the tolerance test
(`err > prec` vs `!(err <= prec)`, Mixed `prec*vb` vs `prec*|vb|`, Area normalised by max(ref) vs max|ref|) is a parameter
of the model; which form /repo implements is decided by the runs, and selects the theorem files.  The interpolated Area
variants (Linear, Spline = the real tfel::math::CubicSpline) are also judged by an exact rational oracle."""
import math, os, re
from fractions import Fraction
from vlib import guarded_main

TFELCHECK = ["tfel-check/src/%s.cxx" % n for n in (
    "AbsoluteComparison", "RelativeComparison", "RelativeAndAbsoluteComparison", "MixedComparison", "AreaComparison",
    "Comparison", "Column", "Interpolation", "NoInterpolation", "LinearInterpolation", "Linearization",
    "SplineInterpolation")]
MTEST = ["mtest/src/AnalyticalTest.cxx", "mtest/src/ReferenceFileComparisonTest.cxx", "mtest/src/Evolution.cxx",
         "mtest/src/TextDataUtilities.cxx", "mtest/src/CurrentState.cxx"]
UTIL = ["src/Utilities/TextData.cxx", "src/Utilities/StringAlgorithms.cxx", "src/Math/CubicSpline.cxx"]
LIBS = ["-lTFELMTest", "-lTFELMathParser", "-lTFELMathKriging", "-lTFELMath", "-lTFELUtilities", "-lTFELException",
        "-lTFELTests", "-lTFELSystem", "-lMFrontLogStream"]

DBL_MIN = 2.2250738585072014e-308
NAN, INF = float("nan"), float("inf")
SPECIALS = [0.0, -0.0, NAN, INF, -INF, 1.7976931348623157e308, -1.7976931348623157e308, 5e-324, -5e-324, DBL_MIN,
            -DBL_MIN, 1.0, -1.0]


def cstr(x):      # for the driver (strtod)
    if math.isnan(x):
        return "nan"
    if math.isinf(x):
        return "inf" if x > 0 else "-inf"
    return x.hex()


def coqf(x):      # Coq float literal
    if math.isnan(x):
        return "nan"
    if math.isinf(x):
        return "infinity" if x > 0 else "neg_infinity"
    h = x.hex()
    return "(-%s)" % h[1:] if h.startswith("-") else h


def coql(xs):
    return "[" + "; ".join(coqf(x) for x in xs) + "]%float"


def coqrows(rows):
    return "[" + "; ".join("(%s, %s)" % (coqf(a), coqf(b)) for a, b in rows) + "]%float"


# ---------------------------------------------------------------- independent statement of the property (Python)
def fin(x):
    return not (math.isnan(x) or math.isinf(x))


def fsub(a, b):
    return a - b


def fdiv(a, b):
    try:
        return a / b
    except ZeroDivisionError:
        if a == 0 or math.isnan(a):
            return NAN
        return math.copysign(INF, a) * math.copysign(1.0, b)


def within(kind, prec, prec2, a, b):
    """documented per-row criterion, evaluated in binary64 (Python floats); False when NaN is involved"""
    e = abs(a - b)
    if kind == "absolute":
        return e <= prec
    r = fdiv(e, min(abs(a), abs(b)) + 100 * DBL_MIN) if not (math.isnan(a) or math.isnan(b)) else NAN
    if kind == "relative":
        return r <= prec
    if kind == "relabs":
        return r <= prec or e <= prec2
    if kind == "mixed":
        return e - prec * abs(b) - prec2 <= 0
    raise ValueError(kind)


def errs(kind, prec, prec2, a, b):
    """the error values the criterion of `kind` looks at"""
    e = abs(a - b)
    r = fdiv(e, min(abs(a), abs(b)) + 100 * DBL_MIN) if not (math.isnan(a) or math.isnan(b)) else NAN
    return {"absolute": [e], "relative": [r], "relabs": [r, e], "mixed": [e - prec * abs(b) - prec2]}[kind]


def rows_sound(kind, prec, prec2, rows):
    return all(fin(a) and fin(b) and within(kind, prec, prec2, a, b) for a, b in rows)


# ---------------------------------------------------------------- generators
def rnd_value(rng):
    u = rng.random()
    if u < 0.12:
        return rng.choice(SPECIALS)
    if u < 0.2:
        return float(rng.randint(-3, 3))
    m = rng.uniform(1, 10) * 10.0 ** rng.choice([-300, -20, -6, -3, -1, 0, 0, 0, 1, 2, 3, 6, 20, 300])
    return m if rng.random() < 0.6 else -m


def rnd_tol(rng):
    u = rng.random()
    if u < 0.1:
        return 0.0
    if u < 0.14:
        return rng.choice([NAN, INF, -0.0, -1.0])
    return rng.choice([1e-14, 1e-12, 1e-9, 1e-6, 1e-3, 0.0009765625, 1e-2, 0.1, 0.5, 1.0, 10.0, 1e10])


def gen_cmp(rng, kind):
    n = rng.randint(1, 6)
    prec, prec2 = rnd_tol(rng), (rnd_tol(rng) if kind in ("relabs", "mixed") else 0.0)
    mode = rng.random()
    rows = []
    for _ in range(n):
        a = rnd_value(rng)
        u = rng.random()
        if mode < 0.2 or u < 0.3:
            b = a                                    # self comparison
        elif u < 0.75 and fin(a):
            d = rng.choice([0.25, 0.5, 0.999, 1.0, 1.001, 2.0, 4.0]) * (prec if fin(prec) else 1.0)
            b = rng.choice([a + d, a - d, a * (1 + d), a * (1 - d), a + d * abs(a), a + d + (prec2 if fin(prec2) else 0.0)])
        else:
            b = rnd_value(rng)
        rows.append((a, b) if rng.random() < 0.5 else (b, a))
    if rng.random() < 0.25 and rows:                  # tolerance exactly at the error of one row (tie)
        a, b = rng.choice(rows)
        e = abs(a - b)
        if kind == "absolute" and fin(e):
            prec = e
        elif kind in ("relative", "relabs") and fin(a) and fin(b):
            r = fdiv(e, min(abs(a), abs(b)) + 100 * DBL_MIN)
            if fin(r):
                prec = r
        elif kind == "mixed" and fin(e) and fin(prec * b):
            p2 = e - prec * b
            if fin(p2):
                prec2 = p2
    return (kind, prec, prec2, rows)


CORPUS_CMP = [(k, 0.0009765625, 0.0009765625 if k in ("relabs", "mixed") else 0.0, rows) for k in ("absolute", "relative", "relabs", "mixed")
              for rows in ([(1.0, 1.0), (NAN, 2.0), (3.0, 3.0)], [(1.0, 1.0), (2.0, NAN), (3.0, 3.0)], [(NAN, NAN)],
                           [(INF, INF)], [(INF, -INF)], [(-INF, 1.0)], [(1.0, INF)], [(1e308, -1e308)], [(0.0, -0.0)],
                           [(-10.0, -10.0)], [(-1.0, -1.0), (2.0, 2.0)], [(1.0, 1.0009765625)], [(1.0, 1.001)])]
CORPUS_CMP += [("mixed", 0.125, 0.0, [(-10.0, -10.0)]), ("mixed", 0.125, 0.0, [(10.0, 10.0)]),
               ("mixed", 0.125, 0.0, [(-10.0, -9.0)]), ("mixed", 0.125, 0.0, [(10.0, 11.25)]),
               ("mixed", 0.125, 0.0, [(11.25, 10.0)]), ("mixed", 0.125, 0.0, [(11.26, 10.0)])]


def gen_area(rng):
    """(interpolation, prec, tA, vA, tB, vB): any grids (sub/super grids, duplicates, 15% unordered), special values;
    tied bit-exactly with the model (interpolation none and linear; abscissas are never NaN: std::map keys)"""
    n = rng.randint(1, 6)
    t = [float(rng.randint(-3, 3))]
    for _ in range(n - 1):
        t.append(t[-1] + rng.choice([0.0, 0.5, 1.0, 1.0, 2.5, 1e-3]))
    if rng.random() < 0.15:
        rng.shuffle(t)
    neg = rng.random() < 0.3                         # curves below zero (reference maximum <= 0)
    def val():
        x = rnd_value(rng) if rng.random() < 0.25 else float(rng.randint(-4, 9))
        return -abs(x) if neg else x
    vA = [val() for _ in t]
    u = rng.random()
    if u < 0.5:
        tB = list(t)
    elif u < 0.75:
        tB = [x for x in t if rng.random() < 0.7] or [t[0]]
    else:
        tB = sorted(set(t + [rng.choice(t) + rng.choice([-0.25, 0.25, 7.0])]))
    if len(tB) == len(t) and rng.random() < 0.6:
        vB = list(vA) if rng.random() < 0.4 else [v + rng.choice([0.0, 1e-3, -0.5, 2.0, -100.0]) for v in vA]
    else:
        vB = [val() if rng.random() < 0.3 else float(rng.randint(-4, 9)) * (-1 if neg else 1) for _ in tB]
    return (rng.choice(["none", "linear"]), rnd_tol(rng), t, vA, tB, vB)


def gen_area_interp(rng, kind):
    """two finite curves on strictly increasing grids with the same end points and different interior points:
    the real code (linear / spline interpolation) is compared with an exact rational oracle"""
    n = rng.randint(2, 7)
    tA = [float(rng.randint(-3, 3))]
    for _ in range(n - 1):
        tA.append(tA[-1] + rng.choice([0.25, 0.5, 1.0, 1.0, 2.5]))
    inner = [x for x in tA[1:-1] if rng.random() < 0.6]
    for _ in range(rng.randint(0, 3)):
        inner.append(tA[0] + (tA[-1] - tA[0]) * rng.choice([0.125, 0.25, 0.375, 0.5, 0.625, 0.75, 0.875]))
    tB = sorted(set([tA[0]] + inner + [tA[-1]]))
    sign = -1.0 if rng.random() < 0.35 else 1.0
    vA = [sign * rng.randint(1, 40) / 4.0 for _ in tA]
    if rng.random() < 0.15:
        vA = [0.0 for _ in tA]
    fA = interp_fun(kind, tA, vA)
    d = rng.choice([0.0, 0.0, 1e-4, 1e-2, 0.5, 30.0])
    vB = [float(fA(Fraction(x))) + d * rng.choice([-1, 0, 1]) for x in tB]
    prec = rng.choice([1e-6, 1e-3, 1e-2, 0.1, 1.0])
    return (kind, prec, tA, vA, tB, vB)


def interp_fun(kind, ts, vs):
    """independent interpolation of (ts, vs), exact rational arithmetic: piecewise linear / natural cubic spline"""
    x = [Fraction(t) for t in ts]
    y = [Fraction(v) for v in vs]
    n = len(x) - 1
    if n == 0:
        return lambda _: y[0]
    h = [x[i + 1] - x[i] for i in range(n)]
    M = [Fraction(0)] * (n + 1)
    if kind == "spline" and n >= 2:
        # natural spline: h[i-1] M[i-1] + 2 (h[i-1]+h[i]) M[i] + h[i] M[i+1] = 6 (s[i] - s[i-1]), M[0] = M[n] = 0
        sl = [(y[i + 1] - y[i]) / h[i] for i in range(n)]
        a = [Fraction(0)] + [h[i - 1] for i in range(1, n)]
        b = [Fraction(1)] + [2 * (h[i - 1] + h[i]) for i in range(1, n)]
        cc = [Fraction(0)] + [h[i] for i in range(1, n)]
        r = [Fraction(0)] + [6 * (sl[i] - sl[i - 1]) for i in range(1, n)]
        for i in range(2, n):                         # Thomas algorithm on rows 1..n-1 (M[0] = M[n] = 0)
            w = a[i] / b[i - 1]
            b[i] -= w * cc[i - 1]
            r[i] -= w * r[i - 1]
        M = [Fraction(0)] * (n + 1)
        for i in range(n - 1, 0, -1):
            M[i] = (r[i] - cc[i] * M[i + 1]) / b[i]

    def f(q):
        if q <= x[0]:
            return y[0]
        if q >= x[n]:
            return y[n]
        i = max(j for j in range(n) if x[j] <= q)
        hi = h[i]
        return (M[i] * (x[i + 1] - q) ** 3 / (6 * hi) + M[i + 1] * (q - x[i]) ** 3 / (6 * hi)
                + (y[i] / hi - M[i] * hi / 6) * (x[i + 1] - q) + (y[i + 1] / hi - M[i + 1] * hi / 6) * (q - x[i]))
    return f


def exact_norm_area(ts, va, vb, ref=None):
    """exact normalised area between two finite curves given on the same grid: trapezoidal integral of |a-b| divided
    by the largest magnitude of the reference column a (`ref`: the column before interpolation); 0 for a null area, None
    (infinite) for a null reference otherwise"""
    t = [Fraction(x) for x in ts]
    d = [abs(Fraction(a) - Fraction(b)) for a, b in zip(va, vb)]
    ar = sum((t[i + 1] - t[i]) * (d[i + 1] + d[i]) / 2 for i in range(len(t) - 1))
    m = max(abs(Fraction(a)) for a in (va if ref is None else ref))
    if ar == 0:
        return Fraction(0)
    return None if m == 0 else ar / m


def oracle_area(kind, tA, vA, tB, vB):
    fa, fb = interp_fun(kind, tA, vA), interp_fun(kind, tB, vB)
    U = sorted(set(tA) | set(tB))
    return exact_norm_area(U, [fa(Fraction(x)) for x in U], [fb(Fraction(x)) for x in U], vA), max(Fraction(a) for a in vA)


CORPUS_AREA = [("none", 1e-3, [0.0, 1.0, 2.0], [1.0, 2.0, 3.0], [0.0, 1.0, 2.0], [1.0, 2.0, 3.0]),
               ("none", 1e-3, [0.0, 1.0, 2.0], [1.0, 2.0, 3.0], [0.0, 1.0, 2.0], [1.0, 2.5, 3.0]),
               ("none", 1e-3, [0.0, 1.0, 2.0], [0.0, 0.0, 0.0], [0.0, 1.0, 2.0], [0.0, 0.0, 0.0]),
               ("none", 1e-3, [0.0, 1.0, 2.0], [0.0, 0.0, 0.0], [0.0, 1.0, 2.0], [0.0, 1e-9, 0.0]),
               ("none", 1e-3, [0.0, 1.0, 2.0], [-1.0, -2.0, -3.0], [0.0, 1.0, 2.0], [-1.0, -2.0, -3.0]),
               ("none", 0.0009765625, [0.0, 1.0], [-1.0, -1.0], [0.0, 1.0], [-100.0, -100.0]),
               ("linear", 0.0009765625, [0.0, 1.0], [-1.0, -1.0], [0.0, 1.0], [-100.0, -100.0]),
               ("none", 0.0009765625, [0.0, 1.0], [-1.0, -0.0], [0.0, 1.0], [-100.0, -100.0]),
               ("none", 0.0009765625, [0.0, 1.0], [-3.0, 1.0], [0.0, 1.0], [-3.0, 1.0009765625]),
               ("none", 0.0009765625, [0.0, 1.0, 2.0], [1.0, NAN, 3.0], [0.0, 1.0, 2.0], [1.0, 2.0, 3.0]),
               ("none", 0.0009765625, [0.0, 1.0], [1.0, NAN], [0.0, 1.0], [1.0, 2.0]),
               ("linear", 0.0009765625, [0.0, 1.0], [1.0, 2.0], [0.0, 1.0], [1.0, NAN]),
               ("none", 0.0009765625, [0.0, 1.0], [1.0, INF], [0.0, 1.0], [1.0, INF]),
               ("none", 0.0009765625, [0.0, 1.0], [1.0, 2.0], [0.0, 1.0], [1.0, INF]),
               ("none", 1e-3, [2.0, 1.0], [1.0, 2.0], [2.0, 1.0], [1.0, 2.0]),
               ("none", 1e-3, [0.0, 1.0, 2.0], [1.0, 2.0, 3.0], [0.0, 2.0], [1.0, 3.0]),
               ("linear", 1e-3, [0.0, 1.0, 2.0], [1.0, 2.0, 3.0], [0.0, 2.0], [1.0, 3.0]),
               ("linear", 1e-3, [0.0, 1.0, 2.0], [1.0, 2.5, 3.0], [0.0, 2.0], [1.0, 3.0]),
               ("linear", 1e-3, [0.0, 2.0], [1.0, 3.0], [-1.0, 0.5, 3.0], [1.0, 1.5, 3.0]),
               ("linear", 1e-3, [0.0, 1.0, 1.0, 2.0], [1.0, 2.0, 5.0, 3.0], [0.0, 0.5, 2.0], [1.0, 1.5, 3.0]),
               ("linear", 1e-3, [0.0, -0.0, 2.0], [1.0, 7.0, 3.0], [-0.0, 0.5, 2.0], [1.0, 1.5, 3.0]),
               ("none", 1e-3, [0.0], [1.0], [0.0], [1.0])]
CORPUS_AREA_INTERP = [("linear", 1e-3, [0.0, 1.0, 2.0], [1.0, 2.0, 3.0], [0.0, 0.5, 2.0], [1.0, 1.5, 3.0]),
                      ("spline", 1e-3, [0.0, 1.0, 2.0, 3.0], [1.0, 2.0, 0.0, 3.0], [0.0, 0.5, 1.5, 3.0], [1.0, 1.5, 1.0, 3.0]),
                      ("spline", 1e-3, [0.0, 1.0, 2.0, 3.0], [-1.0, -2.0, -1.0, -3.0], [0.0, 1.5, 3.0], [-100.0, -100.0, -100.0]),
                      ("linear", 1e-3, [0.0, 1.0, 2.0, 3.0], [-1.0, -2.0, -1.0, -3.0], [0.0, 1.5, 3.0], [-100.0, -100.0, -100.0])]


def gen_ana(rng):
    n = rng.randint(1, 5)
    eps = rnd_tol(rng)
    rows = []
    for _ in range(n):
        v = rnd_value(rng) if rng.random() < 0.25 else float(rng.randint(-50, 50)) / 8
        u = rng.random()
        fv = v if u < 0.3 else (v + rng.choice([0.5, 1.0, 2.0, -1.0]) * (eps if fin(eps) else 1.0) if u < 0.8 and fin(v) else rnd_value(rng))
        rows.append((v, fv))
    return (eps, rows)


def gen_ref(rng):
    nv = rng.randint(1, 5)
    eps = rnd_tol(rng)
    refs = []
    for _ in range(nv):
        r = rnd_value(rng) if rng.random() < 0.3 else float(rng.randint(-50, 50)) / 8
        if r == -INF:
            r = INF                                   # TextData cannot read "-inf" (token "-" alone)
        if r != 0 and abs(r) < DBL_MIN:
            r = 0.0                                   # std::stod rejects denormals (ERANGE)
        refs.append(r)
    rows = []
    for i in range(rng.randint(1, 6)):
        p = rng.randint(0, nv + 1) if rng.random() < 0.3 else min(i, nv - 1)
        r = refs[p] if p < nv else 0.0
        u = rng.random()
        v = r if u < 0.3 and fin(r) else ((r + rng.choice([0.5, 1.0, 2.0, -1.0]) * (eps if fin(eps) else 1.0)) if u < 0.8 and fin(r) else rnd_value(rng))
        rows.append((p, v))
    return (eps, refs, rows)


CORPUS_REF = [(0.0009765625, [1.0, NAN, 3.0], [(0, 1.0), (1, 2.0), (2, 3.0)]),
              (0.0009765625, [1.0, INF, 3.0], [(0, 1.0), (1, 2.0), (2, 3.0)]),
              (0.0009765625, [1.0, 2.0], [(0, 1.0), (1, 2.0), (2, 3.0)]),
              (0.0009765625, [1.0, 2.0], [(0, 1.0), (1, NAN)])]
CORPUS_ANA = [(0.0009765625, [(1.0, 1.0), (2.0, 2.0009765625)]), (0.0009765625, [(1.0, 1.0), (2.0, 2.001)]),
              (0.0009765625, [(1.0, 1.0), (NAN, 2.0)]), (0.0009765625, [(1.0, NAN)]), (0.0009765625, [(1e308, -1e308)]),
              (NAN, [(1.0, 5.0)]), (INF, [(1.0, 5.0)])]

VARIANTS2 = ["TolGt", "TolNotLe"]
VARIANTS_AREA = [("TolGt", "NormMax"), ("TolGt", "NormAbsMax"), ("TolNotLe", "NormMax"), ("TolNotLe", "NormAbsMax")]
VARIANTS_MIXED = [("TolGt", "MixSigned"), ("TolGt", "MixAbs"), ("TolNotLe", "MixSigned"), ("TolNotLe", "MixAbs")]
COQ_FN = {"absolute": ("absolute", "absolute_row_fails"), "relative": ("relative", "relative_row_fails"),
          "relabs": ("relabs", "relabs_row_fails"), "mixed": ("mixed", "mixed_row_fails")}
HEADER = """From Coq Require Import Floats List Bool.
From C51 Require Import C51Model.
Import ListNotations.
Local Open Scope float_scope.
Definition b2n (b : bool) : nat := if b then 1%nat else 0%nat.
Definition ob2n (o : option bool) : nat := match o with Some b => b2n b | None => 2%nat end.
Definition out2n (o : outcome) : nat := match o with Verdict b => b2n b | Throws i => (10 + i)%nat end.
"""


def main(c):
    exe = c.cxx("driver", ["driver.cxx"], TFELCHECK + MTEST + UTIL, flags=["-ffp-contract=off"], libs=LIBS,
                link_repo_libs=True)
    c.trusted("driver props/C51/driver.cxx (builds Column objects / a sequence Evolution, calls compare()/check(), prints hasSucceed / "
              "failed-row count / exception); floats exchanged as hex literals (strtod / Coq hex float literals)",
              "the expression evaluator (tfel::math::Evaluator), CxxTokenizer and tfel::tests::TestResult are taken from the "
              "libraries built in /repo/_build; every file of the property's anchors is compiled from the working tree",
              "g++ binary64 arithmetic with -ffp-contract=off, glibc strtod/printf; Python float arithmetic for the independent "
              "statement of the criteria")
    rng = c.rng
    N = c.pick(200, 2500)
    cmp_cases = list(CORPUS_CMP)
    for k in ("absolute", "relative", "relabs", "mixed"):
        cmp_cases += [gen_cmp(rng, k) for _ in range(N)]
    area_cases = list(CORPUS_AREA) + [gen_area(rng) for _ in range(c.pick(220, 2000))]
    # interpolated variants with an exact oracle: the linear ones are also tied to the model, the spline ones are not modelled
    n_tied_only = len(area_cases)
    lin_cases = [x for x in CORPUS_AREA_INTERP if x[0] == "linear"] + [gen_area_interp(rng, "linear") for _ in range(c.pick(60, 600))]
    spline_cases = [x for x in CORPUS_AREA_INTERP if x[0] == "spline"] + [gen_area_interp(rng, "spline") for _ in range(c.pick(60, 600))]
    area_cases += lin_cases
    ana_cases = list(CORPUS_ANA) + [gen_ana(rng) for _ in range(c.pick(200, 1500))]
    ref_cases = list(CORPUS_REF) + [gen_ref(rng) for _ in range(c.pick(200, 1500))]

    # ---------------------------------------------------------------- run the real code
    lines = []
    for (k, p, p2, rows) in cmp_cases:
        lines.append("CMP %s %s %s %d %s" % (k, cstr(p), cstr(p2), len(rows), " ".join(cstr(a) + " " + cstr(b) for a, b in rows)))
    for (it, p, tA, vA, tB, vB) in area_cases + spline_cases:
        lines.append("AREA %s %s %d %s %s %d %s %s" % (it, cstr(p), len(tA), " ".join(map(cstr, tA)), " ".join(map(cstr, vA)),
                                                        len(tB), " ".join(map(cstr, tB)), " ".join(map(cstr, vB))))
    for (eps, rows) in ana_cases:
        lines.append("ANA %s %d %s" % (cstr(eps), len(rows), " ".join(cstr(a) + " " + cstr(b) for a, b in rows)))
    for (eps, refs, rows) in ref_cases:
        lines.append("REF %s %d %s %d %s" % (cstr(eps), len(refs), " ".join(map(cstr, refs)), len(rows),
                                             " ".join("%d %s" % (p, cstr(v)) for p, v in rows)))
    # end-to-end: NaN read from result files by the real Column / TextData
    fa, fb = os.path.join(c.work, "res_nan.txt"), os.path.join(c.work, "ref_ok.txt")
    open(fa, "w").write("#t v\n1 1\n2 nan\n3 3\n")
    open(fb, "w").write("#t v\n1 1\n2 2\n3 3\n")
    file_kinds = ["absolute", "relative", "relabs", "mixed"]
    for k in file_kinds:
        lines.append("FILECMP %s 0x1p-10 0x1p-10 %s %s 2" % (k, fa, fb))
    rc, out, err = c.run([exe, c.work], input="\n".join(lines) + "\n", timeout=600)
    res = out.splitlines()
    if rc != 0 or len(res) != len(lines):
        c.report("driver", "driver failed (rc=%d, %d answers for %d commands): %s" % (rc, len(res), len(lines), err[-400:]),
                 {"stderr": err[-3000:], "last_command": lines[len(res)] if len(res) < len(lines) else ""}, False)
        return
    i0 = 0
    cmp_res = res[i0:i0 + len(cmp_cases)]; i0 += len(cmp_cases)
    area_res = res[i0:i0 + len(area_cases)]; i0 += len(area_cases)
    spline_res = res[i0:i0 + len(spline_cases)]; i0 += len(spline_cases)
    ana_res = res[i0:i0 + len(ana_cases)]; i0 += len(ana_cases)
    ref_res = res[i0:i0 + len(ref_cases)]; i0 += len(ref_cases)
    file_res = res[i0:]

    # ---------------------------------------------------------------- run the model (vm_compute, bit exact)
    v = [HEADER]
    for (k, p, p2, rows) in cmp_cases:
        fn, rf = COQ_FN[k]
        args = coqf(p) + (" " + coqf(p2) if k in ("relabs", "mixed") else "")
        if k == "mixed":
            items = ["b2n (%s %s %s %s R); nfailed (%s %s %s %s) R" % (fn, a, b, args, rf, a, b, args) for a, b in VARIANTS_MIXED]
        else:
            items = ["b2n (%s %s %s R); nfailed (%s %s %s) R" % (fn, a, args, rf, a, args) for a in VARIANTS2]
        v.append("Eval vm_compute in (let R := %s in [%s]%%nat)." % (coqrows(rows), "; ".join(items)))
    for (it, p, tA, vA, tB, vB) in area_cases:
        v.append("Eval vm_compute in (let f := fun k nk => ob2n (area_g k nk %s %s %s %s %s %s) in [%s]%%nat)." % (
            {"none": "none_mk", "linear": "linear_mk"}[it], coqf(p), coql(tA), coql(vA), coql(tB), coql(vB),
            "; ".join("f %s %s" % kv for kv in VARIANTS_AREA)))
    for (eps, rows) in ana_cases:
        v.append("Eval vm_compute in (let R := %s in [out2n (analytical TolGt %s R); out2n (analytical TolNotLe %s R)]%%nat)." % (
            coqrows(rows), coqf(eps), coqf(eps)))
    for (eps, refs, rows) in ref_cases:
        rr = "[" + "; ".join("(%d%%nat, %s)" % (p, coqf(x)) for p, x in rows) + "]%float"
        v.append("Eval vm_compute in (let R := %s in [out2n (reffile TolGt %s %s R); out2n (reffile TolNotLe %s %s R)]%%nat)." % (
            rr, coqf(eps), coql(refs), coqf(eps), coql(refs)))
    rc, mout, merr = c.coq_eval(["C51Model.v"], "\n".join(v) + "\n", timeout=900)
    if rc != 0:
        c.report("model-eval", "model evaluation failed: " + merr[-500:], {"stderr": merr[-3000:]}, False)
        return
    model = [[int(x) for x in re.findall(r"\d+", m)] for m in re.findall(r"=\s*\[([^\]]*)\]", mout.replace("%nat", ""))]
    ncases = len(cmp_cases) + len(area_cases) + len(ana_cases) + len(ref_cases)
    if len(model) != ncases:
        c.report("model-eval", "model evaluation returned %d results for %d cases" % (len(model), ncases), {"stdout": mout[-2000:]}, False)
        return
    c.trusted("Coq vm_compute on primitive floats (kernel primitives PrimFloat.*, axioms FloatAxioms.*_spec relate them to SpecFloat); "
              "Flocq 's Prim2B equivalences for the proofs")
    j0 = 0
    m_cmp = model[j0:j0 + len(cmp_cases)]; j0 += len(cmp_cases)
    m_area = model[j0:j0 + len(area_cases)]; j0 += len(area_cases)
    m_ana = model[j0:j0 + len(ana_cases)]; j0 += len(ana_cases)
    m_ref = model[j0:j0 + len(ref_cases)]

    findings = set()
    pinned_forms = set()      # comparisons observed to implement the form of the pinned tree (`err > prec`, prec*vb)

    def parse_R(line):
        t = line.split()
        return t[0], [int(x) for x in t[1:]] if t[0] in ("R", "T") else t[1:]

    # ---------------------------------------------------------------- tfel-check comparisons
    for kind in ("absolute", "relative", "relabs", "mixed"):
        variants = VARIANTS_MIXED if kind == "mixed" else VARIANTS2
        mism = {vv: [] for vv in variants}
        prop_bad = []
        for idx, (case, line, mm) in enumerate(zip(cmp_cases, cmp_res, m_cmp)):
            if case[0] != kind:
                continue
            k, p, p2, rows = case
            tag, val = parse_R(line)
            nontrivial = any(not fin(x) for r in rows for x in r) or len(rows) > 1
            c.count(1, ("cmp", kind, cstr(p), cstr(p2), tuple(cstr(x) for r in rows for x in r)), nontrivial)
            if tag != "R":
                c.report("cmp-exception:%s" % kind, "%s comparison threw on %s" % (kind, rows), {"case": repr(case), "answer": line}, True)
                continue
            ok, nf = val[0] == 1, val[1]
            for vi, vv in enumerate(variants):
                mok, mnf = mm[2 * vi] == 1, mm[2 * vi + 1]
                if mok != ok or (not ok and mnf != nf):
                    mism[vv].append((idx, mok, mnf))
            # the property itself, stated independently, on the real verdict
            selfcmp = all(cstr(a) == cstr(b) for a, b in rows)
            if idx % 53 == 0:
                c.sample({"comparison": kind, "prec": cstr(p), "prec2": cstr(p2), "rows": [[cstr(a), cstr(b)] for a, b in rows], "real": line,
                          "model[TolGt ok,nfailed,TolNotLe ok,nfailed,..]": mm})
            if ok and fin(p) and fin(p2) and (kind != "mixed" or p >= 0) and not rows_sound(kind, p, p2, rows):
                prop_bad.append((idx, "success although a compared pair is not finite / not within the tolerance"))
            if (not ok) and selfcmp and all(fin(a) for a, _ in rows) and fin(p) and fin(p2) and p >= 0 and p2 >= 0:
                prop_bad.append((idx, "a finite column compared with itself is rejected"))
        best = [vv for vv in variants if not mism[vv]]
        fixed = variants[-1]
        c.notes.append("%s: code agrees bit-exactly with model variant(s) %s" % (kind, best))
        if not best:
            vv = min(variants, key=lambda x: len(mism[x]))
            idx, mok, mnf = mism[vv][0]
            k, p, p2, rows = cmp_cases[idx]
            c.report("tie:%s:%s:%s:%s" % (kind, cstr(p), cstr(p2), ",".join(cstr(x) for r in rows for x in r)),
                     "%sComparison::compare on prec=%r prec2=%r rows=%r answers '%s' but every model variant differs (closest %s: success=%s failed=%d)" % (
                         kind, p, p2, rows, cmp_res[idx], vv, mok, mnf),
                     {"kind": kind, "prec": cstr(p), "prec2": cstr(p2), "rows": [[cstr(a), cstr(b)] for a, b in rows], "real": cmp_res[idx],
                      "how": "echo 'CMP ...' | driver (props/C51/driver.cxx)"}, True)
        tol_form = (best[0][0] if kind == "mixed" else best[0]) if best else None
        mix_form = best[0][1] if (best and kind == "mixed") else None
        if tol_form == "TolGt" or mix_form == "MixSigned":
            pinned_forms.add(kind)
        for idx, what in prop_bad:
            k, p, p2, rows = cmp_cases[idx]
            nanrow = any(any(math.isnan(e) for e in errs(kind, p, p2, a, b)) for a, b in rows)
            if what.startswith("success") and tol_form == "TolGt" and nanrow:
                key = "F15:%s:nan-row-passes" % kind
            elif what.startswith("a finite column") and mix_form == "MixSigned" and any(a < 0 for a, _ in rows):
                key = "mixed:self-comparison-fails-on-negative-values"
            else:
                key = "prop:%s:%s:%s:%s" % (kind, cstr(p), cstr(p2), ",".join(cstr(x) for r in rows for x in r))
                if len(c.violations) >= 4:
                    continue
            if c.report(key, "%sComparison (prec=%r, prec2=%r) on rows %r: %s (real answer '%s')" % (kind, p, p2, rows, what, cmp_res[idx]),
                        {"kind": kind, "prec": cstr(p), "prec2": cstr(p2), "rows": [[cstr(a), cstr(b)] for a, b in rows], "real": cmp_res[idx]}, True) is False:
                findings.add(key)
    # files with "nan" read by the real reader
    for k, line in zip(file_kinds, file_res):
        c.count(1, ("file", k))
        t = line.split()
        if t[0] == "R" and t[1] == "1":
            if c.report("F15:%s:nan-row-passes" % k, "tfel-check %s comparison of a result file containing 'nan' (row 2) with a finite reference succeeds" % k,
                        {"fileA": "#t v\\n1 1\\n2 nan\\n3 3", "fileB": "#t v\\n1 1\\n2 2\\n3 3", "column": 2, "real": line}, True) is False:
                findings.add("F15:%s:nan-row-passes" % k)
    # ---------------------------------------------------------------- Area
    def area_key(case):
        it, p, tA, vA, tB, vB = case
        return "area:%s:%s:%s" % (it, cstr(p), ",".join(map(cstr, tA + vA + [9e99] + tB + vB)))

    def area_replay(case, line):
        it, p, tA, vA, tB, vB = case
        return {"interpolation": it, "prec": cstr(p), "tA": tA, "vA": list(map(cstr, vA)), "tB": tB, "vB": list(map(cstr, vB)), "real": line,
                "how": "echo 'AREA %s <prec> <nA> tA.. vA.. <nB> tB.. vB..' | driver (props/C51/driver.cxx)" % it}

    def area_real(line):
        return 2 if line.startswith("X") else int(line.split()[1])

    a_mism = {vv: [] for vv in VARIANTS_AREA}
    for idx, (case, line, mm) in enumerate(zip(area_cases, area_res, m_area)):
        real = area_real(line)
        for vi, vv in enumerate(VARIANTS_AREA):
            if mm[vi] != real:
                a_mism[vv].append(idx)
    a_best = [vv for vv in VARIANTS_AREA if not a_mism[vv]]
    c.notes.append("area (interpolation none and linear): code agrees bit-exactly with model variant(s) %s" % (a_best,))
    if not a_best:
        vv = min(VARIANTS_AREA, key=lambda x: len(a_mism[x]))
        idx = a_mism[vv][0]
        case = area_cases[idx]
        c.report("tie:" + area_key(case), "AreaComparison::compare interpolation=%s prec=%r A=(%r,%r) B=(%r,%r) answers '%s' but every model variant differs "
                 "(closest %s says %d; 0 fail, 1 success, 2 exception)" % (case + (area_res[idx], vv, m_area[idx][VARIANTS_AREA.index(vv)])),
                 area_replay(case, area_res[idx]), True)
    a_tol = a_best[0][0] if a_best else None
    a_norm = a_best[0][1] if a_best else None
    area_findings = set()

    def area_report(case, line, what, Emax=None):
        """a failure of the property itself on the real verdict; known patterns get their stable key"""
        it, p, tA, vA, tB, vB = case
        nonfin = any(not fin(x) for x in vA + vB)
        if nonfin and a_tol == "TolGt":
            key = "F15:area:nan-passes"
        elif (not nonfin) and a_norm == "NormMax" and math.copysign(1.0, max(vA)) < 0:
            key = "area:negative-reference-maximum-passes"
        else:
            key = "prop:" + area_key(case)
            if len(c.violations) >= 4:
                return
        if c.report(key, "AreaComparison (interpolation %s, prec=%r) on A=(t=%r, v=%r), B=(t=%r, v=%r): %s (real answer '%s')" % (
                it, p, tA, vA, tB, vB, what, line), area_replay(case, line), True) is False:
            area_findings.add(key)

    n_same_grid = 0
    for idx, (case, line) in enumerate(zip(area_cases, area_res)):
        it, p, tA, vA, tB, vB = case
        c.count(1, ("area", it, cstr(p), tuple(map(cstr, tA + vA + tB + vB))), len(tA) > 1)
        real = area_real(line)
        if idx % 41 == 0:
            c.sample({"comparison": "area", "interpolation": it, "prec": cstr(p), "tA": tA, "vA": list(map(cstr, vA)), "tB": tB,
                      "vB": list(map(cstr, vB)), "real": line, "model[TolGt/NormMax,TolGt/NormAbsMax,TolNotLe/NormMax,TolNotLe/NormAbsMax]": m_area[idx]})
        # the property, stated independently: two curves on the same ordered grid (no interpolation involved)
        ordered = all(tA[i] <= tA[i + 1] for i in range(len(tA) - 1))
        if not (tA == tB and ordered and len(vA) == len(tA) and fin(p)):
            continue
        n_same_grid += 1
        allfin = all(fin(x) for x in vA + vB)
        identical = list(map(cstr, vA)) == list(map(cstr, vB))
        if identical and allfin and p >= 0 and real != 1:
            area_report(case, line, "identical finite curves are rejected")
        if real == 1 and len(tA) >= 2 and not allfin:
            area_report(case, line, "success although a compared value is not finite")
        if real == 1 and allfin:
            E = exact_norm_area(tA, vA, vB)
            if E is None or E > Fraction(p) * (1 + Fraction(1, 10 ** 9)) + Fraction(1, 10 ** 290):
                area_report(case, line, "success although the normalised area between the curves (%s) exceeds the tolerance" % (
                    "infinite: null reference" if E is None else "%.6g" % float(E)))
    # interpolated variants (linear: also tied above; spline: not modelled) against the exact rational oracle
    n_oracle = 0
    for case, line in list(zip(area_cases[n_tied_only:], area_res[n_tied_only:])) + list(zip(spline_cases, spline_res)):
        it, p, tA, vA, tB, vB = case
        if it == "spline":
            c.count(1, ("area", it, cstr(p), tuple(map(cstr, tA + vA + tB + vB))), True)
        real = area_real(line)
        E, mx = oracle_area(it, tA, vA, tB, vB)
        n_oracle += 1
        if real == 2:
            c.report("tie:" + area_key(case), "AreaComparison with %s interpolation threw on strictly increasing finite grids: %s" % (it, line),
                     area_replay(case, line), True)
            continue
        identical = tA == tB and vA == vB
        if identical and real != 1:
            area_report(case, line, "identical finite curves are rejected")
        tolE = 1e-7 * float(E if E is not None else 0) + 1e-11
        if real == 1 and (E is None or float(E) > p * (1 + 1e-6) + tolE):
            area_report(case, line, "success although the normalised area between the interpolated curves (%s) exceeds the tolerance" % (
                "infinite: null reference" if E is None else "%.9g" % float(E)))
        # the value written in the log, when the normalisation is not in question (positive reference curve)
        t = line.split()
        if E is not None and mx > 0 and mx == max(abs(Fraction(a)) for a in vA) and len(t) > 2 and t[2] != "?":
            got = float(t[2])
            if not abs(got - float(E)) <= tolE:
                c.report("tie:value:" + area_key(case), "AreaComparison with %s interpolation logs 'Area error : %s' but the exact normalised area between "
                         "the interpolated curves is %.15g" % (it, t[2], float(E)), area_replay(case, line), True)
    c.notes.append("area: %d same-grid cases judged with the exact rational statement of the property, %d interpolated cases (%d spline) "
                   "compared with the exact rational oracle" % (n_same_grid, n_oracle, len(spline_cases)))
    findings |= area_findings
    # ---------------------------------------------------------------- MTest tests
    for name, cases, rres, mres in (("analytical", ana_cases, ana_res, m_ana), ("reffile", ref_cases, ref_res, m_ref)):
        mism = {"TolGt": [], "TolNotLe": []}
        prop_bad = []
        for idx, (case, line, mm) in enumerate(zip(cases, rres, mres)):
            tag, val = parse_R(line)
            c.count(1, (name, repr([cstr(x) if isinstance(x, float) else x for x in _flat(case)])), True)
            real = (10 + val[0]) if tag == "T" else (val[0] if tag == "R" else -1)
            for vi, vv in enumerate(VARIANTS2):
                if mm[vi] != real:
                    mism[vv].append((idx, mm[vi]))
            eps = case[0]
            if real == 1 and fin(eps):
                if name == "analytical":
                    bad = [r for r in case[1] if not (fin(r[0]) and fin(r[1]) and abs(r[0] - r[1]) <= eps)]
                else:
                    refs = case[1]
                    bad = [r for r in case[2] if not (r[0] < len(refs) and fin(r[1]) and fin(refs[r[0]]) and abs(r[1] - refs[r[0]]) <= eps)]
                if bad:
                    prop_bad.append((idx, bad))
        best = [vv for vv in VARIANTS2 if not mism[vv]]
        c.notes.append("%s: code agrees bit-exactly with model variant(s) %s" % (name, best))
        if name == "reffile" and best == ["TolGt"]:
            pinned_forms.add(name)
        if not best:
            vv = min(VARIANTS2, key=lambda x: len(mism[x]))
            idx, mval = mism[vv][0]
            c.report("tie:%s:%r" % (name, [cstr(x) if isinstance(x, float) else x for x in _flat(cases[idx])]),
                     "%s test on %r answers '%s' but the model (%s) says %d (0 fail, 1 success, 10+i exception at check i)" % (
                         name, cases[idx], rres[idx], vv, mval), {"case": repr(cases[idx]), "real": rres[idx]}, True)
        for idx, bad in prop_bad:
            nanref = name == "reffile" and best == ["TolGt"] and any(r[0] < len(cases[idx][1]) and math.isnan(cases[idx][1][r[0]]) for r in bad)
            key = "F15:reffile:nan-reference-passes" if nanref else "prop:%s:%r" % (name, [cstr(x) if isinstance(x, float) else x for x in _flat(cases[idx])])
            if c.report(key, "MTest %s test (eps=%r) succeeds on %r although %r is not finite / within eps" % (name, cases[idx][0], cases[idx][1:], bad),
                        {"case": repr(cases[idx]), "real": rres[idx]}, True) is False:
                findings.add(key)

    c.coverage["rule"] = ("seeded (VERIF_SEED) + fixed corpus; per comparison %d columns of 1-6 rows: 12%% special values (0,-0,NaN,+-inf,+-DBL_MAX,"
                          "denormals), magnitudes 1e-300..1e300, 30%% self-comparison rows, perturbations at 0.25..4 x tolerance, 25%% tolerances "
                          "set exactly at a row's error (ties), tolerances incl. 0, NaN, inf, negative; Area: %d curve pairs tied to the model (interpolation none/linear; same/sub/super grids, "
                          "duplicates, 15%% unordered, 30%% curves below zero, special values) of which the same-grid ones are judged by the exact rational "
                          "statement of the property, + %d linear and %d spline pairs on strictly increasing grids with common end points judged by an "
                          "exact rational oracle (piecewise linear / natural cubic spline); MTest tests: %d+%d check sequences incl. out-of-range periods; non-trivial = has a non-finite value or "
                          "more than one row" % (N, len(area_cases), len(lin_cases), len(spline_cases), len(ana_cases), len(ref_cases)))
    c.coverage["traces_validated_against_impl"] = ncases

    # ---------------------------------------------------------------- theorems
    core_findings = findings - area_findings
    # the theorem files follow the form the code is OBSERVED to implement (a regression of a fixed defect is a VIOLATION above,
    # and the refuted theorems are then the ones that describe the code)
    core_pinned = bool(core_findings or pinned_forms)
    area_pinned = bool(area_findings or (a_best and a_best[0] == ("TolGt", "NormMax")))
    pf = "Properties_C51_pinned.v" if core_pinned else "Properties_C51.v"
    af = "Properties_C51_area_pinned.v" if area_pinned else "Properties_C51_area.v"
    c.notes.append("theorem files: %s (%s), %s (%s)" % (
        pf, "pinned forms observed: %s %s" % (sorted(pinned_forms), sorted(core_findings)) if core_pinned else "code implements the NaN-safe forms",
        af, "pinned form observed: %s" % sorted(area_findings) if area_pinned else "code implements `!(area <= prec)` and the normalisation by the largest magnitude"))
    if a_best and a_best[0] not in (("TolGt", "NormMax"), ("TolNotLe", "NormAbsMax")):
        c.notes.append("area: the code matches the intermediate variant %s: the refuted/positive Area theorems are stated for (TolGt, NormMax) / "
                       "(TolNotLe, NormAbsMax) only" % (a_best[0],))
    files = ["C51Model.v", "C51Spec.v", "C51Proofs.v", "C51AreaProofs.v", "C51RealProofs.v", pf, af]
    if not core_pinned:
        # statements over the reals: they are about the NaN-safe forms, i.e. about the code only when no F15 finding is observed
        files.append("Properties_C51_reals.v")
    else:
        c.notes.append("Properties_C51_reals.v not claimed: the code does not implement the NaN-safe forms")
    r = c.coq(files, timeout=900)
    if not r.ok:
        c.coq_failures(r)


def _flat(x):
    if isinstance(x, (list, tuple)):
        for y in x:
            yield from _flat(y)
    else:
        yield x


guarded_main("C51", main)

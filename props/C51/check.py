"""C51 -- MTest and tfel-check verdicts are sound.
Engine H: executable Gallina models of the five tfel-check comparisons and the two MTest tests on Coq primitive
floats (C51Model.v), theorems in Coq (soundness, self-comparison, Area), and a bit-exact tie: the REAL
*Comparison.cxx / AnalyticalTest.cxx / ReferenceFileComparisonTest.cxx are compiled from /repo into driver.cxx and
run on the same inputs (negatives, zeros, NaN, +-inf, ties at the tolerance) as the model under vm_compute.
The form of the tolerance test (`err > prec` vs `!(err <= prec)`, Mixed `prec*vb` vs `prec*|vb|`) is a parameter of
the model; which form /repo implements is decided by the runs, and selects the theorem file."""
import math, os, re
from vlib import guarded_main

TFELCHECK = ["tfel-check/src/%s.cxx" % n for n in (
    "AbsoluteComparison", "RelativeComparison", "RelativeAndAbsoluteComparison", "MixedComparison", "AreaComparison",
    "Comparison", "Column", "Interpolation", "NoInterpolation", "LinearInterpolation", "Linearization")]
MTEST = ["mtest/src/AnalyticalTest.cxx", "mtest/src/ReferenceFileComparisonTest.cxx", "mtest/src/Evolution.cxx",
         "mtest/src/TextDataUtilities.cxx", "mtest/src/CurrentState.cxx"]
UTIL = ["src/Utilities/TextData.cxx", "src/Utilities/StringAlgorithms.cxx"]
LIBS = ["-lTFELMTest", "-lTFELMathParser", "-lTFELMathKriging", "-lTFELMath", "-lTFELUtilities", "-lTFELException",
        "-lTFELTests", "-lTFELSystem", "-lMFrontLogStream"]

DBL_MIN = 2.2250738585072014e-308
NAN, INF = float("nan"), float("inf")
SPECIALS = [0.0, -0.0, NAN, INF, -INF, 1.7976931348623157e308, -1.7976931348623157e308, 5e-324, -5e-324, DBL_MIN,
            -DBL_MIN, 1.0, -1.0]


def cstr(x):      # for the driver (strtod)
    if math.isnan(x):
        return "nan"
    if math.isinf(x):
        return "inf" if x > 0 else "-inf"
    return x.hex()


def coqf(x):      # Coq float literal
    if math.isnan(x):
        return "nan"
    if math.isinf(x):
        return "infinity" if x > 0 else "neg_infinity"
    h = x.hex()
    return "(-%s)" % h[1:] if h.startswith("-") else h


def coql(xs):
    return "[" + "; ".join(coqf(x) for x in xs) + "]%float"


def coqrows(rows):
    return "[" + "; ".join("(%s, %s)" % (coqf(a), coqf(b)) for a, b in rows) + "]%float"


# ---------------------------------------------------------------- independent statement of the property (Python)
def fin(x):
    return not (math.isnan(x) or math.isinf(x))


def fsub(a, b):
    return a - b


def fdiv(a, b):
    try:
        return a / b
    except ZeroDivisionError:
        if a == 0 or math.isnan(a):
            return NAN
        return math.copysign(INF, a) * math.copysign(1.0, b)


def within(kind, prec, prec2, a, b):
    """documented per-row criterion, evaluated in binary64 (Python floats); False when NaN is involved"""
    e = abs(a - b)
    if kind == "absolute":
        return e <= prec
    r = fdiv(e, min(abs(a), abs(b)) + 100 * DBL_MIN) if not (math.isnan(a) or math.isnan(b)) else NAN
    if kind == "relative":
        return r <= prec
    if kind == "relabs":
        return r <= prec or e <= prec2
    if kind == "mixed":
        return e - prec * abs(b) - prec2 <= 0
    raise ValueError(kind)


def errs(kind, prec, prec2, a, b):
    """the error values the criterion of `kind` looks at"""
    e = abs(a - b)
    r = fdiv(e, min(abs(a), abs(b)) + 100 * DBL_MIN) if not (math.isnan(a) or math.isnan(b)) else NAN
    return {"absolute": [e], "relative": [r], "relabs": [r, e], "mixed": [e - prec * abs(b) - prec2]}[kind]


def rows_sound(kind, prec, prec2, rows):
    return all(fin(a) and fin(b) and within(kind, prec, prec2, a, b) for a, b in rows)


# ---------------------------------------------------------------- generators
def rnd_value(rng):
    u = rng.random()
    if u < 0.12:
        return rng.choice(SPECIALS)
    if u < 0.2:
        return float(rng.randint(-3, 3))
    m = rng.uniform(1, 10) * 10.0 ** rng.choice([-300, -20, -6, -3, -1, 0, 0, 0, 1, 2, 3, 6, 20, 300])
    return m if rng.random() < 0.6 else -m


def rnd_tol(rng):
    u = rng.random()
    if u < 0.1:
        return 0.0
    if u < 0.14:
        return rng.choice([NAN, INF, -0.0, -1.0])
    return rng.choice([1e-14, 1e-12, 1e-9, 1e-6, 1e-3, 0.0009765625, 1e-2, 0.1, 0.5, 1.0, 10.0, 1e10])


def gen_cmp(rng, kind):
    n = rng.randint(1, 6)
    prec, prec2 = rnd_tol(rng), (rnd_tol(rng) if kind in ("relabs", "mixed") else 0.0)
    mode = rng.random()
    rows = []
    for _ in range(n):
        a = rnd_value(rng)
        u = rng.random()
        if mode < 0.2 or u < 0.3:
            b = a                                    # self comparison
        elif u < 0.75 and fin(a):
            d = rng.choice([0.25, 0.5, 0.999, 1.0, 1.001, 2.0, 4.0]) * (prec if fin(prec) else 1.0)
            b = rng.choice([a + d, a - d, a * (1 + d), a * (1 - d), a + d * abs(a), a + d + (prec2 if fin(prec2) else 0.0)])
        else:
            b = rnd_value(rng)
        rows.append((a, b) if rng.random() < 0.5 else (b, a))
    if rng.random() < 0.25 and rows:                  # tolerance exactly at the error of one row (tie)
        a, b = rng.choice(rows)
        e = abs(a - b)
        if kind == "absolute" and fin(e):
            prec = e
        elif kind in ("relative", "relabs") and fin(a) and fin(b):
            r = fdiv(e, min(abs(a), abs(b)) + 100 * DBL_MIN)
            if fin(r):
                prec = r
        elif kind == "mixed" and fin(e) and fin(prec * b):
            p2 = e - prec * b
            if fin(p2):
                prec2 = p2
    return (kind, prec, prec2, rows)


CORPUS_CMP = [(k, 0.0009765625, 0.0009765625 if k in ("relabs", "mixed") else 0.0, rows) for k in ("absolute", "relative", "relabs", "mixed")
              for rows in ([(1.0, 1.0), (NAN, 2.0), (3.0, 3.0)], [(1.0, 1.0), (2.0, NAN), (3.0, 3.0)], [(NAN, NAN)],
                           [(INF, INF)], [(INF, -INF)], [(-INF, 1.0)], [(1.0, INF)], [(1e308, -1e308)], [(0.0, -0.0)],
                           [(-10.0, -10.0)], [(-1.0, -1.0), (2.0, 2.0)], [(1.0, 1.0009765625)], [(1.0, 1.001)])]
CORPUS_CMP += [("mixed", 0.125, 0.0, [(-10.0, -10.0)]), ("mixed", 0.125, 0.0, [(10.0, 10.0)]),
               ("mixed", 0.125, 0.0, [(-10.0, -9.0)]), ("mixed", 0.125, 0.0, [(10.0, 11.25)]),
               ("mixed", 0.125, 0.0, [(11.25, 10.0)]), ("mixed", 0.125, 0.0, [(11.26, 10.0)])]


def gen_area(rng):
    n = rng.randint(1, 6)
    t = [float(rng.randint(-3, 3))]
    for _ in range(n - 1):
        t.append(t[-1] + rng.choice([0.0, 0.5, 1.0, 1.0, 2.5, 1e-3]))
    if rng.random() < 0.15:
        rng.shuffle(t)
    vA = [rnd_value(rng) if rng.random() < 0.3 else float(rng.randint(-4, 9)) for _ in t]
    u = rng.random()
    if u < 0.5:
        tB = list(t)
    elif u < 0.75:
        tB = [x for x in t if rng.random() < 0.7] or [t[0]]
    else:
        tB = sorted(set(t + [rng.choice(t) + rng.choice([-0.25, 0.25, 7.0])]))
    if len(tB) == len(t) and rng.random() < 0.5:
        vB = list(vA) if rng.random() < 0.5 else [v + rng.choice([0.0, 1e-3, -0.5, 2.0]) for v in vA]
    else:
        vB = [float(rng.randint(-4, 9)) for _ in tB]
    return (rnd_tol(rng), t, vA, tB, vB)


CORPUS_AREA = [(1e-3, [0.0, 1.0, 2.0], [1.0, 2.0, 3.0], [0.0, 1.0, 2.0], [1.0, 2.0, 3.0]),
               (1e-3, [0.0, 1.0, 2.0], [1.0, 2.0, 3.0], [0.0, 1.0, 2.0], [1.0, 2.5, 3.0]),
               (1e-3, [0.0, 1.0, 2.0], [0.0, 0.0, 0.0], [0.0, 1.0, 2.0], [0.0, 0.0, 0.0]),
               (1e-3, [0.0, 1.0, 2.0], [-1.0, -2.0, -3.0], [0.0, 1.0, 2.0], [-1.0, -2.0, -3.0]),
               (1e-3, [0.0, 1.0], [-1.0, -1.0], [0.0, 1.0], [-100.0, -100.0]),
               (1e-3, [0.0, 1.0, 2.0], [1.0, NAN, 3.0], [0.0, 1.0, 2.0], [1.0, 2.0, 3.0]),
               (1e-3, [2.0, 1.0], [1.0, 2.0], [2.0, 1.0], [1.0, 2.0]),
               (1e-3, [0.0, 1.0, 2.0], [1.0, 2.0, 3.0], [0.0, 2.0], [1.0, 3.0]),
               (1e-3, [0.0], [1.0], [0.0], [1.0])]


def gen_ana(rng):
    n = rng.randint(1, 5)
    eps = rnd_tol(rng)
    rows = []
    for _ in range(n):
        v = rnd_value(rng) if rng.random() < 0.25 else float(rng.randint(-50, 50)) / 8
        u = rng.random()
        fv = v if u < 0.3 else (v + rng.choice([0.5, 1.0, 2.0, -1.0]) * (eps if fin(eps) else 1.0) if u < 0.8 and fin(v) else rnd_value(rng))
        rows.append((v, fv))
    return (eps, rows)


def gen_ref(rng):
    nv = rng.randint(1, 5)
    eps = rnd_tol(rng)
    refs = []
    for _ in range(nv):
        r = rnd_value(rng) if rng.random() < 0.3 else float(rng.randint(-50, 50)) / 8
        if r == -INF:
            r = INF                                   # TextData cannot read "-inf" (token "-" alone)
        if r != 0 and abs(r) < DBL_MIN:
            r = 0.0                                   # std::stod rejects denormals (ERANGE)
        refs.append(r)
    rows = []
    for i in range(rng.randint(1, 6)):
        p = rng.randint(0, nv + 1) if rng.random() < 0.3 else min(i, nv - 1)
        r = refs[p] if p < nv else 0.0
        u = rng.random()
        v = r if u < 0.3 and fin(r) else ((r + rng.choice([0.5, 1.0, 2.0, -1.0]) * (eps if fin(eps) else 1.0)) if u < 0.8 and fin(r) else rnd_value(rng))
        rows.append((p, v))
    return (eps, refs, rows)


CORPUS_REF = [(0.0009765625, [1.0, NAN, 3.0], [(0, 1.0), (1, 2.0), (2, 3.0)]),
              (0.0009765625, [1.0, INF, 3.0], [(0, 1.0), (1, 2.0), (2, 3.0)]),
              (0.0009765625, [1.0, 2.0], [(0, 1.0), (1, 2.0), (2, 3.0)]),
              (0.0009765625, [1.0, 2.0], [(0, 1.0), (1, NAN)])]
CORPUS_ANA = [(0.0009765625, [(1.0, 1.0), (2.0, 2.0009765625)]), (0.0009765625, [(1.0, 1.0), (2.0, 2.001)]),
              (0.0009765625, [(1.0, 1.0), (NAN, 2.0)]), (0.0009765625, [(1.0, NAN)]), (0.0009765625, [(1e308, -1e308)]),
              (NAN, [(1.0, 5.0)]), (INF, [(1.0, 5.0)])]

VARIANTS2 = ["TolGt", "TolNotLe"]
VARIANTS_MIXED = [("TolGt", "MixSigned"), ("TolGt", "MixAbs"), ("TolNotLe", "MixSigned"), ("TolNotLe", "MixAbs")]
COQ_FN = {"absolute": ("absolute", "absolute_row_fails"), "relative": ("relative", "relative_row_fails"),
          "relabs": ("relabs", "relabs_row_fails"), "mixed": ("mixed", "mixed_row_fails")}
HEADER = """From Coq Require Import Floats List Bool.
From C51 Require Import C51Model.
Import ListNotations.
Local Open Scope float_scope.
Definition b2n (b : bool) : nat := if b then 1%nat else 0%nat.
Definition ob2n (o : option bool) : nat := match o with Some b => b2n b | None => 2%nat end.
Definition out2n (o : outcome) : nat := match o with Verdict b => b2n b | Throws i => (10 + i)%nat end.
"""


def main(c):
    exe = c.cxx("driver", ["driver.cxx"], TFELCHECK + MTEST + UTIL, flags=["-ffp-contract=off"], libs=LIBS,
                link_repo_libs=True)
    c.trusted("driver props/C51/driver.cxx (builds Column objects / a sequence Evolution, calls compare()/check(), prints hasSucceed / "
              "failed-row count / exception); floats exchanged as hex literals (strtod / Coq hex float literals)",
              "the expression evaluator (tfel::math::Evaluator), CxxTokenizer and tfel::tests::TestResult are taken from the "
              "libraries built in /repo/_build; every file of the property's anchors is compiled from the working tree",
              "g++ binary64 arithmetic with -ffp-contract=off, glibc strtod/printf; Python float arithmetic for the independent "
              "statement of the criteria")
    rng = c.rng
    N = c.pick(260, 2500)
    cmp_cases = list(CORPUS_CMP)
    for k in ("absolute", "relative", "relabs", "mixed"):
        cmp_cases += [gen_cmp(rng, k) for _ in range(N)]
    area_cases = list(CORPUS_AREA) + [gen_area(rng) for _ in range(c.pick(200, 1500))]
    ana_cases = list(CORPUS_ANA) + [gen_ana(rng) for _ in range(c.pick(200, 1500))]
    ref_cases = list(CORPUS_REF) + [gen_ref(rng) for _ in range(c.pick(200, 1500))]

    # ---------------------------------------------------------------- run the real code
    lines = []
    for (k, p, p2, rows) in cmp_cases:
        lines.append("CMP %s %s %s %d %s" % (k, cstr(p), cstr(p2), len(rows), " ".join(cstr(a) + " " + cstr(b) for a, b in rows)))
    for (p, tA, vA, tB, vB) in area_cases:
        lines.append("AREA none %s %d %s %s %d %s %s" % (cstr(p), len(tA), " ".join(map(cstr, tA)), " ".join(map(cstr, vA)),
                                                          len(tB), " ".join(map(cstr, tB)), " ".join(map(cstr, vB))))
    for (eps, rows) in ana_cases:
        lines.append("ANA %s %d %s" % (cstr(eps), len(rows), " ".join(cstr(a) + " " + cstr(b) for a, b in rows)))
    for (eps, refs, rows) in ref_cases:
        lines.append("REF %s %d %s %d %s" % (cstr(eps), len(refs), " ".join(map(cstr, refs)), len(rows),
                                             " ".join("%d %s" % (p, cstr(v)) for p, v in rows)))
    # end-to-end: NaN read from result files by the real Column / TextData
    fa, fb = os.path.join(c.work, "res_nan.txt"), os.path.join(c.work, "ref_ok.txt")
    open(fa, "w").write("#t v\n1 1\n2 nan\n3 3\n")
    open(fb, "w").write("#t v\n1 1\n2 2\n3 3\n")
    file_kinds = ["absolute", "relative", "relabs", "mixed"]
    for k in file_kinds:
        lines.append("FILECMP %s 0x1p-10 0x1p-10 %s %s 2" % (k, fa, fb))
    rc, out, err = c.run([exe, c.work], input="\n".join(lines) + "\n", timeout=600)
    res = out.splitlines()
    if rc != 0 or len(res) != len(lines):
        c.report("driver", "driver failed (rc=%d, %d answers for %d commands): %s" % (rc, len(res), len(lines), err[-400:]),
                 {"stderr": err[-3000:], "last_command": lines[len(res)] if len(res) < len(lines) else ""}, False)
        return
    i0 = 0
    cmp_res = res[i0:i0 + len(cmp_cases)]; i0 += len(cmp_cases)
    area_res = res[i0:i0 + len(area_cases)]; i0 += len(area_cases)
    ana_res = res[i0:i0 + len(ana_cases)]; i0 += len(ana_cases)
    ref_res = res[i0:i0 + len(ref_cases)]; i0 += len(ref_cases)
    file_res = res[i0:]

    # ---------------------------------------------------------------- run the model (vm_compute, bit exact)
    v = [HEADER]
    for (k, p, p2, rows) in cmp_cases:
        fn, rf = COQ_FN[k]
        args = coqf(p) + (" " + coqf(p2) if k in ("relabs", "mixed") else "")
        if k == "mixed":
            items = ["b2n (%s %s %s %s R); nfailed (%s %s %s %s) R" % (fn, a, b, args, rf, a, b, args) for a, b in VARIANTS_MIXED]
        else:
            items = ["b2n (%s %s %s R); nfailed (%s %s %s) R" % (fn, a, args, rf, a, args) for a in VARIANTS2]
        v.append("Eval vm_compute in (let R := %s in [%s]%%nat)." % (coqrows(rows), "; ".join(items)))
    for (p, tA, vA, tB, vB) in area_cases:
        v.append("Eval vm_compute in [ob2n (area TolGt no_interp %s %s %s %s %s)]%%nat." % (coqf(p), coql(tA), coql(vA), coql(tB), coql(vB)))
    for (eps, rows) in ana_cases:
        v.append("Eval vm_compute in (let R := %s in [out2n (analytical TolGt %s R); out2n (analytical TolNotLe %s R)]%%nat)." % (
            coqrows(rows), coqf(eps), coqf(eps)))
    for (eps, refs, rows) in ref_cases:
        rr = "[" + "; ".join("(%d%%nat, %s)" % (p, coqf(x)) for p, x in rows) + "]%float"
        v.append("Eval vm_compute in (let R := %s in [out2n (reffile TolGt %s %s R); out2n (reffile TolNotLe %s %s R)]%%nat)." % (
            rr, coqf(eps), coql(refs), coqf(eps), coql(refs)))
    rc, mout, merr = c.coq_eval(["C51Model.v"], "\n".join(v) + "\n", timeout=900)
    if rc != 0:
        c.report("model-eval", "model evaluation failed: " + merr[-500:], {"stderr": merr[-3000:]}, False)
        return
    model = [[int(x) for x in re.findall(r"\d+", m)] for m in re.findall(r"=\s*\[([^\]]*)\]", mout.replace("%nat", ""))]
    ncases = len(cmp_cases) + len(area_cases) + len(ana_cases) + len(ref_cases)
    if len(model) != ncases:
        c.report("model-eval", "model evaluation returned %d results for %d cases" % (len(model), ncases), {"stdout": mout[-2000:]}, False)
        return
    c.trusted("Coq vm_compute on primitive floats (kernel primitives PrimFloat.*, axioms FloatAxioms.*_spec relate them to SpecFloat); "
              "Flocq 's Prim2B equivalences for the proofs")
    j0 = 0
    m_cmp = model[j0:j0 + len(cmp_cases)]; j0 += len(cmp_cases)
    m_area = model[j0:j0 + len(area_cases)]; j0 += len(area_cases)
    m_ana = model[j0:j0 + len(ana_cases)]; j0 += len(ana_cases)
    m_ref = model[j0:j0 + len(ref_cases)]

    findings = set()

    def parse_R(line):
        t = line.split()
        return t[0], [int(x) for x in t[1:]] if t[0] in ("R", "T") else t[1:]

    # ---------------------------------------------------------------- tfel-check comparisons
    for kind in ("absolute", "relative", "relabs", "mixed"):
        variants = VARIANTS_MIXED if kind == "mixed" else VARIANTS2
        mism = {vv: [] for vv in variants}
        prop_bad = []
        for idx, (case, line, mm) in enumerate(zip(cmp_cases, cmp_res, m_cmp)):
            if case[0] != kind:
                continue
            k, p, p2, rows = case
            tag, val = parse_R(line)
            nontrivial = any(not fin(x) for r in rows for x in r) or len(rows) > 1
            c.count(1, ("cmp", kind, cstr(p), cstr(p2), tuple(cstr(x) for r in rows for x in r)), nontrivial)
            if tag != "R":
                c.report("cmp-exception:%s" % kind, "%s comparison threw on %s" % (kind, rows), {"case": repr(case), "answer": line}, True)
                continue
            ok, nf = val[0] == 1, val[1]
            for vi, vv in enumerate(variants):
                mok, mnf = mm[2 * vi] == 1, mm[2 * vi + 1]
                if mok != ok or (not ok and mnf != nf):
                    mism[vv].append((idx, mok, mnf))
            # the property itself, stated independently, on the real verdict
            selfcmp = all(cstr(a) == cstr(b) for a, b in rows)
            if idx % 53 == 0:
                c.sample({"comparison": kind, "prec": cstr(p), "prec2": cstr(p2), "rows": [[cstr(a), cstr(b)] for a, b in rows], "real": line,
                          "model[TolGt ok,nfailed,TolNotLe ok,nfailed,..]": mm})
            if ok and fin(p) and fin(p2) and (kind != "mixed" or p >= 0) and not rows_sound(kind, p, p2, rows):
                prop_bad.append((idx, "success although a compared pair is not finite / not within the tolerance"))
            if (not ok) and selfcmp and all(fin(a) for a, _ in rows) and fin(p) and fin(p2) and p >= 0 and p2 >= 0:
                prop_bad.append((idx, "a finite column compared with itself is rejected"))
        best = [vv for vv in variants if not mism[vv]]
        fixed = variants[-1]
        c.notes.append("%s: code agrees bit-exactly with model variant(s) %s" % (kind, best))
        if not best:
            vv = min(variants, key=lambda x: len(mism[x]))
            idx, mok, mnf = mism[vv][0]
            k, p, p2, rows = cmp_cases[idx]
            c.report("tie:%s:%s:%s:%s" % (kind, cstr(p), cstr(p2), ",".join(cstr(x) for r in rows for x in r)),
                     "%sComparison::compare on prec=%r prec2=%r rows=%r answers '%s' but every model variant differs (closest %s: success=%s failed=%d)" % (
                         kind, p, p2, rows, cmp_res[idx], vv, mok, mnf),
                     {"kind": kind, "prec": cstr(p), "prec2": cstr(p2), "rows": [[cstr(a), cstr(b)] for a, b in rows], "real": cmp_res[idx],
                      "how": "echo 'CMP ...' | driver (props/C51/driver.cxx)"}, True)
        tol_form = (best[0][0] if kind == "mixed" else best[0]) if best else None
        mix_form = best[0][1] if (best and kind == "mixed") else None
        for idx, what in prop_bad:
            k, p, p2, rows = cmp_cases[idx]
            nanrow = any(any(math.isnan(e) for e in errs(kind, p, p2, a, b)) for a, b in rows)
            if what.startswith("success") and tol_form == "TolGt" and nanrow:
                key = "F15:%s:nan-row-passes" % kind
            elif what.startswith("a finite column") and mix_form == "MixSigned" and any(a < 0 for a, _ in rows):
                key = "mixed:self-comparison-fails-on-negative-values"
            else:
                key = "prop:%s:%s:%s:%s" % (kind, cstr(p), cstr(p2), ",".join(cstr(x) for r in rows for x in r))
                if len(c.violations) >= 4:
                    continue
            if c.report(key, "%sComparison (prec=%r, prec2=%r) on rows %r: %s (real answer '%s')" % (kind, p, p2, rows, what, cmp_res[idx]),
                        {"kind": kind, "prec": cstr(p), "prec2": cstr(p2), "rows": [[cstr(a), cstr(b)] for a, b in rows], "real": cmp_res[idx]}, True) is False:
                findings.add(key)
    # files with "nan" read by the real reader
    for k, line in zip(file_kinds, file_res):
        c.count(1, ("file", k))
        t = line.split()
        if t[0] == "R" and t[1] == "1":
            if c.report("F15:%s:nan-row-passes" % k, "tfel-check %s comparison of a result file containing 'nan' (row 2) with a finite reference succeeds" % k,
                        {"fileA": "#t v\\n1 1\\n2 nan\\n3 3", "fileB": "#t v\\n1 1\\n2 2\\n3 3", "column": 2, "real": line}, True) is False:
                findings.add("F15:%s:nan-row-passes" % k)
    # ---------------------------------------------------------------- Area
    for idx, (case, line, mm) in enumerate(zip(area_cases, area_res, m_area)):
        p, tA, vA, tB, vB = case
        c.count(1, ("area", cstr(p), tuple(map(cstr, tA + vA + tB + vB))), len(tA) > 1)
        real = 2 if line.startswith("X") else int(line.split()[1])
        key = "area:%s:%s" % (cstr(p), ",".join(map(cstr, tA + vA + [9e99] + tB + vB)))
        if real != mm[0]:
            c.report("tie:" + key, "AreaComparison::compare prec=%r A=(%r,%r) B=(%r,%r) answers '%s', model says %d (0 fail,1 success,2 exception)" % (
                p, tA, vA, tB, vB, line, mm[0]), {"prec": cstr(p), "tA": tA, "vA": list(map(cstr, vA)), "tB": tB, "vB": list(map(cstr, vB)), "real": line}, True)
        identical = tA == tB and list(map(cstr, vA)) == list(map(cstr, vB)) and all(tA[i] <= tA[i + 1] for i in range(len(tA) - 1))
        if identical and not (p < 0) and real != 1:
            c.report("prop:" + key, "Area comparison of identical curves (ordered abscissas) does not succeed: '%s'" % line,
                     {"prec": cstr(p), "t": tA, "v": list(map(cstr, vA)), "real": line}, True)
    # ---------------------------------------------------------------- MTest tests
    for name, cases, rres, mres in (("analytical", ana_cases, ana_res, m_ana), ("reffile", ref_cases, ref_res, m_ref)):
        mism = {"TolGt": [], "TolNotLe": []}
        prop_bad = []
        for idx, (case, line, mm) in enumerate(zip(cases, rres, mres)):
            tag, val = parse_R(line)
            c.count(1, (name, repr([cstr(x) if isinstance(x, float) else x for x in _flat(case)])), True)
            real = (10 + val[0]) if tag == "T" else (val[0] if tag == "R" else -1)
            for vi, vv in enumerate(VARIANTS2):
                if mm[vi] != real:
                    mism[vv].append((idx, mm[vi]))
            eps = case[0]
            if real == 1 and fin(eps):
                if name == "analytical":
                    bad = [r for r in case[1] if not (fin(r[0]) and fin(r[1]) and abs(r[0] - r[1]) <= eps)]
                else:
                    refs = case[1]
                    bad = [r for r in case[2] if not (r[0] < len(refs) and fin(r[1]) and fin(refs[r[0]]) and abs(r[1] - refs[r[0]]) <= eps)]
                if bad:
                    prop_bad.append((idx, bad))
        best = [vv for vv in VARIANTS2 if not mism[vv]]
        c.notes.append("%s: code agrees bit-exactly with model variant(s) %s" % (name, best))
        if not best:
            vv = min(VARIANTS2, key=lambda x: len(mism[x]))
            idx, mval = mism[vv][0]
            c.report("tie:%s:%r" % (name, [cstr(x) if isinstance(x, float) else x for x in _flat(cases[idx])]),
                     "%s test on %r answers '%s' but the model (%s) says %d (0 fail, 1 success, 10+i exception at check i)" % (
                         name, cases[idx], rres[idx], vv, mval), {"case": repr(cases[idx]), "real": rres[idx]}, True)
        for idx, bad in prop_bad:
            nanref = name == "reffile" and best == ["TolGt"] and any(r[0] < len(cases[idx][1]) and math.isnan(cases[idx][1][r[0]]) for r in bad)
            key = "F15:reffile:nan-reference-passes" if nanref else "prop:%s:%r" % (name, [cstr(x) if isinstance(x, float) else x for x in _flat(cases[idx])])
            if c.report(key, "MTest %s test (eps=%r) succeeds on %r although %r is not finite / within eps" % (name, cases[idx][0], cases[idx][1:], bad),
                        {"case": repr(cases[idx]), "real": rres[idx]}, True) is False:
                findings.add(key)

    c.coverage["rule"] = ("seeded (VERIF_SEED) + fixed corpus; per comparison %d columns of 1-6 rows: 12%% special values (0,-0,NaN,+-inf,+-DBL_MAX,"
                          "denormals), magnitudes 1e-300..1e300, 30%% self-comparison rows, perturbations at 0.25..4 x tolerance, 25%% tolerances "
                          "set exactly at a row's error (ties), tolerances incl. 0, NaN, inf, negative; Area: %d curve pairs (same/sub/super grids, "
                          "15%% unordered); MTest tests: %d+%d check sequences incl. out-of-range periods; non-trivial = has a non-finite value or "
                          "more than one row" % (N, len(area_cases), len(ana_cases), len(ref_cases)))
    c.coverage["traces_validated_against_impl"] = ncases

    # ---------------------------------------------------------------- theorems
    pinned = bool(findings)
    pf = "Properties_C51_pinned.v" if pinned else "Properties_C51.v"
    c.notes.append("theorem file: %s (%s)" % (pf, "known findings observed: %s" % sorted(findings) if pinned else "code implements the NaN-safe forms"))
    r = c.coq(["C51Model.v", "C51Spec.v", "C51Proofs.v", pf], timeout=900)
    if not r.ok:
        c.coq_failures(r)


def _flat(x):
    if isinstance(x, (list, tuple)):
        for y in x:
            yield from _flat(y)
    else:
        yield x


guarded_main("C51", main)

(* C47: interprets the same line script as driver.cxx with the extracted Gallina model (C47Model.v).
   argv.(1) = name of the tfel-config executable (printed by the real driver). *)
open C47_model

let cs_of_string (s : Stdlib.String.t) : C47_model.string =
  let r = ref EmptyString in
  for i = String.length s - 1 downto 0 do
    let c = Char.code s.[i] in
    let b k = (c lsr k) land 1 = 1 in
    r := String (Ascii (b 0, b 1, b 2, b 3, b 4, b 5, b 6, b 7), !r)
  done;
  !r
let string_of_cs (s : C47_model.string) : Stdlib.String.t =
  let buf = Buffer.create 16 in
  let rec go = function
    | EmptyString -> ()
    | String (Ascii (b0, b1, b2, b3, b4, b5, b6, b7), r) ->
        let v k b = if b then 1 lsl k else 0 in
        Buffer.add_char buf (Char.chr (v 0 b0 + v 1 b1 + v 2 b2 + v 3 b3 + v 4 b4 + v 5 b5 + v 6 b6 + v 7 b7));
        go r in
  go s; Buffer.contents buf

let tc = cs_of_string (if Array.length Sys.argv > 1 then Sys.argv.(1) else "tfel-config")
let regs : (Stdlib.String.t, registry option) Hashtbl.t = Hashtbl.create 16

let get_s () =
  let l = input_line stdin in
  if String.length l < 2 || l.[0] <> 'S' then failwith ("expected string line: " ^ l);
  cs_of_string (String.sub l 2 (String.length l - 2))
let get_v () =
  let l = input_line stdin in
  let n = Scanf.sscanf l "V %d" (fun n -> n) in
  List.init n (fun _ -> get_s ())
let put_v v =
  Printf.printf "V %d\n" (List.length v);
  List.iter (fun s -> Printf.printf "S %s\n" (string_of_cs s)) v
let dump (t : registry) =
  Printf.printf "REG %d %d %d\n" (List.length t.libs) (List.length t.headers) (List.length t.targets);
  List.iter (fun l ->
      Printf.printf "L %s\nS %s\nS %s\nS %s\nS %s\n" (if l.lmodule then "M" else "S") (string_of_cs l.lname)
        (string_of_cs l.lprefix) (string_of_cs l.lsuffix) (string_of_cs l.linstall);
      List.iter put_v l.lvecs) t.libs;
  List.iter (fun h -> Printf.printf "S %s\n" (string_of_cs h)) t.headers;
  List.iter (fun (n, vs) -> Printf.printf "S %s\n" (string_of_cs n); List.iter put_v vs) t.targets
let rec firstn k l = if k = 0 then [] else match l with [] -> [] | x :: r -> x :: firstn (k - 1) r
let find r = match Hashtbl.find regs r with Some t -> t | None -> failwith ("registry " ^ r ^ " is in error state")

let () =
  try
    while true do
      let line = input_line stdin in
      if String.trim line <> "" then begin
        Printf.printf "BEGIN %s\n" line;
        let w = Array.of_list (List.filter (fun s -> s <> "") (String.split_on_char ' ' line)) in
        (match w.(0) with
         | "RAW" ->
             let nl = int_of_string w.(2) and nh = int_of_string w.(3) and nt = int_of_string w.(4) in
             let libs = List.init nl (fun _ ->
                 let l = input_line stdin in
                 let n = get_s () in let p = get_s () in let s = get_s () in let ip = get_s () in
                 let vs = List.init 8 (fun _ -> get_v ()) in
                 { lname = n; lmodule = (l = "L M"); lprefix = p; lsuffix = s; linstall = ip; lvecs = vs }) in
             let hs = List.init nh (fun _ -> get_s ()) in
             let ts = List.init nt (fun _ -> let n = get_s () in let vs = List.init 4 (fun _ -> get_v ()) in (n, vs)) in
             Hashtbl.replace regs w.(1) (Some { libs = libs; headers = hs; targets = ts })
         | "NEWEMPTY" -> Hashtbl.replace regs w.(1) (Some empty_registry)
         | "COPY" -> Hashtbl.replace regs w.(1) (Hashtbl.find regs w.(2))
         | "MERGE" ->
             (match merge_registry tc (find w.(1)) (find w.(2)) (w.(3) <> "0") with
              | Some t -> Hashtbl.replace regs w.(1) (Some t); print_string "OK\n"
              | None -> Hashtbl.replace regs w.(1) None; print_string "ERR\n")
         | "DUMP" -> dump (find w.(1))
         | "TEXT" -> ()
         | "TOKENS" ->
             (* string tokens are printed as the bytes write(os, v, id) produces: quoted, quotes escaped *)
             let ts = print_registry (find w.(1)) in
             Printf.printf "TOK %d\n" (List.length ts);
             List.iter (function Sy s -> Printf.printf "y %s\n" (string_of_cs s)
                               | St s -> Printf.printf "t \"%s\"\n" (string_of_cs (escape s))) ts
         | "WF" -> Printf.printf "WF %d\n" (if wf_registry tc (find w.(1)) then 1 else 0)
         | "READ" ->
             (match read_registry tc (print_registry (find w.(2))) with
              | Some t -> Hashtbl.replace regs w.(1) (Some t); print_string "OK\n"
              | None -> Hashtbl.replace regs w.(1) None; print_string "ERR\n")
         | "TRUNC" ->
             (* every token prefix through the model reader: E rejected, O accepted *)
             let ts = print_registry (find w.(1)) in
             let n = List.length ts in
             let b = Buffer.create (n + 1) in
             for k = 0 to n do
               Buffer.add_char b (match read_registry tc (firstn k ts) with Some _ -> 'O' | None -> 'E')
             done;
             Printf.printf "TRUNC %d %s\n" n (Buffer.contents b)
         | c -> failwith ("unknown command " ^ c));
        print_string "END\n"
      end
    done
  with End_of_file -> ()

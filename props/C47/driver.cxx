// C47 driver: the REAL mfront::TargetsDescription / LibraryDescription (sources compiled from REPO by check.py):
// mergeTargetsDescription, operator<<, CxxTokenizer + read<TargetsDescription>, driven by a line script on stdin.
// Strings travel one per line as "S <text>".  See check.py for the script grammar.
#include <cstdio>
#include <cstdlib>
#include <cstring>
#include <fstream>
#include <iostream>
#include <map>
#include <sstream>
#include <string>
#include <vector>
#include <unistd.h>
#include <sys/wait.h>
#include <sys/resource.h>
#include "TFEL/Config/GetInstallPath.hxx"
#include "TFEL/Utilities/CxxTokenizer.hxx"
#include "MFront/MFrontUtilities.hxx"
#include "MFront/LibraryDescription.hxx"
#include "MFront/TargetsDescription.hxx"

using namespace mfront;
static std::map<std::string, TargetsDescription> regs;
static std::string tmpfile_;

static std::string getS() {
  std::string l;
  if (!std::getline(std::cin, l)) {
    std::fprintf(stderr, "unexpected end of script\n");
    std::exit(2);
  }
  if (l.size() < 2 || l[0] != 'S' || l[1] != ' ') {
    std::fprintf(stderr, "expected a string line, got '%s'\n", l.c_str());
    std::exit(2);
  }
  return l.substr(2);
}
static std::vector<std::string> getV() {
  std::string l;
  std::getline(std::cin, l);
  int n = 0;
  if (std::sscanf(l.c_str(), "V %d", &n) != 1) {
    std::fprintf(stderr, "expected a vector header, got '%s'\n", l.c_str());
    std::exit(2);
  }
  std::vector<std::string> v;
  for (int i = 0; i != n; ++i) v.push_back(getS());
  return v;
}
static void putV(const std::vector<std::string>& v) {
  std::printf("V %zu\n", v.size());
  for (const auto& s : v) std::printf("S %s\n", s.c_str());
}
static void dump(const TargetsDescription& t) {
  std::printf("REG %zu %zu %zu\n", t.libraries.end() - t.libraries.begin(), t.headers.size(), t.specific_targets.size());
  for (const auto& l : t.libraries) {
    std::printf("L %s\nS %s\nS %s\nS %s\nS %s\n", l.type == LibraryDescription::MODULE ? "M" : "S", l.name.c_str(),
                l.prefix.c_str(), l.suffix.c_str(), l.install_path.c_str());
    putV(l.sources);
    putV(l.cppflags);
    putV(l.include_directories);
    putV(l.ldflags);
    putV(l.link_directories);
    putV(l.link_libraries);
    putV(l.epts);
    putV(l.deps);
  }
  for (const auto& h : t.headers) std::printf("S %s\n", h.c_str());
  for (const auto& st : t.specific_targets) {
    std::printf("S %s\n", st.first.c_str());
    putV(st.second.deps);
    putV(st.second.cmds);
    putV(st.second.sources);
    putV(st.second.libraries);
  }
}
static std::string print(const TargetsDescription& t) {
  std::ostringstream os;
  os << t;
  return os.str();
}
// what MFront::analyseTargetsFile does with a file content
static TargetsDescription parse(const std::string& text) {
  {
    std::ofstream f(tmpfile_);
    f << text;
  }
  tfel::utilities::CxxTokenizer tokenizer{tmpfile_};
  auto c = tokenizer.begin();
  return read<TargetsDescription>(c, tokenizer.end());
}

int main(int argc, char** argv) {
  tmpfile_ = std::string(argc > 1 ? argv[1] : "/tmp") + "/c47_targets.lst";
  std::printf("TC %s\n", tfel::getTFELConfigExecutableName().c_str());
  std::string line;
  while (std::getline(std::cin, line)) {
    if (line.empty()) continue;
    std::istringstream is(line);
    std::string cmd, a, b;
    is >> cmd;
    std::printf("BEGIN %s\n", line.c_str());
    try {
      if (cmd == "RAW") {
        int nl, nh, nt;
        is >> a >> nl >> nh >> nt;
        TargetsDescription t;
        for (int i = 0; i != nl; ++i) {
          std::string l;
          std::getline(std::cin, l);
          const auto type = (l == "L M") ? LibraryDescription::MODULE : LibraryDescription::SHARED_LIBRARY;
          const auto n = getS();
          const auto p = getS();
          const auto s = getS();
          t.libraries.emplace_back(n, p, s, type);
          auto& ld = t.libraries.back();
          ld.install_path = getS();
          ld.sources = getV();
          ld.cppflags = getV();
          ld.include_directories = getV();
          ld.ldflags = getV();
          ld.link_directories = getV();
          ld.link_libraries = getV();
          ld.epts = getV();
          ld.deps = getV();
        }
        for (int i = 0; i != nh; ++i) t.headers.push_back(getS());
        for (int i = 0; i != nt; ++i) {
          auto& st = t.specific_targets[getS()];
          st.deps = getV();
          st.cmds = getV();
          st.sources = getV();
          st.libraries = getV();
        }
        regs.erase(a);
        regs.emplace(a, t);
      } else if (cmd == "NEWEMPTY") {
        is >> a;
        regs.erase(a);
        regs.emplace(a, TargetsDescription{});
      } else if (cmd == "COPY") {
        is >> a >> b;
        const auto t = regs.at(b);
        regs.erase(a);
        regs.emplace(a, t);
      } else if (cmd == "MERGE") {
        int flag;
        is >> a >> b >> flag;
        mergeTargetsDescription(regs.at(a), regs.at(b), flag != 0);
        std::printf("OK\n");
      } else if (cmd == "DUMP") {
        is >> a;
        dump(regs.at(a));
      } else if (cmd == "TEXT") {
        is >> a;
        const auto s = print(regs.at(a));
        std::printf("TEXT %zu\n", s.size());
        std::fwrite(s.data(), 1, s.size(), stdout);
        std::printf("\n");
      } else if (cmd == "TOKENS") {
        is >> a;
        {
          std::ofstream f(tmpfile_);
          f << regs.at(a);
        }
        tfel::utilities::CxxTokenizer tokenizer{tmpfile_};
        std::printf("TOK %zu\n", static_cast<size_t>(tokenizer.end() - tokenizer.begin()));
        for (auto p = tokenizer.begin(); p != tokenizer.end(); ++p) {
          std::printf("%c %s\n", p->flag == tfel::utilities::Token::String ? 't' : 'y', p->value.c_str());
        }
      } else if (cmd == "READ") {
        is >> a >> b;
        const auto t = parse(print(regs.at(b)));
        regs.erase(a);
        regs.emplace(a, t);
        std::printf("OK\n");
      } else if (cmd == "WF") {
        // the model states whether the registry is in the class "what mfront writes"; nothing to compute here
        std::printf("WF ?\n");
      } else if (cmd == "PARSEFILE") {
        // what MFront::analyseTargetsFile does with an existing file
        is >> a >> b;
        tfel::utilities::CxxTokenizer tokenizer{b};
        auto c = tokenizer.begin();
        const auto t = read<TargetsDescription>(c, tokenizer.end());
        regs.erase(a);
        regs.emplace(a, t);
        std::printf("OK\n");
      } else if (cmd == "TRUNC") {
        // the printed registry cut after every byte count, each through the real tokenizer + reader in a child process:
        // E = exception (what analyseTargetsFile logs), O = parsed and equal to the full registry, L = parsed but
        // something was lost, C = the reader crashed (signal)
        size_t step = 1;
        is >> a >> step;
        const auto full = print(regs.at(a));
        std::vector<size_t> cuts;
        for (size_t k = 0; k <= full.size(); k += ((k + step > full.size() && k != full.size()) ? full.size() - k : step)) {
          cuts.push_back(k);
        }
        std::string status;
        // one child handles the cuts in order and reports one character per cut through a pipe; when it dies (signal,
        // alarm) the cut it was working on is marked C and a new child goes on with the next one
        size_t next = 0;
        while (next < cuts.size()) {
          std::fflush(stdout);
          int fd[2];
          if (pipe(fd) != 0) {
            std::fprintf(stderr, "pipe failed\n");
            return 2;
          }
          const auto pid = fork();
          if (pid == 0) {
            close(fd[0]);
            struct rlimit nocore = {0, 0};
            setrlimit(RLIMIT_CORE, &nocore);
            for (size_t i = next; i != cuts.size(); ++i) {
              alarm(5);
              char code = 'E';
              try {
                const auto t = parse(full.substr(0, cuts[i]));
                code = (print(t) == full) ? 'O' : 'L';
              } catch (...) {
                code = 'E';
              }
              if (write(fd[1], &code, 1) != 1) _exit(3);
            }
            _exit(0);
          }
          close(fd[1]);
          char ch;
          size_t got = 0;
          while (read(fd[0], &ch, 1) == 1) {
            status += ch;
            ++got;
          }
          close(fd[0]);
          int st = 0;
          waitpid(pid, &st, 0);
          next += got;
          if (next < cuts.size()) {  // the child died on cut number `next`
            status += 'C';
            ++next;
          }
        }
        std::printf("TRUNC %zu %s\n", full.size(), status.c_str());
      } else {
        std::fprintf(stderr, "unknown command %s\n", cmd.c_str());
        return 2;
      }
    } catch (std::exception& e) {
      std::string m = e.what();
      for (auto& ch : m)
        if (ch == '\n') ch = ' ';
      std::printf("ERR %s\n", m.c_str());
    }
    std::printf("END\n");
  }
  return 0;
}

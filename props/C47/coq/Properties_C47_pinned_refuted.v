(* C47 -- used while mfront rewrites src/targets.lst in place and only logs a registry that does not parse (pinned
   code, finding F14): "the later run errors or keeps every library" is FALSE. *)
From Coq Require Import List String.
From C47 Require Import C47Model C47Proofs.
Local Open Scope string_scope.

Theorem C47_crash_in_place_refuted :
  exists old new td k,
    roundtrips tc0 old /\ roundtrips tc0 new /\ describes (libs old) "M" = true /\
    match run tc0 (mkPolicy false false) (crash_state (mkPolicy false false) (Some (print_registry old)) (print_registry new) k) td with
    | Error => False
    | Done _ r => describes (libs r) "M" = false
    end.
Proof. exact crash_in_place_refuted. Qed.
Print Assumptions C47_crash_in_place_refuted.

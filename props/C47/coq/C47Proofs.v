(* C47 -- lemmas about the registry model. *)
From Coq Require Import List String Bool Arith Lia.
From C47 Require Import C47Model.
Import ListNotations.
Local Open Scope string_scope.
Local Open Scope list_scope.

(* ------------------------------------------------------------------ insert_if / insert_all: union, idempotent, monotone *)
Lemma mem_In x l : mem x l = true <-> In x l.
Proof.
  unfold mem. rewrite existsb_exists. split.
  - intros (y & Hy & E). apply String.eqb_eq in E. now subst.
  - intros H. exists x. split; auto. apply String.eqb_refl.
Qed.
Lemma insert_if_in d v x : In x (insert_if d v) <-> In x d \/ (x = v /\ v <> "").
Proof.
  unfold insert_if. destruct (String.eqb_spec v ""); [subst; tauto|].
  destruct (mem v d) eqn:M.
  - apply mem_In in M. split; [tauto|]. intros [H|[-> _]]; auto.
  - rewrite in_app_iff. simpl. split; [intros [H|[<-|[]]]; auto|intros [H|[-> _]]; auto].
Qed.
Lemma insert_all_in s : forall d x, In x (insert_all d s) <-> In x d \/ (In x s /\ x <> "").
Proof.
  unfold insert_all. induction s as [|a s IH]; simpl; intros d x; [tauto|].
  rewrite IH, insert_if_in. split.
  - intros [[H|[-> H]]|[H1 H2]]; auto.
  - intros [H|[[<-|H] H2]]; auto.
Qed.
Lemma insert_if_absorb d v : v = "" \/ In v d -> insert_if d v = d.
Proof.
  unfold insert_if. intros [->|H]; [reflexivity|].
  destruct (v =? ""); auto. apply mem_In in H. now rewrite H.
Qed.
Lemma insert_all_absorb s : forall d, (forall x, In x s -> x = "" \/ In x d) -> insert_all d s = d.
Proof.
  unfold insert_all. induction s as [|a s IH]; simpl; intros d H; auto.
  rewrite insert_if_absorb by (apply H; auto). apply IH. intros; apply H; auto.
Qed.
Lemma insert_all_idem d s : insert_all (insert_all d s) s = insert_all d s.
Proof.
  apply insert_all_absorb. intros x Hx. destruct (String.eqb_spec x ""); auto.
  right. apply insert_all_in. auto.
Qed.
Lemma insert_if_prefix d v : exists l, insert_if d v = d ++ l.
Proof.
  unfold insert_if. destruct (v =? ""); [exists []; now rewrite app_nil_r|].
  destruct (mem v d); [exists []; now rewrite app_nil_r|eauto].
Qed.
Lemma insert_all_prefix s : forall d, exists l, insert_all d s = d ++ l.
Proof.
  unfold insert_all. induction s as [|a s IH]; simpl; intros d; [exists []; now rewrite app_nil_r|].
  destruct (insert_if_prefix d a) as (l1 & ->). destruct (IH (d ++ l1)) as (l2 & ->).
  exists (l1 ++ l2). now rewrite app_assoc.
Qed.

(* ------------------------------------------------------------------ merges keep what both sides had *)
Lemma map2_length {A} (f : A -> A -> A) a : forall b, List.length (map2 f a b) = List.length a.
Proof. induction a as [|x a IH]; intros [|y b]; simpl; auto. Qed.
Lemma map2_left a : forall b i x, In x (nth i a []) -> In x (nth i (map2 insert_all a b) []).
Proof.
  induction a as [|u a IH]; intros [|v b] i x H; simpl; auto.
  destruct i as [|i]; simpl in *; [apply insert_all_in; auto|apply IH; auto].
Qed.
Lemma map2_right a : forall b i x, (i < List.length a)%nat -> In x (nth i b []) -> x <> "" ->
                                   In x (nth i (map2 insert_all a b) []).
Proof.
  induction a as [|u a IH]; intros [|v b] i x Hi H Hx; simpl in *; try lia.
  - destruct i; simpl in H; tauto.
  - destruct i as [|i]; simpl in *; [apply insert_all_in; auto|apply IH; auto; lia].
Qed.

(* l' holds everything l holds (non-empty strings, the eight vectors) under the same name *)
Definition covers (l l' : lib) : Prop :=
  lname l = lname l' /\ forall i x, (i < 8)%nat -> In x (nth i (lvecs l) []) -> x <> "" -> In x (nth i (lvecs l') []).
Definition wf8 (ls : list lib) : Prop := forall l, In l ls -> List.length (lvecs l) = 8%nat.
Definition libs_cover (a r : list lib) : Prop := forall l, In l a -> exists l', In l' r /\ covers l l'.
Lemma covers_refl l : covers l l.
Proof. split; auto. Qed.
Lemma covers_trans a b c : covers a b -> covers b c -> covers a c.
Proof. intros [E1 H1] [E2 H2]. split; [congruence|]. intros; apply H2; auto. Qed.
Lemma libs_cover_refl a : libs_cover a a.
Proof. intros l H. exists l. split; auto using covers_refl. Qed.
Lemma libs_cover_trans a b c : libs_cover a b -> libs_cover b c -> libs_cover a c.
Proof.
  intros H1 H2 l Hl. destruct (H1 l Hl) as (l1 & Hl1 & C1). destruct (H2 l1 Hl1) as (l2 & Hl2 & C2).
  exists l2. split; auto. eapply covers_trans; eauto.
Qed.

Section WithConfig.
Variable tc : string.
Lemma merge_lib_covers d s l :
  merge_lib d s = Some l -> List.length (lvecs d) = 8%nat ->
  covers d l /\ (lname d = lname s -> covers s l) /\ List.length (lvecs l) = 8%nat.
Proof.
  unfold merge_lib. destruct (same_id d s); [|discriminate]. intros H; inversion H; subst l; clear H. intros L.
  unfold covers; simpl. repeat split; auto.
  - intros i x _ Hx _. now apply map2_left.
  - intros i x Hi Hx Hn. apply map2_right; auto. lia.
  - now rewrite map2_length.
Qed.
Lemma new_lib_length n m p s : List.length (lvecs (new_lib tc n m p s)) = 8%nat.
Proof. reflexivity. Qed.
Lemma merge_into_covers ls : forall s ls',
  merge_into tc ls s = Some ls' -> wf8 ls ->
  libs_cover ls ls' /\ (exists l', In l' ls' /\ covers s l') /\ wf8 ls'.
Proof.
  induction ls as [|d r IH]; simpl; intros s ls' H W.
  - destruct (merge_lib (new_lib tc (lname s) (lmodule s) (lprefix s) (lsuffix s)) s) as [l|] eqn:M; [|discriminate].
    inversion H; subst ls'; clear H.
    destruct (merge_lib_covers _ _ _ M (new_lib_length _ _ _ _)) as (_ & C & L).
    repeat split.
    + intros l0 [].
    + exists l. split; simpl; auto.
    + intros l0 [<-|[]]; auto.
  - destruct (String.eqb_spec (lname d) (lname s)) as [E|E].
    + destruct (same_id d s); [|discriminate].
      destruct (merge_lib d s) as [l|] eqn:M; [|discriminate]. inversion H; subst ls'; clear H.
      destruct (merge_lib_covers _ _ _ M (W d (or_introl eq_refl))) as (C1 & C2 & L).
      repeat split.
      * intros l0 [E0|H0]; [subst l0; exists l; simpl; auto|exists l0; simpl; auto using covers_refl].
      * exists l. simpl; auto.
      * intros l0 [<-|H0]; auto. apply W; simpl; auto.
    + destruct (merge_into tc r s) as [r'|] eqn:M; [|discriminate]. inversion H; subst ls'; clear H.
      destruct (IH _ _ M) as (C1 & (l' & Hl' & C2) & W').
      { intros l0 H0; apply W; simpl; auto. }
      repeat split.
      * intros l0 [E0|H0]; [subst l0; exists d; simpl; auto using covers_refl|].
        destruct (C1 l0 H0) as (l1 & H1 & C). exists l1; simpl; auto.
      * exists l'. simpl; auto.
      * intros l0 [<-|H0]; [apply W; simpl; auto|auto].
Qed.
Lemma merge_libs_covers ss : forall ls ls',
  merge_libs tc ls ss = Some ls' -> wf8 ls -> libs_cover ls ls' /\ libs_cover ss ls' /\ wf8 ls'.
Proof.
  induction ss as [|s ss IH]; simpl; intros ls ls' H W.
  - inversion H; subst. repeat split; auto using libs_cover_refl. intros l [].
  - destruct (merge_into tc ls s) as [l1|] eqn:M; [|discriminate].
    destruct (merge_into_covers _ _ _ M W) as (C1 & (l' & Hl' & C2) & W1).
    destruct (IH _ _ H W1) as (C3 & C4 & W2).
    repeat split; auto.
    + eapply libs_cover_trans; eauto.
    + intros l0 [<-|H0]; [|auto]. destruct (C3 l' Hl') as (l2 & H2 & C5). exists l2. split; auto.
      eapply covers_trans; eauto.
Qed.
Lemma merge_registry_covers d s b r :
  merge_registry tc d s b = Some r -> wf8 (libs d) ->
  libs_cover (libs d) (libs r) /\ libs_cover (libs s) (libs r) /\ wf8 (libs r).
Proof.
  unfold merge_registry. destruct (merge_libs tc (libs d) (libs s)) as [ls|] eqn:M; [|discriminate].
  intros H; inversion H; subst r; simpl. intros W. eapply merge_libs_covers; eauto.
Qed.
(* merging the same description twice changes nothing more (libraries) *)
Lemma merge_lib_idem d s l : merge_lib d s = Some l -> merge_lib l s = Some l.
Proof.
  unfold merge_lib. destruct (same_id d s) eqn:E; [|discriminate]. intros H; inversion H; subst l; clear H.
  unfold same_id in *. simpl. rewrite E. f_equal.
  assert (V : forall a b, map2 insert_all (map2 insert_all a b) b = map2 insert_all a b).
  { induction a as [|u a IH]; intros [|v b]; simpl; auto. now rewrite insert_all_idem, IH. }
  rewrite V. f_equal.
  destruct (String.eqb_spec (linstall d) ""); [destruct (String.eqb_spec (linstall s) ""); auto; now rewrite String.eqb_refl|].
  destruct (String.eqb_spec (linstall d) (linstall s)) as [E2|E2].
  - rewrite E2. destruct (String.eqb_spec (linstall s) ""); auto. now rewrite String.eqb_refl.
  - destruct (String.eqb_spec (linstall s) ""); auto. now rewrite String.eqb_refl.
Qed.

(* ------------------------------------------------------------------ runs and crashes *)
Definition roundtrips (t : registry) : Prop := read_registry tc (print_registry t) = Some t.
Lemma wf8_empty : wf8 (libs empty_registry).
Proof. intros l []. Qed.
(* a run that starts from a registry file holding [t] (which reads back) ends in error or keeps every library of [t] *)
Lemma run_keeps p t td :
  roundtrips t ->
  match run tc p (Some (print_registry t)) td with
  | Error => True
  | Done _ r => libs_cover (libs t) (libs r)
  end.
Proof.
  intros R. unfold run. rewrite R.
  destruct (merge_registry tc empty_registry t false) as [t0|] eqn:M0; auto.
  destruct (merge_registry tc t0 td true) as [t1|] eqn:M1; auto.
  destruct (merge_registry_covers _ _ _ _ M0 wf8_empty) as (_ & C0 & W0).
  destruct (merge_registry_covers _ _ _ _ M1 W0) as (C1 & _ & _).
  eapply libs_cover_trans; eauto.
Qed.
(* write-to-temporary-then-rename: whatever the crash point of the run that replaces [old] by [new] (where [new]
   keeps the libraries of [old]), the next run ends in error or keeps every library registered before the crash *)
Lemma crash_atomic fatal_ old new k td :
  roundtrips old -> roundtrips new -> libs_cover (libs old) (libs new) ->
  match run tc (mkPolicy true fatal_) (crash_state (mkPolicy true fatal_) (Some (print_registry old)) (print_registry new) k) td with
  | Error => True
  | Done _ r => libs_cover (libs old) (libs r)
  end.
Proof.
  intros Ro Rn C. unfold crash_state. cbn [atomic].
  destruct (Nat.leb k (List.length (print_registry new) + 1)).
  - now apply run_keeps.
  - pose proof (run_keeps (mkPolicy true fatal_) new td Rn) as H.
    destruct (run tc (mkPolicy true fatal_) (Some (print_registry new)) td); auto.
    eapply libs_cover_trans; eauto.
Qed.
(* the run that was killed had itself produced [new] from [old] *)
Lemma run_new_covers p old td f new :
  roundtrips old -> run tc p (Some (print_registry old)) td = Done f new -> libs_cover (libs old) (libs new).
Proof. intros R H. pose proof (run_keeps p old td R) as K. now rewrite H in K. Qed.
End WithConfig.

(* ------------------------------------------------------------------ concrete registries (tfel-config = "tfel-config") *)
Definition tc0 : string := "tfel-config".
Definition ex_lib (n src ept : string) : lib :=
  mkLib n false "lib" "so" "" [[src]; [default_cppflags tc0]; [default_include tc0]; []; []; []; [ept]; []].
Definition ex_old : registry := mkReg [ex_lib "M" "M.cxx" "M_f"] ["M.hxx"] [("all", [["x"]; []; []; []])].
Definition ex_td1 : registry := mkReg [ex_lib "N" "N.cxx" "N_f"] ["N.hxx"] [].
Definition ex_td2 : registry := mkReg [ex_lib "P" "P.cxx" "P_f"] [] [("check", [[]; ["make check"]; []; []])].
Definition ex_new : registry :=
  match merge_registry tc0 ex_old ex_td1 true with Some t => t | None => empty_registry end.
Lemma roundtrip_examples :
  roundtrips tc0 ex_old /\ roundtrips tc0 ex_new /\ roundtrips tc0 empty_registry /\
  List.length (libs ex_new) = 2%nat /\ merge_registry tc0 empty_registry ex_old false = Some ex_old.
Proof. repeat split; vm_compute; reflexivity. Qed.
(* in place + only logged: the run killed right after the truncation leaves an empty file; the next run succeeds and
   library M is gone *)
Lemma crash_in_place_refuted :
  exists old new td k,
    roundtrips tc0 old /\ roundtrips tc0 new /\ describes (libs old) "M" = true /\
    match run tc0 (mkPolicy false false) (crash_state (mkPolicy false false) (Some (print_registry old)) (print_registry new) k) td with
    | Error => False
    | Done _ r => describes (libs r) "M" = false
    end.
Proof.
  exists ex_old, ex_new, ex_td2, 1%nat. repeat split; vm_compute; reflexivity.
Qed.
(* every strict token prefix of these two files is rejected by the reader *)
Lemma prefixes_rejected_examples :
  forallb (fun k => match read_registry tc0 (firstn k (print_registry ex_new)) with None => true | Some _ => false end)
          (seq 0 (List.length (print_registry ex_new))) = true.
Proof. vm_compute; reflexivity. Qed.
Lemma run_fatal_damaged tc a ts td : read_registry tc ts = None -> run tc (mkPolicy a true) (Some ts) td = Error.
Proof. intros H. unfold run. now rewrite H. Qed.

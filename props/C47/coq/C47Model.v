(* C47 -- hand-written executable model of the build-target registry of mfront (definitions only):
   mfront::insert_if, mergeLibraryDescription, mergeTargetsDescription, TargetsDescription::getLibrary,
   operator<< (TargetsDescription / LibraryDescription) and read<TargetsDescription> at TOKEN level
   (a token is what tfel::utilities::CxxTokenizer yields: a string literal or anything else),
   MFront::analyseTargetsFile / writeTargetsDescription as operations on a one-file file system. *)
From Coq Require Import List String Ascii Bool Arith.
Import ListNotations.
Local Open Scope string_scope.
Local Open Scope list_scope.

(* ------------------------------------------------------------------ vectors of strings *)
Definition mem (x : string) (l : list string) : bool := existsb (String.eqb x) l.
(* insert_if(d, v): nothing for an empty string, appended if absent *)
Definition insert_if (d : list string) (v : string) : list string :=
  if (v =? "") then d else if mem v d then d else d ++ [v].
Definition insert_all (d s : list string) : list string := fold_left insert_if s d.

(* ------------------------------------------------------------------ data *)
(* the eight vectors of a library, in the order in which operator<< prints them *)
Definition LKEYS : list string :=
  ["sources"; "cppflags"; "include_directories"; "ldflags"; "link_directories"; "link_libraries"; "epts"; "deps"].
(* the four vectors of a specific target, in printing order *)
Definition TKEYS : list string := ["dependencies"; "commands"; "sources"; "libraries"].
Record lib := mkLib { lname : string; lmodule : bool; lprefix : string; lsuffix : string; linstall : string;
                      lvecs : list (list string) }.
Record registry := mkReg { libs : list lib; headers : list string; targets : list (string * list (list string)) }.
Definition empty_registry : registry := mkReg [] [] [].

(* LibraryDescription's constructor: default cppflags and include directory (tc = name of tfel-config) *)
Section WithConfig.
Variable tc : string.
Definition default_cppflags : string := ("$(shell " ++ tc ++ " --cppflags --compiler-flags)")%string.
Definition default_include : string := ("$(shell " ++ tc ++ " --include-path)")%string.
Definition new_lib (n : string) (m : bool) (p s : string) : lib :=
  mkLib n m p s "" [[]; [default_cppflags]; [default_include]; []; []; []; []; []].

(* ------------------------------------------------------------------ merges (None = the C++ raises) *)
Definition same_id (d s : lib) : bool :=
  (lname d =? lname s) && (lprefix d =? lprefix s) && (lsuffix d =? lsuffix s) && Bool.eqb (lmodule d) (lmodule s).
Fixpoint map2 {A} (f : A -> A -> A) (a b : list A) : list A :=
  match a, b with x :: a', y :: b' => f x y :: map2 f a' b' | _, _ => a end.
Definition merge_lib (d s : lib) : option lib :=
  if same_id d s then
    Some (mkLib (lname d) (lmodule d) (lprefix d) (lsuffix d)
                (if linstall d =? "" then linstall s else if linstall d =? linstall s then linstall d else linstall s)
                (map2 insert_all (lvecs d) (lvecs s)))
  else None.
(* getLibrary(n, prefix, suffix, type) followed by mergeLibraryDescription *)
Fixpoint merge_into (ls : list lib) (s : lib) : option (list lib) :=
  match ls with
  | [] => match merge_lib (new_lib (lname s) (lmodule s) (lprefix s) (lsuffix s)) s with
          | Some l => Some [l] | None => None end
  | d :: r => if lname d =? lname s then
                (if same_id d s then match merge_lib d s with Some l => Some (l :: r) | None => None end else None)
              else match merge_into r s with Some r' => Some (d :: r') | None => None end
  end.
Fixpoint merge_libs (ls : list lib) (ss : list lib) : option (list lib) :=
  match ss with
  | [] => Some ls
  | s :: r => match merge_into ls s with Some ls' => merge_libs ls' r | None => None end
  end.
Fixpoint assoc {A} (k : string) (l : list (string * A)) : option A :=
  match l with [] => None | (k', v) :: r => if k' =? k then Some v else assoc k r end.
Fixpoint assoc_set {A} (k : string) (v : A) (l : list (string * A)) : list (string * A) :=
  match l with [] => [(k, v)] | (k', v') :: r => if k' =? k then (k, v) :: r else (k', v') :: assoc_set k v r end.
(* specific targets: overwrite (b = true, the run's own description) or keep (b = false, the file read), except
   "all" whose dependencies are accumulated *)
Definition merge_target (b : bool) (d : list (string * list (list string))) (t : string * list (list string)) :=
  let '(k, v) := t in
  if k =? "all" then
    let a := match assoc "all" d with Some a => a | None => [[]; []; []; []] end in
    assoc_set "all" (match a with deps :: r => insert_all deps (hd [] v) :: r | [] => [] end) d
  else if b then assoc_set k v d
  else match assoc k d with Some _ => d | None => assoc_set k v d end.
Definition merge_registry (d s : registry) (b : bool) : option registry :=
  match merge_libs (libs d) (libs s) with
  | Some ls => Some (mkReg ls (fold_left (fun (h : list string) x => if mem x h then h else (h ++ [x])%list) (headers s) (headers d))
                           (fold_left (merge_target b) (targets s) (targets d)))
  | None => None
  end.

(* ------------------------------------------------------------------ printer, token level *)
Inductive tok := Sy (s : string) | St (s : string).
Definition tok_eqb (a b : tok) : bool :=
  match a, b with Sy x, Sy y => x =? y | St x, St y => x =? y | _, _ => false end.
Fixpoint sep_strs (v : list string) : list tok :=
  match v with [] => [] | [x] => [St x] | x :: r => St x :: Sy "," :: sep_strs r end.
(* write(os, v, id): nothing for an empty vector *)
Definition print_vec (id : string) (v : list string) : list tok :=
  match v with [] => [] | _ => [Sy id; Sy ":"; Sy "{"] ++ sep_strs v ++ [Sy "}"; Sy ";"] end.
Definition print_str (id s : string) : list tok := [Sy id; Sy ":"; St s; Sy ";"].
Fixpoint print_vecs (keys : list string) (vs : list (list string)) : list tok :=
  match keys, vs with k :: ks, v :: r => print_vec k v ++ print_vecs ks r | _, _ => [] end.
Definition print_lib (l : lib) : list tok :=
  [Sy "{"] ++ print_str "name" (lname l) ++ [Sy "type"; Sy ":"; Sy (if lmodule l then "MODULE" else "SHARED_LIBRARY"); Sy ";"]
  ++ print_str "prefix" (lprefix l) ++ print_str "suffix" (lsuffix l) ++ print_str "install_path" (linstall l)
  ++ print_vecs LKEYS (lvecs l) ++ [Sy "}"; Sy ";"].
Definition print_target (t : string * list (list string)) : list tok :=
  [Sy "target"; Sy ":"; Sy "{"] ++ print_str "name" (fst t) ++ print_vecs TKEYS (snd t) ++ [Sy "}"; Sy ";"].
Definition print_registry (t : registry) : list tok :=
  [Sy "{"] ++ flat_map (fun l => [Sy "library"; Sy ":"] ++ print_lib l) (libs t)
  ++ print_vec "headers" (headers t) ++ flat_map print_target (targets t) ++ [Sy "}"; Sy ";"].

(* ------------------------------------------------------------------ reader, token level *)
(* readStringArray after the opening brace *)
Fixpoint strs_tail (ts : list tok) : option (list string * list tok) :=
  match ts with
  | St s :: Sy c :: r =>
      if c =? "}" then Some ([s], r)
      else if c =? "," then match strs_tail r with Some (v, r') => Some (s :: v, r') | None => None end
      else None
  | _ => None
  end.
Definition parse_array (ts : list tok) : option (list string * list tok) :=
  match ts with
  | Sy o :: Sy c :: r => if (o =? "{") && (c =? "}") then Some ([], r) else None
  | Sy o :: r => if o =? "{" then strs_tail r else None
  | _ => None
  end.
Definition expect (s : string) (ts : list tok) : option (list tok) :=
  match ts with Sy x :: r => if x =? s then Some r else None | _ => None end.
Fixpoint index_of (k : string) (keys : list string) : option nat :=
  match keys with [] => None | x :: r => if x =? k then Some 0 else option_map S (index_of k r) end.
Fixpoint set_nth {A} (n : nat) (x : A) (l : list A) : list A :=
  match n, l with O, _ :: r => x :: r | S n', y :: r => y :: set_nth n' x r | _, [] => [] end.
(* "key : { ... } ;" for a vector member; an already non-empty member is "multiply defined" *)
Definition read_vec (keys : list string) (k : string) (vs : list (list string)) (ts : list tok)
  : option (list (list string) * list tok) :=
  match index_of k keys with
  | None => None
  | Some i =>
      match nth i vs [] with
      | _ :: _ => None
      | [] => match expect ":" ts with
              | None => None
              | Some r => match parse_array r with
                          | None => None
                          | Some (v, r') => match expect ";" r' with Some r'' => Some (set_nth i v vs, r'') | None => None end
                          end
              end
      end
  end.
Definition read_str (cur : string) (ts : list tok) : option (string * list tok) :=
  if negb (cur =? "") then None
  else match ts with
       | Sy c :: St s :: Sy e :: r => if (c =? ":") && (e =? ";") then Some (s, r) else None
       | _ => None
       end.
(* the loop "while (c->value != "}")" of read<LibraryDescription>; [fuel] bounds the number of members *)
Record lacc := mkAcc { a_name : string; a_prefix : string; a_suffix : string; a_install : string;
                       a_type : option bool; a_vecs : list (list string) }.
Fixpoint read_lib_members (fuel : nat) (a : lacc) (ts : list tok) : option (lacc * list tok) :=
  match fuel with
  | O => None
  | S f =>
      match ts with
      | Sy k :: r =>
          if k =? "}" then Some (a, r)
          else if k =? "name" then
                 match read_str (a_name a) r with
                 | Some (s, r') => read_lib_members f (mkAcc s (a_prefix a) (a_suffix a) (a_install a) (a_type a) (a_vecs a)) r'
                 | None => None end
          else if k =? "prefix" then
                 match read_str (a_prefix a) r with
                 | Some (s, r') => read_lib_members f (mkAcc (a_name a) s (a_suffix a) (a_install a) (a_type a) (a_vecs a)) r'
                 | None => None end
          else if k =? "suffix" then
                 match read_str (a_suffix a) r with
                 | Some (s, r') => read_lib_members f (mkAcc (a_name a) (a_prefix a) s (a_install a) (a_type a) (a_vecs a)) r'
                 | None => None end
          else if k =? "install_path" then
                 match read_str (a_install a) r with
                 | Some (s, r') => read_lib_members f (mkAcc (a_name a) (a_prefix a) (a_suffix a) s (a_type a) (a_vecs a)) r'
                 | None => None end
          else if k =? "type" then
                 match a_type a, r with
                 | None, Sy c :: Sy t :: Sy e :: r' =>
                     if (c =? ":") && (e =? ";") then
                       if t =? "MODULE" then read_lib_members f (mkAcc (a_name a) (a_prefix a) (a_suffix a) (a_install a) (Some true) (a_vecs a)) r'
                       else if t =? "SHARED_LIBRARY" then read_lib_members f (mkAcc (a_name a) (a_prefix a) (a_suffix a) (a_install a) (Some false) (a_vecs a)) r'
                       else None
                     else None
                 | _, _ => None end
          else match read_vec LKEYS k (a_vecs a) r with
               | Some (vs, r') => read_lib_members f (mkAcc (a_name a) (a_prefix a) (a_suffix a) (a_install a) (a_type a) vs) r'
               | None => None end
      | _ => None
      end
  end.
Definition read_lib (ts : list tok) : option (lib * list tok) :=
  match expect "{" ts with
  | None => None
  | Some r =>
      match read_lib_members (List.length r) (mkAcc "" "" "" "" None [[]; []; []; []; []; []; []; []]) r with
      | Some (a, r') =>
          match a_type a with
          | Some m => Some (mkLib (a_name a) m (a_prefix a) (a_suffix a) (a_install a) (a_vecs a), r')
          | None => None end
      | None => None
      end
  end.
Fixpoint read_target_members (fuel : nat) (name : string) (vs : list (list string)) (ts : list tok)
  : option (string * list (list string) * list tok) :=
  match fuel with
  | O => None
  | S f =>
      match ts with
      | Sy k :: r =>
          if k =? "}" then Some (name, vs, r)
          else if k =? "name" then
                 match read_str name r with Some (s, r') => read_target_members f s vs r' | None => None end
          else match read_vec TKEYS k vs r with Some (vs', r') => read_target_members f name vs' r' | None => None end
      | _ => None
      end
  end.
Definition describes (ls : list lib) (n : string) : bool := existsb (fun l => lname l =? n) ls.
(* the loop of read<TargetsDescription> *)
Fixpoint read_registry_members (fuel : nat) (t : registry) (ts : list tok) : option (registry * list tok) :=
  match fuel with
  | O => None
  | S f =>
      match ts with
      | Sy k :: r =>
          if k =? "}" then Some (t, r)
          else if k =? "library" then
                 match expect ":" r with
                 | None => None
                 | Some r1 =>
                     match read_lib r1 with
                     | None => None
                     | Some (l, r2) =>
                         match expect ";" r2 with
                         | None => None
                         | Some r3 =>
                             if describes (libs t) (lname l) then None
                             else match merge_into (libs t) l with
                                  | Some ls => read_registry_members f (mkReg ls (headers t) (targets t)) r3
                                  | None => None end
                         end
                     end
                 end
          else if k =? "headers" then
                 match headers t with
                 | _ :: _ => None
                 | [] => match expect ":" r with
                         | None => None
                         | Some r1 => match parse_array r1 with
                                      | None => None
                                      | Some (v, r2) => match expect ";" r2 with
                                                        | Some r3 => read_registry_members f (mkReg (libs t) v (targets t)) r3
                                                        | None => None end
                                      end
                         end
                 end
          else if k =? "target" then
                 match expect ":" r with
                 | None => None
                 | Some r1 =>
                     match expect "{" r1 with
                     | None => None
                     | Some r2 =>
                         match read_target_members (List.length r2) "" [[]; []; []; []] r2 with
                         | None => None
                         | Some (n, vs, r3) =>
                             match expect ";" r3 with
                             | None => None
                             | Some r4 =>
                                 if n =? "" then None
                                 else match assoc n (targets t) with
                                      | Some _ => None
                                      | None => read_registry_members f (mkReg (libs t) (headers t) (targets t ++ [(n, vs)])) r4
                                      end
                             end
                         end
                     end
                 end
          else None
      | _ => None
      end
  end.
Definition read_registry (ts : list tok) : option registry :=
  match expect "{" ts with
  | None => None
  | Some r => match read_registry_members (List.length r) empty_registry r with
              | Some (t, r') => match expect ";" r' with Some _ => Some t | None => None end
              | None => None
              end
  end.

(* ------------------------------------------------------------------ string tokens, byte level *)
(* write(os, v, id) prints an element as "..." with every double quote escaped by a backslash; read<vector<string>>
   replaces \" by " in what CxxTokenizer::readString returns.  Names (name, prefix, suffix, install_path, target name)
   are printed and read raw. *)
Definition bslash : Ascii.ascii := "\"%char.
Definition dquote : Ascii.ascii := """"%char.
Definition newline : Ascii.ascii := "010"%char.
Fixpoint escape (s : string) : string :=
  match s with
  | EmptyString => EmptyString
  | String c r => if Ascii.eqb c dquote then String bslash (String dquote (escape r)) else String c (escape r)
  end.
Fixpoint unescape (s : string) : string :=
  match s with
  | EmptyString => EmptyString
  | String c r => match r with
                  | String d r' => if Ascii.eqb c bslash && Ascii.eqb d dquote then String dquote (unescape r')
                                   else String c (unescape r)
                  | EmptyString => String c EmptyString
                  end
  end.
(* the class of strings that the printer supports: no backslash, no line break (vector elements); names: no quote either *)
Fixpoint printable (s : string) : bool :=
  match s with
  | EmptyString => true
  | String c r => negb (Ascii.eqb c bslash) && negb (Ascii.eqb c newline) && printable r
  end.
Fixpoint no_quote (s : string) : bool :=
  match s with EmptyString => true | String c r => negb (Ascii.eqb c dquote) && no_quote r end.
Definition printable_name (s : string) : bool := printable s && no_quote s.
(* CxxTokenizer::parseString after the opening quote: the literal ends at the first quote preceded by an even number of
   consecutive backslashes ([nb] = number of backslashes just before the current position); result = length of the body *)
Fixpoint close_at (nb : nat) (s : string) : option nat :=
  match s with
  | EmptyString => None
  | String c r => if Ascii.eqb c dquote && Nat.even nb then Some 0
                  else option_map S (close_at (if Ascii.eqb c bslash then S nb else 0) r)
  end.
Definition printable_lib (l : lib) : bool :=
  printable_name (lname l) && printable_name (lprefix l) && printable_name (lsuffix l) && printable_name (linstall l)
  && forallb (forallb printable) (lvecs l).
Definition printable_registry (t : registry) : bool :=
  forallb printable_lib (libs t) && forallb printable (headers t)
  && forallb (fun tg => printable_name (fst tg) && forallb (forallb printable) (snd tg)) (targets t).

(* ------------------------------------------------------------------ the registries that mfront writes *)
(* a vector as insert_if builds it: no empty string, no duplicate *)
Fixpoint nodupb (l : list string) : bool := match l with [] => true | x :: r => negb (mem x r) && nodupb r end.
Definition clean (v : list string) : bool := nodupb v && negb (mem "" v).
Definition starts_with (x : string) (v : list string) : bool := match v with y :: _ => y =? x | [] => false end.
(* a library as getLibrary + mergeLibraryDescription build it: eight clean vectors, the cppflags and the include
   directories begin with the defaults of the constructor *)
Definition wf_lib (l : lib) : bool :=
  match lvecs l with
  | [v0; v1; v2; v3; v4; v5; v6; v7] =>
      clean v0 && clean v1 && clean v2 && clean v3 && clean v4 && clean v5 && clean v6 && clean v7
      && starts_with default_cppflags v1 && starts_with default_include v2
  | _ => false
  end.
Definition wf_target (t : string * list (list string)) : bool := negb (fst t =? "") && Nat.eqb (List.length (snd t)) 4.
Definition wf_registry (t : registry) : bool :=
  forallb wf_lib (libs t) && nodupb (map lname (libs t)) && forallb wf_target (targets t) && nodupb (map fst (targets t)).

(* ------------------------------------------------------------------ runs and crashes *)
(* the file src/targets.lst: absent, or a token list (a file that does not even tokenize is modelled by a token
   list that does not parse) *)
Definition file := option (list tok).
(* the two policies of the code: [atomic] = write to a temporary file then rename (fix), in place otherwise (pinned);
   [fatal] = a registry that does not parse stops the run (fix), is only logged otherwise (pinned) *)
Record policy := mkPolicy { atomic : bool; fatal : bool }.
Inductive outcome := Error | Done (f : file) (t : registry).
(* MFront::exe: analyseTargetsFile; merge of the run's own description; writeTargetsDescription *)
Definition run (p : policy) (f : file) (td : registry) : outcome :=
  let start :=
    match f with
    | None => Some empty_registry
    | Some ts => match read_registry ts with
                 | Some t => merge_registry empty_registry t false
                 | None => if fatal p then None else Some empty_registry
                 end
    end in
  match start with
  | None => Error
  | Some t0 => match merge_registry t0 td true with
               | Some t1 => Done (Some (print_registry t1)) t1
               | None => Error
               end
  end.
(* the state of the file when the run that was writing [new] over [old] is killed after [k] elementary steps.
   In place: step 1 truncates, step 1 + i has written i tokens.  Atomic: the file is [old] until the rename (last step). *)
Definition crash_state (p : policy) (old : file) (new : list tok) (k : nat) : file :=
  if atomic p then (if Nat.leb k (List.length new + 1) then old else Some new)
  else match k with O => old | S i => Some (firstn i new) end.

(* ------------------------------------------------------------------ histories *)
(* successive runs in one directory; a run that stops on an error leaves the file as it is *)
Fixpoint runs (p : policy) (f : file) (tds : list registry) : file :=
  match tds with
  | [] => f
  | td :: r => match run p f td with Error => runs p f r | Done f' _ => runs p f' r end
  end.
(* the descriptions of the runs that succeeded *)
Fixpoint accepted (p : policy) (f : file) (tds : list registry) : list registry :=
  match tds with
  | [] => []
  | td :: r => match run p f td with Error => accepted p f r | Done f' _ => td :: accepted p f' r end
  end.

(* ------------------------------------------------------------------ two concurrent runs, temporary-file protocol *)
(* MFront::exe of the repaired code: analyseTargetsFile (lock, read, unlock); treatFile + merge; writeTargetsDescription
   (lock; open "targets.lst.tmp-<pid>" truncating; write; close; rename over "targets.lst"; unlock).
   Elementary steps of one process: read+merge | open the temporary file | write one token | rename.
   [shared] = true models the first version of the repair (one fixed temporary name for every process). *)
Inductive pc := PStart | PRead (m : registry) | PWriting (m : registry) (n : nat) | PDone (m : registry) | PFailed.
Record cstate := mkC { cmain : file; ctmp0 : file; ctmp1 : file; pc0 : pc; pc1 : pc }.
Definition get_pc (who : bool) (s : cstate) : pc := if who then pc1 s else pc0 s.
Definition set_pc (who : bool) (c : pc) (s : cstate) : cstate :=
  if who then mkC (cmain s) (ctmp0 s) (ctmp1 s) (pc0 s) c else mkC (cmain s) (ctmp0 s) (ctmp1 s) c (pc1 s).
Definition get_tmp (slot : bool) (s : cstate) : file := if slot then ctmp1 s else ctmp0 s.
Definition set_tmp (slot : bool) (f : file) (s : cstate) : cstate :=
  if slot then mkC (cmain s) (ctmp0 s) f (pc0 s) (pc1 s) else mkC (cmain s) f (ctmp1 s) (pc0 s) (pc1 s).
Definition set_main (f : file) (s : cstate) : cstate := mkC f (ctmp0 s) (ctmp1 s) (pc0 s) (pc1 s).
Definition compute (p : policy) (f : file) (td : registry) : option registry :=
  match run p f td with Error => None | Done _ t => Some t end.
Definition cstep (p : policy) (shared : bool) (td0 td1 : registry) (who : bool) (s : cstate) : cstate :=
  let slot := if shared then false else who in
  match get_pc who s with
  | PStart => match compute p (cmain s) (if who then td1 else td0) with
              | Some m => set_pc who (PRead m) s
              | None => set_pc who PFailed s
              end
  | PRead m => set_pc who (PWriting m 0) (set_tmp slot (Some []) s)
  | PWriting m n =>
      match nth_error (print_registry m) n with
      | Some tk => set_pc who (PWriting m (S n))
                          (set_tmp slot (Some (match get_tmp slot s with Some c => c ++ [tk] | None => [tk] end)) s)
      | None => set_pc who (PDone m) (set_tmp slot None (set_main (get_tmp slot s) s))   (* rename *)
      end
  | PDone _ | PFailed => s
  end.
Definition cexec (p : policy) (shared : bool) (td0 td1 : registry) (sched : list bool) (s : cstate) : cstate :=
  fold_left (fun st who => cstep p shared td0 td1 who st) sched s.
Definition cinit (f : file) : cstate := mkC f None None PStart PStart.
(* under the lock a whole section (the read, or open..rename) runs without interleaving: the schedule lists sections *)
Definition csection (p : policy) (shared : bool) (td0 td1 : registry) (who : bool) (s : cstate) : cstate :=
  match get_pc who s with
  | PStart => cstep p shared td0 td1 who s
  | PRead m => Nat.iter (List.length (print_registry m) + 2) (cstep p shared td0 td1 who) s
  | _ => s
  end.
Definition cexec_locked (p : policy) (shared : bool) (td0 td1 : registry) (sched : list bool) (s : cstate) : cstate :=
  fold_left (fun st who => csection p shared td0 td1 who st) sched s.
End WithConfig.

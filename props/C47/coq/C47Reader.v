(* C47 -- the token-level reader and printer: read (print t) = t for every well-formed registry, and every strict
   token prefix of print t is rejected.  *)
From Coq Require Import List String Bool Arith Lia.
From C47 Require Import C47Model.
Import ListNotations.
Local Open Scope string_scope.
Local Open Scope list_scope.

(* ------------------------------------------------------------------ one-step unfoldings of the three loops *)
Definition lib_step (rec : lacc -> list tok -> option (lacc * list tok)) (a : lacc) (ts : list tok) : option (lacc * list tok) :=
      match ts with
      | Sy k :: r =>
          if k =? "}" then Some (a, r)
          else if k =? "name" then
                 match read_str (a_name a) r with
                 | Some (s, r') => rec (mkAcc s (a_prefix a) (a_suffix a) (a_install a) (a_type a) (a_vecs a)) r'
                 | None => None end
          else if k =? "prefix" then
                 match read_str (a_prefix a) r with
                 | Some (s, r') => rec (mkAcc (a_name a) s (a_suffix a) (a_install a) (a_type a) (a_vecs a)) r'
                 | None => None end
          else if k =? "suffix" then
                 match read_str (a_suffix a) r with
                 | Some (s, r') => rec (mkAcc (a_name a) (a_prefix a) s (a_install a) (a_type a) (a_vecs a)) r'
                 | None => None end
          else if k =? "install_path" then
                 match read_str (a_install a) r with
                 | Some (s, r') => rec (mkAcc (a_name a) (a_prefix a) (a_suffix a) s (a_type a) (a_vecs a)) r'
                 | None => None end
          else if k =? "type" then
                 match a_type a, r with
                 | None, Sy c :: Sy t :: Sy e :: r' =>
                     if (c =? ":") && (e =? ";") then
                       if t =? "MODULE" then rec (mkAcc (a_name a) (a_prefix a) (a_suffix a) (a_install a) (Some true) (a_vecs a)) r'
                       else if t =? "SHARED_LIBRARY" then rec (mkAcc (a_name a) (a_prefix a) (a_suffix a) (a_install a) (Some false) (a_vecs a)) r'
                       else None
                     else None
                 | _, _ => None end
          else match read_vec LKEYS k (a_vecs a) r with
               | Some (vs, r') => rec (mkAcc (a_name a) (a_prefix a) (a_suffix a) (a_install a) (a_type a) vs) r'
               | None => None end
      | _ => None
      end.
Lemma rlm_unfold f a ts : read_lib_members (S f) a ts = lib_step (read_lib_members f) a ts.
Proof. reflexivity. Qed.

Definition target_step (rec : string -> list (list string) -> list tok -> option (string * list (list string) * list tok))
           (name : string) (vs : list (list string)) (ts : list tok) :=
      match ts with
      | Sy k :: r =>
          if k =? "}" then Some (name, vs, r)
          else if k =? "name" then
                 match read_str name r with Some (s, r') => rec s vs r' | None => None end
          else match read_vec TKEYS k vs r with Some (vs', r') => rec name vs' r' | None => None end
      | _ => None
      end.
Lemma rtm_unfold f n vs ts : read_target_members (S f) n vs ts = target_step (read_target_members f) n vs ts.
Proof. reflexivity. Qed.

Section WithConfig.
Variable tc : string.
Definition reg_step (rec : registry -> list tok -> option (registry * list tok)) (t : registry) (ts : list tok) :=
      match ts with
      | Sy k :: r =>
          if k =? "}" then Some (t, r)
          else if k =? "library" then
                 match expect ":" r with
                 | None => None
                 | Some r1 =>
                     match read_lib r1 with
                     | None => None
                     | Some (l, r2) =>
                         match expect ";" r2 with
                         | None => None
                         | Some r3 =>
                             if describes (libs t) (lname l) then None
                             else match merge_into tc (libs t) l with
                                  | Some ls => rec (mkReg ls (headers t) (targets t)) r3
                                  | None => None end
                         end
                     end
                 end
          else if k =? "headers" then
                 match headers t with
                 | _ :: _ => None
                 | [] => match expect ":" r with
                         | None => None
                         | Some r1 => match parse_array r1 with
                                      | None => None
                                      | Some (v, r2) => match expect ";" r2 with
                                                        | Some r3 => rec (mkReg (libs t) v (targets t)) r3
                                                        | None => None end
                                      end
                         end
                 end
          else if k =? "target" then
                 match expect ":" r with
                 | None => None
                 | Some r1 =>
                     match expect "{" r1 with
                     | None => None
                     | Some r2 =>
                         match read_target_members (List.length r2) "" [[]; []; []; []] r2 with
                         | None => None
                         | Some (n, vs, r3) =>
                             match expect ";" r3 with
                             | None => None
                             | Some r4 =>
                                 if n =? "" then None
                                 else match assoc n (targets t) with
                                      | Some _ => None
                                      | None => rec (mkReg (libs t) (headers t) (targets t ++ [(n, vs)])) r4
                                      end
                             end
                         end
                     end
                 end
          else None
      | _ => None
      end.
Lemma rrm_unfold f t ts : read_registry_members tc (S f) t ts = reg_step (read_registry_members tc f) t ts.
Proof. reflexivity. Qed.
End WithConfig.

(* ------------------------------------------------------------------ extension: more fuel, more tokens behind *)
(* [o2] is [o1] with [e] appended to the remainder *)
Definition ext {A} (e : list tok) (o1 o2 : option (A * list tok)) : Prop :=
  forall x r, o1 = Some (x, r) -> o2 = Some (x, r ++ e).

Lemma expect_ext s e ts r : expect s ts = Some r -> expect s (ts ++ e) = Some (r ++ e).
Proof.
  destruct ts as [|[k|k] ts]; simpl; try discriminate.
  destruct (k =? s); [|discriminate]. now intros [= ->].
Qed.
Lemma strs_tail_ext e : forall ts, ext e (strs_tail ts) (strs_tail (ts ++ e)).
Proof.
  fix IH 1. intros ts x r. destruct ts as [|[k|s] ts]; simpl; try discriminate.
  destruct ts as [|[c|c] ts]; simpl; try discriminate.
  destruct (c =? "}"); [now intros [= <- <-]|].
  destruct (c =? ","); [|discriminate].
  destruct (strs_tail ts) as [[v r']|] eqn:E; [|discriminate].
  intros [= <- <-]. now rewrite (IH ts _ _ E).
Qed.
Lemma parse_array_ext e ts : ext e (parse_array ts) (parse_array (ts ++ e)).
Proof.
  intros x r. destruct ts as [|[o|o] ts]; simpl; try discriminate.
  destruct ts as [|[c|c] ts].
  - simpl. destruct (o =? "{"); discriminate.
  - simpl. destruct ((o =? "{") && (c =? "}")); [now intros [= <- <-]|discriminate].
  - destruct (o =? "{"); [|discriminate]. apply (strs_tail_ext e (St c :: ts)).
Qed.
Lemma read_vec_ext e keys k vs ts : ext e (read_vec keys k vs ts) (read_vec keys k vs (ts ++ e)).
Proof.
  intros x r. unfold read_vec. destruct (index_of k keys) as [i|]; [|discriminate].
  destruct (nth i vs []); [|discriminate].
  destruct (expect ":" ts) as [r1|] eqn:E1; [|discriminate]. rewrite (expect_ext _ e _ _ E1).
  destruct (parse_array r1) as [[v r2]|] eqn:E2; [|discriminate]. rewrite (parse_array_ext e _ _ _ E2).
  destruct (expect ";" r2) as [r3|] eqn:E3; [|discriminate]. rewrite (expect_ext _ e _ _ E3).
  now intros [= <- <-].
Qed.
Lemma read_str_ext e cur ts : ext e (read_str cur ts) (read_str cur (ts ++ e)).
Proof.
  intros x r. unfold read_str. destruct (negb (cur =? "")); [discriminate|].
  destruct ts as [|[c|c] [|[s|s] [|[e'|e'] ts]]]; simpl; try discriminate.
  destruct ((c =? ":") && (e' =? ";")); [|discriminate]. now intros [= <- <-].
Qed.

Lemma lib_step_ext e rec1 rec2 :
  (forall a ts, ext e (rec1 a ts) (rec2 a (ts ++ e))) -> forall a ts, ext e (lib_step rec1 a ts) (lib_step rec2 a (ts ++ e)).
Proof.
  intros R a ts x r. destruct ts as [|[k|k] ts]; simpl; try discriminate.
  destruct (k =? "}"); [now intros [= <- <-]|].
  repeat (match goal with |- context [if ?b then _ else _] => destruct b end;
    [try (match goal with |- context [read_str ?c ts] =>
           destruct (read_str c ts) as [[s r']|] eqn:E; [rewrite (read_str_ext e _ _ _ _ E); apply R|discriminate] end)|]).
  - discriminate.
  - destruct ts as [|[c|c] [|[t|t] [|[e'|e'] ts]]]; simpl; try discriminate.
    destruct ((c =? ":") && (e' =? ";")); [|discriminate].
    destruct (t =? "MODULE"); [apply R|]. destruct (t =? "SHARED_LIBRARY"); [apply R|discriminate].
  - destruct (read_vec LKEYS k (a_vecs a) ts) as [[vs r']|] eqn:E; [|discriminate].
    rewrite (read_vec_ext e _ _ _ _ _ _ E). apply R.
Qed.
Lemma rlm_ext e : forall f f' a ts, f <= f' -> ext e (read_lib_members f a ts) (read_lib_members f' a (ts ++ e)).
Proof.
  induction f as [|f IH]; intros f' a ts L; [intros x r; discriminate|].
  destruct f' as [|f']; [lia|]. rewrite !rlm_unfold. apply lib_step_ext. intros a0 ts0. apply IH. now apply le_S_n.
Qed.
Lemma read_lib_ext e ts : ext e (read_lib ts) (read_lib (ts ++ e)).
Proof.
  intros x r. unfold read_lib. destruct (expect "{" ts) as [r1|] eqn:E1; [|discriminate]. rewrite (expect_ext _ e _ _ E1).
  set (a0 := mkAcc "" "" "" "" None _).
  destruct (read_lib_members (List.length r1) a0 r1) as [[a r']|] eqn:E; [|discriminate].
  assert (L : List.length r1 <= List.length (r1 ++ e)) by (rewrite app_length; lia).
  rewrite (rlm_ext e _ _ _ _ L _ _ E).
  destruct (a_type a); [|discriminate]. now intros [= <- <-].
Qed.

Lemma target_step_ext e rec1 rec2 :
  (forall n vs ts, ext e (rec1 n vs ts) (rec2 n vs (ts ++ e))) ->
  forall n vs ts, ext e (target_step rec1 n vs ts) (target_step rec2 n vs (ts ++ e)).
Proof.
  intros R n vs ts x r. destruct ts as [|[k|k] ts]; simpl; try discriminate.
  destruct (k =? "}"); [now intros [= <- <-]|].
  destruct (k =? "name").
  - destruct (read_str n ts) as [[s r']|] eqn:E; [rewrite (read_str_ext e _ _ _ _ E); apply R|discriminate].
  - destruct (read_vec TKEYS k vs ts) as [[vs' r']|] eqn:E; [|discriminate].
    rewrite (read_vec_ext e _ _ _ _ _ _ E). apply R.
Qed.
Lemma rtm_ext e : forall f f' n vs ts, f <= f' -> ext e (read_target_members f n vs ts) (read_target_members f' n vs (ts ++ e)).
Proof.
  induction f as [|f IH]; intros f' n vs ts L; [intros x r; discriminate|].
  destruct f' as [|f']; [lia|]. rewrite !rtm_unfold. apply target_step_ext. intros n0 vs0 ts0. apply IH. now apply le_S_n.
Qed.

Section WithConfig.
Variable tc : string.
Lemma reg_step_ext e rec1 rec2 :
  (forall t ts, ext e (rec1 t ts) (rec2 t (ts ++ e))) -> forall t ts, ext e (reg_step tc rec1 t ts) (reg_step tc rec2 t (ts ++ e)).
Proof.
  intros R t ts x r. destruct ts as [|[k|k] ts]; simpl; try discriminate.
  destruct (k =? "}"); [now intros [= <- <-]|].
  destruct (k =? "library").
  { destruct (expect ":" ts) as [r1|] eqn:E1; [|discriminate]. rewrite (expect_ext _ e _ _ E1).
    destruct (read_lib r1) as [[l r2]|] eqn:E2; [|discriminate]. rewrite (read_lib_ext e _ _ _ E2).
    destruct (expect ";" r2) as [r3|] eqn:E3; [|discriminate]. rewrite (expect_ext _ e _ _ E3).
    destruct (describes (libs t) (lname l)); [discriminate|].
    destruct (merge_into tc (libs t) l); [apply R|discriminate]. }
  destruct (k =? "headers").
  { destruct (headers t); [|discriminate].
    destruct (expect ":" ts) as [r1|] eqn:E1; [|discriminate]. rewrite (expect_ext _ e _ _ E1).
    destruct (parse_array r1) as [[v r2]|] eqn:E2; [|discriminate]. rewrite (parse_array_ext e _ _ _ E2).
    destruct (expect ";" r2) as [r3|] eqn:E3; [|discriminate]. rewrite (expect_ext _ e _ _ E3). apply R. }
  destruct (k =? "target"); [|discriminate].
  destruct (expect ":" ts) as [r1|] eqn:E1; [|discriminate]. rewrite (expect_ext _ e _ _ E1).
  destruct (expect "{" r1) as [r2|] eqn:E2; [|discriminate]. rewrite (expect_ext _ e _ _ E2).
  destruct (read_target_members (List.length r2) "" [[]; []; []; []] r2) as [[[n vs] r3]|] eqn:E3; [|discriminate].
  assert (L : List.length r2 <= List.length (r2 ++ e)) by (rewrite app_length; lia).
  rewrite (rtm_ext e _ _ _ _ _ L _ _ E3).
  destruct (expect ";" r3) as [r4|] eqn:E4; [|discriminate]. rewrite (expect_ext _ e _ _ E4).
  destruct (n =? ""); [discriminate|]. destruct (assoc n (targets t)); [discriminate|apply R].
Qed.
Lemma rrm_ext e : forall f f' t ts, f <= f' -> ext e (read_registry_members tc f t ts) (read_registry_members tc f' t (ts ++ e)).
Proof.
  induction f as [|f IH]; intros f' t ts L; [intros x r; discriminate|].
  destruct f' as [|f']; [lia|]. rewrite !rrm_unfold. apply reg_step_ext. intros t0 ts0. apply IH. now apply le_S_n.
Qed.

(* read_registry, with what follows the final ";" *)
Definition read_registry_rest (ts : list tok) : option (registry * list tok) :=
  match expect "{" ts with
  | None => None
  | Some r => match read_registry_members tc (List.length r) empty_registry r with
              | Some (t, r') => match expect ";" r' with Some r'' => Some (t, r'') | None => None end
              | None => None
              end
  end.
Lemma read_registry_of_rest ts : read_registry tc ts = option_map fst (read_registry_rest ts).
Proof.
  unfold read_registry, read_registry_rest. destruct (expect "{" ts); auto.
  destruct (read_registry_members tc (List.length l) empty_registry l) as [[t r']|]; auto. destruct (expect ";" r'); auto.
Qed.
Lemma read_registry_rest_ext e ts : ext e (read_registry_rest ts) (read_registry_rest (ts ++ e)).
Proof.
  intros x r. unfold read_registry_rest. destruct (expect "{" ts) as [r1|] eqn:E1; [|discriminate]. rewrite (expect_ext _ e _ _ E1).
  destruct (read_registry_members tc (List.length r1) empty_registry r1) as [[t r2]|] eqn:E2; [|discriminate].
  assert (L : List.length r1 <= List.length (r1 ++ e)) by (rewrite app_length; lia).
  rewrite (rrm_ext e _ _ _ _ L _ _ E2).
  destruct (expect ";" r2) as [r3|] eqn:E3; [|discriminate]. rewrite (expect_ext _ e _ _ E3). now intros [= <- <-].
Qed.
End WithConfig.

(* C47 -- property theorems (statements only; proofs in C47Proofs.v). *)
From Coq Require Import List String.
From C47 Require Import C47Model C47Proofs C47Reader C47Round C47Conc C47Strings.
Import ListNotations.
Local Open Scope string_scope.

(* insert_if over a vector: the result is the union (empty strings are never inserted) ... *)
Theorem C47_insert_all_union : forall s d x, In x (insert_all d s) <-> In x d \/ (In x s /\ x <> "").
Proof. exact insert_all_in. Qed.
Print Assumptions C47_insert_all_union.
(* ... idempotent ... *)
Theorem C47_insert_all_idempotent : forall d s, insert_all (insert_all d s) s = insert_all d s.
Proof. exact insert_all_idem. Qed.
Print Assumptions C47_insert_all_idempotent.
(* ... and monotone: what was recorded stays, in the same order *)
Theorem C47_insert_all_monotone : forall s d, exists l, insert_all d s = (d ++ l)%list.
Proof. exact insert_all_prefix. Qed.
Print Assumptions C47_insert_all_monotone.
Theorem C47_merge_library_idempotent : forall d s l, merge_lib d s = Some l -> merge_lib l s = Some l.
Proof. exact merge_lib_idem. Qed.
Print Assumptions C47_merge_library_idempotent.

(* mergeTargetsDescription, when it does not raise: every library of both sides is in the result under its name with
   every (non-empty) string of its eight vectors *)
Theorem C47_merge_keeps_both : forall tc d s b r,
  merge_registry tc d s b = Some r -> wf8 (libs d) ->
  libs_cover (libs d) (libs r) /\ libs_cover (libs s) (libs r) /\ wf8 (libs r).
Proof. exact merge_registry_covers. Qed.
Print Assumptions C47_merge_keeps_both.

(* one more run over a registry file that reads back: error, or every library is kept (any policy) *)
Theorem C47_run_keeps : forall tc p t td,
  roundtrips tc t ->
  match run tc p (Some (print_registry t)) td with Error => True | Done _ r => libs_cover (libs t) (libs r) end.
Proof. exact run_keeps. Qed.
Print Assumptions C47_run_keeps.
Theorem C47_killed_run_had_kept : forall tc p old td f new,
  roundtrips tc old -> run tc p (Some (print_registry old)) td = Done f new -> libs_cover (libs old) (libs new).
Proof. exact run_new_covers. Qed.
Print Assumptions C47_killed_run_had_kept.

(* write-then-rename: for EVERY crash point of the run replacing [old] by [new], the later run errors or keeps
   every library registered before the crash *)
Theorem C47_crash_atomic : forall tc fatal_ old new k td,
  roundtrips tc old -> roundtrips tc new -> libs_cover (libs old) (libs new) ->
  match run tc (mkPolicy true fatal_) (crash_state (mkPolicy true fatal_) (Some (print_registry old)) (print_registry new) k) td with
  | Error => True
  | Done _ r => libs_cover (libs old) (libs r)
  end.
Proof. exact crash_atomic. Qed.
Print Assumptions C47_crash_atomic.
(* a parse error made fatal: a damaged file stops the run *)
Theorem C47_fatal_rejects : forall tc a ts td, read_registry tc ts = None -> run tc (mkPolicy a true) (Some ts) td = Error.
Proof. exact run_fatal_damaged. Qed.
Print Assumptions C47_fatal_rejects.

(* read (print t) = t, and every strict prefix is rejected, on concrete registries (the general statement is tied by
   execution only, see NOTES.md) *)
Theorem C47_roundtrip_examples :
  roundtrips tc0 ex_old /\ roundtrips tc0 ex_new /\ roundtrips tc0 empty_registry /\
  List.length (libs ex_new) = 2%nat /\ merge_registry tc0 empty_registry ex_old false = Some ex_old.
Proof. exact roundtrip_examples. Qed.
Print Assumptions C47_roundtrip_examples.
Theorem C47_prefixes_rejected_examples :
  forallb (fun k => match read_registry tc0 (firstn k (print_registry ex_new)) with None => true | Some _ => false end)
          (seq 0 (List.length (print_registry ex_new))) = true.
Proof. exact prefixes_rejected_examples. Qed.
Print Assumptions C47_prefixes_rejected_examples.

(* ------------------------------------------------------------------ second round: no more "reads back" hypothesis *)
(* writing then re-reading is the identity, at token level, for every registry of the class that mfront writes (eight clean
   vectors per library, cppflags / include directories beginning with the constructor's defaults, distinct library names,
   specific targets with a non-empty name and four vectors): by induction on the libraries, their members, the
   headers and the targets *)
Theorem C47_roundtrip_tokens : forall tc t, wf_registry tc t = true -> read_registry tc (print_registry t) = Some t.
Proof. exact read_print. Qed.
Print Assumptions C47_roundtrip_tokens.
(* outside that class the identity fails (a duplicate is dropped by the reader's merge) *)
Theorem C47_roundtrip_needs_wellformed_refuted :
  exists t, wf_registry tc0 t = false /\ read_registry tc0 (print_registry t) <> Some t.
Proof. exact roundtrip_needs_wf. Qed.
Print Assumptions C47_roundtrip_needs_wellformed_refuted.
(* every strict token prefix of a printed registry is rejected by the reader: "truncated file = error" *)
Theorem C47_prefix_rejected_tokens : forall tc t k,
  wf_registry tc t = true -> k < List.length (print_registry t) -> read_registry tc (firstn k (print_registry t)) = None.
Proof. exact prefix_rejected. Qed.
Print Assumptions C47_prefix_rejected_tokens.
(* string tokens at byte level, for the printable class (no backslash, no line break; names: no quote either): what the
   reader extracts from the printed literal is the string, and the tokenizer's closing rule ends the literal at its last quote *)
Theorem C47_string_tokens_partial : forall s rest,
  printable s = true ->
  unescape (escape s) = s /\ close_at 0 (escape s ++ String dquote rest) = Some (String.length (escape s)).
Proof. exact string_tokens. Qed.
Print Assumptions C47_string_tokens_partial.
Theorem C47_name_tokens_partial : forall s rest,
  printable_name s = true -> close_at 0 (s ++ String dquote rest) = Some (String.length s).
Proof. exact close_at_raw. Qed.
Print Assumptions C47_name_tokens_partial.
(* what mergeTargetsDescription builds from a well-formed registry is well formed *)
Theorem C47_merge_builds_wellformed : forall tc d s b r,
  merge_registry tc d s b = Some r -> wf_registry tc d = true -> forallb wf_target (targets s) = true -> wf_registry tc r = true.
Proof. exact merge_registry_wf. Qed.
Print Assumptions C47_merge_builds_wellformed.
(* one run over a file that holds a registry (no file = the empty one): error, or the new file holds a registry that keeps
   every library of the old one and of the run's own description *)
Theorem C47_run_holds : forall tc p f t td,
  holds tc f t -> targets_ok td ->
  match run tc p f td with
  | Error => True
  | Done f' r => holds tc f' r /\ libs_cover (libs t) (libs r) /\ libs_cover (libs td) (libs r)
  end.
Proof. exact run_holds. Qed.
Print Assumptions C47_run_holds.
(* histories: after any sequence of runs the file holds a registry that keeps every library of the first file and of every
   run that succeeded *)
Theorem C47_history_keeps : forall tc p tds f t,
  holds tc f t -> Forall targets_ok tds ->
  exists r, holds tc (runs tc p f tds) r /\ libs_cover (libs t) (libs r) /\
            forall td, In td (accepted tc p f tds) -> libs_cover (libs td) (libs r).
Proof. exact history_keeps. Qed.
Print Assumptions C47_history_keeps.
(* crashes, write-then-rename: for EVERY crash point the later run errors or keeps every library *)
Theorem C47_crash_atomic_keeps : forall tc fatal_ old new k td,
  wf_registry tc old = true -> wf_registry tc new = true -> libs_cover (libs old) (libs new) -> targets_ok td ->
  match run tc (mkPolicy true fatal_) (crash_state (mkPolicy true fatal_) (Some (print_registry old)) (print_registry new) k) td with
  | Error => True
  | Done f r => holds tc f r /\ libs_cover (libs old) (libs r)
  end.
Proof. exact crash_atomic_keeps. Qed.
Print Assumptions C47_crash_atomic_keeps.
(* crashes, in place but with a fatal parse error: the truncated file is a strict prefix, hence rejected, hence the run stops *)
Theorem C47_crash_in_place_fatal : forall tc old new k td,
  wf_registry tc old = true -> wf_registry tc new = true -> libs_cover (libs old) (libs new) -> targets_ok td ->
  match run tc (mkPolicy false true) (crash_state (mkPolicy false true) (Some (print_registry old)) (print_registry new) k) td with
  | Error => True
  | Done f r => libs_cover (libs old) (libs r)
  end.
Proof. exact crash_in_place_fatal. Qed.
Print Assumptions C47_crash_in_place_fatal.

(* ------------------------------------------------------------------ two concurrent runs (temporary file named after the process) *)
(* for EVERY interleaving of the elementary steps (read, open, write one token, rename) of two runs, lock or no lock: the
   registry file always holds a complete well-formed registry ... *)
Theorem C47_two_writers_never_damaged : forall tc p td0 td1, targets_ok td0 -> targets_ok td1 ->
  forall f0 t0, holds tc f0 t0 -> forall sched, exists t, holds tc (cmain (cexec tc p false td0 td1 sched (cinit f0))) t.
Proof. exact two_writers_never_damaged. Qed.
Print Assumptions C47_two_writers_never_damaged.
(* ... and once both are over it is the registry of one of the two, never a mixture *)
Theorem C47_two_writers_no_mixture : forall tc p td0 td1, targets_ok td0 -> targets_ok td1 ->
  forall f0 t0, holds tc f0 t0 -> forall sched m0 m1,
  let s := cexec tc p false td0 td1 sched (cinit f0) in
  pc0 s = PDone m0 -> pc1 s = PDone m1 -> cmain s = Some (print_registry m0) \/ cmain s = Some (print_registry m1).
Proof. exact two_writers_no_mixture. Qed.
Print Assumptions C47_two_writers_no_mixture.
(* under the lock, one run entirely before the other: exactly two successive runs (hence nothing is lost, C47_history_keeps) *)
Theorem C47_serial_sections_are_runs : forall tc p td0 td1 f0,
  cmain (cexec_locked tc p false td0 td1 [false; false; true; true] (cinit f0)) = runs tc p f0 [td0; td1].
Proof. exact serial_sections_are_runs. Qed.
Print Assumptions C47_serial_sections_are_runs.
(* but the lock is taken for the read and, separately, for the write: run B reads before A writes and writes after A:
   both runs succeed and library "M" of run A is not in the registry (lost update) *)
Theorem C47_no_library_lost_under_concurrency_refuted :
  let s := cexec_locked tc0 fixed false ex_tdA ex_tdB [false; true; false; true] (cinit None) in
  (exists m0, pc0 s = PDone m0 /\ describes (libs m0) "M" = true) /\
  (exists m1, pc1 s = PDone m1 /\ cmain s = Some (print_registry m1) /\ describes (libs m1) "M" = false).
Proof. exact lost_update_witness. Qed.
Print Assumptions C47_no_library_lost_under_concurrency_refuted.
(* one temporary name for every process (the first version of the repair): the registry can be left empty *)
Theorem C47_shared_temporary_name_refuted :
  let s := cexec tc0 fixed true ex_tdA ex_tdB shared_sched (cinit None) in
  cmain s = Some [] /\ read_registry tc0 [] = None /\ (exists m0, pc0 s = PDone m0).
Proof. exact shared_tmp_witness. Qed.
Print Assumptions C47_shared_temporary_name_refuted.

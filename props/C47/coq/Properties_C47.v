(* C47 -- property theorems (statements only; proofs in C47Proofs.v). *)
From Coq Require Import List String.
From C47 Require Import C47Model C47Proofs.
Import ListNotations.
Local Open Scope string_scope.

(* insert_if over a vector: the result is the union (empty strings are never inserted) ... *)
Theorem C47_insert_all_union : forall s d x, In x (insert_all d s) <-> In x d \/ (In x s /\ x <> "").
Proof. exact insert_all_in. Qed.
Print Assumptions C47_insert_all_union.
(* ... idempotent ... *)
Theorem C47_insert_all_idempotent : forall d s, insert_all (insert_all d s) s = insert_all d s.
Proof. exact insert_all_idem. Qed.
Print Assumptions C47_insert_all_idempotent.
(* ... and monotone: what was recorded stays, in the same order *)
Theorem C47_insert_all_monotone : forall s d, exists l, insert_all d s = (d ++ l)%list.
Proof. exact insert_all_prefix. Qed.
Print Assumptions C47_insert_all_monotone.
Theorem C47_merge_library_idempotent : forall d s l, merge_lib d s = Some l -> merge_lib l s = Some l.
Proof. exact merge_lib_idem. Qed.
Print Assumptions C47_merge_library_idempotent.

(* mergeTargetsDescription, when it does not raise: every library of both sides is in the result under its name with
   every (non-empty) string of its eight vectors *)
Theorem C47_merge_keeps_both : forall tc d s b r,
  merge_registry tc d s b = Some r -> wf8 (libs d) ->
  libs_cover (libs d) (libs r) /\ libs_cover (libs s) (libs r) /\ wf8 (libs r).
Proof. exact merge_registry_covers. Qed.
Print Assumptions C47_merge_keeps_both.

(* one more run over a registry file that reads back: error, or every library is kept (any policy) *)
Theorem C47_run_keeps : forall tc p t td,
  roundtrips tc t ->
  match run tc p (Some (print_registry t)) td with Error => True | Done _ r => libs_cover (libs t) (libs r) end.
Proof. exact run_keeps. Qed.
Print Assumptions C47_run_keeps.
Theorem C47_killed_run_had_kept : forall tc p old td f new,
  roundtrips tc old -> run tc p (Some (print_registry old)) td = Done f new -> libs_cover (libs old) (libs new).
Proof. exact run_new_covers. Qed.
Print Assumptions C47_killed_run_had_kept.

(* write-then-rename: for EVERY crash point of the run replacing [old] by [new], the later run errors or keeps
   every library registered before the crash *)
Theorem C47_crash_atomic : forall tc fatal_ old new k td,
  roundtrips tc old -> roundtrips tc new -> libs_cover (libs old) (libs new) ->
  match run tc (mkPolicy true fatal_) (crash_state (mkPolicy true fatal_) (Some (print_registry old)) (print_registry new) k) td with
  | Error => True
  | Done _ r => libs_cover (libs old) (libs r)
  end.
Proof. exact crash_atomic. Qed.
Print Assumptions C47_crash_atomic.
(* a parse error made fatal: a damaged file stops the run *)
Theorem C47_fatal_rejects : forall tc a ts td, read_registry tc ts = None -> run tc (mkPolicy a true) (Some ts) td = Error.
Proof. exact run_fatal_damaged. Qed.
Print Assumptions C47_fatal_rejects.

(* read (print t) = t, and every strict prefix is rejected, on concrete registries (the general statement is tied by
   execution only, see NOTES.md) *)
Theorem C47_roundtrip_examples :
  roundtrips tc0 ex_old /\ roundtrips tc0 ex_new /\ roundtrips tc0 empty_registry /\
  List.length (libs ex_new) = 2%nat /\ merge_registry tc0 empty_registry ex_old false = Some ex_old.
Proof. exact roundtrip_examples. Qed.
Print Assumptions C47_roundtrip_examples.
Theorem C47_prefixes_rejected_examples :
  forallb (fun k => match read_registry tc0 (firstn k (print_registry ex_new)) with None => true | Some _ => false end)
          (seq 0 (List.length (print_registry ex_new))) = true.
Proof. exact prefixes_rejected_examples. Qed.
Print Assumptions C47_prefixes_rejected_examples.

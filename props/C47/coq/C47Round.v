(* C47 -- read (print t) = t for every well-formed registry, every strict token prefix of print t is rejected, and what
   mergeTargetsDescription builds from well-formed registries is well formed. *)
From Coq Require Import List String Bool Arith Lia.
From C47 Require Import C47Model C47Proofs C47Reader.
Import ListNotations.
Local Open Scope string_scope.
Local Open Scope list_scope.


Lemma rlm_mono f f' a ts x : f <= f' -> read_lib_members f a ts = Some x -> read_lib_members f' a ts = Some x.
Proof.
  intros L H. destruct x as [a' r]. pose proof (rlm_ext [] f f' a ts L a' r H) as K. now rewrite !app_nil_r in K.
Qed.
Lemma rtm_mono f f' n vs ts x : f <= f' -> read_target_members f n vs ts = Some x -> read_target_members f' n vs ts = Some x.
Proof.
  intros L H. destruct x as [[n' vs'] r]. pose proof (rtm_ext [] f f' n vs ts L (n', vs') r H) as K. now rewrite !app_nil_r in K.
Qed.
Lemma rrm_mono tc f f' t ts x : f <= f' -> read_registry_members tc f t ts = Some x -> read_registry_members tc f' t ts = Some x.
Proof.
  intros L H. destruct x as [t' r]. pose proof (rrm_ext tc [] f f' t ts L t' r H) as K. now rewrite !app_nil_r in K.
Qed.

(* ------------------------------------------------------------------ vectors *)
Lemma strs_tail_print : forall v r, v <> [] -> strs_tail (sep_strs v ++ Sy "}" :: r) = Some (v, r).
Proof.
  induction v as [|x v IH]; intros r N; [congruence|].
  destruct v as [|y v]; [reflexivity|].
  change (sep_strs (x :: y :: v)) with (St x :: Sy "," :: sep_strs (y :: v)).
  cbn [app strs_tail]. change ("," =? "}") with false. change ("," =? ",") with true. cbv iota.
  rewrite IH by discriminate. reflexivity.
Qed.
Lemma parse_array_print v r : v <> [] -> parse_array (Sy "{" :: sep_strs v ++ Sy "}" :: r) = Some (v, r).
Proof.
  intros N. destruct v as [|x v]; [congruence|].
  pose proof (strs_tail_print (x :: v) r N) as H.
  destruct v as [|y v]; exact H.
Qed.
Lemma print_vec_cons k x v : print_vec k (x :: v) = Sy k :: Sy ":" :: Sy "{" :: sep_strs (x :: v) ++ [Sy "}"; Sy ";"].
Proof. reflexivity. Qed.
Lemma read_vec_print keys k i vs v r :
  index_of k keys = Some i -> nth i vs [] = [] -> v <> [] ->
  read_vec keys k vs (Sy ":" :: Sy "{" :: sep_strs v ++ Sy "}" :: Sy ";" :: r) = Some (set_nth i v vs, r).
Proof.
  intros I E N. unfold read_vec. rewrite I, E. cbn [expect]. change (":" =? ":") with true. cbv iota.
  rewrite parse_array_print by exact N. cbn [expect]. reflexivity.
Qed.


Definition setv (a : lacc) (vs : list (list string)) : lacc :=
  mkAcc (a_name a) (a_prefix a) (a_suffix a) (a_install a) (a_type a) vs.
Lemma print_vec_ne k v : v <> [] -> print_vec k v = Sy k :: Sy ":" :: Sy "{" :: sep_strs v ++ [Sy "}"; Sy ";"].
Proof. destruct v; [congruence|reflexivity]. Qed.

Lemma lib_vec_member f a i k v r :
  nth_error LKEYS i = Some k -> nth i (a_vecs a) [] = [] -> v <> [] ->
  read_lib_members (S f) a (print_vec k v ++ r) = read_lib_members f (setv a (set_nth i v (a_vecs a))) r.
Proof.
  intros K E N. rewrite print_vec_ne by exact N.
  rewrite rlm_unfold. unfold lib_step. cbn [app]. rewrite <- app_assoc. cbn [app].
  do 8 (destruct i as [|i]; [injection K as <-; cbn -[read_vec set_nth]; erewrite read_vec_print; [reflexivity|reflexivity|exact E|exact N]|]).
  destruct i; discriminate.
Qed.

Lemma nth_app_exact {A} (d x : A) done rest : nth (List.length done) (done ++ x :: rest) d = x.
Proof. induction done; simpl; auto. Qed.
Lemma set_nth_app_exact {A} (x y : A) done rest : set_nth (List.length done) y (done ++ x :: rest) = done ++ y :: rest.
Proof. induction done; simpl; [reflexivity|now f_equal]. Qed.

Lemma lib_vecs : forall todo done f a x r,
  List.length done + List.length todo = 8 ->
  read_lib_members f (setv a (done ++ todo)) r = Some x ->
  read_lib_members (f + List.length todo) (setv a (done ++ repeat [] (List.length todo)))
                   (print_vecs (skipn (List.length done) LKEYS) todo ++ r) = Some x.
Proof.
  induction todo as [|v todo IH]; intros done f a x r L H.
  - simpl. rewrite Nat.add_0_r. destruct (skipn (List.length done) LKEYS); exact H.
  - simpl List.length in *.
    assert (Ld : List.length done < 8) by lia.
    destruct (nth_error LKEYS (List.length done)) as [k|] eqn:K; [|apply nth_error_None in K; simpl in K; lia].
    assert (S : skipn (List.length done) LKEYS = k :: skipn (S (List.length done)) LKEYS).
    { clear -K. revert K. generalize (List.length done). generalize LKEYS.
      induction l as [|y l IHl]; intros [|n] K; simpl in *; try discriminate; [now inversion K|now apply IHl]. }
    rewrite S. cbn [print_vecs repeat].
    assert (IH' := IH (done ++ [v]) f a x r). rewrite app_length in IH'. simpl List.length in IH'.
    rewrite Nat.add_1_r, <- app_assoc in IH'. cbn [app] in IH'. specialize (IH' ltac:(lia) H).
    destruct v as [|s v].
    + cbn [print_vec app]. rewrite <- app_assoc in IH'. cbn [app] in IH'.
      eapply rlm_mono; [|exact IH']. lia.
    + rewrite <- app_assoc. rewrite Nat.add_succ_r.
      rewrite (lib_vec_member _ _ (List.length done) k (s :: v)); [|exact K| |discriminate].
      * unfold setv. cbn [a_vecs a_name a_prefix a_suffix a_install a_type]. unfold setv in IH'.
        rewrite set_nth_app_exact. rewrite <- app_assoc in IH'. exact IH'.
      * unfold setv. cbn [a_vecs]. apply nth_app_exact.
Qed.

Definition acc0 : lacc := mkAcc "" "" "" "" None [[]; []; []; []; []; []; []; []].
Lemma read_lib_print l r : List.length (lvecs l) = 8 -> read_lib (print_lib l ++ r) = Some (l, Sy ";" :: r).
Proof.
  destruct l as [n m p s ip vs]. cbn [lvecs]. intros L.
  unfold read_lib, print_lib, print_str. cbn [lname lmodule lprefix lsuffix linstall lvecs].
  rewrite <- !app_assoc. cbn [app expect]. change ("{" =? "{") with true. cbv iota.
  fold acc0.
  match goal with |- match read_lib_members ?F acc0 ?R with _ => _ end = _ =>
    assert (H : read_lib_members F acc0 R = Some (mkAcc n p s ip (Some m) vs, Sy ";" :: r)) end.
  { eapply (rlm_mono 14); [cbn [List.length]; lia|].
    destruct m.
    all: do 5 (rewrite rlm_unfold; unfold lib_step at 1; cbn -[read_lib_members print_vecs]).
    all: match goal with |- read_lib_members 9 (mkAcc _ _ _ _ (Some ?b) _) _ = _ =>
           pose proof (lib_vecs vs [] 1 (mkAcc n p s ip (Some b) []) (mkAcc n p s ip (Some b) vs, Sy ";" :: r) (Sy "}" :: Sy ";" :: r)) as Q end.
    all: rewrite L in Q; cbn [List.length Nat.add app skipn repeat] in Q; unfold setv in Q; cbn [a_name a_prefix a_suffix a_install a_type] in Q.
    all: apply Q; [reflexivity|reflexivity]. }
  rewrite H. reflexivity.
Qed.

(* ------------------------------------------------------------------ specific targets *)
Lemma target_vec_member f n vs i k v r :
  nth_error TKEYS i = Some k -> nth i vs [] = [] -> v <> [] ->
  read_target_members (S f) n vs (print_vec k v ++ r) = read_target_members f n (set_nth i v vs) r.
Proof.
  intros K E N. rewrite print_vec_ne by exact N.
  rewrite rtm_unfold. unfold target_step. cbn [app]. rewrite <- app_assoc. cbn [app].
  do 4 (destruct i as [|i]; [injection K as <-; cbn -[read_vec set_nth]; erewrite read_vec_print; [reflexivity|reflexivity|exact E|exact N]|]).
  destruct i; discriminate.
Qed.
Lemma target_vecs : forall todo done f n x r,
  List.length done + List.length todo = 4 ->
  read_target_members f n (done ++ todo) r = Some x ->
  read_target_members (f + List.length todo) n (done ++ repeat [] (List.length todo))
                      (print_vecs (skipn (List.length done) TKEYS) todo ++ r) = Some x.
Proof.
  induction todo as [|v todo IH]; intros done f n x r L H.
  - simpl. rewrite Nat.add_0_r. destruct (skipn (List.length done) TKEYS); exact H.
  - simpl List.length in *.
    assert (Ld : List.length done < 4) by lia.
    destruct (nth_error TKEYS (List.length done)) as [k|] eqn:K; [|apply nth_error_None in K; simpl in K; lia].
    assert (S : skipn (List.length done) TKEYS = k :: skipn (S (List.length done)) TKEYS).
    { clear -K. revert K. generalize (List.length done). generalize TKEYS.
      induction l as [|y l IHl]; intros [|m] K; simpl in *; try discriminate; [now inversion K|now apply IHl]. }
    rewrite S. cbn [print_vecs repeat].
    assert (IH' := IH (done ++ [v]) f n x r). rewrite app_length in IH'. simpl List.length in IH'.
    rewrite Nat.add_1_r, <- app_assoc in IH'. cbn [app] in IH'. specialize (IH' ltac:(lia) H).
    destruct v as [|s v].
    + cbn [print_vec app]. rewrite <- app_assoc in IH'. cbn [app] in IH'.
      eapply rtm_mono; [|exact IH']. lia.
    + rewrite <- app_assoc. rewrite Nat.add_succ_r.
      rewrite (target_vec_member _ _ _ (List.length done) k (s :: v)); [|exact K| |discriminate].
      * rewrite set_nth_app_exact. rewrite <- app_assoc in IH'. exact IH'.
      * apply nth_app_exact.
Qed.
Lemma read_target_print n vs r :
  List.length vs = 4 ->
  read_target_members (List.length (print_str "name" n ++ print_vecs TKEYS vs ++ Sy "}" :: Sy ";" :: r)) "" [[]; []; []; []]
                      (print_str "name" n ++ print_vecs TKEYS vs ++ Sy "}" :: Sy ";" :: r) = Some (n, vs, Sy ";" :: r).
Proof.
  intros L. eapply (rtm_mono 6); [unfold print_str; cbn [List.length app]; rewrite app_length; cbn [List.length]; lia|].
  unfold print_str. cbn [app]. rewrite rtm_unfold. unfold target_step at 1. cbn -[read_target_members print_vecs].
  pose proof (target_vecs vs [] 1 n (n, vs, Sy ";" :: r) (Sy "}" :: Sy ";" :: r)) as Q.
  rewrite L in Q. cbn [List.length Nat.add app skipn repeat] in Q. apply Q; reflexivity.
Qed.

(* ------------------------------------------------------------------ clean vectors, fresh names *)
Lemma nodupb_NoDup l : nodupb l = true <-> NoDup l.
Proof.
  induction l as [|x l IH]; simpl; [split; auto using NoDup_nil|].
  rewrite andb_true_iff, negb_true_iff, IH. split.
  - intros [M N]. constructor; auto. intros I. apply mem_In in I. congruence.
  - intros N. inversion N; subst. split; auto. destruct (mem x l) eqn:M; auto. apply mem_In in M. contradiction.
Qed.
Lemma clean_spec v : clean v = true <-> NoDup v /\ ~ In "" v.
Proof.
  unfold clean. rewrite andb_true_iff, negb_true_iff, nodupb_NoDup. split; intros [A B]; split; auto.
  - intros I. apply mem_In in I. congruence.
  - destruct (mem "" v) eqn:M; auto. apply mem_In in M. contradiction.
Qed.
Lemma insert_all_fresh : forall v p, NoDup (p ++ v) -> ~ In "" v -> insert_all p v = p ++ v.
Proof.
  unfold insert_all. induction v as [|x v IH]; intros p N E; simpl; [now rewrite app_nil_r|].
  assert (X : insert_if p x = p ++ [x]).
  { unfold insert_if. destruct (String.eqb_spec x ""); [subst; exfalso; apply E; simpl; auto|].
    destruct (mem x p) eqn:M; auto. apply mem_In in M. apply NoDup_remove_2 in N. exfalso. apply N, in_or_app; auto. }
  rewrite X, IH; [now rewrite <- app_assoc| now rewrite <- app_assoc|intros I; apply E; simpl; auto].
Qed.
Lemma insert_all_default d v : d <> "" -> starts_with d v = true -> clean v = true -> insert_all [d] v = v.
Proof.
  intros D S C. destruct v as [|y v]; [discriminate|]. simpl in S. apply String.eqb_eq in S. subst y.
  apply clean_spec in C. destruct C as [N E].
  unfold insert_all. simpl fold_left. rewrite insert_if_absorb by (simpl; auto).
  apply (insert_all_fresh v [d]); [exact N|intros I; apply E; simpl; auto].
Qed.
Lemma insert_all_nil v : clean v = true -> insert_all [] v = v.
Proof. intros C. apply clean_spec in C. destruct C. now apply (insert_all_fresh v []). Qed.

Section WithConfig.
Variable tc : string.
Lemma default_cppflags_ne : default_cppflags tc <> "".
Proof. unfold default_cppflags. discriminate. Qed.
Lemma default_include_ne : default_include tc <> "".
Proof. unfold default_include. discriminate. Qed.
Lemma merge_new_lib l : wf_lib tc l = true -> merge_lib (new_lib tc (lname l) (lmodule l) (lprefix l) (lsuffix l)) l = Some l.
Proof.
  destruct l as [n m p s ip vs]. unfold wf_lib, merge_lib, same_id. cbn [lname lmodule lprefix lsuffix linstall lvecs new_lib].
  rewrite !String.eqb_refl, Bool.eqb_reflx. cbn [andb].
  destruct vs as [|v0 [|v1 [|v2 [|v3 [|v4 [|v5 [|v6 [|v7 [|? ?]]]]]]]]]; try discriminate.
  rewrite !andb_true_iff. intros [[[[[[[[[C0 C1] C2] C3] C4] C5] C6] C7] S1] S2].
  cbn [map2]. rewrite !insert_all_nil by assumption.
  rewrite (insert_all_default _ v1 default_cppflags_ne S1 C1), (insert_all_default _ v2 default_include_ne S2 C2).
  reflexivity.
Qed.
Lemma describes_mem ls n : describes ls n = mem n (map lname ls).
Proof.
  unfold describes, mem. induction ls as [|l ls IH]; simpl; auto. rewrite IH. f_equal. apply String.eqb_sym.
Qed.
Lemma merge_into_fresh : forall ls l, describes ls (lname l) = false -> wf_lib tc l = true -> merge_into tc ls l = Some (ls ++ [l]).
Proof.
  induction ls as [|d ls IH]; intros l D W; simpl.
  - now rewrite merge_new_lib.
  - simpl in D. apply orb_false_iff in D. destruct D as [D1 D2]. rewrite D1. now rewrite IH.
Qed.
Lemma wf_lib_length l : wf_lib tc l = true -> List.length (lvecs l) = 8.
Proof.
  unfold wf_lib. destruct (lvecs l) as [|v0 [|v1 [|v2 [|v3 [|v4 [|v5 [|v6 [|v7 [|? ?]]]]]]]]]; try discriminate. reflexivity.
Qed.
End WithConfig.

Section WithConfig2.
Variable tc : string.
Notation rrm := (read_registry_members tc).

Lemma reg_lib_member f t l r :
  wf_lib tc l = true -> describes (libs t) (lname l) = false ->
  rrm (S f) t (Sy "library" :: Sy ":" :: print_lib l ++ r) = rrm f (mkReg (libs t ++ [l]) (headers t) (targets t)) r.
Proof.
  intros W D. rewrite rrm_unfold. unfold reg_step. cbn -[read_lib read_registry_members print_lib].
  rewrite read_lib_print by (eapply wf_lib_length; eauto). cbn -[read_registry_members]. rewrite D.
  now rewrite merge_into_fresh.
Qed.
Lemma NoDup_app_mid {A} (a b : list A) x : NoDup (a ++ x :: b) -> ~ In x a.
Proof. intros N I. apply NoDup_remove_2 in N. apply N, in_or_app; auto. Qed.
Lemma reg_libs : forall todo done f hs tg x r,
  forallb (wf_lib tc) todo = true -> NoDup (map lname (done ++ todo)) ->
  rrm f (mkReg (done ++ todo) hs tg) r = Some x ->
  rrm (f + List.length todo) (mkReg done hs tg) (flat_map (fun l => [Sy "library"; Sy ":"] ++ print_lib l) todo ++ r) = Some x.
Proof.
  induction todo as [|l todo IH]; intros done f hs tg x r W N H.
  - simpl. now rewrite Nat.add_0_r, app_nil_r in *.
  - simpl in W. apply andb_true_iff in W. destruct W as [W1 W2].
    cbn [flat_map List.length]. rewrite <- !app_assoc. cbn [app]. rewrite Nat.add_succ_r.
    rewrite reg_lib_member; cbn [libs headers targets]; [|exact W1|].
    + apply IH; auto; rewrite <- app_assoc; exact N || exact H.
    + rewrite describes_mem. destruct (mem (lname l) (map lname done)) eqn:M; auto. apply mem_In in M.
      rewrite map_app in N. simpl in N. apply NoDup_app_mid in N. contradiction.
Qed.
Lemma reg_headers f ls hs tg r :
  hs <> [] -> rrm (S f) (mkReg ls [] tg) (print_vec "headers" hs ++ r) = rrm f (mkReg ls hs tg) r.
Proof.
  intros N. rewrite print_vec_ne by exact N. rewrite rrm_unfold. unfold reg_step. cbn [app]. rewrite <- app_assoc.
  cbn -[read_registry_members parse_array]. rewrite parse_array_print by exact N. reflexivity.
Qed.
Lemma assoc_None {A} n (l : list (string * A)) : ~ In n (map fst l) -> assoc n l = None.
Proof.
  induction l as [|[k v] l IH]; simpl; auto. intros N. destruct (String.eqb_spec k n); [exfalso; auto|]. apply IH. auto.
Qed.
Lemma reg_target_member f t n vs r :
  List.length vs = 4 -> n <> "" -> ~ In n (map fst (targets t)) ->
  rrm (S f) t (print_target (n, vs) ++ r) = rrm f (mkReg (libs t) (headers t) (targets t ++ [(n, vs)])) r.
Proof.
  intros L N F. unfold print_target. cbn [fst snd]. rewrite <- !app_assoc. cbn [app].
  rewrite rrm_unfold. unfold reg_step. cbn -[read_registry_members read_target_members print_str print_vecs List.length].
  rewrite read_target_print by exact L. cbn -[read_registry_members].
  apply String.eqb_neq in N. rewrite N. now rewrite assoc_None.
Qed.
Lemma reg_targets : forall todo done f ls hs x r,
  forallb wf_target todo = true -> NoDup (map fst (done ++ todo)) ->
  rrm f (mkReg ls hs (done ++ todo)) r = Some x ->
  rrm (f + List.length todo) (mkReg ls hs done) (flat_map print_target todo ++ r) = Some x.
Proof.
  induction todo as [|[n vs] todo IH]; intros done f ls hs x r W N H.
  - simpl. now rewrite Nat.add_0_r, app_nil_r in *.
  - simpl in W. apply andb_true_iff in W. destruct W as [W1 W2]. unfold wf_target in W1. cbn [fst snd] in W1.
    apply andb_true_iff in W1. destruct W1 as [Wn Wl]. apply negb_true_iff, String.eqb_neq in Wn. apply Nat.eqb_eq in Wl.
    cbn [flat_map List.length]. rewrite <- !app_assoc. rewrite Nat.add_succ_r.
    rewrite reg_target_member; cbn [libs headers targets]; auto.
    + apply IH; auto; rewrite <- app_assoc; exact N || exact H.
    + rewrite map_app in N. simpl in N. now apply NoDup_app_mid in N.
Qed.
Lemma flat_map_length_ge {A B} (f : A -> list B) l : (forall x, 1 <= List.length (f x)) -> List.length l <= List.length (flat_map f l).
Proof. intros H. induction l as [|x l IH]; simpl; auto. rewrite app_length. specialize (H x). lia. Qed.

(* the whole registry, with whatever follows *)
Theorem read_print_rest t e : wf_registry tc t = true -> read_registry_rest tc (print_registry t ++ e) = Some (t, e).
Proof.
  unfold wf_registry. rewrite !andb_true_iff, !nodupb_NoDup. intros [[[WL NL] WT] NT].
  destruct t as [ls hs tg]. cbn [libs headers targets] in *.
  unfold read_registry_rest, print_registry. cbn [libs headers targets]. rewrite <- !app_assoc. cbn [app expect].
  change ("{" =? "{") with true. cbv iota.
  match goal with |- match rrm ?F empty_registry ?R with _ => _ end = _ =>
    assert (H : rrm F empty_registry R = Some (mkReg ls hs tg, Sy ";" :: e)) end.
  { eapply (rrm_mono tc (S (1 + List.length tg) + List.length ls)).
    - rewrite !app_length. cbn [List.length].
      assert (G1 : List.length ls <= List.length (flat_map (fun l => Sy "library" :: Sy ":" :: print_lib l) ls))
        by (apply flat_map_length_ge; intros; simpl; lia).
      assert (G2 : List.length tg <= List.length (flat_map print_target tg))
        by (apply flat_map_length_ge; intros; simpl; lia).
      lia.
    - apply (reg_libs ls [] _ [] [] _ _ WL NL). cbn [app].
      assert (Hh : forall f x r, rrm f (mkReg ls hs []) r = Some x -> rrm (S f) (mkReg ls [] []) (print_vec "headers" hs ++ r) = Some x).
      { intros f x r Hx. destruct hs as [|h hs]; [cbn [print_vec app]; eapply rrm_mono; [|exact Hx]; lia|].
        rewrite reg_headers by discriminate. exact Hx. }
      apply Hh. change (rrm (1 + List.length tg) (mkReg ls hs []) (flat_map print_target tg ++ Sy "}" :: Sy ";" :: e) = Some (mkReg ls hs tg, Sy ";" :: e)). apply (reg_targets tg [] _ _ _ _ _ WT NT). cbn [app]. reflexivity. }
  rewrite H. reflexivity.
Qed.
Theorem read_print t : wf_registry tc t = true -> read_registry tc (print_registry t) = Some t.
Proof.
  intros W. rewrite read_registry_of_rest. rewrite <- (app_nil_r (print_registry t)). now rewrite read_print_rest.
Qed.
(* every strict prefix of the printed registry is rejected *)
Theorem prefix_rejected t k :
  wf_registry tc t = true -> k < List.length (print_registry t) -> read_registry tc (firstn k (print_registry t)) = None.
Proof.
  intros W L. rewrite read_registry_of_rest.
  destruct (read_registry_rest tc (firstn k (print_registry t))) as [[t' r]|] eqn:E; [exfalso|reflexivity].
  apply (read_registry_rest_ext tc (skipn k (print_registry t))) in E. rewrite firstn_skipn in E.
  pose proof (read_print_rest t [] W) as R. rewrite app_nil_r in R. rewrite R in E. injection E as _ E.
  symmetry in E. apply app_eq_nil in E. destruct E as [_ E].
  pose proof (skipn_length k (print_registry t)) as SL. rewrite E in SL. cbn [List.length] in SL. lia.
Qed.
End WithConfig2.


(* ------------------------------------------------------------------ what mfront writes is well formed *)
Lemma NoDup_snoc {A} (l : list A) x : NoDup l -> ~ In x l -> NoDup (l ++ [x]).
Proof.
  induction l as [|y l IH]; simpl; intros N I; [repeat constructor; auto|].
  inversion N; subst. constructor.
  - rewrite in_app_iff. simpl. intros [H|[H|[]]]; auto.
  - apply IH; auto.
Qed.
Lemma insert_if_clean d v : clean d = true -> clean (insert_if d v) = true.
Proof.
  rewrite !clean_spec. intros [N E]. unfold insert_if. destruct (String.eqb_spec v ""); auto.
  destruct (mem v d) eqn:M; auto. split.
  - apply NoDup_snoc; auto. intros I. apply mem_In in I. congruence.
  - rewrite in_app_iff. simpl. intros [I|[I|[]]]; auto.
Qed.
Lemma insert_all_clean s : forall d, clean d = true -> clean (insert_all d s) = true.
Proof. unfold insert_all. induction s as [|x s IH]; simpl; auto. intros d C. apply IH, insert_if_clean, C. Qed.
Lemma insert_all_starts x s d : starts_with x d = true -> starts_with x (insert_all d s) = true.
Proof. destruct (insert_all_prefix s d) as (l & ->). destruct d; [discriminate|auto]. Qed.

Section WithConfig.
Variable tc : string.
Lemma new_lib_wf n m p s : wf_lib tc (new_lib tc n m p s) = true.
Proof.
  unfold wf_lib, new_lib. cbn [lvecs starts_with]. rewrite !String.eqb_refl.
  assert (C : forall d, d <> "" -> clean [d] = true).
  { intros d D. apply clean_spec. split; [repeat constructor; auto|]. simpl. intros [H|[]]; auto. }
  rewrite (C _ (default_cppflags_ne tc)), (C _ (default_include_ne tc)). reflexivity.
Qed.
Lemma merge_lib_wf d s l : merge_lib d s = Some l -> wf_lib tc d = true -> wf_lib tc l = true.
Proof.
  unfold merge_lib. destruct (same_id d s); [|discriminate]. intros [= <-]. unfold wf_lib. cbn [lvecs].
  destruct (lvecs d) as [|v0 [|v1 [|v2 [|v3 [|v4 [|v5 [|v6 [|v7 [|? ?]]]]]]]]]; try discriminate.
  rewrite !andb_true_iff. intros [[[[[[[[[C0 C1] C2] C3] C4] C5] C6] C7] S1] S2].
  destruct (lvecs s) as [|w0 [|w1 [|w2 [|w3 [|w4 [|w5 [|w6 [|w7 ?]]]]]]]]; cbn [map2];
    rewrite ?insert_all_clean, ?insert_all_starts by assumption; rewrite ?C0, ?C1, ?C2, ?C3, ?C4, ?C5, ?C6, ?C7, ?S1, ?S2; reflexivity.
Qed.
Lemma merge_lib_name d s l : merge_lib d s = Some l -> lname l = lname d.
Proof. unfold merge_lib. destruct (same_id d s); [|discriminate]. now intros [= <-]. Qed.
Lemma merge_into_wf : forall ls s ls',
  merge_into tc ls s = Some ls' -> forallb (wf_lib tc) ls = true ->
  forallb (wf_lib tc) ls' = true /\
  ((map lname ls' = map lname ls /\ In (lname s) (map lname ls)) \/
   (map lname ls' = map lname ls ++ [lname s] /\ ~ In (lname s) (map lname ls))).
Proof.
  induction ls as [|d ls IH]; simpl; intros s ls' H W.
  - destruct (merge_lib _ s) as [l|] eqn:M; [|discriminate]. injection H as <-.
    pose proof (merge_lib_wf _ _ _ M (new_lib_wf _ _ _ _)) as Wl. pose proof (merge_lib_name _ _ _ M) as Nl.
    simpl. rewrite Wl, Nl. split; auto.
  - apply andb_true_iff in W. destruct W as [W1 W2].
    destruct (String.eqb_spec (lname d) (lname s)) as [E|E].
    + destruct (same_id d s); [|discriminate]. destruct (merge_lib d s) as [l|] eqn:M; [|discriminate]. injection H as <-.
      pose proof (merge_lib_wf _ _ _ M W1) as Wl. pose proof (merge_lib_name _ _ _ M) as Nl.
      simpl. rewrite Wl, W2, Nl. split; auto.
    + destruct (merge_into tc ls s) as [r'|] eqn:M; [|discriminate]. injection H as <-.
      destruct (IH _ _ M W2) as (A & B). simpl. rewrite W1, A. split; auto.
      destruct B as [[B1 B2]|[B1 B2]]; [left|right]; rewrite B1; split; auto. intros [I|I]; auto.
Qed.
Lemma merge_libs_wf : forall ss ls ls',
  merge_libs tc ls ss = Some ls' -> forallb (wf_lib tc) ls = true -> NoDup (map lname ls) ->
  forallb (wf_lib tc) ls' = true /\ NoDup (map lname ls').
Proof.
  induction ss as [|s ss IH]; simpl; intros ls ls' H W N; [injection H as <-; auto|].
  destruct (merge_into tc ls s) as [l1|] eqn:M; [|discriminate].
  destruct (merge_into_wf _ _ _ M W) as (W1 & B). apply (IH _ _ H W1).
  destruct B as [[B1 _]|[B1 B2]]; rewrite B1; auto using NoDup_snoc.
Qed.

(* specific targets *)
Lemma assoc_set_wf (k : string) (v : list (list string)) : forall l,
  wf_target (k, v) = true -> forallb wf_target l = true -> NoDup (map fst l) ->
  forallb wf_target (assoc_set k v l) = true /\ NoDup (map fst (assoc_set k v l)) /\
  (forall n, In n (map fst (assoc_set k v l)) <-> n = k \/ In n (map fst l)).
Proof.
  induction l as [|[k' v'] l IH]; intros Wk W N.
  - cbn [assoc_set forallb map fst]. rewrite Wk. split; [reflexivity|]. split; [constructor; [simpl; tauto|constructor]|intros n; simpl; intuition].
  - cbn [forallb] in W. apply andb_true_iff in W. destruct W as [W1 W2]. cbn [map fst] in N. inversion N as [|? ? N1 N2]; subst.
    cbn [assoc_set]. destruct (String.eqb_spec k' k) as [->|E].
    + cbn [forallb map fst]. rewrite Wk, W2. split; [reflexivity|]. split; [constructor; auto|intros n; simpl; intuition].
    + destruct (IH Wk W2 N2) as (A & B & C). cbn [forallb map fst]. rewrite W1, A. repeat split; auto.
      * constructor; auto. rewrite C. intros [I|I]; auto.
      * simpl. rewrite C. intuition.
      * simpl. rewrite C. intuition.
Qed.
Lemma assoc_wf (k : string) : forall (l : list (string * list (list string))) a,
  assoc k l = Some a -> forallb wf_target l = true -> List.length a = 4.
Proof.
  induction l as [|[k' v'] l IH]; simpl; intros a H W; [discriminate|].
  apply andb_true_iff in W. destruct W as [W1 W2]. destruct (k' =? k); [|eauto].
  injection H as <-. unfold wf_target in W1. apply andb_true_iff in W1. now apply Nat.eqb_eq.
Qed.
Lemma merge_target_wf b d t :
  wf_target t = true -> forallb wf_target d = true -> NoDup (map fst d) ->
  forallb wf_target (merge_target b d t) = true /\ NoDup (map fst (merge_target b d t)).
Proof.
  intros Wt W N. destruct t as [k v]. unfold merge_target.
  destruct (k =? "all").
  - assert (L : List.length (match assoc "all" d with Some a => a | None => [[]; []; []; []] end) = 4).
    { destruct (assoc "all" d) eqn:A; [eapply assoc_wf; eauto|reflexivity]. }
    destruct (match assoc "all" d with Some a => a | None => [[]; []; []; []] end) as [|deps r]; [discriminate|].
    edestruct (assoc_set_wf "all" (insert_all deps (hd [] v) :: r) d) as (A & B & _); eauto.
    unfold wf_target. cbn [fst snd]. cbn [List.length] in *. rewrite L. reflexivity.
  - destruct b.
    + edestruct (assoc_set_wf k v d) as (A & B & _); eauto.
    + destruct (assoc k d); auto. edestruct (assoc_set_wf k v d) as (A & B & _); eauto.
Qed.
Lemma merge_targets_wf b : forall s d,
  forallb wf_target s = true -> forallb wf_target d = true -> NoDup (map fst d) ->
  forallb wf_target (fold_left (merge_target b) s d) = true /\ NoDup (map fst (fold_left (merge_target b) s d)).
Proof.
  induction s as [|t s IH]; simpl; intros d Ws W N; auto.
  apply andb_true_iff in Ws. destruct Ws as [W1 W2].
  destruct (merge_target_wf b d t W1 W N) as (A & B). now apply IH.
Qed.
Theorem merge_registry_wf d s b r :
  merge_registry tc d s b = Some r -> wf_registry tc d = true -> forallb wf_target (targets s) = true -> wf_registry tc r = true.
Proof.
  unfold merge_registry, wf_registry. destruct (merge_libs tc (libs d) (libs s)) as [ls|] eqn:M; [|discriminate].
  intros [= <-]. rewrite !andb_true_iff, !nodupb_NoDup. intros [[[WL NL] WT] NT] Ws. cbn [libs targets].
  destruct (merge_libs_wf _ _ _ M WL NL) as (A & B). destruct (merge_targets_wf b _ _ Ws WT NT) as (C & D).
  repeat split; assumption.
Qed.
Lemma empty_wf : wf_registry tc empty_registry = true.
Proof. reflexivity. Qed.
End WithConfig.

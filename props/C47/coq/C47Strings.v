(* C47 -- string tokens at byte level: for the printable class, what read<...> extracts from the quoted text that
   write(...) prints is the string itself, and the tokenizer's closing rule ends the literal exactly at its last quote. *)
From Coq Require Import List String Ascii Bool Arith Lia.
From C47 Require Import C47Model.
Local Open Scope string_scope.

Lemma unescape_escape s : printable s = true -> unescape (escape s) = s.
Proof.
  induction s as [|c s IH]; [reflexivity|]. cbn [printable escape]. rewrite !andb_true_iff, !negb_true_iff.
  intros [[B N] P]. specialize (IH P).
  destruct (Ascii.eqb c dquote) eqn:Q.
  - apply Ascii.eqb_eq in Q. subst c. cbn [unescape]. rewrite !Ascii.eqb_refl. cbn [andb]. now rewrite IH.
  - cbn [unescape]. destruct (escape s) as [|a e] eqn:E.
    + destruct s as [|a s]; [reflexivity|]. cbn [escape] in E. destruct (Ascii.eqb a dquote); discriminate.
    + rewrite B. cbn [andb]. now rewrite IH.
Qed.
Lemma close_at_escape s rest : printable s = true ->
  close_at 0 (escape s ++ String dquote rest) = Some (String.length (escape s)).
Proof.
  induction s as [|c s IH]; [reflexivity|]. cbn [printable escape]. rewrite !andb_true_iff, !negb_true_iff.
  intros [[B N] P]. specialize (IH P).
  destruct (Ascii.eqb c dquote) eqn:Q.
  - cbn [append close_at String.length]. change (Ascii.eqb bslash dquote) with false. cbn [andb].
    change (Ascii.eqb bslash bslash) with true. rewrite Ascii.eqb_refl. cbn [Nat.even andb].
    change (Ascii.eqb dquote bslash) with false. cbv iota. rewrite IH. reflexivity.
  - cbn [append close_at String.length]. rewrite Q, B. cbn [andb]. rewrite IH. reflexivity.
Qed.
Lemma close_at_raw s rest : printable_name s = true ->
  close_at 0 (s ++ String dquote rest) = Some (String.length s).
Proof.
  unfold printable_name. rewrite andb_true_iff. intros [P Q].
  induction s as [|c s IH]; [reflexivity|]. cbn [printable no_quote] in *.
  rewrite !andb_true_iff, !negb_true_iff in *. destruct P as [[B N] P]. destruct Q as [Q1 Q2].
  cbn [append close_at String.length]. rewrite Q1, B. cbn [andb]. now rewrite IH.
Qed.
Lemma string_tokens s rest :
  printable s = true ->
  unescape (escape s) = s /\ close_at 0 (escape s ++ String dquote rest) = Some (String.length (escape s)).
Proof. intros P. split; [exact (unescape_escape s P)|exact (close_at_escape s rest P)]. Qed.

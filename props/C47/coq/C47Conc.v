(* C47 -- runs, histories, crashes and two concurrent writers, without the hypothesis "the file reads back". *)
From Coq Require Import List String Bool Arith Lia.
From C47 Require Import C47Model C47Proofs C47Reader C47Round.
Import ListNotations.
Local Open Scope string_scope.
Local Open Scope list_scope.

Section WithConfig.
Variable tc : string.
Definition targets_ok (td : registry) : Prop := forallb wf_target (targets td) = true.
(* the file [f] holds the registry [t] (no file = empty registry) *)
Definition holds (f : file) (t : registry) : Prop :=
  (f = None /\ t = empty_registry) \/ (f = Some (print_registry t) /\ wf_registry tc t = true).
Lemma wf_targets_ok t : wf_registry tc t = true -> targets_ok t.
Proof. unfold wf_registry, targets_ok. rewrite !andb_true_iff. tauto. Qed.
Lemma wf_wf8 t : wf_registry tc t = true -> wf8 (libs t).
Proof.
  unfold wf_registry. rewrite !andb_true_iff. intros [[[W _] _] _] l I.
  rewrite forallb_forall in W. eapply wf_lib_length; eauto.
Qed.

(* one run over a file that holds [t]: an error, or the new file holds a registry that keeps every library of [t] and
   of the run's own description *)
Lemma run_holds p f t td :
  holds f t -> targets_ok td ->
  match run tc p f td with
  | Error => True
  | Done f' r => holds f' r /\ libs_cover (libs t) (libs r) /\ libs_cover (libs td) (libs r)
  end.
Proof.
  intros H T. unfold run.
  assert (K : forall t0, wf_registry tc t0 = true -> libs_cover (libs t) (libs t0) ->
              match match merge_registry tc t0 td true with Some t1 => Done (Some (print_registry t1)) t1 | None => Error end with
              | Error => True
              | Done f' r => holds f' r /\ libs_cover (libs t) (libs r) /\ libs_cover (libs td) (libs r)
              end).
  { intros t0 W0 C0. destruct (merge_registry tc t0 td true) as [t1|] eqn:M1; auto.
    destruct (merge_registry_covers _ _ _ _ _ M1 (wf_wf8 _ W0)) as (C1 & C2 & _).
    repeat split; auto.
    - right. split; auto. eapply merge_registry_wf; eauto.
    - eapply libs_cover_trans; eauto. }
  destruct H as [[-> ->]|[-> W]].
  - apply K; [apply empty_wf|intros l []].
  - rewrite read_print by exact W.
    destruct (merge_registry tc empty_registry t false) as [t0|] eqn:M0; auto.
    destruct (merge_registry_covers _ _ _ _ _ M0 (wf8_empty)) as (_ & C0 & _).
    apply K; auto. eapply merge_registry_wf; [exact M0|apply empty_wf|apply wf_targets_ok, W].
Qed.

(* histories: whatever the runs, the file always holds a registry that keeps every library of the first file and of
   every run that succeeded *)
Theorem history_keeps p : forall tds f t,
  holds f t -> Forall targets_ok tds ->
  exists r, holds (runs tc p f tds) r /\ libs_cover (libs t) (libs r) /\
            forall td, In td (accepted tc p f tds) -> libs_cover (libs td) (libs r).
Proof.
  induction tds as [|td tds IH]; intros f t H T.
  - exists t. simpl. repeat split; auto using libs_cover_refl. intros td [].
  - inversion T as [|? ? T1 T2]; subst. simpl.
    pose proof (run_holds p f t td H T1) as R. destruct (run tc p f td) as [|f' r1].
    + apply IH; auto.
    + destruct R as (H1 & C1 & C2). destruct (IH f' r1 H1 T2) as (r & Hr & Cr & Ca).
      exists r. repeat split; auto.
      * eapply libs_cover_trans; eauto.
      * intros td' [<-|I]; [eapply libs_cover_trans; eauto|auto].
Qed.

(* crashes.  Write-then-rename: the file holds the old or the new registry at every crash point *)
Lemma crash_atomic_holds fatal_ old new k :
  wf_registry tc old = true -> wf_registry tc new = true ->
  let f := crash_state (mkPolicy true fatal_) (Some (print_registry old)) (print_registry new) k in
  holds f old \/ holds f new.
Proof.
  intros Wo Wn. unfold crash_state. cbn [atomic].
  destruct (Nat.leb k (List.length (print_registry new) + 1)); [left|right]; right; auto.
Qed.
Theorem crash_atomic_keeps fatal_ old new k td :
  wf_registry tc old = true -> wf_registry tc new = true -> libs_cover (libs old) (libs new) -> targets_ok td ->
  match run tc (mkPolicy true fatal_) (crash_state (mkPolicy true fatal_) (Some (print_registry old)) (print_registry new) k) td with
  | Error => True
  | Done f r => holds f r /\ libs_cover (libs old) (libs r)
  end.
Proof.
  intros Wo Wn C T. destruct (crash_atomic_holds fatal_ old new k Wo Wn) as [H|H].
  - pose proof (run_holds (mkPolicy true fatal_) _ _ td H T) as R. destruct (run tc _ _ td); auto. tauto.
  - pose proof (run_holds (mkPolicy true fatal_) _ _ td H T) as R. destruct (run tc _ _ td); auto.
    destruct R as (R1 & R2 & _). split; auto. eapply libs_cover_trans; eauto.
Qed.
(* in place, but a registry that does not parse is fatal: a killed writer leaves a strict prefix, which is REJECTED (theorem
   prefix_rejected), so the later run stops; it never succeeds with libraries lost *)
Theorem crash_in_place_fatal old new k td :
  wf_registry tc old = true -> wf_registry tc new = true -> libs_cover (libs old) (libs new) -> targets_ok td ->
  match run tc (mkPolicy false true) (crash_state (mkPolicy false true) (Some (print_registry old)) (print_registry new) k) td with
  | Error => True
  | Done f r => libs_cover (libs old) (libs r)
  end.
Proof.
  intros Wo Wn C T. unfold crash_state. cbn [atomic].
  destruct k as [|i].
  - pose proof (run_holds (mkPolicy false true) _ _ td (or_intror (conj eq_refl Wo)) T) as R.
    destruct (run tc _ _ td); auto. tauto.
  - destruct (Nat.lt_ge_cases i (List.length (print_registry new))) as [L|L].
    + rewrite (run_fatal_damaged tc false _ td (prefix_rejected tc new i Wn L)). exact I.
    + rewrite firstn_all2 by exact L.
      pose proof (run_holds (mkPolicy false true) _ _ td (or_intror (conj eq_refl Wn)) T) as R.
      destruct (run tc _ _ td); auto. destruct R as (_ & R2 & _). eapply libs_cover_trans; eauto.
Qed.
End WithConfig.

(* ------------------------------------------------------------------ two concurrent writers *)
Section Concurrent.
Variable tc : string.
Variable p : policy.
Variables td0 td1 : registry.
Hypothesis T0 : targets_ok td0.
Hypothesis T1 : targets_ok td1.
Variable f0 : file.
Variable t0 : registry.
Hypothesis H0 : holds tc f0 t0.
Notation step := (cstep tc p false td0 td1).

Definition is_done (c : pc) : Prop := match c with PDone _ => True | _ => False end.
Definition mem_of (c : pc) : option registry :=
  match c with PRead m | PWriting m _ | PDone m => Some m | _ => None end.
(* the temporary file of a process that is writing holds exactly the tokens written so far *)
Definition tmp_ok (who : bool) (s : cstate) : Prop :=
  match get_pc who s with
  | PWriting m n => get_tmp who s = Some (firstn n (print_registry m)) /\ n <= List.length (print_registry m)
  | _ => True
  end.
Definition mem_ok (who : bool) (s : cstate) : Prop :=
  match mem_of (get_pc who s) with Some m => wf_registry tc m = true | None => True end.
Definition main_ok (s : cstate) : Prop :=
  (cmain s = f0 /\ ~ is_done (pc0 s) /\ ~ is_done (pc1 s)) \/
  (exists m, (pc0 s = PDone m \/ pc1 s = PDone m) /\ cmain s = Some (print_registry m)).
Definition inv (s : cstate) : Prop :=
  main_ok s /\ tmp_ok false s /\ tmp_ok true s /\ mem_ok false s /\ mem_ok true s /\ exists t, holds tc (cmain s) t.

Lemma firstn_snoc_nth {A} (l : list A) n x : nth_error l n = Some x -> firstn n l ++ [x] = firstn (S n) l.
Proof.
  revert n. induction l as [|y l IH]; intros [|n] H; simpl in *; try discriminate; [now inversion H|].
  f_equal. now apply IH.
Qed.
Lemma compute_wf f t td m : holds tc f t -> targets_ok td -> compute tc p f td = Some m -> wf_registry tc m = true.
Proof.
  intros H T. unfold compute. pose proof (run_holds tc p f t td H T) as R. destruct (run tc p f td) as [|f' r]; [discriminate|].
  intros [= <-]. destruct R as ([[_ ->]|[_ W]] & _); [apply empty_wf|exact W].
Qed.
Lemma inv_init : inv (cinit f0).
Proof. unfold inv, main_ok, tmp_ok, mem_ok. simpl. repeat split; auto. exists t0; exact H0. Qed.
Ltac sc := cbn [set_pc set_tmp set_main get_pc get_tmp cmain pc0 pc1 ctmp0 ctmp1 mem_of is_done].
Ltac fin M t Ht :=
    repeat split; auto; try lia; try (exists t; exact Ht);
    try (destruct M as [(E & D0 & D1)|(m' & [E|E] & E')];
         [left; tauto|first [discriminate|right; exists m'; auto]|first [discriminate|right; exists m'; auto]]).
Lemma inv_step who s : inv s -> inv (step who s).
Proof.
  intros (M & A0 & A1 & B0 & B1 & (t & Ht)).
  destruct s as [mn tm0 tm1 c0 c1]. unfold inv, main_ok, tmp_ok, mem_ok, cstep in *. cbn [cmain pc0 pc1] in *.
  assert (Hc : forall (w : bool) (m : registry), compute tc p mn (if w then td1 else td0) = Some m -> wf_registry tc m = true).
  { intros w m. eapply compute_wf; eauto. destruct w; auto. }
  destruct who; cbn [get_pc get_tmp pc0 pc1 ctmp0 ctmp1 cmain] in *.
  - destruct c1 as [|m|m n|m|].
    + destruct (compute tc p mn td1) as [m|] eqn:C; sc; fin M t Ht. apply (Hc true m C).
    + sc. fin M t Ht.
    + destruct A1 as [E1 L1].
      destruct (nth_error (print_registry m) n) as [tk|] eqn:N; sc.
      * rewrite E1, (firstn_snoc_nth _ _ _ N). fin M t Ht.
        assert (n < List.length (print_registry m)) by (apply nth_error_Some; congruence). lia.
      * apply nth_error_None in N. rewrite E1, firstn_all2 by lia. repeat split; auto.
        -- right. exists m. auto.
        -- exists m. right. auto.
    + sc. fin M t Ht.
    + sc. fin M t Ht.
  - destruct c0 as [|m|m n|m|].
    + destruct (compute tc p mn td0) as [m|] eqn:C; sc; fin M t Ht. apply (Hc false m C).
    + sc. fin M t Ht.
    + destruct A0 as [E1 L1].
      destruct (nth_error (print_registry m) n) as [tk|] eqn:N; sc.
      * rewrite E1, (firstn_snoc_nth _ _ _ N). fin M t Ht.
        assert (n < List.length (print_registry m)) by (apply nth_error_Some; congruence). lia.
      * apply nth_error_None in N. rewrite E1, firstn_all2 by lia. repeat split; auto.
        -- right. exists m. auto.
        -- exists m. right. auto.
    + sc. fin M t Ht.
    + sc. fin M t Ht.
Qed.
Lemma inv_exec sched : forall s, inv s -> inv (cexec tc p false td0 td1 sched s).
Proof. induction sched as [|w sched IH]; simpl; intros s I; auto. apply IH, inv_step, I. Qed.

(* for EVERY interleaving of the elementary steps of the two runs (no lock assumed): the registry file always holds a
   complete well-formed registry, and once both runs are over it is the registry of one of them, never a mixture *)
Theorem two_writers_never_damaged sched :
  exists t, holds tc (cmain (cexec tc p false td0 td1 sched (cinit f0))) t.
Proof. destruct (inv_exec sched _ inv_init) as (_ & _ & _ & _ & _ & H). exact H. Qed.
Theorem two_writers_no_mixture sched m0 m1 :
  let s := cexec tc p false td0 td1 sched (cinit f0) in
  pc0 s = PDone m0 -> pc1 s = PDone m1 ->
  cmain s = Some (print_registry m0) \/ cmain s = Some (print_registry m1).
Proof.
  intros s E0 E1. destruct (inv_exec sched _ inv_init) as (M & _). fold s in M.
  destruct M as [(_ & D & _)|(m & [E|E] & E')].
  - rewrite E0 in D. exfalso; apply D; exact I.
  - left. congruence.
  - right. congruence.
Qed.
End Concurrent.

(* ------------------------------------------------------------------ sections run under the lock *)
Section Locked.
Variable tc : string.
Variable p : policy.
Variables td0 td1 : registry.
Notation step := (cstep tc p false td0 td1).
Notation td_of who := (if who then td1 else td0).

Lemma iter_S {A} n (f : A -> A) x : Nat.iter (S n) f x = f (Nat.iter n f x).
Proof. reflexivity. Qed.
Lemma iter_S_r {A} n (f : A -> A) x : Nat.iter (S n) f x = Nat.iter n f (f x).
Proof. induction n as [|n IH]; [reflexivity|]. rewrite iter_S, IH. reflexivity. Qed.
Lemma get_set_pc who c s : get_pc who (set_pc who c s) = c.
Proof. destruct who, s; reflexivity. Qed.
Lemma get_tmp_set_pc who c s : get_tmp who (set_pc who c s) = get_tmp who s.
Proof. destruct who, s; reflexivity. Qed.
Lemma get_set_tmp who f s : get_tmp who (set_tmp who f s) = f.
Proof. destruct who, s; reflexivity. Qed.
Lemma set_set who c f c' f' s :
  set_pc who c (set_tmp who f (set_pc who c' (set_tmp who f' s))) = set_pc who c (set_tmp who f s).
Proof. destruct who, s; reflexivity. Qed.
Lemma write_loop who m : forall k s,
  get_pc who s = PWriting m 0 -> get_tmp who s = Some [] -> k <= List.length (print_registry m) ->
  Nat.iter k (step who) s = set_pc who (PWriting m k) (set_tmp who (Some (firstn k (print_registry m))) s).
Proof.
  induction k as [|k IH]; intros s P T L.
  - destruct who, s; simpl in *; subst; reflexivity.
  - rewrite iter_S. rewrite IH by (auto; lia). unfold cstep at 1. rewrite get_set_pc.
    destruct (nth_error (print_registry m) k) as [tk|] eqn:N; [|apply nth_error_None in N; lia].
    rewrite get_tmp_set_pc, get_set_tmp, (firstn_snoc_nth _ _ _ N). apply set_set.
Qed.
(* the write section of a process that has read: open, write everything, rename *)
Lemma write_section who m s :
  get_pc who s = PRead m ->
  csection tc p false td0 td1 who s = set_pc who (PDone m) (set_tmp who None (set_main (Some (print_registry m)) s)).
Proof.
  intros P. unfold csection. rewrite P. rewrite Nat.add_comm. cbn [Nat.add]. rewrite iter_S_r, iter_S.
  assert (O : step who s = set_pc who (PWriting m 0) (set_tmp who (Some []) s)) by (unfold cstep; now rewrite P).
  rewrite O, (write_loop who m); [|apply get_set_pc|rewrite get_tmp_set_pc; apply get_set_tmp|lia].
  unfold cstep. rewrite get_set_pc.
  destruct (nth_error (print_registry m) (List.length (print_registry m))) eqn:N.
  - exfalso. assert (X : nth_error (print_registry m) (List.length (print_registry m)) <> None) by congruence.
    apply nth_error_Some in X. lia.
  - rewrite get_tmp_set_pc, get_set_tmp, firstn_all. destruct who, s; reflexivity.
Qed.
Lemma read_section who s :
  get_pc who s = PStart ->
  csection tc p false td0 td1 who s =
  match compute tc p (cmain s) (td_of who) with Some m => set_pc who (PRead m) s | None => set_pc who PFailed s end.
Proof. intros P. unfold csection, cstep. now rewrite P. Qed.

Lemma run_done_file f td f' m : run tc p f td = Done f' m -> f' = Some (print_registry m).
Proof.
  unfold run. destruct (match f with Some ts => _ | None => _ end); [|discriminate].
  destruct (merge_registry tc r td true); [|discriminate]. now intros [= <- <-].
Qed.
(* the two sections of one run, nothing in between: the file is what [run] says *)
Lemma two_sections who s :
  get_pc who s = PStart ->
  cmain (csection tc p false td0 td1 who (csection tc p false td0 td1 who s)) =
  match run tc p (cmain s) (td_of who) with Error => cmain s | Done f' _ => f' end /\
  get_pc (negb who) (csection tc p false td0 td1 who (csection tc p false td0 td1 who s)) = get_pc (negb who) s.
Proof.
  intros P. rewrite (read_section who s P). unfold compute.
  destruct (run tc p (cmain s) (td_of who)) as [|f' m] eqn:R.
  - unfold csection. rewrite get_set_pc. destruct who, s; split; reflexivity.
  - rewrite (write_section who m) by apply get_set_pc. rewrite (run_done_file _ _ _ _ R).
    destruct who, s; split; reflexivity.
Qed.
(* the two runs one after the other, each with its two sections: exactly two successive runs *)
Theorem serial_sections_are_runs (f0 : file) :
  cmain (cexec_locked tc p false td0 td1 [false; false; true; true] (cinit f0)) = runs tc p f0 [td0; td1].
Proof.
  unfold cexec_locked. cbn [fold_left runs].
  destruct (two_sections false (cinit f0) eq_refl) as [M1 P1].
  set (s2 := csection tc p false td0 td1 false (csection tc p false td0 td1 false (cinit f0))) in *.
  cbn [negb] in P1. destruct (two_sections true s2 P1) as [M2 _]. rewrite M2, M1. cbn [cinit cmain].
  destruct (run tc p f0 td0); destruct (run tc p _ td1); reflexivity.
Qed.
End Locked.

(* ------------------------------------------------------------------ concrete schedules (tfel-config = "tfel-config") *)
Definition fixed : policy := mkPolicy true true.
Definition ex_tdA : registry := mkReg [ex_lib "M" "M.cxx" "M_f"] ["M.hxx"] [].
Definition ex_tdB : registry := mkReg [ex_lib "N" "N.cxx" "N_f"] ["N.hxx"] [].
(* the lock is taken for the read and, separately, for the write: B reads before A writes and writes after A *)
Lemma lost_update_witness :
  let s := cexec_locked tc0 fixed false ex_tdA ex_tdB [false; true; false; true] (cinit None) in
  (exists m0, pc0 s = PDone m0 /\ describes (libs m0) "M" = true) /\
  (exists m1, pc1 s = PDone m1 /\ cmain s = Some (print_registry m1) /\ describes (libs m1) "M" = false).
Proof. vm_compute. split; eexists; repeat split; reflexivity. Qed.
(* one temporary name shared by all processes (first version of the repair): A has written its temporary file, B opens
   (truncates) the same file, A renames it: the registry is now an empty file, which does not parse *)
Definition shared_sched : list bool :=
  match compute tc0 fixed None ex_tdA with
  | Some m => repeat false (2 + List.length (print_registry m)) ++ [true; true; false]
  | None => []
  end.
Lemma shared_tmp_witness :
  let s := cexec tc0 fixed true ex_tdA ex_tdB shared_sched (cinit None) in
  cmain s = Some [] /\ read_registry tc0 [] = None /\ (exists m0, pc0 s = PDone m0).
Proof. vm_compute. repeat split. eexists; reflexivity. Qed.
(* a registry outside the class: a duplicate in a vector is dropped when the file is read *)
Definition ex_dup : registry :=
  mkReg [mkLib "M" false "lib" "so" "" [["a.cxx"; "a.cxx"]; [default_cppflags tc0]; [default_include tc0]; []; []; []; []; []]] [] [].
Lemma roundtrip_needs_wf : exists t, wf_registry tc0 t = false /\ read_registry tc0 (print_registry t) <> Some t.
Proof. exists ex_dup. split; [vm_compute; reflexivity|vm_compute; discriminate]. Qed.

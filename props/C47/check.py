"""C47 -- the build-target registry (src/targets.lst) survives histories and crashes.
Engine H: Coq theorems about a Gallina model of the registry (insert_if / merge as idempotent monotone union, token-level
printer and reader, runs and crash points under the two write policies).  Tie: (1) the real TargetsDescription.cxx /
LibraryDescription.cxx (compiled from REPO) are driven with random registries: merges, operator<< (token by token
through the real CxxTokenizer), read<TargetsDescription>, and compared with the extracted model; the printed text cut
after EVERY byte goes through the real reader; (2) real mfront runs in scratch directories: union over successive runs,
then src/targets.lst damaged as a killed writer would leave it, followed by one more run."""
import os, re, shutil
from vlib import guarded_main, REPO, REPO_BUILD

SRCS = ["mfront/src/TargetsDescription.cxx", "mfront/src/LibraryDescription.cxx", "mfront/src/SpecificTargetDescription.cxx",
        "mfront/src/CompiledTargetDescriptionBase.cxx"]
LIBS = ["-lTFELMFront", "-lMFrontLogStream", "-lTFELUtilities", "-lTFELConfig", "-lTFELException", "-lTFELSystem"]
EXTRACT = '''From C47 Require Import C47Model.
Require Import ExtrOcamlBasic.
Extraction "c47_model.ml" merge_registry print_registry read_registry empty_registry run crash_state.
'''
VEC_POOL = ["a.cxx", "b.cxx", "src/c d.cxx", "-DX=1", "$(shell tfel-config --libs)", "", "a.cxx", "-L/opt/x y", 'say "hi"', "f_1", "g", "-lm"]
NAMES = ["MaterialLaw", "Behaviour", "M-1", "lib.x", "Umat"]
TNAMES = ["all", "check", "clean", "doc"]


def gen_registry(rng, names=None, conflict_with=None):
    libs = []
    for n in rng.sample(names or NAMES, rng.randint(0, 3)):
        lib = {"type": rng.choice("MS"), "name": n, "prefix": rng.choice(["lib", "lib", ""]), "suffix": rng.choice(["so", "so", "dll"]),
               "install": rng.choice(["", "", "/opt/tfel", "/usr/local/lib x"]),
               "vecs": [[rng.choice(VEC_POOL) for _ in range(rng.choice([0, 0, 1, 2, 4]))] for _ in range(8)]}
        libs.append(lib)
    if conflict_with is None:
        # same name => same identity, otherwise the merge raises (tested separately)
        for l in libs:
            l["type"], l["prefix"], l["suffix"] = "S", "lib", "so"
    headers = [rng.choice(["a.hxx", "b.hxx", "inc/c.hxx", "a.hxx"]) for _ in range(rng.choice([0, 1, 3]))]
    tg = {}
    for n in rng.sample(TNAMES, rng.randint(0, 3)):
        tg[n] = [[rng.choice(VEC_POOL[:5] + VEC_POOL[6:]) for _ in range(rng.choice([0, 1, 2]))] for _ in range(4)]
    return {"libs": libs, "headers": headers, "targets": tg}


def raw_script(name, r):
    out = ["RAW %s %d %d %d" % (name, len(r["libs"]), len(r["headers"]), len(r["targets"]))]
    for l in r["libs"]:
        out += ["L " + l["type"], "S " + l["name"], "S " + l["prefix"], "S " + l["suffix"], "S " + l["install"]]
        for v in l["vecs"]:
            out += ["V %d" % len(v)] + ["S " + s for s in v]
    out += ["S " + h for h in r["headers"]]
    for n, vs in r["targets"].items():
        out.append("S " + n)
        for v in vs:
            out += ["V %d" % len(v)] + ["S " + s for s in v]
    return out


def parse_output(out):
    """list of (command line, payload lines)"""
    blocks, cur = [], None
    for l in out.split("\n"):
        if l.startswith("BEGIN "):
            cur = [l[6:], []]
        elif l == "END" and cur is not None:
            blocks.append(cur)
            cur = None
        elif cur is not None:
            cur[1].append(l)
    return blocks


def parse_dump(lines):
    it = iter(lines)
    h = next(it).split()
    assert h[0] == "REG", lines[:3]
    nl, nh, nt = int(h[1]), int(h[2]), int(h[3])

    def S():
        l = next(it)
        assert l.startswith("S"), l
        return l[2:]

    def V():
        n = int(next(it).split()[1])
        return [S() for _ in range(n)]
    libs = []
    for _ in range(nl):
        t = next(it).split()[1]
        libs.append({"type": t, "name": S(), "prefix": S(), "suffix": S(), "install": S(), "vecs": [V() for _ in range(8)]})
    headers = [S() for _ in range(nh)]
    tg = {}
    for _ in range(nt):
        n = S()
        tg[n] = [V() for _ in range(4)]
    return {"libs": libs, "headers": headers, "targets": tg}


def covers(a, r):
    """every library of a is in r under its name with every non-empty string of its vectors (the union statement)"""
    by = {l["name"]: l for l in r["libs"]}
    for l in a["libs"]:
        if l["name"] not in by:
            return "library %r is missing" % l["name"]
        for i, v in enumerate(l["vecs"]):
            for x in v:
                if x != "" and x not in by[l["name"]]["vecs"][i]:
                    return "library %r lost %r from vector %d" % (l["name"], x, i)
    for h in a["headers"]:
        if h not in r["headers"]:
            return "header %r is missing" % h
    return None


def norm_tokens(lines, real):
    toks = []
    for l in lines[1:]:
        kind, val = l[0], l[2:]
        if real and kind == "t":
            val = val[1:-1].replace('\\"', '"')
        toks.append((kind, val))
    return toks


MFRONT_SRC = """@Parser MaterialLaw;
@Law %(law)s;
@Material Mat;
@Library %(lib)s;
@Output y;
@Input x;
@Function { y = %(k)d * x; }
"""


def split_targets(toks):
    """(tokens before the first specific target, sorted list of target blocks, tokens after): std::map prints the targets by
    name, the model keeps them in order of arrival"""
    idx = [k for k, x in enumerate(toks) if x == ("y", "target")]
    if not idx:
        return toks, [], []
    blocks = []
    for a, b in zip(idx, idx[1:] + [len(toks) - 2]):
        blocks.append(tuple(toks[a:b]))
    return toks[:idx[0]], sorted(blocks), toks[len(toks) - 2:]


def status(lines):
    for l in lines:
        if l.startswith("ERR"):
            return "ERR"
        if l.startswith("OK"):
            return "OK"
    return ""


def lib_names(text):
    return set(re.findall(r'library\s*:\s*\{\s*name\s*:\s*"([^"]*)"', text))


def mfront_part(c):
    c.repo_build(["mfront"])
    exe = os.path.join(REPO_BUILD, "mfront", "src", "mfront")
    sem = "/dev/shm/sem.mfront-%d" % os.getuid()
    saved = None   # mfront runs are isolated in a private /dev/shm by vlib.run: the shared semaphore is never touched
    try:
        wd = os.path.join(c.work, "runs")
        os.makedirs(wd, exist_ok=True)
        for law, lib, k in (("A", "LibA", 2), ("B", "LibB", 3), ("C", "LibC", 5)):
            with open(os.path.join(wd, law + ".mfront"), "w") as f:
                f.write(MFRONT_SRC % {"law": law, "lib": lib, "k": k})
        reg = os.path.join(wd, "src", "targets.lst")

        def run(law):
            rc, out, err = c.run([exe, "--interface=c", law + ".mfront"], cwd=wd, timeout=300)
            return rc, out + err
        rc, log = run("A")
        if rc != 0 or not os.path.exists(reg):
            c.report("mfront-run", "mfront --interface=c A.mfront failed (rc=%d): %s" % (rc, log[-300:]), {"log": log[-2000:]}, False)
            return
        n1 = lib_names(open(reg).read())
        rc, log = run("B")
        s2 = open(reg).read()
        n2 = lib_names(s2)
        rc, log = run("B")
        s2b = open(reg).read()
        c.count(3, ("mfront", "history"), True)
        if not (n1 == {"LibA"} and n2 == {"LibA", "LibB"}):
            c.report("history:A,B", "after runs over A.mfront then B.mfront the registry holds libraries %s (first run: %s), "
                     "expected the union {LibA, LibB}" % (sorted(n2), sorted(n1)), {"targets.lst": s2}, True)
        if s2b != s2:
            c.report("history:B,B", "running B.mfront a second time changes src/targets.lst (merge not idempotent)",
                     {"before": s2, "after": s2b}, True)
        # a writer killed while rewriting the file in place leaves a prefix of what it was writing
        ent = s2.find("};\nlibrary")
        points = sorted(set([0, 1, 9, s2.find('"LibA"') + 3, ent + 3 if ent > 0 else 5, len(s2) // 2, len(s2) - 3]))
        lost = []
        for k in points:
            with open(reg, "w") as f:
                f.write(s2[:k])
            rc, log = run("C")
            after = lib_names(open(reg).read()) if os.path.exists(reg) else set()
            c.count(1, ("mfront", "crash", k), True)
            if rc == 0 and not {"LibA", "LibB"} <= after:
                lost.append((k, sorted(after), log.strip()[-200:]))
        c.sample({"mfront_runs": "A, B, B, then C after truncation of src/targets.lst at bytes %s" % points, "lost_at": [k for k, _, _ in lost]})
        if lost:
            k, after, log = lost[0]
            c.report("registry-lost:truncated@%d" % k,
                     "src/targets.lst (libraries LibA, LibB) cut at byte %d as a writer killed after the in-place truncation leaves it; "
                     "the next run (C.mfront) exits 0, only logs %r and the registry now holds %s (%d of the %d cut points tried lose "
                     "the libraries silently)" % (k, log, after, len(lost), len(points)),
                     {"cut": k, "registry_before": s2, "libraries_after": after, "log": log,
                      "how": "mfront --interface=c A.mfront; ... B.mfront; head -c %d src/targets.lst > t; mv t src/targets.lst; mfront --interface=c C.mfront" % k}, True)
        return bool(lost)
    finally:
        pass


def main(c):
    drv = c.cxx("driver", ["driver.cxx"], SRCS, libs=LIBS, link_repo_libs=True)
    mdl = c.ocaml_extract("c47", ["C47Model.v"], EXTRACT, "model_driver.ml")
    c.trusted("props/C47/driver.cxx, props/C47/model_driver.ml (line protocol, Coq string <-> OCaml string), the Python generator and differ",
              "libraries of /repo/_build for everything but TargetsDescription.cxx, LibraryDescription.cxx, SpecificTargetDescription.cxx, "
              "CompiledTargetDescriptionBase.cxx (compiled from the working tree); the real CxxTokenizer turns bytes into tokens")
    ncases = c.pick(150, 1500)
    ntrunc = c.pick(2, 20)
    script, plan = [], []
    for i in range(ncases):
        a, b, d = gen_registry(c.rng), gen_registry(c.rng), gen_registry(c.rng)
        script += raw_script("A", a) + raw_script("B", b) + raw_script("C", d)
        cmds = ["NEWEMPTY D", "MERGE D A 1", "DUMP D", "MERGE D B 1", "DUMP D", "MERGE D B 1", "DUMP D", "TOKENS D", "READ E D", "DUMP E",
                "NEWEMPTY F", "MERGE F E 0", "MERGE F C 1", "DUMP F"]
        if i < ntrunc:
            cmds.append("TRUNC D %d" % (1 if i == 0 else 7))    # every byte of the first registry, every 5th of the others
        script += cmds
        plan.append((a, b, d, len(cmds)))
    # identity conflicts: the merge must raise in both
    conf = []
    for i in range(c.pick(20, 100)):
        a = gen_registry(c.rng, ["K"] + NAMES[:2], conflict_with=True)
        b = gen_registry(c.rng, ["K"] + NAMES[:2], conflict_with=True)
        script += raw_script("A", a) + raw_script("B", b) + ["NEWEMPTY D", "MERGE D A 1", "MERGE D B 1"]
        conf.append((a, b))
    text = "\n".join(script) + "\n"
    rc, out, err = c.run([drv, c.work], input=text, timeout=1200)
    if rc != 0:
        c.report("driver", "driver over the real TargetsDescription failed rc=%d: %s" % (rc, err[-400:]), {"stderr": err[-3000:]}, False)
        return
    tcname = out.split("\n", 1)[0].split(" ", 1)[1]
    rcm, mout, merr = c.run([mdl, tcname], input=text, timeout=1200)
    if rcm != 0:
        raise RuntimeError("model driver failed: " + merr[-500:])
    R = [b for b in parse_output(out) if not b[0].startswith("RAW")]
    Mo = [b for b in parse_output(mout) if not b[0].startswith("RAW")]
    assert len(R) == len(Mo), (len(R), len(Mo))
    pos = 0
    crashes = 0
    reported = set()

    def rep(kind, i, what, replay):
        if kind in reported:
            return
        reported.add(kind)     # one concrete registry per kind of failure
        c.report("%s:case%d" % (kind, i), what, replay, True)
    for i, (a, b, d, n) in enumerate(plan):
        blk = dict()
        seq = R[pos:pos + n]
        mseq = Mo[pos:pos + n]
        pos += n
        c.count(1, ("case", i), bool(a["libs"] or b["libs"]))
        if any(status(l) == "ERR" for (_, l) in seq) or any(status(l) == "ERR" for (_, l) in mseq):
            rs = [(cm, status(l)) for (cm, l) in seq if status(l)]
            ms = [(cm, status(l)) for (cm, l) in mseq if status(l)]
            rep("unexpected-error", i, "a merge / read of well-formed registries raised: code %s, model %s" % (rs, ms), {"A": a, "B": b, "C": d})
            continue
        dumps = [parse_dump(l) for (cm, l) in seq if cm.startswith("DUMP")]
        mdumps = [parse_dump(l) for (cm, l) in mseq if cm.startswith("DUMP")]
        dA, dAB, dABB, dE, dF = dumps
        # the property, stated on the real output
        for (src, res, nm) in ((a, dA, "empty + A"), (dA, dAB, "(empty + A) + B"), (b, dAB, "(empty + A) + B [B side]"), (dE, dF, "later run"), (d, dF, "later run [C side]")):
            w = covers(src, res)
            if w:
                rep("union", i, "merge %s: %s" % (nm, w), {"A": a, "B": b, "C": d, "result": res})
        if dABB != dAB:
            rep("idempotent", i, "merging B a second time changes the registry", {"A": a, "B": b, "once": dAB, "twice": dABB})
        if dE != dAB:
            diff = [k for k in ("libs", "headers", "targets") if dE[k] != dAB[k]]
            rep("roundtrip", i, "read(print(t)) differs from t in %s: printed/read %s, original %s" % (diff, {k: dE[k] for k in diff}, {k: dAB[k] for k in diff}),
                {"registry": dAB, "read_back": dE})
        # model = code
        for (rd, md, nm) in zip(dumps, mdumps, ("A", "AB", "ABB", "read", "later")):
            if rd["libs"] != md["libs"] or rd["headers"] != md["headers"] or rd["targets"] != md["targets"]:
                rep("correspondence-merge", i, "model and code disagree on the registry after step %s: code %s, model %s" % (nm, rd, md),
                    {"A": a, "B": b, "C": d, "code": rd, "model": md})
                break
        rt = norm_tokens([l for (cm, l) in seq if cm.startswith("TOKENS")][0], True)
        mt = norm_tokens([l for (cm, l) in mseq if cm.startswith("TOKENS")][0], False)
        if split_targets(rt) != split_targets(mt):
            j = next((k for k in range(min(len(rt), len(mt))) if rt[k] != mt[k]), min(len(rt), len(mt)))
            rep("correspondence-print", i, "operator<< and the model printer differ at token %d: code %s, model %s" % (j, rt[j:j + 4], mt[j:j + 4]),
                {"registry": dAB, "code_tokens": rt, "model_tokens": mt})
        for (cm, l) in seq:
            if cm.startswith("TRUNC"):
                _, n_, st = l[0].split()
                last_ok = st.endswith("O")
                ml = [x for (cm2, x) in mseq if cm2.startswith("TRUNC")][0][0].split()[2]
                crashes += st.count("C")
                c.count(len(st), ("trunc", i), True)
                # only what follows the last token (a newline) may be cut
                full = st.rstrip("O")
                if "O" in full or "L" in st or not last_ok or len(st) - len(full) > 2 or "O" in ml[:-1] or ml[-1] != "O":
                    k = next((k for k, ch in enumerate(st) if ch in "OL"), -1)
                    rep("truncation-accepted", i, "the printed registry cut after byte %d of %s is accepted by the reader (status string %s...; "
                        "model on token prefixes %s)" % (k, n_, st[:60], ml), {"registry": dAB, "status": st})
        if i % 40 == 0:
            c.sample({"case": i, "libraries_after_A_B": [l["name"] for l in dAB["libs"]], "tokens": len(rt)})
    for j, (a, b) in enumerate(conf):
        seq, mseq = R[pos:pos + 3], Mo[pos:pos + 3]
        pos += 3
        c.count(1, ("conflict", j), True)
        rs = [status(l) for (_, l) in seq]
        ms = [status(l) for (_, l) in mseq]
        if rs != ms:
            rep("correspondence-conflict", j, "library identity conflict: code answers %s, model %s" % (rs, ms), {"A": a, "B": b})
    if crashes:
        c.notes.append("reader CRASHED (signal) on %d truncated files: read<LibraryDescription>/read<TargetsDescription> loop on "
                       "'c->value' without testing c != end (not counted as a violation: the run does not succeed)" % crashes)
    # real mfront
    observed = mfront_part(c)
    c.coverage["rule"] = ("%d seeded random registry triples (0-3 libraries among 5 names, 8 vectors each with duplicates, empty strings, spaces, "
                          "quotes; headers; targets all/check/clean/doc): merge, merge again, print (token by token), read back, later run; "
                          "%d identity conflicts; byte-by-byte truncation of %d printed registries through the real reader; mfront runs A, B, B "
                          "then C after 7 cut points of src/targets.lst" % (ncases, len(conf), ntrunc))
    c.coverage["traces_validated_against_impl"] = ncases + len(conf)
    files = ["C47Model.v", "C47Proofs.v", "Properties_C47.v"]
    if observed:
        files.append("Properties_C47_pinned_refuted.v")
    res = c.coq(files, timeout=600)
    if not res.ok:
        if any(v[3] for v in c.violations):
            c.notes.append("proof obligations failed: %s; concrete failing inputs reported above" % [f[2] for f in res.failed])
        else:
            c.coq_failures(res, None)


guarded_main("C47", main)

"""C47 -- the build-target registry (src/targets.lst) survives histories and crashes.
Engine H: Coq theorems about a Gallina model of the registry (insert_if / merge as idempotent monotone union, token-level
printer and reader, runs and crash points under the two write policies).  Tie: (1) the real TargetsDescription.cxx /
LibraryDescription.cxx (compiled from REPO) are driven with random registries: merges, operator<< (token by token
through the real CxxTokenizer), read<TargetsDescription>, and compared with the extracted model; the printed text cut
after EVERY byte goes through the real reader; (2) real mfront runs in scratch directories: union over successive runs,
then src/targets.lst damaged as a killed writer would leave it, followed by one more run."""
import os, re, shutil, signal, subprocess, threading, time
from vlib import guarded_main, REPO, REPO_BUILD, Check, repo_lib_dirs

SRCS = ["mfront/src/TargetsDescription.cxx", "mfront/src/LibraryDescription.cxx", "mfront/src/SpecificTargetDescription.cxx",
        "mfront/src/CompiledTargetDescriptionBase.cxx"]
LIBS = ["-lTFELMFront", "-lMFrontLogStream", "-lTFELUtilities", "-lTFELConfig", "-lTFELException", "-lTFELSystem"]
EXTRACT = '''From C47 Require Import C47Model.
Require Import ExtrOcamlBasic.
Extraction "c47_model.ml" merge_registry print_registry read_registry empty_registry run crash_state wf_registry escape.
'''
VEC_POOL = ["a.cxx", "b.cxx", "src/c d.cxx", "-DX=1", "$(shell tfel-config --libs)", "", "a.cxx", "-L/opt/x y", 'say "hi"', "f_1", "g", "-lm"]
NAMES = ["MaterialLaw", "Behaviour", "M-1", "lib.x", "Umat"]
TNAMES = ["all", "check", "clean", "doc"]


def gen_registry(rng, names=None, conflict_with=None, full=False):
    """full: at least one library, every one of its 8 vectors (sources, cppflags, include_directories, ldflags,
    link_directories, link_libraries, epts, deps) has a non-empty string"""
    libs = []
    for n in rng.sample(names or NAMES, rng.randint(1 if full else 0, 3)):
        lib = {"type": rng.choice("MS"), "name": n, "prefix": rng.choice(["lib", "lib", ""]), "suffix": rng.choice(["so", "so", "dll"]),
               "install": rng.choice(["", "", "/opt/tfel", "/usr/local/lib x"]),
               "vecs": [[rng.choice(VEC_POOL) for _ in range(rng.choice([1, 2, 4] if full else [0, 0, 1, 2, 4]))] for _ in range(8)]}
        if full:
            for k, v in enumerate(lib["vecs"]):
                if not any(v):
                    v.append("x%d.cxx" % k)
        libs.append(lib)
    if conflict_with is None:
        # same name => same identity, otherwise the merge raises (tested separately)
        for l in libs:
            l["type"], l["prefix"], l["suffix"] = "S", "lib", "so"
    headers = [rng.choice(["a.hxx", "b.hxx", "inc/c.hxx", "a.hxx"]) for _ in range(rng.choice([0, 1, 3]))]
    tg = {}
    for n in rng.sample(TNAMES, rng.randint(0, 3)):
        tg[n] = [[rng.choice(VEC_POOL[:5] + VEC_POOL[6:]) for _ in range(rng.choice([0, 1, 2]))] for _ in range(4)]
    return {"libs": libs, "headers": headers, "targets": tg}


def raw_script(name, r):
    out = ["RAW %s %d %d %d" % (name, len(r["libs"]), len(r["headers"]), len(r["targets"]))]
    for l in r["libs"]:
        out += ["L " + l["type"], "S " + l["name"], "S " + l["prefix"], "S " + l["suffix"], "S " + l["install"]]
        for v in l["vecs"]:
            out += ["V %d" % len(v)] + ["S " + s for s in v]
    out += ["S " + h for h in r["headers"]]
    for n, vs in r["targets"].items():
        out.append("S " + n)
        for v in vs:
            out += ["V %d" % len(v)] + ["S " + s for s in v]
    return out


def parse_output(out):
    """list of (command line, payload lines)"""
    blocks, cur = [], None
    for l in out.split("\n"):
        if l.startswith("BEGIN "):
            cur = [l[6:], []]
        elif l == "END" and cur is not None:
            blocks.append(cur)
            cur = None
        elif cur is not None:
            cur[1].append(l)
    return blocks


def parse_dump(lines):
    it = iter(lines)
    h = next(it).split()
    assert h[0] == "REG", lines[:3]
    nl, nh, nt = int(h[1]), int(h[2]), int(h[3])

    def S():
        l = next(it)
        assert l.startswith("S"), l
        return l[2:]

    def V():
        n = int(next(it).split()[1])
        return [S() for _ in range(n)]
    libs = []
    for _ in range(nl):
        t = next(it).split()[1]
        libs.append({"type": t, "name": S(), "prefix": S(), "suffix": S(), "install": S(), "vecs": [V() for _ in range(8)]})
    headers = [S() for _ in range(nh)]
    tg = {}
    for _ in range(nt):
        n = S()
        tg[n] = [V() for _ in range(4)]
    return {"libs": libs, "headers": headers, "targets": tg}


def covers(a, r):
    """every library of a is in r under its name with every non-empty string of its vectors (the union statement)"""
    by = {l["name"]: l for l in r["libs"]}
    for l in a["libs"]:
        if l["name"] not in by:
            return "library %r is missing" % l["name"]
        for i, v in enumerate(l["vecs"]):
            for x in v:
                if x != "" and x not in by[l["name"]]["vecs"][i]:
                    return "library %r lost %r from vector %d" % (l["name"], x, i)
    for h in a["headers"]:
        if h not in r["headers"]:
            return "header %r is missing" % h
    return None


def norm_tokens(lines, real):
    """(kind, text): for a string token the text is the literal as it stands in the file (quotes and escapes included):
    the model prints what write(os, v, id) must produce, the real side is what the real tokenizer found"""
    return [(l[0], l[2:]) for l in lines[1:]]


MFRONT_SRC = """@Parser MaterialLaw;
@Law %(law)s;
@Material Mat;
@Library %(lib)s;
@Output y;
@Input x;
@Function { y = %(k)d * x; }
"""


def split_targets(toks):
    """(tokens before the first specific target, sorted list of target blocks, tokens after): std::map prints the targets by
    name, the model keeps them in order of arrival"""
    idx = [k for k, x in enumerate(toks) if x == ("y", "target")]
    if not idx:
        return toks, [], []
    blocks = []
    for a, b in zip(idx, idx[1:] + [len(toks) - 2]):
        blocks.append(tuple(toks[a:b]))
    return toks[:idx[0]], sorted(blocks), toks[len(toks) - 2:]


def status(lines):
    for l in lines:
        if l.startswith("ERR"):
            return "ERR"
        if l.startswith("OK"):
            return "OK"
    return ""


def lib_names(text):
    return set(re.findall(r'library\s*:\s*\{\s*name\s*:\s*"([^"]*)"', text))


def mfront_part(c):
    c.repo_build(["mfront"])
    c.log("mfront up to date")
    exe = os.path.join(REPO_BUILD, "mfront", "src", "mfront")
    sem = "/dev/shm/sem.mfront-%d" % os.getuid()
    saved = None   # mfront runs are isolated in a private /dev/shm by vlib.run: the shared semaphore is never touched
    try:
        wd = os.path.join(c.work, "runs")
        os.makedirs(wd, exist_ok=True)
        for law, lib, k in (("A", "LibA", 2), ("B", "LibB", 3), ("C", "LibC", 5)):
            with open(os.path.join(wd, law + ".mfront"), "w") as f:
                f.write(MFRONT_SRC % {"law": law, "lib": lib, "k": k})
        reg = os.path.join(wd, "src", "targets.lst")

        def run(law):
            rc, out, err = c.run([exe, "--interface=c", law + ".mfront"], cwd=wd, timeout=300)
            return rc, out + err
        rc, log = run("A")
        if rc != 0 or not os.path.exists(reg):
            c.report("mfront-run", "mfront --interface=c A.mfront failed (rc=%d): %s" % (rc, log[-300:]), {"log": log[-2000:]}, False)
            return
        n1 = lib_names(open(reg).read())
        rc, log = run("B")
        s2 = open(reg).read()
        n2 = lib_names(s2)
        rc, log = run("B")
        s2b = open(reg).read()
        c.count(3, ("mfront", "history"), True)
        if not (n1 == {"LibA"} and n2 == {"LibA", "LibB"}):
            c.report("history:A,B", "after runs over A.mfront then B.mfront the registry holds libraries %s (first run: %s), "
                     "expected the union {LibA, LibB}" % (sorted(n2), sorted(n1)), {"targets.lst": s2}, True)
        if s2b != s2:
            c.report("history:B,B", "running B.mfront a second time changes src/targets.lst (merge not idempotent)",
                     {"before": s2, "after": s2b}, True)
        # a writer killed while rewriting the file in place leaves a prefix of what it was writing
        ent = s2.find("};\nlibrary")
        points = sorted(set([0, 1, 9, s2.find('"LibA"') + 3, ent + 3 if ent > 0 else 5, len(s2) // 2, len(s2) - 3]))
        lost = []
        for k in points:
            with open(reg, "w") as f:
                f.write(s2[:k])
            rc, log = run("C")
            after = lib_names(open(reg).read()) if os.path.exists(reg) else set()
            c.count(1, ("mfront", "crash", k), True)
            if rc == 0 and not {"LibA", "LibB"} <= after:
                lost.append((k, sorted(after), log.strip()[-200:]))
        c.sample({"mfront_runs": "A, B, B, then C after truncation of src/targets.lst at bytes %s" % points, "lost_at": [k for k, _, _ in lost]})
        if lost:
            k, after, log = lost[0]
            c.report("registry-lost:truncated@%d" % k,
                     "src/targets.lst (libraries LibA, LibB) cut at byte %d as a writer killed after the in-place truncation leaves it; "
                     "the next run (C.mfront) exits 0, only logs %r and the registry now holds %s (%d of the %d cut points tried lose "
                     "the libraries silently)" % (k, log, after, len(lost), len(points)),
                     {"cut": k, "registry_before": s2, "libraries_after": after, "log": log,
                      "how": "mfront --interface=c A.mfront; ... B.mfront; head -c %d src/targets.lst > t; mv t src/targets.lst; mfront --interface=c C.mfront" % k}, True)
        c.log("sequential mfront runs done")
        concurrent_part(c, exe)
        return bool(lost)
    finally:
        pass


def read_protocol(c):
    """what the code says about the write protocol (MFront.cxx of the working tree): used to say which variant of the model
    describes it; none of these facts is a violation of C47 by itself (sequential histories and crashes)"""
    try:
        txt = open(os.path.join(REPO, "mfront", "src", "MFront.cxx")).read()
    except OSError:
        return {}

    def body(name):
        i = txt.find("void MFront::" + name)
        if i < 0:
            return ""
        j = txt.find("\n  }", i)
        return txt[i:j]
    w, a, e = body("writeTargetsDescription"), body("analyseTargetsFile"), body("exe()")
    proto = {"temporary_file_then_rename": "std::rename(" in w,
             "temporary_name_per_process": bool(re.search(r"getpid\s*\(\s*\)", w)),
             "write_under_lock": "MFrontLockGuard" in w,
             "read_under_lock": "MFrontLockGuard" in a,
             "damaged_registry_is_fatal": bool(re.search(r"catch\s*\([^)]*\)\s*\{[^}]*tfel::raise", a, re.S)),
             "one_critical_section_for_read_merge_write": "MFrontLockGuard" in e}
    c.notes.append("write protocol read from mfront/src/MFront.cxx: %s" % proto)
    return proto


HEAVY = ["Norton", "ImplicitNorton", "Plasticity", "Elasticity", "Chaboche", "Lorentz", "Burger", "Mazars", "DDIF2", "ImplicitOrthotropicCreep"]


def concurrent_part(c, exe):
    """two real mfront processes at once in one directory (each in its own mount namespace: they do NOT share the lock,
    which is the worst case for the temporary-file protocol): the registry must always be a complete one, that of one of
    the two runs (C47_two_writers_never_damaged / _no_mixture).  Then the lost update (observation, outside the property)."""
    wd0 = os.path.join(c.work, "conc")
    npairs = c.pick(6, 30)
    damaged, lost_updates = [], 0
    for k in range(npairs):
        wd = os.path.join(wd0, str(k))
        os.makedirs(wd, exist_ok=True)
        for law, lib, kk in (("A", "LibA", 2), ("B", "LibB", 3), ("C", "LibC", 5)):
            with open(os.path.join(wd, law + ".mfront"), "w") as f:
                f.write(MFRONT_SRC % {"law": law, "lib": lib, "k": kk})
        c.run([exe, "--interface=c", "C.mfront"], cwd=wd, timeout=300)
        res = {}

        def go(law):
            res[law] = c.run([exe, "--interface=c", law + ".mfront"], cwd=wd, timeout=300)
        th = [threading.Thread(target=go, args=(x,)) for x in "AB"]
        for t in th:
            t.start()
        for t in th:
            t.join()
        reg = os.path.join(wd, "src", "targets.lst")
        text = open(reg).read() if os.path.exists(reg) else ""
        names = lib_names(text)
        rc, out, err = c.run([c._drv, c.work], input="PARSEFILE X %s\nDUMP X\n" % reg, timeout=60)
        ok = "ERR" not in out and rc == 0
        c.count(1, ("concurrent", k), True)
        both_ok = res["A"][0] == 0 and res["B"][0] == 0
        if not ok or not ({"LibC"} <= names <= {"LibA", "LibB", "LibC"}) or (both_ok and not (names & {"LibA", "LibB"})):
            damaged.append((k, sorted(names), text, out[-300:]))
        elif both_ok and len(names) < 3:
            lost_updates += 1
        leftovers = [f for f in os.listdir(os.path.join(wd, "src")) if ".tmp" in f]
        if leftovers:
            c.notes.append("temporary registry file left behind after two concurrent runs: %s" % leftovers)
    if damaged:
        k, names, text, out = damaged[0]
        c.report("concurrent:damaged", "two mfront runs at once (A.mfront, B.mfront) over a registry holding LibC leave src/targets.lst "
                 "that is not the complete registry of one of them: libraries %s, reader says %r (%d of %d pairs)" % (names, out, len(damaged), npairs),
                 {"targets.lst": text, "how": "mfront --interface=c C.mfront; (mfront --interface=c A.mfront & mfront --interface=c B.mfront; wait)"}, True)
    c.log("concurrent pairs done")
    # the lost update, forced: B is slow between its read and its write (several behaviours), A runs entirely in between
    wd = os.path.join(wd0, "lost")
    os.makedirs(wd, exist_ok=True)
    with open(os.path.join(wd, "A.mfront"), "w") as f:
        f.write(MFRONT_SRC % {"law": "A", "lib": "LibA", "k": 2})
    heavy = [os.path.join(REPO, "mfront", "tests", "behaviours", h + ".mfront") for h in HEAVY]
    heavy = [h for h in heavy if os.path.exists(h)]
    # the same behaviours under several file names: B spends seconds between its read and its write
    hd = os.path.join(wd, "heavy")
    os.makedirs(hd, exist_ok=True)
    copies = []
    for r in range(2):
        for h in heavy:
            dst = os.path.join(hd, "%s_%d.mfront" % (os.path.basename(h)[:-7], r))
            shutil.copyfile(h, dst)
            copies.append(dst)
    heavy = copies
    seen = "not attempted"
    if len(heavy) >= 4:
        # same command line and environment as vlib.run gives to mfront (private /dev/shm); Popen because B must be held
        # (SIGSTOP) between its read of the registry and its write while A runs entirely
        cmd = [exe, "--interface=generic"] + heavy
        if Check.private_shm_ok():
            cmd = ["unshare", "-m", "sh", "-c", 'mount -t tmpfs tmpfs /dev/shm && exec "$@"', "sh"] + cmd
        env = dict(os.environ)
        env["LD_LIBRARY_PATH"] = ":".join(repo_lib_dirs()) + ":" + env.get("LD_LIBRARY_PATH", "")
        pb = subprocess.Popen(cmd, cwd=wd, env=env, stdout=subprocess.DEVNULL, stderr=subprocess.DEVNULL)
        try:
            # B reads the registry before it treats its first file: wait for the first file it generates
            t_end = time.time() + 60
            while time.time() < t_end and pb.poll() is None and not any(
                    fn.endswith((".cxx", ".hxx")) for _, _, fs in os.walk(wd) for fn in fs):
                time.sleep(0.005)
            held = pb.poll() is None
            if held:
                os.kill(pb.pid, signal.SIGSTOP)
            ra = c.run([exe, "--interface=c", "A.mfront"], cwd=wd, timeout=300)
            if held:
                os.kill(pb.pid, signal.SIGCONT)
            rb = pb.wait(timeout=600)
        finally:
            if pb.poll() is None:
                pb.kill()
        reg = os.path.join(wd, "src", "targets.lst")
        names = lib_names(open(reg).read()) if os.path.exists(reg) else set()
        if ra[0] == 0 and rb == 0 and held:
            seen = ("REPRODUCED: both runs exit 0, the registry holds %s, LibA of the run that finished first is lost" % sorted(names)
                    if "LibA" not in names else "not reproduced (registry holds %s)" % sorted(names))
        else:
            seen = "not decisive (rc A=%s, B=%s, B held=%s)" % (ra[0], rb, held)
    c.notes.append("concurrency (outside the property: histories are sequences of runs): %d pairs of simultaneous real mfront runs, registry always "
                   "complete; %d pair(s) ended with only one of the two new libraries (lost update: the lock is taken for the read and, separately, "
                   "for the write -- theorem C47_no_library_lost_under_concurrency_refuted); forced lost update with a slow run B: %s"
                   % (npairs, lost_updates, seen))
    c.sample({"concurrent_pairs": npairs, "damaged": len(damaged), "lost_updates_seen": lost_updates, "forced_lost_update": seen})


def main(c):
    drv = c.cxx("driver", ["driver.cxx"], SRCS, libs=LIBS, link_repo_libs=True)
    c._drv = drv
    c.log("driver built")
    mdl = c.ocaml_extract("c47", ["C47Model.v"], EXTRACT, "model_driver.ml")
    c.log("model extracted")
    # the Coq development is compiled while the drivers and mfront run (one more job, see AGENT_GUIDE: at most 4)
    coq_files = ["C47Model.v", "C47Proofs.v", "C47Reader.v", "C47Round.v", "C47Conc.v", "C47Strings.v", "Properties_C47.v"]
    coq_box = {}

    def coq_job():
        try:
            coq_box["res"] = c.coq(coq_files, timeout=900)
        except Exception as e:     # reported after the join
            coq_box["exc"] = e
    coq_thread = threading.Thread(target=coq_job)
    coq_thread.start()
    proto = read_protocol(c)
    c.trusted("props/C47/driver.cxx, props/C47/model_driver.ml (line protocol, Coq string <-> OCaml string), the Python generator and differ",
              "libraries of /repo/_build for everything but TargetsDescription.cxx, LibraryDescription.cxx, SpecificTargetDescription.cxx, "
              "CompiledTargetDescriptionBase.cxx (compiled from the working tree); the real CxxTokenizer turns bytes into tokens")
    ncases = c.pick(150, 1500)
    ntrunc = c.pick(2, 20)
    script, plan = [], []
    nfull = 0
    for i in range(ncases):
        full = i < 10 or i % 7 == 0      # libraries whose eight vectors are all non-empty (deps, link_libraries, ... included)
        nfull += full
        a, b, d = gen_registry(c.rng, full=full), gen_registry(c.rng, full=full), gen_registry(c.rng)
        script += raw_script("A", a) + raw_script("B", b) + raw_script("C", d)
        cmds = ["NEWEMPTY D", "MERGE D A 1", "DUMP D", "MERGE D B 1", "DUMP D", "MERGE D B 1", "DUMP D", "WF D", "TOKENS D", "READ E D", "DUMP E",
                "NEWEMPTY F", "MERGE F E 0", "MERGE F C 1", "DUMP F", "WF F"]
        if i < ntrunc:
            cmds.append("TRUNC D %d" % (1 if i == 0 else 7))    # every byte of the first registry, every 5th of the others
        script += cmds
        plan.append((a, b, d, len(cmds)))
    # identity conflicts: the merge must raise in both
    conf = []
    for i in range(c.pick(20, 100)):
        a = gen_registry(c.rng, ["K"] + NAMES[:2], conflict_with=True)
        b = gen_registry(c.rng, ["K"] + NAMES[:2], conflict_with=True)
        script += raw_script("A", a) + raw_script("B", b) + ["NEWEMPTY D", "MERGE D A 1", "MERGE D B 1"]
        conf.append((a, b))
    text = "\n".join(script) + "\n"
    rc, out, err = c.run([drv, c.work], input=text, timeout=1200)
    c.log("real registry code run")
    if rc != 0:
        c.report("driver", "driver over the real TargetsDescription failed rc=%d: %s" % (rc, err[-400:]), {"stderr": err[-3000:]}, False)
        return
    tcname = out.split("\n", 1)[0].split(" ", 1)[1]
    rcm, mout, merr = c.run([mdl, tcname], input=text, timeout=1200)
    if rcm != 0:
        raise RuntimeError("model driver failed: " + merr[-500:])
    R = [b for b in parse_output(out) if not b[0].startswith("RAW")]
    Mo = [b for b in parse_output(mout) if not b[0].startswith("RAW")]
    assert len(R) == len(Mo), (len(R), len(Mo))
    pos = 0
    crashes = 0
    reported = set()

    def rep(kind, i, what, replay):
        if kind in reported:
            return
        reported.add(kind)     # one concrete registry per kind of failure
        c.report("%s:case%d" % (kind, i), what, replay, True)
    for i, (a, b, d, n) in enumerate(plan):
        blk = dict()
        seq = R[pos:pos + n]
        mseq = Mo[pos:pos + n]
        pos += n
        c.count(1, ("case", i), bool(a["libs"] or b["libs"]))
        if any(status(l) == "ERR" for (_, l) in seq) or any(status(l) == "ERR" for (_, l) in mseq):
            rs = [(cm, status(l)) for (cm, l) in seq if status(l)]
            ms = [(cm, status(l)) for (cm, l) in mseq if status(l)]
            msg = next((l for (_, ls) in seq for l in ls if l.startswith("ERR")), "")
            rep("unexpected-error", i, "a merge / read of well-formed registries raised: code %s, model %s; the code says: %s" % (rs, ms, msg[:300]),
                {"A": a, "B": b, "C": d, "message": msg})
            continue
        dumps = [parse_dump(l) for (cm, l) in seq if cm.startswith("DUMP")]
        mdumps = [parse_dump(l) for (cm, l) in mseq if cm.startswith("DUMP")]
        dA, dAB, dABB, dE, dF = dumps
        # the property, stated on the real output
        for (src, res, nm) in ((a, dA, "empty + A"), (dA, dAB, "(empty + A) + B"), (b, dAB, "(empty + A) + B [B side]"), (dE, dF, "later run"), (d, dF, "later run [C side]")):
            w = covers(src, res)
            if w:
                rep("union", i, "merge %s: %s" % (nm, w), {"A": a, "B": b, "C": d, "result": res})
        if dABB != dAB:
            rep("idempotent", i, "merging B a second time changes the registry", {"A": a, "B": b, "once": dAB, "twice": dABB})
        if dE != dAB:
            diff = [k for k in ("libs", "headers", "targets") if dE[k] != dAB[k]]
            rep("roundtrip", i, "read(print(t)) differs from t in %s: printed/read %s, original %s" % (diff, {k: dE[k] for k in diff}, {k: dAB[k] for k in diff}),
                {"registry": dAB, "read_back": dE})
        # model = code
        for (rd, md, nm) in zip(dumps, mdumps, ("A", "AB", "ABB", "read", "later")):
            if rd["libs"] != md["libs"] or rd["headers"] != md["headers"] or rd["targets"] != md["targets"]:
                rep("correspondence-merge", i, "model and code disagree on the registry after step %s: code %s, model %s" % (nm, rd, md),
                    {"A": a, "B": b, "C": d, "code": rd, "model": md})
                break
        for (cm, l) in mseq:
            if cm.startswith("WF") and l[0] != "WF 1":
                rep("wellformed", i, "a registry built by mergeTargetsDescription from the empty one is outside the class of the round-trip theorem "
                    "(wf_registry = false in the model) after %s" % cm, {"A": a, "B": b, "C": d})
        rt = norm_tokens([l for (cm, l) in seq if cm.startswith("TOKENS")][0], True)
        mt = norm_tokens([l for (cm, l) in mseq if cm.startswith("TOKENS")][0], False)
        if split_targets(rt) != split_targets(mt):
            j = next((k for k in range(min(len(rt), len(mt))) if rt[k] != mt[k]), min(len(rt), len(mt)))
            rep("correspondence-print", i, "operator<< and the model printer differ at token %d: code %s, model %s" % (j, rt[j:j + 4], mt[j:j + 4]),
                {"registry": dAB, "code_tokens": rt, "model_tokens": mt})
        for (cm, l) in seq:
            if cm.startswith("TRUNC"):
                _, n_, st = l[0].split()
                last_ok = st.endswith("O")
                ml = [x for (cm2, x) in mseq if cm2.startswith("TRUNC")][0][0].split()[2]
                crashes += st.count("C")
                c.count(len(st), ("trunc", i), True)
                # only what follows the last token (a newline) may be cut
                full = st.rstrip("O")
                if "O" in full or "L" in st or not last_ok or len(st) - len(full) > 2 or "O" in ml[:-1] or ml[-1] != "O":
                    k = next((k for k, ch in enumerate(st) if ch in "OL"), -1)
                    rep("truncation-accepted", i, "the printed registry cut after byte %d of %s is accepted by the reader (status string %s...; "
                        "model on token prefixes %s)" % (k, n_, st[:60], ml), {"registry": dAB, "status": st})
        if i % 40 == 0:
            c.sample({"case": i, "libraries_after_A_B": [l["name"] for l in dAB["libs"]], "tokens": len(rt)})
    for j, (a, b) in enumerate(conf):
        seq, mseq = R[pos:pos + 3], Mo[pos:pos + 3]
        pos += 3
        c.count(1, ("conflict", j), True)
        rs = [status(l) for (_, l) in seq]
        ms = [status(l) for (_, l) in mseq]
        if rs != ms:
            rep("correspondence-conflict", j, "library identity conflict: code answers %s, model %s" % (rs, ms), {"A": a, "B": b})
    if crashes:
        c.notes.append("reader CRASHED (signal) on %d truncated files: read<LibraryDescription>/read<TargetsDescription> loop on "
                       "'c->value' without testing c != end (not counted as a violation: the run does not succeed)" % crashes)
    c.log("compared")
    # real mfront
    observed = mfront_part(c)
    c.log("mfront runs done")
    c.coverage["rule"] = ("%d seeded random registry triples (0-3 libraries among 5 names, 8 vectors each with duplicates, empty strings, spaces, "
                          "quotes; headers; targets all/check/clean/doc): merge, merge again, print (token by token), read back, later run; "
                          "%d identity conflicts; byte-by-byte truncation of %d printed registries through the real reader; mfront runs A, B, B "
                          "then C after 7 cut points of src/targets.lst; %d of the triples have libraries whose eight vectors are all non-empty; "
                          "pairs of simultaneous real mfront runs (see samples)" % (ncases, len(conf), ntrunc, nfull))
    c.coverage["traces_validated_against_impl"] = ncases + len(conf)
    coq_thread.join()
    c.log("coq done")
    if "exc" in coq_box:
        raise coq_box["exc"]
    res = coq_box["res"]
    if observed and res.ok:
        # the pinned protocol is back: the positive crash theorems do not describe this code, the refutation does
        res2 = c.coq(["Properties_C47_pinned_refuted.v"], timeout=600)
        res.ok = res.ok and res2.ok
        res.failed += res2.failed
    if not res.ok:
        if any(v[3] for v in c.violations):
            c.notes.append("proof obligations failed: %s; concrete failing inputs reported above" % [f[2] for f in res.failed])
        else:
            c.coq_failures(res, None)


guarded_main("C47", main)

(* C19 -- used while the real code keeps the old coefficients in the right-hand side of a second
   buildInterpolation (known finding rebuild:stale-rhs).  "The system solved by buildInterpolation only depends on
   the points and values" is FALSE for the code as written: witness x = f = {0,1,2}, second call on the same object. *)
From Coq Require Import List QArith.
From C19 Require Import C19Spec C19Model C19Proofs.
Import ListNotations.
Local Open Scope Q_scope.

Theorem C19_rebuild_same_system_refuted :
  exists prev fs, rhs_code Q Q 0 (default1D 0) prev fs <> krhs Q Q 0 (default1D 0) fs.
Proof. exists [0; 0; 0; 0; 1], [0; 1; 2]. exact (proj1 rebuild_witness). Qed.
Print Assumptions C19_rebuild_same_system_refuted.

(* ... and the interpolant changes: first build of the data (0,0),(1,1),(2,2) gives the straight line (value 1/2 at
   1/2), the second build of the same object gives 1/8 at 1/2 (both runs solve their systems exactly and still
   reproduce the training values, as C19_interpolation says) *)
Theorem C19_rebuild_same_interpolant_refuted :
  exists xs fs p, snd (run_k1 true 0 [length xs; length xs] xs fs [p]) <> snd (run_k1 true 0 [length xs] xs fs [p]).
Proof.
  exists [0; 1; 2], [0; 1; 2], (1 # 2). simpl length.
  rewrite (proj1 (proj2 rebuild_witness)), (proj2 (proj2 rebuild_witness)). discriminate.
Qed.
Print Assumptions C19_rebuild_same_interpolant_refuted.

(* C19 -- proofs.  Generic part: any commutative ring up to an equivalence (Coq's ring_theory), any type of points. *)
From Coq Require Import List Arith Lia Ring Setoid Morphisms Bool.
From C19 Require Import C19Spec C19Model.
Import ListNotations.

Section GenericProofs.
  Variables T X : Type.
  Variables (rO rI : T) (radd rmul rsub : T -> T -> T) (ropp : T -> T) (req : T -> T -> Prop).
  Hypothesis Rsth : Equivalence req.
  Hypothesis Reqe : ring_eq_ext radd rmul ropp req.
  Hypothesis Rth : ring_theory rO rI radd rmul rsub ropp req.
  Add Ring Tring : Rth (setoid Rsth Reqe).
  Local Instance radd_proper : Proper (req ==> req ==> req) radd := Radd_ext Reqe.
  Local Instance rmul_proper : Proper (req ==> req ==> req) rmul := Rmul_ext Reqe.

  Variable sub : X -> X -> X.
  Variable km : kmodel T X.

  Notation sdot := (sdot T rO radd rmul).
  Notation solves := (solves T rO radd rmul req).
  Notation keval := (keval T X rO radd rmul sub km).
  Notation kmatrix := (kmatrix T X rO sub km).
  Notation kterms := (kterms T X sub km).
  Notation krow := (krow T X sub km).

  (* the left-to-right accumulation of the code is the structural sum *)
  Lemma fold_pairs : forall (l : list (T * T)) acc,
    req (fold_left (fun r p => radd r (rmul (fst p) (snd p))) l acc)
        (radd acc (fold_right (fun p s => radd (rmul (fst p) (snd p)) s) rO l)).
  Proof.
    induction l as [|p l IH]; intros acc; simpl.
    - ring.
    - rewrite IH. ring.
  Qed.

  Lemma sdot_comm : forall u v, req (sdot u v) (sdot v u).
  Proof.
    unfold C19Spec.sdot. induction u as [|x u IH]; intros [|y v]; simpl; try reflexivity.
    rewrite (IH v). ring.
  Qed.

  Lemma sdot_ext : forall u u', Forall2 req u u' -> forall a, req (sdot u a) (sdot u' a).
  Proof.
    unfold C19Spec.sdot. induction 1 as [|x x' u u' Hx Hu IH]; intros [|y a]; simpl; try reflexivity.
    rewrite (IH a), Hx. reflexivity.
  Qed.

  Lemma dot_sdot : forall row a, req (dot T rO radd rmul row a) (sdot row a).
  Proof. intros. unfold dot, C19Spec.sdot. rewrite fold_pairs. ring. Qed.

  Lemma keval_sdot : forall xs a xv, req (keval xs a xv) (sdot (kterms xs xv) a).
  Proof. intros. unfold C19Model.keval. rewrite fold_pairs. fold (sdot a (kterms xs xv)). rewrite sdot_comm. ring. Qed.

  Lemma Forall2_nth_error : forall (A B : Type) (P : A -> B -> Prop) l1 l2, Forall2 P l1 l2 ->
    forall i a b, nth_error l1 i = Some a -> nth_error l2 i = Some b -> P a b.
  Proof.
    induction 1; intros [|i] a b Ha Hb; simpl in *; try discriminate.
    - injection Ha as <-. injection Hb as <-. assumption.
    - eauto.
  Qed.

  Lemma Forall2_refl_map : forall (A : Type) (f : A -> T) l, Forall2 req (map f l) (map f l).
  Proof. induction l; simpl; constructor; [reflexivity | assumption]. Qed.

  Lemma indexed_nth : forall (xs : list X) s k xk, nth_error xs k = Some xk ->
    nth_error (combine (seq s (length xs)) xs) k = Some ((s + k)%nat, xk).
  Proof.
    induction xs as [|x xs IH]; intros s [|k] xk H; simpl in *; try discriminate.
    - injection H as <-. rewrite Nat.add_0_r. reflexivity.
    - rewrite (IH (S s) k xk H). f_equal. f_equal. lia.
  Qed.

  (* hypotheses of the theorem: covariance even and null at the origin, no nugget *)
  Hypothesis Heven : cov_even T X req sub (cov km).
  Hypothesis Hnull : cov_null T X rO req sub (cov km).
  Hypothesis Hnug : forall i x, req (nugget km i x) rO.

  (* row i of the covariance block is, entry by entry, the list of covariances used by operator() at x_i *)
  Lemma entries_terms : forall i xi (xs : list X) s,
    (forall k xk, nth_error xs k = Some xk -> (s + k)%nat = i -> xk = xi) ->
    Forall2 req (map (fun jxj => kentry T X sub km i xi (fst jxj) (snd jxj)) (combine (seq s (length xs)) xs))
                (map (fun xj => cov km (sub xi xj)) xs).
  Proof.
    intros i xi. induction xs as [|x xs IH]; intros s H; simpl; constructor.
    - unfold kentry. destruct (s <? i) eqn:E1; [reflexivity|].
      destruct (i <? s) eqn:E2; [apply Heven|].
      apply Nat.ltb_ge in E1. apply Nat.ltb_ge in E2.
      assert (x = xi) as -> by (apply (H 0%nat); [reflexivity | lia]).
      rewrite Hnug, Hnull. reflexivity.
    - apply IH. intros k xk Hk Hs. apply (H (S k)); [exact Hk | lia].
  Qed.

  Lemma krow_terms : forall xs i xi, nth_error xs i = Some xi -> Forall2 req (krow xs (i, xi)) (kterms xs xi).
  Proof.
    intros xs i xi H. unfold C19Model.krow, C19Model.kterms, indexed. simpl.
    apply Forall2_app; [|apply Forall2_refl_map].
    apply entries_terms. intros k xk Hk Hs. simpl in Hs. subst k. congruence.
  Qed.

  Lemma kmatrix_row : forall xs i xi, nth_error xs i = Some xi -> nth_error (kmatrix xs) i = Some (krow xs (i, xi)).
  Proof.
    intros xs i xi H. unfold C19Model.kmatrix.
    assert (Hi : nth_error (indexed X xs) i = Some (i, xi)) by (apply (indexed_nth xs 0 i xi H)).
    rewrite nth_error_app1.
    - apply map_nth_error. exact Hi.
    - rewrite map_length. apply nth_error_Some. rewrite Hi. discriminate.
  Qed.

  (* MAIN: whatever the last nb entries of the right-hand side are, a true solution of the assembled system gives an
     interpolant that takes the training value at every training point *)
  Lemma interpolation : forall xs fs tail a,
    solves (kmatrix xs) (fs ++ tail) a -> interpolates T X req (keval xs a) xs fs.
  Proof.
    intros xs fs tail a Hs i xi fi Hx Hf.
    rewrite keval_sdot.
    rewrite <- (sdot_ext _ _ (krow_terms xs i xi Hx) a).
    refine (Forall2_nth_error _ _ _ _ _ Hs i _ _ (kmatrix_row xs i xi Hx) _).
    rewrite nth_error_app1; [exact Hf|]. apply nth_error_Some. rewrite Hf. discriminate.
  Qed.

  (* normalisation wrappers: points stored through nrm and evaluation point sent through the SAME nrm *)
  Lemma wrapper_interpolation : forall (nrm : X -> X) xs fs tail a,
    solves (wmatrix T X rO sub km nrm xs) (fs ++ tail) a ->
    interpolates T X req (weval T X rO radd rmul sub km nrm nrm xs a) xs fs.
  Proof.
    intros nrm xs fs tail a Hs i xi fi Hx Hf. unfold weval.
    apply (interpolation (map nrm xs) fs tail a Hs i (nrm xi) fi); [apply map_nth_error; exact Hx | exact Hf].
  Qed.
End GenericProofs.

(* product covariance of FactorizedKriging: even if both factors are, null at the origin if the first factor is *)
Section Factorized.
  Variables T X1 X2 : Type.
  Variables (rO rI : T) (radd rmul rsub : T -> T -> T) (ropp : T -> T) (req : T -> T -> Prop).
  Hypothesis Rsth : Equivalence req.
  Hypothesis Reqe : ring_eq_ext radd rmul ropp req.
  Hypothesis Rth : ring_theory rO rI radd rmul rsub ropp req.
  Add Ring Tring2 : Rth (setoid Rsth Reqe).
  Local Instance rmul_proper2 : Proper (req ==> req ==> req) rmul := Rmul_ext Reqe.
  Variables (s1 : X1 -> X1 -> X1) (s2 : X2 -> X2 -> X2) (m1 : kmodel T X1) (m2 : kmodel T X2).

  Lemma fact_even : cov_even T X1 req s1 (cov m1) -> cov_even T X2 req s2 (cov m2) ->
    cov_even T (X1 * X2) req (sub2 s1 s2) (cov (fact_model rO rmul m1 m2)).
  Proof. intros H1 H2 a b. simpl. rewrite (H1 (fst a) (fst b)), (H2 (snd a) (snd b)). reflexivity. Qed.
  Lemma fact_null : cov_null T X1 rO req s1 (cov m1) ->
    cov_null T (X1 * X2) rO req (sub2 s1 s2) (cov (fact_model rO rmul m1 m2)).
  Proof. intros H1 a. simpl. rewrite (H1 (fst a)). ring. Qed.
  Lemma fact_nugget : forall i x, req (nugget (fact_model rO rmul m1 m2) i x) rO.
  Proof. intros. simpl. reflexivity. Qed.
End Factorized.

(* ------------------------------------------------------------------------------------------------------- *)
(* exact rationals, with the operations used by the executed model (qadd, qsub reduce to lowest terms) *)
From Coq Require Import QArith Qabs Qring.
Local Open Scope Q_scope.

Lemma qadd_eq a b : qadd a b == a + b. Proof. unfold qadd. apply Qred_correct. Qed.
Lemma qsub_eq a b : qsub a b == a - b. Proof. unfold qsub. apply Qred_correct. Qed.
#[global] Instance qadd_comp : Proper (Qeq ==> Qeq ==> Qeq) qadd.
Proof. intros a a' Ha b b' Hb. rewrite !qadd_eq, Ha, Hb. reflexivity. Qed.

Lemma Qreqe : ring_eq_ext qadd Qmult Qopp Qeq.
Proof. constructor; [exact qadd_comp | exact Qmult_comp | exact Qopp_comp]. Qed.
Lemma Qrth : ring_theory 0 1 qadd Qmult Qminus Qopp Qeq.
Proof.
  constructor; intros; rewrite ?qadd_eq; ring.
Qed.

Lemma cube_abs_even : forall a b : Q, Qabs ((a - b) * (a - b) * (a - b)) == Qabs ((b - a) * (b - a) * (b - a)).
Proof.
  intros. setoid_replace ((a - b) * (a - b) * (a - b)) with (- ((b - a) * (b - a) * (b - a))) by ring.
  apply Qabs_opp.
Qed.
Lemma default1D_even nug : cov_even Q Q Qeq qsub (cov (default1D nug)).
Proof. intros a b. cbv [cov default1D]. rewrite !qsub_eq. apply cube_abs_even. Qed.
Lemma default1D_null nug : cov_null Q Q 0 Qeq qsub (cov (default1D nug)).
Proof. intros a. cbv [cov default1D]. rewrite qsub_eq. setoid_replace ((a - a) * (a - a) * (a - a)) with 0 by ring. reflexivity. Qed.
Lemma pwl1D_even nug : cov_even Q Q Qeq qsub (cov (pwl1D nug)).
Proof. intros a b. cbv [cov pwl1D]. rewrite !qsub_eq. setoid_replace (a - b) with (- (b - a)) by ring. apply Qabs_opp. Qed.
Lemma pwl1D_null nug : cov_null Q Q 0 Qeq qsub (cov (pwl1D nug)).
Proof. intros a. cbv [cov pwl1D]. rewrite qsub_eq. setoid_replace (a - a) with 0 by ring. reflexivity. Qed.

(* KrigingUtilities::normalize sends the smallest abscissa to 0 and the largest to 1 *)
Lemma normalize_range : forall lo hi : Q, ~ hi - lo == 0 ->
  (1 / (hi - lo)) * lo + (- lo / (hi - lo)) == 0 /\ (1 / (hi - lo)) * hi + (- lo / (hi - lo)) == 1.
Proof. intros lo hi H. split; field; exact H. Qed.

(* ------------------------------------------------------------------------------------------------------- *)
(* reals *)
From Coq Require Import Reals.
From C19 Require Import C19ModelR.
Local Open Scope R_scope.

Lemma Rreqe : ring_eq_ext Rplus Rmult Ropp (@eq R).
Proof. exact (Eq_ext Rplus Rmult Ropp). Qed.

Lemma default1D_R_even : cov_even R R eq Rminus (cov default1D_R).
Proof.
  intros a b. cbv [cov default1D_R].
  replace ((a - b) * (a - b) * (a - b)) with (- ((b - a) * (b - a) * (b - a))) by ring. apply Rabs_Ropp.
Qed.
Lemma default1D_R_null : cov_null R R 0 eq Rminus (cov default1D_R).
Proof. intros a. cbv [cov default1D_R]. replace ((a - a) * (a - a) * (a - a)) with 0 by ring. apply Rabs_R0. Qed.

Lemma default2D_R_even t : cov_even R R2 eq subR2 (cov (default2D_R t)).
Proof.
  intros a b. cbv [cov default2D_R subR2 fst snd]. destruct a as [a1 a2], b as [b1 b2].
  replace ((b1 - a1) * (b1 - a1) + (b2 - a2) * (b2 - a2)) with ((a1 - b1) * (a1 - b1) + (a2 - b2) * (a2 - b2)) by ring.
  reflexivity.
Qed.
Lemma default2D_R_null t : cov_null R R2 0 eq subR2 (cov (default2D_R t)).
Proof.
  intros [a1 a2]. cbv [cov default2D_R subR2 fst snd].
  replace ((a1 - a1) * (a1 - a1) + (a2 - a2) * (a2 - a2)) with 0 by ring.
  destruct (Rlt_dec 0 t); [reflexivity | ring].
Qed.

Lemma default3D_R_even : cov_even R R3 eq subR3 (cov default3D_R).
Proof.
  intros [[a1 a2] a3] [[b1 b2] b3]. cbv [cov default3D_R subR3 fst snd]. f_equal. ring.
Qed.
Lemma default3D_R_null : cov_null R R3 0 eq subR3 (cov default3D_R).
Proof.
  intros [[a1 a2] a3]. cbv [cov default3D_R subR3 fst snd].
  replace ((a1 - a1) * (a1 - a1) + (a2 - a2) * (a2 - a2) + (a3 - a3) * (a3 - a3)) with 0 by ring. apply sqrt_0.
Qed.

(* ------------------------------------------------------------------------------------------------------- *)
(* statements in final form *)
Lemma skipn_repeat : forall (A : Type) (z : A) n m, skipn n (repeat z (n + m)) = repeat z m.
Proof. induction n; intros; simpl; auto. Qed.
Lemma rhs_new_object : forall (T X : Type) (rO : T) (km : kmodel T X) fs, rhs_code T X rO km [] fs = krhs T X rO km fs.
Proof.
  intros. unfold rhs_code, krhs, resize. rewrite firstn_nil. simpl. rewrite Nat.sub_0_r, skipn_repeat. reflexivity.
Qed.

Local Open Scope Q_scope.
Definition Qsolves := solves Q 0 qadd Qmult Qeq.
Lemma k1_rational : forall xs fs tail a,
  Qsolves (kmatrix Q Q 0 qsub (default1D 0) xs) (fs ++ tail) a ->
  interpolates Q Q Qeq (keval Q Q 0 qadd Qmult qsub (default1D 0) xs a) xs fs.
Proof.
  exact (interpolation Q Q 0 1 qadd Qmult Qminus Qopp Qeq Q_Setoid Qreqe Qrth qsub (default1D 0)
           (default1D_even 0) (default1D_null 0) (fun _ _ => Qeq_refl 0)).
Qed.
Lemma w1_rational : forall nrm xs fs tail a,
  Qsolves (wmatrix Q Q 0 qsub (default1D 0) nrm xs) (fs ++ tail) a ->
  interpolates Q Q Qeq (weval Q Q 0 qadd Qmult qsub (default1D 0) nrm nrm xs a) xs fs.
Proof.
  exact (wrapper_interpolation Q Q 0 1 qadd Qmult Qminus Qopp Qeq Q_Setoid Qreqe Qrth qsub (default1D 0)
           (default1D_even 0) (default1D_null 0) (fun _ _ => Qeq_refl 0)).
Qed.
Lemma adapt_default1D_even : cov_even Q Q Qeq qsub (cov (adapt (default1D 0))).
Proof. exact (default1D_even 0). Qed.
Lemma f11_rational : forall nrm xs fs tail a,
  Qsolves (wmatrix Q (Q * Q) 0 qsub2 fact1D1D nrm xs) (fs ++ tail) a ->
  interpolates Q (Q * Q) Qeq (weval Q (Q * Q) 0 qadd Qmult qsub2 fact1D1D nrm nrm xs a) xs fs.
Proof.
  exact (wrapper_interpolation Q (Q * Q) 0 1 qadd Qmult Qminus Qopp Qeq Q_Setoid Qreqe Qrth qsub2 fact1D1D
           (fact_even Q Q Q 0 qadd Qmult Qopp Qeq Q_Setoid Qreqe qsub qsub (pwl1D 0) (adapt (default1D 0))
                      (pwl1D_even 0) adapt_default1D_even)
           (fact_null Q Q Q 0 1 qadd Qmult Qminus Qopp Qeq Q_Setoid Qreqe Qrth qsub qsub (pwl1D 0) (adapt (default1D 0))
                      (pwl1D_null 0))
           (fact_nugget Q Q Q 0 Qmult Qeq Q_Setoid (pwl1D 0) (adapt (default1D 0)))).
Qed.

Local Open Scope R_scope.
Definition Rsolves := solves R 0 Rplus Rmult eq.
Lemma k1_real : forall a b xs fs tail coef,
  Rsolves (wmatrix R R 0 Rminus default1D_R (nrm1 a b) xs) (fs ++ tail) coef ->
  interpolates R R eq (weval R R 0 Rplus Rmult Rminus default1D_R (nrm1 a b) (nrm1 a b) xs coef) xs fs.
Proof.
  intros a b.
  exact (wrapper_interpolation R R 0 1 Rplus Rmult Rminus Ropp eq (Eqsth R) Rreqe RTheory Rminus default1D_R
           default1D_R_even default1D_R_null (fun _ _ => eq_refl) (nrm1 a b)).
Qed.
Lemma k2_real : forall t a1 b1 a2 b2 xs fs tail coef,
  Rsolves (wmatrix R R2 0 subR2 (default2D_R t) (nrm2 a1 b1 a2 b2) xs) (fs ++ tail) coef ->
  interpolates R R2 eq (weval R R2 0 Rplus Rmult subR2 (default2D_R t) (nrm2 a1 b1 a2 b2) (nrm2 a1 b1 a2 b2) xs coef) xs fs.
Proof.
  intros t a1 b1 a2 b2.
  exact (wrapper_interpolation R R2 0 1 Rplus Rmult Rminus Ropp eq (Eqsth R) Rreqe RTheory subR2 (default2D_R t)
           (default2D_R_even t) (default2D_R_null t) (fun _ _ => eq_refl) (nrm2 a1 b1 a2 b2)).
Qed.
Lemma k3_real : forall a1 b1 a2 b2 a3 b3 xs fs tail coef,
  Rsolves (wmatrix R R3 0 subR3 default3D_R (nrm3 a1 b1 a2 b2 a3 b3) xs) (fs ++ tail) coef ->
  interpolates R R3 eq (weval R R3 0 Rplus Rmult subR3 default3D_R (nrm3 a1 b1 a2 b2 a3 b3) (nrm3 a1 b1 a2 b2 a3 b3) xs coef) xs fs.
Proof.
  intros a1 b1 a2 b2 a3 b3.
  exact (wrapper_interpolation R R3 0 1 Rplus Rmult Rminus Ropp eq (Eqsth R) Rreqe RTheory subR3 default3D_R
           default3D_R_even default3D_R_null (fun _ _ => eq_refl) (nrm3 a1 b1 a2 b2 a3 b3)).
Qed.

(* second call of buildInterpolation on the same object, as coded (resize keeps the old coefficients): exact runs *)
Local Open Scope Q_scope.
Lemma rebuild_witness :
  rhs_code Q Q 0 (default1D 0) [0; 0; 0; 0; 1] [0; 1; 2] <> krhs Q Q 0 (default1D 0) [0; 1; 2] /\
  run_k1 true 0 [3%nat] [0; 1; 2] [0; 1; 2] [1 # 2] = (Built, true, true, [0; 0; 0; 0; 1], [1 # 2]) /\
  run_k1 true 0 [3%nat; 3%nat] [0; 1; 2] [0; 1; 2] [1 # 2] = (Built, true, true, [-1 # 2; 0; 1 # 2; -4; 5], [1 # 8]).
Proof. split; [vm_compute; discriminate | split; vm_compute; reflexivity]. Qed.
(* model of the repaired code (right-hand side rebuilt from scratch): a successful build does not depend on the past *)
Lemma build_fresh_independent : forall (X : Type) (sub : X -> X -> X) (km : kmodel Q X) prev xs fs,
  fst (fst (build X sub km false prev xs fs)) = Built -> build X sub km false prev xs fs = build X sub km false [] xs fs.
Proof.
  intros X sub km prev xs fs. unfold build.
  destruct (length xs <=? length (drifts km))%nat; simpl; [discriminate|].
  destruct (lu_solve _ _); simpl; [reflexivity | discriminate].
Qed.

(* the offset used at evaluation must be the one used at storage: with another offset (the seeded defect of
   Kriging3D::operator(), b2 instead of b3) a true solution no longer interpolates.  Exact witness in 1D. *)
Lemma offsets_must_agree :
  exists a b b' xs fs coef,
    Qsolves (wmatrix Q Q 0 qsub (default1D 0) (affine a b) xs) (krhs Q Q 0 (default1D 0) fs) coef /\
    ~ interpolates Q Q Qeq (weval Q Q 0 qadd Qmult qsub (default1D 0) (affine a b) (affine a b') xs coef) xs fs.
Proof.
  exists (1 # 2), 0, 1, [0; 1; 2], [0; 1; 2], [0; 0; 0; 0; 2]. split.
  - unfold Qsolves, solves. repeat constructor; vm_compute; reflexivity.
  - intro H. specialize (H 0%nat 0 0 eq_refl eq_refl). vm_compute in H. discriminate.
Qed.

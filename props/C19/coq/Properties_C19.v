(* C19 -- kriging interpolants reproduce their training data: statements (proofs in C19Proofs.v).
   Model: C19Model.v (generic, rationals), C19ModelR.v (default models over the reals).  "solves m rhs a" is the
   hypothesis "the linear solve returned a true solution" (the solver itself is property C07). *)
From Coq Require Import List QArith Reals Ring_theory RelationClasses.
From C19 Require Import C19Spec C19Model C19ModelR C19Proofs.
Import ListNotations.

(* any commutative ring of scalars (up to an equivalence), any type of points, any covariance that is even and null
   at the origin, any list of drift functions, no nugget, any number of points, ANY last nb entries of the right-hand
   side: a true solution of the system assembled by buildInterpolation gives an interpolant (operator()) that takes
   the training value at every training point *)
Theorem C19_interpolation : forall (T X : Type) (rO rI : T) (radd rmul rsub : T -> T -> T) (ropp : T -> T) (req : T -> T -> Prop),
  Equivalence req -> ring_eq_ext radd rmul ropp req -> ring_theory rO rI radd rmul rsub ropp req ->
  forall (sub : X -> X -> X) (km : kmodel T X),
  cov_even T X req sub (cov km) -> cov_null T X rO req sub (cov km) -> (forall i x, req (nugget km i x) rO) ->
  forall (xs : list X) (fs tail a : list T),
  solves T rO radd rmul req (kmatrix T X rO sub km xs) (fs ++ tail) a ->
  interpolates T X req (keval T X rO radd rmul sub km xs a) xs fs.
Proof. exact interpolation. Qed.
Print Assumptions C19_interpolation.

(* normalisation wrappers: points stored through nrm, evaluation point sent through the same nrm (whatever nrm is) *)
Theorem C19_wrapper_interpolation : forall (T X : Type) (rO rI : T) (radd rmul rsub : T -> T -> T) (ropp : T -> T) (req : T -> T -> Prop),
  Equivalence req -> ring_eq_ext radd rmul ropp req -> ring_theory rO rI radd rmul rsub ropp req ->
  forall (sub : X -> X -> X) (km : kmodel T X),
  cov_even T X req sub (cov km) -> cov_null T X rO req sub (cov km) -> (forall i x, req (nugget km i x) rO) ->
  forall (nrm : X -> X) (xs : list X) (fs tail a : list T),
  solves T rO radd rmul req (wmatrix T X rO sub km nrm xs) (fs ++ tail) a ->
  interpolates T X req (weval T X rO radd rmul sub km nrm nrm xs a) xs fs.
Proof. exact wrapper_interpolation. Qed.
Print Assumptions C19_wrapper_interpolation.

(* the wrapper IS the un-normalised interpolant of the rescaled points, evaluated at the rescaled point *)
Theorem C19_wrapper_is_kriging_of_rescaled_points : forall (T X : Type) rO radd rmul sub (km : kmodel T X) nrm xs a xv,
  weval T X rO radd rmul sub km nrm nrm xs a xv = keval T X rO radd rmul sub km (map nrm xs) a (nrm xv).
Proof. reflexivity. Qed.
Print Assumptions C19_wrapper_is_kriging_of_rescaled_points.

(* the executed rational model: Kriging<1> with the default model (|h^3|, drifts 1, x), Kriging1D (any nrm, in
   particular affine a b), FactorizedKriging<1,1> / FactorizedKriging1D1D (|h1| * |h2^3|, drifts 1 ; x2) *)
Theorem C19_kriging1D_rational :
  (forall xs fs tail a, Qsolves (kmatrix Q Q 0%Q qsub (default1D 0) xs) (fs ++ tail) a ->
     interpolates Q Q Qeq (keval Q Q 0%Q qadd Qmult qsub (default1D 0) xs a) xs fs) /\
  (forall nrm xs fs tail a, Qsolves (wmatrix Q Q 0%Q qsub (default1D 0) nrm xs) (fs ++ tail) a ->
     interpolates Q Q Qeq (weval Q Q 0%Q qadd Qmult qsub (default1D 0) nrm nrm xs a) xs fs) /\
  (forall nrm xs fs tail a, Qsolves (wmatrix Q (Q * Q) 0%Q qsub2 fact1D1D nrm xs) (fs ++ tail) a ->
     interpolates Q (Q * Q) Qeq (weval Q (Q * Q) 0%Q qadd Qmult qsub2 fact1D1D nrm nrm xs a) xs fs).
Proof. exact (conj k1_rational (conj w1_rational f11_rational)). Qed.
Print Assumptions C19_kriging1D_rational.

(* default models over the reals with the per-axis normalisation a_k x_k + b_k of Kriging1D / 2D / 3D *)
Theorem C19_kriging_1D_2D_3D_real :
  (forall a b xs fs tail coef, Rsolves (wmatrix R R 0%R Rminus default1D_R (nrm1 a b) xs) (fs ++ tail) coef ->
     interpolates R R eq (weval R R 0%R Rplus Rmult Rminus default1D_R (nrm1 a b) (nrm1 a b) xs coef) xs fs) /\
  (forall t a1 b1 a2 b2 xs fs tail coef, Rsolves (wmatrix R R2 0%R subR2 (default2D_R t) (nrm2 a1 b1 a2 b2) xs) (fs ++ tail) coef ->
     interpolates R R2 eq (weval R R2 0%R Rplus Rmult subR2 (default2D_R t) (nrm2 a1 b1 a2 b2) (nrm2 a1 b1 a2 b2) xs coef) xs fs) /\
  (forall a1 b1 a2 b2 a3 b3 xs fs tail coef, Rsolves (wmatrix R R3 0%R subR3 default3D_R (nrm3 a1 b1 a2 b2 a3 b3) xs) (fs ++ tail) coef ->
     interpolates R R3 eq (weval R R3 0%R Rplus Rmult subR3 default3D_R (nrm3 a1 b1 a2 b2 a3 b3) (nrm3 a1 b1 a2 b2 a3 b3) xs coef) xs fs).
Proof. exact (conj k1_real (conj k2_real k3_real)). Qed.
Print Assumptions C19_kriging_1D_2D_3D_real.

(* on a new object (member a empty) the right-hand side prepared by buildInterpolation is (values, zeros) *)
Theorem C19_rhs_new_object : forall (T X : Type) (rO : T) (km : kmodel T X) fs, rhs_code T X rO km [] fs = krhs T X rO km fs.
Proof. exact rhs_new_object. Qed.
Print Assumptions C19_rhs_new_object.

(* KrigingUtilities::normalize maps [min, max] onto [0, 1] *)
Theorem C19_normalize_range : forall lo hi : Q, ~ (hi - lo == 0)%Q ->
  ((1 / (hi - lo)) * lo + (- lo / (hi - lo)) == 0 /\ (1 / (hi - lo)) * hi + (- lo / (hi - lo)) == 1)%Q.
Proof. exact normalize_range. Qed.
Print Assumptions C19_normalize_range.

(* ... and the SAME offsets are needed: storing through a*x+b and evaluating through a*x+b' breaks the interpolation
   even for a true solution (exact 1D witness; this is what a wrong offset in a wrapper's operator() does) *)
Theorem C19_evaluation_offset_must_be_the_storage_offset :
  exists a b b' xs fs coef,
    Qsolves (wmatrix Q Q 0%Q qsub (default1D 0) (affine a b) xs) (krhs Q Q 0%Q (default1D 0) fs) coef /\
    ~ interpolates Q Q Qeq (weval Q Q 0%Q qadd Qmult qsub (default1D 0) (affine a b) (affine a b') xs coef) xs fs.
Proof. exact offsets_must_agree. Qed.
Print Assumptions C19_evaluation_offset_must_be_the_storage_offset.

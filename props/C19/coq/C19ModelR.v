(* C19 -- the default models over the reals (the 2D and 3D covariances are not rational functions), definitions only.
     KrigingDefaultModel<1>: |h^3|, drifts 1, x           KrigingDefaultModel<2>: 0.5*h2*log(h2) (0 below a threshold), drifts 1, x, y
     KrigingDefaultModel<3>: sqrt(h2), drifts 1, x, y, z   per-axis normalisations of Kriging1D/2D/3D.cxx *)
From Coq Require Import Reals List.
From C19 Require Import C19Model.
Import ListNotations.
Local Open Scope R_scope.

Definition R2 := (R * R)%type.
Definition R3 := (R * R * R)%type.
Definition subR2 (a b : R2) : R2 := (fst a - fst b, snd a - snd b).
Definition subR3 (a b : R3) : R3 := (fst (fst a) - fst (fst b), snd (fst a) - snd (fst b), snd a - snd b).

Definition default1D_R : kmodel R R := Build_kmodel (fun h => Rabs (h * h * h)) [fun _ => 1; fun x => x] (fun _ _ => 0).
(* threshold = 10 * numeric_limits<T>::epsilon() in the code; any real here *)
Definition default2D_R (threshold : R) : kmodel R R2 :=
  Build_kmodel (fun v => let h2 := fst v * fst v + snd v * snd v in
                         if Rlt_dec h2 threshold then 0 else (1 / 2) * h2 * ln h2)
               [fun _ => 1; fun v => fst v; fun v => snd v] (fun _ _ => 0).
Definition default3D_R : kmodel R R3 :=
  Build_kmodel (fun v => sqrt (fst (fst v) * fst (fst v) + snd (fst v) * snd (fst v) + snd v * snd v))
               [fun _ => 1; fun v => fst (fst v); fun v => snd (fst v); fun v => snd v] (fun _ _ => 0).

(* Kriging1D / Kriging2D / Kriging3D: v(k) = a_k * x_k + b_k *)
Definition nrm1 (a b : R) (x : R) : R := a * x + b.
Definition nrm2 (a1 b1 a2 b2 : R) (p : R2) : R2 := (a1 * fst p + b1, a2 * snd p + b2).
Definition nrm3 (a1 b1 a2 b2 a3 b3 : R) (p : R3) : R3 := (a1 * fst (fst p) + b1, a2 * snd (fst p) + b2, a3 * snd p + b3).

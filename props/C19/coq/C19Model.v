(* C19 -- hand-written executable model of dual kriging as coded in
     include/TFEL/Math/Kriging/Kriging.ixx            (Kriging<N,T,Model>::buildInterpolation / operator())
     include/TFEL/Math/Kriging/FactorizedKriging.ixx  (product covariance, two families of drifts)
     src/Math/Kriging{1D,2D,3D}.cxx, FactorizedKriging1D{1,2,3}D.cxx (normalisation wrappers)
   Definitions only.  Part 1 is generic: scalars T with ring operations, points X with a difference `sub`,
   a model = covariance + list of drift functions + nugget.  Part 2 instantiates it on exact rationals with the
   1D default model (|h^3| covariance, drifts 1 and x) and the piecewise-linear model (|h|, drift 1), adds an
   exact LU solve (copy of the general-N model of props/C07) and is executed by vm_compute. *)
From Coq Require Import QArith Qabs List Bool Arith.
Import ListNotations.

Section Generic.
  Variables T X : Type.
  Variables (rO : T) (radd rmul : T -> T -> T).
  Variable sub : X -> X -> X.

  Record kmodel := { cov : X -> T; drifts : list (X -> T); nugget : nat -> X -> T }.
  Variable km : kmodel.

  Definition indexed (xs : list X) : list (nat * X) := combine (seq 0 (length xs)) xs.

  (* m(i,j) of the covariance block: the loop `for j != i : m(i,j) = m(j,i) = covariance(x[i]-x[j])` fills both
     triangles with the covariance of (later point - earlier point); m(i,i) = nuggetEffect(i, x[i]) *)
  Definition kentry (i : nat) (xi : X) (j : nat) (xj : X) : T :=
    if j <? i then cov km (sub xi xj) else if i <? j then cov km (sub xj xi) else nugget km i xi.
  (* row i < n : covariances then the drifts at x_i  (ApplySpecificationDrifts: m(i, n0+k) = drifts[k](x[i])) *)
  Definition krow (xs : list X) (ixi : nat * X) : list T :=
    map (fun jxj => kentry (fst ixi) (snd ixi) (fst jxj) (snd jxj)) (indexed xs) ++ map (fun d => d (snd ixi)) (drifts km).
  (* row n + k : drift k at every point (m(n0+k, i) = drifts[k](x[i])), zero block *)
  Definition drow (xs : list X) (d : X -> T) : list T := map d xs ++ repeat rO (length (drifts km)).
  Definition kmatrix (xs : list X) : list (list T) := map (krow xs) (indexed xs) ++ map (drow xs) (drifts km).
  (* right-hand side of a fresh object: the values, then zeros *)
  Definition krhs (fs : list T) : list T := fs ++ repeat rO (length (drifts km)).

  (* the linear form evaluated by operator(): covariances of (xv - x_i), then the drifts at xv *)
  Definition kterms (xs : list X) (xv : X) : list T :=
    map (fun xi => cov km (sub xv xi)) xs ++ map (fun d => d xv) (drifts km).
  (* operator(): r = 0; r += a[i] * covariance(xv - x[i]); r += a[n+k] * drifts[k](xv) *)
  Definition keval (xs : list X) (a : list T) (xv : X) : T :=
    fold_left (fun r at_ => radd r (rmul (fst at_) (snd at_))) (combine a (kterms xs xv)) rO.

  (* one row of `M a` *)
  Definition dot (row a : list T) : T :=
    fold_left (fun r ma => radd r (rmul (fst ma) (snd ma))) (combine row a) rO.

  (* normalisation wrappers: the points are stored through `nrm`, the evaluation point goes through `nrm'`
     (the same map in the code: Kriging1D/2D/3D and FactorizedKriging1D1D/1D2D/1D3D use a_k * x + b_k per axis) *)
  Definition wmatrix (nrm : X -> X) (xs : list X) := kmatrix (map nrm xs).
  Definition weval (nrm nrm' : X -> X) (xs : list X) (a : list T) (xv : X) : T := keval (map nrm xs) a (nrm' xv).

  (* what buildInterpolation does with the member `a` before the solve:
       this->a.resize(n + nb, T(0));  copy(f.begin(), f.end(), a.begin());
     `prev` is the content of `a` left by a previous call on the same object (empty for a new object).
     std::vector::resize keeps the existing elements: this is the right-hand side really used. *)
  Definition resize (m : nat) (l : list T) : list T := firstn m l ++ repeat rO (m - length l).
  Definition rhs_code (prev fs : list T) : list T :=
    fs ++ skipn (length fs) (resize (length fs + length (drifts km)) prev).
End Generic.

Arguments cov {T X}. Arguments drifts {T X}. Arguments nugget {T X}.
Arguments Build_kmodel {T X}.

(* FactorizedKriging<N,M,T,Model1,Model2>: points are pairs, covariance m1.covariance(h1) * m2.covariance(h2),
   drifts of Model1 on the first component then drifts of Model2 on the second, null diagonal *)
Definition fact_model {T X1 X2 : Type} (rO : T) (rmul : T -> T -> T) (m1 : kmodel T X1) (m2 : kmodel T X2) : kmodel T (X1 * X2) :=
  Build_kmodel (fun h => rmul (cov m1 (fst h)) (cov m2 (snd h)))
               (map (fun d p => d (fst p)) (drifts m1) ++ map (fun d p => d (snd p)) (drifts m2))
               (fun _ _ => rO).
Definition sub2 {X1 X2 : Type} (s1 : X1 -> X1 -> X1) (s2 : X2 -> X2 -> X2) (a b : X1 * X2) : X1 * X2 :=
  (s1 (fst a) (fst b), s2 (snd a) (snd b)).
(* KrigingModelAdaptator<Model>: the drifts of Model but the first *)
Definition adapt {T X : Type} (m : kmodel T X) : kmodel T X := Build_kmodel (cov m) (tl (drifts m)) (nugget m).

(* ------------------------------------------------------------------------------------------------------- *)
(* Part 2: exact rationals *)
Local Open Scope Q_scope.

(* KrigingDefaultModel<1,T>: covariance abs(v*v*v), drifts {one, x}; KrigingDefaultNuggetModel: constant nugget *)
Definition default1D (nug : Q) : kmodel Q Q := Build_kmodel (fun h => Qabs (h * h * h)) [fun _ => 1; fun x => x] (fun _ _ => nug).
(* KrigingPieceWiseLinearModel1D<T>: covariance abs(v), drift {one} *)
Definition pwl1D (nug : Q) : kmodel Q Q := Build_kmodel (fun h => Qabs h) [fun _ => 1] (fun _ _ => nug).
(* FactorizedKriging1D1D *)
Definition fact1D1D : kmodel Q (Q * Q) := fact_model 0 Qmult (pwl1D 0) (adapt (default1D 0)).
(* operations used for the executions: sums and differences kept in lowest terms (Qred x == x) *)
Definition qadd (a b : Q) : Q := Qred (a + b).
Definition qsub (a b : Q) : Q := Qred (a - b).
Definition qsub2 := sub2 qsub qsub.
(* per-axis affine normalisation a*x+b and KrigingUtilities::normalize *)
Definition affine (a b x : Q) : Q := Qred (a * x + b).
Definition qmax (l : list Q) : Q := fold_left (fun m x => if Qle_bool m x then x else m) (tl l) (hd 0 l).
Definition qmin (l : list Q) : Q := fold_left (fun m x => if Qle_bool x m then x else m) (tl l) (hd 0 l).
Definition normalize (l : list Q) : Q * Q := (Qred (1 / (qmax l - qmin l)), Qred (- qmin l / (qmax l - qmin l))).

(* ---- exact LU solve: copy of props/C07/coq/C07Model.v (LUDecomp::exe with partial pivoting + LUSolve::back_substitute) *)
Definition mat := list (list Q).
Definition get (m : mat) (i j : nat) : Q := nth j (nth i m []) 0.
Fixpoint upd {A} (l : list A) (i : nat) (f : A -> A) : list A :=
  match l, i with
  | [], _ => []
  | x :: r, O => f x :: r
  | x :: r, S i' => x :: upd r i' f
  end.
Definition set (m : mat) (i j : nat) (v : Q) : mat := upd m i (fun row => upd row j (fun _ => Qred v)).
Definition pget (p : list nat) (i : nat) : nat := nth i p 0%nat.
Definition pswap (p : list nat) (i j : nat) : list nat :=
  let a := pget p i in let b := pget p j in upd (upd p i (fun _ => b)) j (fun _ => a).
Definition Qltb (a b : Q) : bool := negb (Qle_bool b a).
Definition sumk (k : nat) (f : nat -> Q) : Q := fold_left (fun acc l => Qred (acc + f l)) (seq 0 k) 0.

Definition lu_step (n : nat) (eps : Q) (st : mat * list nat) (i : nat) : option (mat * list nat) :=
  let '(m, p) := st in
  let m := fold_left (fun m j =>
             let pj := pget p j in
             set m pj i (get m pj i - sumk i (fun k => get m pj k * get m (pget p k) i)))
           (seq i (n - i)) m in
  let '(cmax, piv) := fold_left (fun '(cmax, piv) j =>
                         let v := Qabs (get m (pget p j) i) in
                         if Qltb cmax v then (v, j) else (cmax, piv))
                       (seq (S i) (n - S i)) (Qabs (get m (pget p i) i), i) in
  let d := Qabs (get m (pget p i) i) in
  let p := if Nat.eqb piv i then p
           else if Qltb ((1 # 10) * cmax) d && Qltb eps d then p else pswap p piv i in
  if Qltb (Qabs (get m (pget p i) i)) eps then None
  else
    let pi := pget p i in
    let m := fold_left (fun m j =>
               set m pi j ((get m pi j - sumk i (fun k => get m pi k * get m (pget p k) j)) / get m pi i))
             (seq (S i) (n - S i)) m in
    Some (m, p).

Definition lu_decomp (n : nat) (eps : Q) (a : mat) : option (mat * list nat) :=
  fold_left (fun st i => match st with Some s => lu_step n eps s i | None => None end) (seq 0 n) (Some (a, seq 0 n)).

Definition vget (v : list Q) (i : nat) : Q := nth i v 0.
Definition vset (v : list Q) (i : nat) (x : Q) : list Q := upd v i (fun _ => Qred x).

Definition back_substitute (n : nat) (m : mat) (p : list nat) (b : list Q) : list Q :=
  let x := fold_left (fun x i =>
              let pi := pget p i in
              vset x pi ((vget x pi - sumk i (fun j => get m pi j * vget x (pget p j))) / get m pi i))
            (seq 0 n) b in
  let b := vset b (n - 1) (vget x (pget p (n - 1))) in
  fold_left (fun b i' =>
          let i := (n - 1 - i')%nat in
          let pi2 := (i - 1)%nat in
          let pi := pget p pi2 in
          vset b pi2 (vget x pi - fold_left (fun acc j => Qred (acc + get m pi j * vget b j)) (seq i (n - i)) 0))
        (seq 0 (n - 1)) b.

(* default eps of LUDecomp: 100 * numeric_limits<double>::min(), replaced by a smaller positive rational *)
Definition lu_eps : Q := 1 # 100000000000000000000000000000000000000000000000000.
Definition lu_solve (a : mat) (b : list Q) : option (list Q) :=
  let n := length a in
  match lu_decomp n lu_eps (map (map Qred) a) with
  | None => None
  | Some (m, p) => Some (back_substitute n m p (map Qred b))
  end.

(* ---- runs ------------------------------------------------------------------------------------------------ *)
Definition Qdot := dot Q 0 qadd Qmult.
Definition solves_exactly (m : mat) (rhs a : list Q) : bool :=
  Nat.eqb (length a) (length rhs) && forallb (fun rb => Qeq_bool (Qdot (fst rb) a) (snd rb)) (combine m rhs).

Inductive status := Built | InsufficientData | NullPivot | NotBuilt.

Section Runs.
  Variable X : Type.
  Variable sub : X -> X -> X.
  Variable km : kmodel Q X.
  Definition eval_q (xs : list X) (a : list Q) (xv : X) : Q := Qred (keval Q X 0 qadd Qmult sub km xs a xv).

  (* one call of buildInterpolation on an object whose member `a` contains prev; stale = true: as coded
     (resize keeps prev), stale = false: right-hand side of a new object *)
  Definition build (stale : bool) (prev : list Q) (xs : list X) (fs : list Q) : status * bool * list Q :=
    if (length xs <=? length (drifts km))%nat then (InsufficientData, true, prev)
    else
      let m := kmatrix Q X 0 sub km xs in
      let rhs := if stale then rhs_code Q X 0 km prev fs else krhs Q X 0 km fs in
      match lu_solve m rhs with
      | None => (NullPivot, true, prev)
      | Some a => (Built, solves_exactly m rhs a, map Qred a)
      end.

  (* addValue up to stages[0] points, build, addValue up to stages[1], build, ...: final coefficients, the flag
     "every solve returned an exact solution of its system", the flag "interpolant = value at every point used",
     and the values at the probes *)
  Definition run (stale : bool) (stages : list nat) (xs : list X) (fs : list Q) (probes : list X) :=
    let '(st, ex, a, n) :=
      fold_left (fun '(st, ex, a, n0) s =>
                   match st with
                   | InsufficientData | NullPivot => (st, ex, a, n0)
                   | _ => let '(st', ex', a') := build stale a (firstn s xs) (firstn s fs) in (st', ex && ex', a', s)
                   end) stages (NotBuilt, true, [], 0%nat) in
    let xs' := firstn n xs in
    let fs' := firstn n fs in
    (st, ex,
     forallb (fun xf => Qeq_bool (eval_q xs' a (fst xf)) (snd xf)) (combine xs' fs'),
     a, map (eval_q xs' a) probes).
  (* certificate route (any size): the linear solve is delegated to an untrusted oracle which returns the solution
     as integers p over a common denominator D; the model assembles the system, checks M p = D rhs exactly
     (i.e. a = p / D is a true solution: the hypothesis of the theorems), checks the interpolation at every
     training point and evaluates the probes.  No gcd on large numbers is needed. *)
  Definition zdot (row : list Q) (p : list Z) : Q := Qdot row (map inject_Z p).
  Definition cert_run (xs : list X) (fs : list Q) (p : list Z) (D : positive) (probes : list X) :=
    let m := kmatrix Q X 0 sub km xs in
    let rhs := krhs Q X 0 km fs in
    let dq := inject_Z (Zpos D) in
    (if (length xs <=? length (drifts km))%nat then InsufficientData else Built,
     Nat.eqb (length p) (length rhs) && forallb (fun rb => Qeq_bool (zdot (fst rb) p) (snd rb * dq)) (combine m rhs),
     forallb (fun xf => Qeq_bool (zdot (kterms Q X sub km xs (fst xf)) p) (snd xf * dq)) (combine xs fs),
     map (fun xv => Qred (zdot (kterms Q X sub km xs xv) p / dq)) probes).
End Runs.

Definition run_k1 (stale : bool) (nug : Q) := run Q qsub (default1D nug) stale.
Definition cert_k1 := cert_run Q qsub (default1D 0).
Definition cert_g11 := cert_run (Q * Q) qsub2 fact1D1D.
Definition cert_w1 (xs fs : list Q) (p : list Z) (D : positive) (probes : list Q) :=
  let '(a, b) := normalize xs in
  cert_k1 (map (affine a b) xs) fs p D (map (affine a b) probes).
Definition cert_f11 (ps : list (Q * Q)) (fs : list Q) (p : list Z) (D : positive) (probes : list (Q * Q)) :=
  let '(a0, b0) := normalize (map fst ps) in
  let '(a1, b1) := normalize (map snd ps) in
  let nrm := fun p : Q * Q => (affine a0 b0 (fst p), affine a1 b1 (snd p)) in
  cert_g11 (map nrm ps) fs p D (map nrm probes).
Definition run_g11 (stale : bool) := run (Q * Q) qsub2 fact1D1D stale.
(* Kriging1D: normalisation computed from the abscissae, same map for storage and evaluation *)
Definition run_w1 (xs fs probes : list Q) :=
  let '(a, b) := normalize xs in
  run_k1 false 0 [length xs] (map (affine a b) xs) fs (map (affine a b) probes).
(* FactorizedKriging1D1D *)
Definition run_f11 (ps : list (Q * Q)) (fs : list Q) (probes : list (Q * Q)) :=
  let '(a0, b0) := normalize (map fst ps) in
  let '(a1, b1) := normalize (map snd ps) in
  let nrm := fun p : Q * Q => (affine a0 b0 (fst p), affine a1 b1 (snd p)) in
  run_g11 false [length ps] (map nrm ps) fs (map nrm probes).

(* C19 -- specification, independent of the code: what "the linear solve returned a true solution" and "the
   interpolant reproduces the training data" mean.  Scalars T with a ring structure up to the equivalence req
   (instances: exact rationals with Qeq, reals with eq); points X are an arbitrary type. *)
From Coq Require Import List.
Import ListNotations.

Section Spec.
  Variables T X : Type.
  Variables (rO : T) (radd rmul : T -> T -> T) (req : T -> T -> Prop).

  (* sum_k u_k v_k (structural definition, independent of the accumulation order of the code) *)
  Definition sdot (u v : list T) : T :=
    fold_right (fun p s => radd (rmul (fst p) (snd p)) s) rO (combine u v).
  (* a is a solution of the linear system m a = rhs (m: list of rows) *)
  Definition solves (m : list (list T)) (rhs a : list T) : Prop :=
    Forall2 (fun row b => req (sdot row a) b) m rhs.
  (* the function g takes the value fs[i] at every point xs[i] *)
  Definition interpolates (g : X -> T) (xs : list X) (fs : list T) : Prop :=
    forall i xi fi, nth_error xs i = Some xi -> nth_error fs i = Some fi -> req (g xi) fi.
  (* hypotheses on a covariance function c (of a difference of points): even, null at the origin *)
  Definition cov_even (sub : X -> X -> X) (c : X -> T) : Prop := forall a b, req (c (sub a b)) (c (sub b a)).
  Definition cov_null (sub : X -> X -> X) (c : X -> T) : Prop := forall a, req (c (sub a a)) rO.
End Spec.

(* C19 -- used when the real code rebuilds its right-hand side from scratch (defect rebuild:stale-rhs repaired):
   model `build false`; a successful build does not depend on what previous calls left in the object. *)
From Coq Require Import List QArith.
From C19 Require Import C19Spec C19Model C19Proofs.
Import ListNotations.

Theorem C19_rebuild_independent_of_previous_builds : forall (X : Type) (sub : X -> X -> X) (km : kmodel Q X) prev xs fs,
  fst (fst (build X sub km false prev xs fs)) = Built -> build X sub km false prev xs fs = build X sub km false [] xs fs.
Proof. exact build_fresh_independent. Qed.
Print Assumptions C19_rebuild_independent_of_previous_builds.

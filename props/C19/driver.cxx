// C19 driver: runs the REAL kriging code of /repo on training sets given as data (hexadecimal doubles) and prints
// the coefficients of the interpolant (private member `a`, read thanks to -fno-access-control), its values at
// the training points and at probe points.
//   K1 K2 K3 : tfel::math::Kriging<N,double> (default models), points added as given, buildInterpolation called
//              after the numbers of points listed in `stages` (several calls on the same object)
//   W1 W2 W3 : Kriging1D / Kriging2D / Kriging3D (normalisation wrappers; opt = 0 std::vector, 1 tfel::math::vector)
//   G11      : FactorizedKriging<1,1,double,KrigingPieceWiseLinearModel1D,KrigingModelAdaptator<KrigingDefaultModel<1>>>
//   F11 F12 F13 : FactorizedKriging1D1D / 1D2D / 1D3D (normalisation wrappers)
//   P1 P2 P3 : tfel::math::parser::KrigedFunction<N> (setVariableValue + getValue)
// line : id kind opt nugget d n coords[n*d] values[n] np probes[np*d] ns stages[ns]
#include <cmath>
#include <cstdio>
#include <cstdlib>
#include <fstream>
#include <iostream>
#include <sstream>
#include <string>
#include <vector>
#include <typeinfo>
#include "TFEL/Config/TFELConfig.hxx"
#include "TFEL/Math/tvector.hxx"
#include "TFEL/Math/vector.hxx"
#include "TFEL/Math/Kriging.hxx"
#include "TFEL/Math/Kriging1D.hxx"
#include "TFEL/Math/Kriging2D.hxx"
#include "TFEL/Math/Kriging3D.hxx"
#include "TFEL/Math/FactorizedKriging.hxx"
#include "TFEL/Math/FactorizedKriging1D1D.hxx"
#include "TFEL/Math/FactorizedKriging1D2D.hxx"
#include "TFEL/Math/FactorizedKriging1D3D.hxx"
#include "TFEL/Math/Parser/KrigedFunction.hxx"

using namespace tfel::math;

struct Case {
  std::string id, kind;
  int opt = 0;
  double nugget = 0;
  int d = 0, n = 0, np = 0;
  std::vector<double> x, f, pr;
  std::vector<int> stages;
};

static void put(const std::vector<double>& v) {
  std::printf(" %zu", v.size());
  for (double u : v) {
    if (std::isnan(u)) std::printf(" nan");
    else if (std::isinf(u)) std::printf(u > 0 ? " inf" : " -inf");
    else std::printf(" %a", u);
  }
}
static void out(const Case& c, const std::vector<double>& coef, const std::vector<double>& vt, const std::vector<double>& vp) {
  std::printf("R %s ok", c.id.c_str());
  put(coef);
  put(vt);
  put(vp);
  std::printf("\n");
}

template <unsigned short N>
typename KrigingVariable<N, double>::type var(const double* p) {
  if constexpr (N == 1) {
    return *p;
  } else {
    tvector<N, double> v;
    for (unsigned short i = 0; i != N; ++i) v(i) = p[i];
    return v;
  }
}

template <unsigned short N>
void raw(const Case& c) {
  Kriging<N, double> k;
  k.setNuggetEffect(c.nugget);
  int done = 0;
  for (int s : c.stages) {
    for (; done < s && done < c.n; ++done) k.addValue(var<N>(&c.x[N * done]), c.f[done]);
    k.buildInterpolation();
  }
  std::vector<double> coef(k.a.begin(), k.a.end()), vt, vp;
  for (int i = 0; i < done; ++i) vt.push_back(k(var<N>(&c.x[N * i])));
  for (int i = 0; i < c.np; ++i) vp.push_back(k(var<N>(&c.pr[N * i])));
  out(c, coef, vt, vp);
}

template <unsigned short N>
void kriged(const Case& c) {
  using KF = tfel::math::parser::KrigedFunction<N>;
  std::vector<typename KF::Point> pts;
  for (int i = 0; i < c.n; ++i) pts.push_back({var<N>(&c.x[N * i]), c.f[i]});
  KF k(pts, c.nugget);
  auto ev = [&c, &k](const double* p) -> double {
    // through resolveDependencies (copy sharing the interpolant) for odd ids, directly otherwise
    for (unsigned short j = 0; j != N; ++j) k.setVariableValue(j, p[j]);
    if (c.opt == 1) {
      auto k2 = k.resolveDependencies();
      return k2->getValue();
    }
    return k.getValue();
  };
  std::vector<double> coef(k.k->a.begin(), k.k->a.end()), vt, vp;
  for (int i = 0; i < c.n; ++i) vt.push_back(ev(&c.x[N * i]));
  for (int i = 0; i < c.np; ++i) vp.push_back(ev(&c.pr[N * i]));
  out(c, coef, vt, vp);
}

template <typename V>
V col(const Case& c, int j, int upto) {
  V v;
  for (int i = 0; i < upto; ++i) v.push_back(c.x[c.d * i + j]);
  return v;
}
template <typename V>
V vals(const Case& c) {
  V v;
  for (int i = 0; i < c.n; ++i) v.push_back(c.f[i]);
  return v;
}

template <typename V>
void wrapped(const Case& c) {
  std::vector<double> coef, vt, vp;
  const auto n = c.n;
  if (c.kind == "W1") {
    Kriging1D k(col<V>(c, 0, n), vals<V>(c));
    // Kriging1D::a (the scale factor) hides Kriging<1>::a (the coefficients)
    const auto& kb = (const Kriging<1u, double>&)k;  // C-style cast: private base
    coef.assign(kb.a.begin(), kb.a.end());
    for (int i = 0; i < n; ++i) vt.push_back(k(c.x[i]));
    for (int i = 0; i < c.np; ++i) vp.push_back(k(c.pr[i]));
  } else if (c.kind == "W2") {
    Kriging2D k(col<V>(c, 0, n), col<V>(c, 1, n), vals<V>(c));
    coef.assign(k.a.begin(), k.a.end());
    for (int i = 0; i < n; ++i) vt.push_back(k(c.x[2 * i], c.x[2 * i + 1]));
    for (int i = 0; i < c.np; ++i) vp.push_back(k(c.pr[2 * i], c.pr[2 * i + 1]));
  } else if (c.kind == "W3") {
    Kriging3D k(col<V>(c, 0, n), col<V>(c, 1, n), col<V>(c, 2, n), vals<V>(c));
    coef.assign(k.a.begin(), k.a.end());
    for (int i = 0; i < n; ++i) vt.push_back(k(c.x[3 * i], c.x[3 * i + 1], c.x[3 * i + 2]));
    for (int i = 0; i < c.np; ++i) vp.push_back(k(c.pr[3 * i], c.pr[3 * i + 1], c.pr[3 * i + 2]));
  } else if (c.kind == "F11") {
    FactorizedKriging1D1D k(col<V>(c, 0, n), col<V>(c, 1, n), vals<V>(c));
    coef.assign(k.a.begin(), k.a.end());
    for (int i = 0; i < n; ++i) vt.push_back(k(c.x[2 * i], c.x[2 * i + 1]));
    for (int i = 0; i < c.np; ++i) vp.push_back(k(c.pr[2 * i], c.pr[2 * i + 1]));
  } else if (c.kind == "F12") {
    FactorizedKriging1D2D k(col<V>(c, 0, n), col<V>(c, 1, n), col<V>(c, 2, n), vals<V>(c));
    coef.assign(k.a.begin(), k.a.end());
    for (int i = 0; i < n; ++i) vt.push_back(k(c.x[3 * i], c.x[3 * i + 1], c.x[3 * i + 2]));
    for (int i = 0; i < c.np; ++i) vp.push_back(k(c.pr[3 * i], c.pr[3 * i + 1], c.pr[3 * i + 2]));
  } else if (c.kind == "F13") {
    FactorizedKriging1D3D k(col<V>(c, 0, n), col<V>(c, 1, n), col<V>(c, 2, n), col<V>(c, 3, n), vals<V>(c));
    coef.assign(k.a.begin(), k.a.end());
    for (int i = 0; i < n; ++i) vt.push_back(k(c.x[4 * i], c.x[4 * i + 1], c.x[4 * i + 2], c.x[4 * i + 3]));
    for (int i = 0; i < c.np; ++i) vp.push_back(k(c.pr[4 * i], c.pr[4 * i + 1], c.pr[4 * i + 2], c.pr[4 * i + 3]));
  }
  out(c, coef, vt, vp);
}

static void fact11(const Case& c) {
  FactorizedKriging<1u, 1u, double, KrigingPieceWiseLinearModel1D<double>,
                    KrigingModelAdaptator<KrigingDefaultModel<1u, double>>>
      k;
  int done = 0;
  for (int s : c.stages) {
    for (; done < s && done < c.n; ++done) k.addValue(c.x[2 * done], c.x[2 * done + 1], c.f[done]);
    k.buildInterpolation();
  }
  std::vector<double> coef(k.a.begin(), k.a.end()), vt, vp;
  for (int i = 0; i < done; ++i) vt.push_back(k(c.x[2 * i], c.x[2 * i + 1]));
  for (int i = 0; i < c.np; ++i) vp.push_back(k(c.pr[2 * i], c.pr[2 * i + 1]));
  out(c, coef, vt, vp);
}

static double rd(std::istringstream& is) {
  std::string t;
  is >> t;
  return std::strtod(t.c_str(), nullptr);
}

int main(int argc, char** argv) {
  if (argc < 2) return 2;
  std::ifstream in(argv[1]);
  std::string line;
  while (std::getline(in, line)) {
    if (line.empty()) continue;
    std::istringstream is(line);
    Case c;
    is >> c.id >> c.kind >> c.opt;
    c.nugget = rd(is);
    is >> c.d >> c.n;
    for (int i = 0; i < c.n * c.d; ++i) c.x.push_back(rd(is));
    for (int i = 0; i < c.n; ++i) c.f.push_back(rd(is));
    is >> c.np;
    for (int i = 0; i < c.np * c.d; ++i) c.pr.push_back(rd(is));
    int ns = 0;
    is >> ns;
    for (int i = 0; i < ns; ++i) {
      int s;
      is >> s;
      c.stages.push_back(s);
    }
    if (!is) {
      std::printf("R %s badline\n", c.id.c_str());
      continue;
    }
    try {
      if (c.kind == "K1") raw<1u>(c);
      else if (c.kind == "K2") raw<2u>(c);
      else if (c.kind == "K3") raw<3u>(c);
      else if (c.kind == "P1") kriged<1u>(c);
      else if (c.kind == "P2") kriged<2u>(c);
      else if (c.kind == "P3") kriged<3u>(c);
      else if (c.kind == "G11") fact11(c);
      else if (c.opt == 1) wrapped<tfel::math::vector<double>>(c);
      else wrapped<std::vector<double>>(c);
    } catch (KrigingErrorInsufficientData&) {
      std::printf("R %s exc:KrigingErrorInsufficientData\n", c.id.c_str());
    } catch (KrigingErrorInvalidLength&) {
      std::printf("R %s exc:KrigingErrorInvalidLength\n", c.id.c_str());
    } catch (KrigingErrorNoDataSpecified&) {
      std::printf("R %s exc:KrigingErrorNoDataSpecified\n", c.id.c_str());
    } catch (LUException& e) {
      std::printf("R %s exc:LUException\n", c.id.c_str());
    } catch (std::exception& e) {
      std::printf("R %s exc:std::exception\n", c.id.c_str());
    }
  }
  return 0;
}

"""C19 -- kriging interpolants reproduce their training data.
Engine H.  Coq: generic theorem (any commutative ring, any points, any even covariance null at 0, any drifts, no nugget,
any last-nb right-hand-side entries): a true solution of the system assembled by buildInterpolation gives an interpolant
equal to the training value at every training point; same through the normalisation wrappers (same map at storage and
at evaluation); instances on Q (1D default model, piecewise-linear x 1D factorized) and on R (1D/2D/3D default models).
Tie: driver.cxx compiles the real headers and src/Math/Kriging*.cxx, FactorizedKriging1D*D.cxx, KrigedFunction.cxx from
the tree and runs Kriging<1,2,3>, Kriging1D/2D/3D, FactorizedKriging<1,1>, FactorizedKriging1D1D/1D2D/1D3D and
KrigedFunction<1,2,3> on dyadic training sets (2..40 points; scattered, lattices not anchored at the origin with a
different range per axis, affine data; several buildInterpolation calls on one object).  The Gallina model is executed
on exact rationals (vm_compute) for every 1D / 1Dx1D case (exact LU for small sizes, exact check of a solution
certificate for every size) and compared with the doubles returned by the real code within a tolerance scaled by the
condition number; the 2D/3D kinds are compared with a 60-digit decimal reference of the same equations (kref.py, itself
compared exactly with the Gallina model on every rational case).  Independent statement on the real code: value at
every training point = training value within 32 (n+nb) eps |M|_inf |a|_inf + 64 (n+nb) eps |f|; affine data is reproduced at the probes."""
import math, os, re, sys, json
from fractions import Fraction as F
from decimal import Decimal

sys.path.insert(0, os.path.dirname(os.path.abspath(__file__)))
import kref
from vlib import guarded_main

SRC = ["src/Exception/ContractViolation.cxx", "src/Exception/TFELException.cxx", "src/Math/MathException.cxx",
       "src/Math/LUException.cxx", "src/Math/KrigingErrors.cxx", "src/Math/KrigingUtilities.cxx", "src/Math/Kriging1D.cxx",
       "src/Math/Kriging2D.cxx", "src/Math/Kriging3D.cxx", "src/Math/FactorizedKriging1D1D.cxx",
       "src/Math/FactorizedKriging1D2D.cxx", "src/Math/FactorizedKriging1D3D.cxx", "src/Math/KrigedFunction.cxx",
       "src/Math/ExternalFunction.cxx"]
EPS = 2.0 ** -52
KEY_REBUILD = "rebuild:stale-rhs"
COND_MAX = 1e10
DEBUG = bool(os.environ.get("C19_DEBUG"))

# kind -> (model, wrapper?, dims of the blocks)
M1, M2, M3 = kref.DEFAULT[1], kref.DEFAULT[2], kref.DEFAULT[3]
KINDS = {"K1": (M1, False), "K2": (M2, False), "K3": (M3, False),
         "W1": (M1, True), "W2": (M2, True), "W3": (M3, True),
         "P1": (M1, False), "P2": (M2, False), "P3": (M3, False),
         "G11": (kref.factorized(kref.PWL, M1), False), "F11": (kref.factorized(kref.PWL, M1), True),
         "F12": (kref.factorized(kref.PWL, M2), True), "F13": (kref.factorized(kref.PWL, M3), True)}
NAMES = {"K": "tfel::math::Kriging<%s,double>", "W": "tfel::math::Kriging%sD", "P": "tfel::math::parser::KrigedFunction<%s>"}


def realname(kind):
    if kind == "G11":
        return "tfel::math::FactorizedKriging<1,1,double,KrigingPieceWiseLinearModel1D,KrigingModelAdaptator<KrigingDefaultModel<1>>>"
    if kind[0] == "F":
        return "tfel::math::FactorizedKriging1D%sD" % kind[2]
    return NAMES[kind[0]] % kind[1]


class Case:
    def __init__(self, cid, kind, pts, f, probes, stages, family, opt=0, affine=None):
        self.id, self.kind, self.pts, self.f, self.probes, self.stages = cid, kind, pts, f, probes, stages
        self.family, self.opt, self.affine = family, opt, affine
        self.model, self.wrapped = KINDS[kind]
        self.d = self.model.dim
        self.nb = len(self.model.drifts)

    def line(self):
        hx = lambda v: float(v).hex()
        return " ".join([self.id, self.kind, str(self.opt), hx(0.0), str(self.d), str(len(self.pts))] +
                        [hx(u) for p in self.pts for u in p] + [hx(u) for u in self.f] + [str(len(self.probes))] +
                        [hx(u) for p in self.probes for u in p] + [str(len(self.stages))] + [str(s) for s in self.stages])

    def json(self):
        return {"id": self.id, "class": realname(self.kind), "family": self.family, "points": [list(p) for p in self.pts],
                "values": list(self.f), "probes": [list(p) for p in self.probes],
                "buildInterpolation_called_after_n_points": self.stages,
                "constructor": ("tfel::math::vector" if self.opt else "std::vector") if self.wrapped else "addValue",
                "driver_line": self.line(), "how": "props/C19/driver.cxx <file containing driver_line> (built by check.py with -fno-access-control)"}


# ---------------------------------------------------------------------------------------------- case generation
def scattered(rng, d, n, kindex):
    """distinct dyadic points, one offset and one range per axis (not anchored at the origin)"""
    off = [(3.0, -7.5, 100.0, 0.25)[(kindex + k) % 4] for k in range(d)]
    scale = [(1.0, 4.0, 0.5, 16.0)[(kindex + 2 * k) % 4] for k in range(d)]
    pts = []
    if d == 1:
        for g in sorted(rng.sample(range(0, 16 * 16 + 1), n)):
            pts.append((off[0] + scale[0] * g / 16.0,))
        rng.shuffle(pts)
        return pts
    while True:
        seen, pts = set(), []
        while len(pts) < n:
            g = tuple(rng.randint(0, 64) for _ in range(d))
            if g in seen:
                continue
            seen.add(g)
            pts.append(tuple(off[k] + scale[k] * g[k] / 8.0 for k in range(d)))
        # every axis must have a non-empty range (KrigingUtilities::normalize rejects a null range)
        if all(len({p[k] for p in pts}) > 1 for k in range(d)):
            return pts


def lattice(rng, d, shape, kindex):
    """tensor lattice x0_k + i h_k, different origin / step / number of nodes per axis"""
    org = [(10.0, -3.0, 100.0, 0.5)[(kindex + k) % 4] for k in range(d)]
    step = [(0.5, 2.0, 4.0, 0.25)[(kindex + k) % 4] for k in range(d)]
    pts = [()]
    for k in range(d):
        pts = [p + (org[k] + step[k] * i,) for p in pts for i in range(shape[k])]
    return pts


def probes_for(rng, pts, d, np_):
    lo = [min(p[k] for p in pts) for k in range(d)]
    hi = [max(p[k] for p in pts) for k in range(d)]
    out = []
    for _ in range(np_):
        out.append(tuple(lo[k] + (hi[k] - lo[k]) * rng.randint(-8, 72) / 64.0 for k in range(d)))
    return out


def gen_cases(c):
    rng = c.rng
    cs = []
    t = [0]

    def add(kind, pts, family, stages=None, opt=0, affine=False):
        model = KINDS[kind][0]
        d = model.dim
        t[0] += 1
        aff = None
        if affine:
            # a combination of the drift functions of the model: reproduced exactly by dual kriging
            coefs = [rng.randint(-16, 16) / 4.0 for _ in model.drifts]
            aff = coefs
            f = [float(sum(F(co) * F(dr(tuple(F(u) for u in p))) for co, dr in zip(coefs, model.drifts))) for p in pts]
        else:
            f = [rng.randint(-64, 64) / 8.0 for _ in pts]
        cs.append(Case("c%d" % t[0], kind, pts, f, probes_for(rng, pts, d, 3), stages or [len(pts)], family, opt, aff))

    def sizes(nb, full):
        s = [nb + 1, nb + 2, 7, 12, 20, 30, 40] if full else [nb + 1, 9, 24, 40]
        return sorted({v for v in s if v > nb})
    reps = c.pick(1, 6)
    for rep in range(reps):
        for ki, kind in enumerate(["K1", "W1", "P1", "K2", "W2", "P2", "K3", "W3", "P3", "G11", "F11", "F12", "F13"]):
            model = KINDS[kind][0]
            d, nb = model.dim, len(model.drifts)
            # too few points: KrigingErrorInsufficientData expected
            # (FactorizedKriging only requires more points than each family of drifts: not exercised)
            if rep == 0 and kind[0] in "KWP":
                add(kind, scattered(rng, d, 2, ki), "two points")
            for n in sizes(nb, kind in ("K1", "W1", "W3", "K3") or not c.quick()):
                add(kind, scattered(rng, d, n, ki + rep), "scattered", opt=(n + rep) % 2)
            add(kind, scattered(rng, d, 12, ki + rep + 1), "affine data", affine=True, opt=rep % 2)
            # lattices not anchored at the origin, one range per axis (the factorized covariance is singular on tensor
            # lattices in its two blocks of coordinates: skipped there)
            if kind[0] in "KWP":
                for shape in ([(5,), (17,), (40,)] if d == 1 else [(3, 4), (5, 8), (2, 9)] if d == 2 else [(2, 3, 2), (3, 2, 4), (4, 5, 2)]):
                    add(kind, lattice(rng, d, shape, ki + rep), "lattice %s" % "x".join(map(str, shape)), opt=rep % 2)
            # several calls of buildInterpolation on the same object
            if kind in ("K1", "K2", "K3", "G11"):
                for n in (nb + 1, 6):
                    pts = scattered(rng, d, n + nb + 2, ki + rep)
                    add(kind, pts[:n], "second build, same data", stages=[n, n])
                    add(kind, pts[:n + 1], "second build after one more point", stages=[n, n + 1])
                    add(kind, pts, "second build after nb+2 more points", stages=[n, n + nb + 2])
                add(kind, scattered(rng, d, 7, ki), "second build, affine data", stages=[7, 7], affine=True)
    return cs


# ---------------------------------------------------------------------------------------------- reference
class Ref:
    pass


def rhs_code(prev, fs, nb, zero):
    """this->a.resize(n+nb, T(0)); copy(f.begin(), f.end(), a.begin()) on the member left by the previous call"""
    m = len(fs) + nb
    a = list(prev[:m]) + [zero] * (m - len(prev))
    return list(fs) + a[len(fs):]


def reference(cs):
    """exact (Fraction) or 60-digit (Decimal) solution of the dual kriging equations for the case, both for a
    right-hand side rebuilt at every call (`fresh`) and for the one the code prepares (`stale`)"""
    model = cs.model
    num = (lambda v: F(v)) if model.exact else (lambda v: Decimal(v))
    zero = num(0)
    pts = [tuple(num(u) for u in p) for p in cs.pts]
    probes = [tuple(num(u) for u in p) for p in cs.probes]
    if cs.wrapped:
        ab = [kref.normalisation([p[k] for p in pts]) for k in range(cs.d)]
        nrm = lambda p: tuple(ab[k][0] * p[k] + ab[k][1] for k in range(cs.d))
        pts, probes = [nrm(p) for p in pts], [nrm(p) for p in probes]
    fs = [num(v) for v in cs.f]
    r = Ref()
    r.pts, r.probes, r.fs = pts, probes, fs
    r.status = "ok"
    r.variants = {}
    for variant in ("fresh", "stale"):
        prev, n = [], 0
        for s in cs.stages:
            if s <= cs.nb:
                r.status = "exc:KrigingErrorInsufficientData"
                break
            n = s
            m = kref.assemble(model, pts[:s], zero)
            rhs = rhs_code(prev, fs[:s], cs.nb, zero) if variant == "stale" else fs[:s] + [zero] * cs.nb
            prev = kref.solve(m, rhs)
            if prev is None:
                r.status = "singular"
                break
        if r.status != "ok":
            return r
        r.n = n
        r.m = m
        r.variants[variant] = prev
        if len(cs.stages) == 1:
            r.variants["stale"] = prev
            break
    r.cond = kref.cond_inf(r.m)
    return r


def fl(v):
    return float(v)


# ---------------------------------------------------------------------------------------------- Coq side
def qz(fr):
    fr = F(fr)
    if fr.denominator == 1:
        return "%d" % fr.numerator if fr.numerator >= 0 else "(%d)" % fr.numerator
    return "(%d # %d)" % (fr.numerator, fr.denominator)


def qpt(p):
    return qz(p[0]) if len(p) == 1 else "(" + ", ".join(qz(u) for u in p) + ")"


def qlist(l, f=qz):
    return "[" + "; ".join(f(u) for u in l) + "]"


def parse_coq(out):
    """every `= term : type` printed by coqc -> python (tuples, lists, Fractions, identifiers)"""
    res = []
    for m in re.finditer(r"^\s+= (.*?)^\s+: ", out, flags=re.S | re.M):
        toks = re.findall(r"[\[\]();,#]|[^\s\[\]();,#]+", re.sub(r"%[A-Za-z_]+", "", m.group(1)))
        pos = [0]

        def atom():
            tk = toks[pos[0]]
            pos[0] += 1
            if tk in "([":
                close = ")" if tk == "(" else "]"
                items = []
                while toks[pos[0]] != close:
                    items.append(term())
                    if toks[pos[0]] in ",;":
                        pos[0] += 1
                pos[0] += 1
                if tk == "(" and len(items) == 1:
                    return items[0]
                return tuple(items) if tk == "(" else items
            if re.fullmatch(r"-?\d+", tk):
                return F(int(tk))
            return tk

        def term():
            a = atom()
            if pos[0] < len(toks) and toks[pos[0]] == "#":
                pos[0] += 1
                b = atom()
                return F(a) / F(b)
            return a
        res.append(term())
    return res


def flat(t):
    """Coq prints (a, b, c, d) for nested pairs: our parser already returns flat tuples"""
    return t


# ---------------------------------------------------------------------------------------------- main
def main(c):
    exe = c.cxx("driver", ["driver.cxx"], SRC, flags=["-fno-access-control"])
    cases = gen_cases(c)
    inp = os.path.join(c.work, "cases.txt")
    with open(inp, "w") as f:
        f.write("\n".join(cs.line() for cs in cases) + "\n")
    rc, out, err = c.run([exe, inp], timeout=600)
    if rc != 0:
        c.report("run", "driver failed (rc=%d): %s" % (rc, err[-500:]), {"stderr": err[-3000:]}, False)
        return
    obs = {}

    def pf(tk):
        return float(tk) if tk in ("nan", "inf", "-inf") else float.fromhex(tk)
    for l in out.splitlines():
        tk = l.split()
        if not tk or tk[0] != "R":
            continue
        if tk[2] != "ok":
            obs[tk[1]] = (tk[2], None, None, None)
            continue
        i, arrs = 3, []
        for _ in range(3):
            k = int(tk[i])
            arrs.append([pf(u) for u in tk[i + 1:i + 1 + k]])
            i += 1 + k
        obs[tk[1]] = ("ok", arrs[0], arrs[1], arrs[2])
    if len(obs) != len(cases):
        c.report("run", "driver printed %d results for %d cases" % (len(obs), len(cases)), {"stdout": out[-2000:]}, False)
        return
    c.log("real code ran on %d training sets" % len(cases))

    # ---- references and comparisons
    refs = {}
    stale_seen, fresh_seen = [], []
    worst = {"coef": 0.0, "train": 0.0, "probe": 0.0}
    for cs in cases:
        st, coef, vt, vp = obs[cs.id]
        r = reference(cs)
        refs[cs.id] = r
        n_final = cs.stages[-1]
        c.count(1, cs.id, n_final > cs.nb)
        if r.status == "singular":
            c.notes.append("case %s (%s, %s): the exact system is singular, skipped" % (cs.id, cs.kind, cs.family))
            continue
        if st != r.status:
            c.report("status:%s:%s:%d" % (cs.kind, cs.family, len(cs.pts)),
                     "%s on %d points (%s): real code %s, kriging equations %s" % (realname(cs.kind), len(cs.pts), cs.family, st, r.status), cs.json(), True)
            continue
        if st != "ok":
            continue
        n, nb = r.n, cs.nb
        N = n + nb
        if any(not math.isfinite(v) for v in coef + vt + vp) or len(coef) != N or len(vt) != n:
            c.report("nonfinite:%s:%s:%d" % (cs.kind, cs.family, n), "%s on %d points (%s) returned non-finite or missing values" % (realname(cs.kind), n, cs.family), cs.json(), True)
            continue
        if r.cond > COND_MAX:
            c.notes.append("case %s (%s, %d points): condition number %.2g above %.0g, not compared" % (cs.id, cs.kind, n, r.cond, COND_MAX))
            continue
        exact = cs.model.exact
        cv = (lambda v: F(v)) if exact else (lambda v: Decimal(v))
        ac = [cv(v) for v in coef]
        # (1) independent statement on the real code: value at every training point = training value
        bad = None
        # residual of a backward-stable solve is bounded norm-wise: N eps |M|_inf |a|_inf (not row by row)
        normscale = float(max(sum(abs(v) for v in row) for row in r.m) * max(abs(v) for v in ac))
        for i in range(n):
            tol = 32 * N * EPS * normscale + 64 * N * EPS * abs(cs.f[i]) + 1e-300
            e = abs(vt[i] - float(r.fs[i]))
            if e / tol > worst["train"]:
                worst["train"] = e / tol
                worst["train_case"] = "%s %s n=%d stages=%s e=%.3g normscale=%.3g cond=%.3g" % (cs.kind, cs.family, n, cs.stages, e, normscale, r.cond)
            if e > tol and bad is None:
                bad = (i, e, tol)
        if bad:
            i, e, tol = bad
            c.report("interp:%s:%s:%d" % (cs.kind, cs.family, n),
                     "%s built on %d points (%s) does not reproduce its training data: at training point #%d %s value %r, interpolant %r (error %.3g, tolerance %.3g)" % (
                         realname(cs.kind), n, cs.family, i, list(cs.pts[i]), cs.f[i], vt[i], e, tol), cs.json(), True)
        # (2) coefficients against the kriging equations (fresh right-hand side; stale one for repeated builds)
        def close(ref_a):
            na = max(abs(v) for v in ref_a)
            tol = 1000 * N * EPS * r.cond * float(na) + 1e-300
            e = max(abs(float(x - y)) for x, y in zip(ac, ref_a))
            return e, tol
        e_f, tol_f = close(r.variants["fresh"])
        e_s, tol_s = close(r.variants["stale"])
        multi = len(cs.stages) > 1
        which = None
        if e_f <= tol_f:
            which = "fresh"
            worst["coef"] = max(worst["coef"], e_f / tol_f)
            if multi and e_s > tol_s:
                fresh_seen.append(cs)
        elif multi and e_s <= tol_s:
            which = "stale"
            stale_seen.append(cs)
        else:
            c.report("coef:%s:%s:%d" % (cs.kind, cs.family, n),
                     "%s on %d points (%s): coefficients differ from the solution of the dual kriging system (max difference %.3g, tolerance %.3g = 1000 N eps cond(%.3g) |a|)" % (
                         realname(cs.kind), n, cs.family, e_f, tol_f, r.cond), cs.json(), True)
            continue
        ref_a = r.variants[which]
        r.which = which
        # (3) values at the probes against the reference interpolant
        tol_a = 1000 * N * EPS * r.cond * float(max(abs(v) for v in ref_a))
        for k, p in enumerate(r.probes):
            terms = kref.eval_terms(cs.model, r.pts[:n], p)
            ref_v = sum(a * t_ for a, t_ in zip(ref_a, terms))
            tol = tol_a * float(sum(abs(t_) for t_ in terms)) + 100 * N * EPS * float(sum(abs(a * t_) for a, t_ in zip(ref_a, terms))) + 1e-300
            e = abs(vp[k] - float(ref_v))
            worst["probe"] = max(worst["probe"], e / tol)
            if e > tol:
                c.report("probe:%s:%s:%d" % (cs.kind, cs.family, n),
                         "%s on %d points (%s): value at %s is %r, dual kriging interpolant %r (tolerance %.3g)" % (
                             realname(cs.kind), n, cs.family, list(cs.probes[k]), vp[k], float(ref_v), tol), cs.json(), True)
                break
            # (4) affine data (combination of the drifts): the interpolant is that combination
            if cs.affine is not None and which == "fresh":
                # (through a wrapper too: a combination of the drifts of the normalised coordinates is affine in the original ones)
                org = tuple(F(u) for u in cs.probes[k])
                expect = float(sum(F(co) * F(dr(org)) for co, dr in zip(cs.affine, cs.model.drifts)))
                if abs(vp[k] - expect) > tol + 1e-9 * (1 + abs(expect)):
                    c.report("drift:%s:%s:%d" % (cs.kind, cs.family, n),
                             "%s on %d points sampled from a combination of its drift functions: value at %s is %r instead of %r" % (
                                 realname(cs.kind), n, list(cs.probes[k]), vp[k], expect), cs.json(), True)
                    break
        if len(c.coverage["samples"]) < 8 and n >= 9 and cs.kind in ("K1", "W3", "F11", "P2", "K2", "W1", "F13", "G11"):
            if not any(s["class"] == realname(cs.kind) for s in c.coverage["samples"]):
                c.sample({"case": cs.id, "class": realname(cs.kind), "family": cs.family, "points": n, "cond": "%.3g" % r.cond,
                          "max_error_at_training_points": max(abs(vt[i] - cs.f[i]) for i in range(n)),
                          "max_coefficient_difference": e_f if which == "fresh" else e_s, "probe_value": vp[0]})
    if DEBUG:
        c.log("worst ratios error/tolerance: %r" % worst)
    c.notes.append("largest error/tolerance ratios observed: training points %.2g, coefficients %.2g, probes %.2g" % (worst["train"], worst["coef"], worst["probe"]))

    # ---- second call of buildInterpolation on the same object
    if stale_seen:
        cs = stale_seen[0]
        st, coef, vt, vp = obs[cs.id]
        r = refs[cs.id]
        pv = float(kref.evaluate(cs.model, r.pts[:r.n], r.variants["fresh"], r.probes[0]))
        c.report(KEY_REBUILD,
                 "%s::buildInterpolation called a second time on the same object keeps the previous drift coefficients as the last nb right-hand-side entries "
                 "(a.resize(n+nb, T(0)) does not clear them): %d of %d repeated-build cases give the solution of that other system; e.g. points %s values %s, builds after %s points: "
                 "value at %s is %r, dual kriging interpolant %r (training values are still reproduced)" % (
                     realname(cs.kind), len(stale_seen), len(stale_seen) + len(fresh_seen), [list(p) for p in cs.pts], cs.f, cs.stages, list(cs.probes[0]), vp[0], pv), cs.json(), True)

    # ---- Gallina model on exact rationals
    evals, plan = [], []
    for cs in cases:
        r = refs[cs.id]
        if not cs.model.exact or cs.kind not in ("K1", "W1", "G11", "F11", "P1") or r.status == "singular":
            continue
        xs = [tuple(F(u) for u in p) for p in cs.pts]
        fs = [F(v) for v in cs.f]
        prb = [tuple(F(u) for u in p) for p in cs.probes]
        n_final = cs.stages[-1]
        if cs.kind in ("K1", "P1", "G11") and (len(cs.stages) > 1 or n_final <= 8):
            fn = "run_k1 %s 0" if cs.kind != "G11" else "run_g11 %s"
            for stale in (("true", "false") if len(cs.stages) > 1 else ("true",)):
                evals.append("(%s %s %s %s %s)" % (fn % stale, qlist(cs.stages, lambda s: "%d%%nat" % s), qlist(xs, qpt), qlist(fs), qlist(prb, qpt)))
                plan.append((cs, "lu", stale == "true"))
        elif cs.kind in ("W1", "F11") and n_final <= 8:
            evals.append("(%s %s %s %s)" % ("run_w1" if cs.kind == "W1" else "run_f11", qlist(xs, qpt), qlist(fs), qlist(prb, qpt)))
            plan.append((cs, "lu", False))
        if len(cs.stages) == 1 and r.status == "ok":
            sol = r.variants["fresh"]
            den = 1
            for s in sol:
                den = den * s.denominator // math.gcd(den, s.denominator)
            fn = {"K1": "cert_k1", "P1": "cert_k1", "W1": "cert_w1", "G11": "cert_g11", "F11": "cert_f11"}[cs.kind]
            evals.append("(%s %s %s %s%%Z %d%%positive %s)" % (fn, qlist(xs, qpt), qlist(fs), qlist([s * den for s in sol], lambda z: "(%d)" % z), den, qlist(prb, qpt)))
            plan.append((cs, "cert", False))
    # rationals are printed as (numerator, denominator) pairs of integers (Coq prints some Q constants in hexadecimal)
    txt = ("From Coq Require Import QArith List.\nFrom C19 Require Import C19Model.\nImport ListNotations.\nOpen Scope Q_scope.\n"
           "Definition zq (q : Q) := (Qnum q, Zpos (Qden q)).\n"
           "Definition out5 (r : status * bool * bool * list Q * list Q) := let '(s, e, i, a, p) := r in (s, e, i, map zq a, map zq p).\n"
           "Definition out4 (r : status * bool * bool * list Q) := let '(s, e, i, p) := r in (s, e, i, map zq p).\n" +
           "".join("Eval vm_compute in %s %s.\n" % ("out4" if pl[1] == "cert" else "out5", e) for e, pl in zip(evals, plan)))
    rc, mout, err = c.coq_eval(["C19Model.v"], txt, timeout=900)
    if rc != 0:
        c.report("model-run", "model evaluation failed: " + err[-600:], {"stderr": err[-3000:]}, False)
        return
    mres = parse_coq(mout)
    if len(mres) != len(plan):
        c.report("model-run", "model printed %d results for %d runs" % (len(mres), len(plan)), {"stdout": mout[-1500:]}, False)
        return
    c.log("Gallina model executed on %d exact runs (%d certificate checks)" % (len(plan), sum(1 for p in plan if p[1] == "cert")))
    nmodel = 0
    for (cs, route, stale), m in zip(plan, mres):
        r = refs[cs.id]
        st, coef, vt, vp = obs[cs.id]
        mstatus = {"Built": "ok", "InsufficientData": "exc:KrigingErrorInsufficientData", "NullPivot": "singular", "NotBuilt": "notbuilt"}[m[0]]
        nmodel += 1
        if mstatus != r.status:
            c.report("model-status:%s:%s" % (cs.kind, cs.family), "Gallina model status %s, kriging equations %s, real code %s" % (m[0], r.status, st), cs.json(), st != mstatus)
            continue
        if mstatus != "ok":
            continue
        if not (m[1] == "true" and m[2] == "true"):
            c.report("model-exact:%s:%s:%s" % (cs.kind, cs.family, route),
                     "Gallina model run (%s): exact-solution flag %s, exact-interpolation flag %s (the certificate / LU solution does not solve the system assembled by the model, or the interpolation theorem's instance fails)" % (route, m[1], m[2]),
                     cs.json(), False)
            continue
        ref_a = r.variants["stale" if stale else "fresh"]
        mprobe = [F(u[0]) / F(u[1]) for u in m[-1]]
        if route == "lu":
            m = m[:3] + ([F(u[0]) / F(u[1]) for u in m[3]],)
        pref = [kref.evaluate(cs.model, r.pts[:r.n], ref_a, p) for p in r.probes]
        if route == "lu" and list(m[3]) != list(ref_a):
            c.report("model-coef:%s:%s" % (cs.kind, cs.family), "coefficients of the Gallina model (exact LU) differ from the exact solution of the kriging equations written in kref.py", cs.json(), False)
            continue
        if list(mprobe) != list(pref):
            c.report("model-probe:%s:%s" % (cs.kind, cs.family), "probe values of the Gallina model differ from the exact reference: %s vs %s" % (mprobe, pref), cs.json(), False)
            continue
        # the real code against the Gallina model's exact values (only the variant the code follows)
        if r.cond <= COND_MAX and hasattr(r, "which") and (len(cs.stages) == 1 or r.which == ("stale" if stale else "fresh")):
            N = r.n + cs.nb
            tol_a = 1000 * N * EPS * r.cond * float(max(abs(v) for v in ref_a))
            for k, p in enumerate(r.probes):
                terms = kref.eval_terms(cs.model, r.pts[:r.n], p)
                tol = tol_a * float(sum(abs(t_) for t_ in terms)) + 100 * N * EPS * float(sum(abs(a * t_) for a, t_ in zip(ref_a, terms))) + 1e-300
                if abs(vp[k] - float(mprobe[k])) > tol:
                    c.report("probe-model:%s:%s:%d" % (cs.kind, cs.family, r.n),
                             "%s on %d points (%s): value at %s is %r, Gallina model %s = %r" % (realname(cs.kind), r.n, cs.family, list(cs.probes[k]), vp[k], mprobe[k], float(mprobe[k])), cs.json(), True)
                    break
    c.coverage["traces_validated_against_impl"] = len(cases)
    c.coverage["model_runs_exact"] = nmodel
    c.coverage["rule"] = ("13 classes (Kriging<1,2,3>, Kriging1D/2D/3D with both constructors, KrigedFunction<1,2,3>, FactorizedKriging<1,1>, FactorizedKriging1D1D/1D2D/1D3D) x "
                          "sizes from nb+1 to 40 (+ 2 points: KrigingErrorInsufficientData) x families {scattered dyadic points with a different offset and range per axis, "
                          "tensor lattices not anchored at the origin with a different step and node count per axis, data sampled from a combination of the drifts, "
                          "2 calls of buildInterpolation on one object (same data / one more point / nb+2 more points)}; non-trivial = more points than drifts")
    c.trusted("hand-written Gallina model coq/C19Model.v (assembly of the dual kriging system, evaluation, resize/copy of the right-hand side, normalisation) tied to the code by execution only",
              "props/C19/driver.cxx built with -fno-access-control to read the private coefficient vector; hexadecimal float transfer",
              "props/C19/kref.py: exact (fractions) / 60-digit (decimal, ln, sqrt) reference of the kriging equations, compared exactly with the Gallina model on every rational case; used alone for the 2D and 3D covariances",
              "tolerances: training points 32 N eps |M|_inf |a|_inf + 64 N eps |f| (norm-wise residual bound of a backward-stable solve); coefficients and probes 1000 N eps cond_inf(M) |a| (cases with cond > 1e10 are not compared)")
    # ---- proofs
    files = ["C19Spec.v", "C19Model.v", "C19ModelR.v", "C19Proofs.v", "Properties_C19.v",
             "Properties_C19_rebuild_refuted.v" if stale_seen else "Properties_C19_rebuild.v"]
    c.notes.append("second buildInterpolation on the same object: %d cases follow the stale right-hand side, %d the fresh one -> %s" % (len(stale_seen), len(fresh_seen), files[-1]))
    res = c.coq(files, timeout=900)
    if not res.ok:
        c.coq_failures(res)
    c.assumptions += ["exact arithmetic in the theorems (ring of scalars); the hypothesis `solves` = the linear solve returned a true solution (property C07); no nugget",
                      "covariance even and null at the origin (proved for the 1D, 2D, 3D default models and the piecewise-linear model)",
                      "floating-point error is NOT bounded by any theorem: the real code is only observed within conditioning-scaled tolerances on the corpus"]


guarded_main("C19", main)

"""C19 -- Python side of the tie: exact / high-precision reference of the dual-kriging system (same structure as the
Gallina model coq/C19Model.v: it is cross-checked against it on every 1D case), used
 * as the reference for the kinds that cannot run in Q (log / sqrt covariances): 60-digit decimal arithmetic,
 * to evaluate the tolerances (row sums |M||a|, condition number of the assembled matrix),
 * to state the property independently on the doubles returned by the real code.
Numbers are fractions.Fraction (exact, 1D default model, piecewise-linear model) or decimal.Decimal (2D / 3D)."""
from decimal import Decimal, getcontext
from fractions import Fraction

getcontext().prec = 60
EPS = 2.0 ** -52


def D(x):
    if isinstance(x, Fraction):
        return Decimal(x.numerator) / Decimal(x.denominator)
    return Decimal(x)


# ---- covariance / drift models (points are tuples; the code calls covariance(x_i - x_j)) ----------------------
class Model:
    def __init__(self, name, dim, cov, drifts, exact):
        self.name, self.dim, self.cov, self.drifts, self.exact = name, dim, cov, drifts, exact


def _cov1(h):           # KrigingDefaultModel<1>: abs(v*v*v)
    return abs(h[0] * h[0] * h[0])


def _cov2(h):           # KrigingDefaultModel<2>: 0.5*h2*log(h2), 0 below 10*epsilon
    h2 = h[0] * h[0] + h[1] * h[1]
    if h2 < 10 * Decimal(EPS):
        return Decimal(0)
    return h2 * D(h2).ln() / 2


def _cov3(h):           # KrigingDefaultModel<3>: sqrt(x2+y2+z2)
    return D(h[0] * h[0] + h[1] * h[1] + h[2] * h[2]).sqrt()


def _covl(h):           # KrigingPieceWiseLinearModel1D: abs(v)
    return abs(h[0])


def _one(x):
    return 1


def _coord(k):
    return lambda x: x[k]


DEFAULT = {1: Model("default1D", 1, _cov1, [_one, _coord(0)], True),
           2: Model("default2D", 2, _cov2, [_one, _coord(0), _coord(1)], False),
           3: Model("default3D", 3, _cov3, [_one, _coord(0), _coord(1), _coord(2)], False)}
PWL = Model("piecewise-linear1D", 1, _covl, [_one], True)


def factorized(m1, m2):
    """FactorizedKriging<N,M,T,m1,KrigingModelAdaptator<m2>>: product covariance, drifts of m1 on the first block of
    coordinates then the drifts of m2 but the first on the second block"""
    n1 = m1.dim

    def cov(h):
        return m1.cov(h[:n1]) * m2.cov(h[n1:])
    dr = [(lambda f: (lambda x: f(x[:n1])))(f) for f in m1.drifts] + [(lambda f: (lambda x: f(x[n1:])))(f) for f in m2.drifts[1:]]
    return Model("factorized(%s,%s)" % (m1.name, m2.name), n1 + m2.dim, cov, dr, m1.exact and m2.exact)


def sub(a, b):
    return tuple(u - v for u, v in zip(a, b))


def assemble(model, pts, nugget=0):
    """the matrix filled by Kriging::buildInterpolation / FactorizedKriging::buildInterpolation (written from the
    dual kriging equations: [[K, D],[D^T, 0]], K_ij = cov(x_i - x_j), zero (nugget) diagonal)"""
    n, nb = len(pts), len(model.drifts)
    z = nugget * 0
    m = [[z] * (n + nb) for _ in range(n + nb)]
    for i in range(n):
        for j in range(n):
            m[i][j] = nugget if i == j else model.cov(sub(pts[max(i, j)], pts[min(i, j)]))
        for k in range(nb):
            m[i][n + k] = m[n + k][i] = model.drifts[k](pts[i]) + z
    return m


def solve(m, rhs):
    """Gaussian elimination with partial pivoting in the number type of the entries; None if a column has no pivot"""
    n = len(m)
    a = [list(r) + [b] for r, b in zip(m, rhs)]
    for c in range(n):
        p = max(range(c, n), key=lambda r: abs(a[r][c]))
        if a[p][c] == 0:
            return None
        a[c], a[p] = a[p], a[c]
        piv = a[c][c]
        for r in range(c + 1, n):
            if a[r][c] != 0:
                f = a[r][c] / piv
                rowc, rowr = a[c], a[r]
                for k in range(c, n + 1):
                    rowr[k] -= f * rowc[k]
    x = [0] * n
    for c in range(n - 1, -1, -1):
        s = a[c][n]
        for k in range(c + 1, n):
            s -= a[c][k] * x[k]
        x[c] = s / a[c][c]
    return x


def cond_inf(m):
    """infinity-norm condition number (float) of a matrix of Decimals/Fractions, through its inverse in 60 digits"""
    n = len(m)
    md = [[D(v) for v in r] for r in m]
    # LU once by solving with the n unit right-hand sides together
    a = [list(r) + [Decimal(1 if i == j else 0) for j in range(n)] for i, r in enumerate(md)]
    for c in range(n):
        p = max(range(c, n), key=lambda r: abs(a[r][c]))
        if a[p][c] == 0:
            return float("inf")
        a[c], a[p] = a[p], a[c]
        piv = a[c][c]
        for r in range(c + 1, n):
            if a[r][c] != 0:
                f = a[r][c] / piv
                rowc, rowr = a[c], a[r]
                for k in range(c, 2 * n):
                    rowr[k] -= f * rowc[k]
    inv = [[Decimal(0)] * n for _ in range(n)]
    for col in range(n):
        for c in range(n - 1, -1, -1):
            s = a[c][n + col]
            for k in range(c + 1, n):
                s -= a[c][k] * inv[k][col]
            inv[c][col] = s / a[c][c]
    na = max(sum(abs(v) for v in r) for r in md)
    ni = max(sum(abs(v) for v in r) for r in inv)
    return float(na * ni)


def evaluate(model, pts, coef, xv):
    n = len(pts)
    r = 0
    for i in range(n):
        r += coef[i] * model.cov(sub(xv, pts[i]))
    for k, d in enumerate(model.drifts):
        r += coef[n + k] * d(xv)
    return r


def eval_terms(model, pts, xv):
    """the row of the linear form coef -> interpolant(xv)"""
    return [model.cov(sub(xv, p)) for p in pts] + [d(xv) for d in model.drifts]


def normalisation(col):
    """KrigingUtilities::normalize, exact: a = 1/(max-min), b = -min/(max-min)"""
    lo, hi = min(col), max(col)
    return 1 / (hi - lo), -lo / (hi - lo)

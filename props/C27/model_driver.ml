(* C27: line-protocol driver around the extracted Gallina model (no logic of its own: parsing and printing only).
   L q d2 pol kind lb ub n v1..vn      -> check_value on a scalar (n=1, form S) or tensor
   D k {id cat [-|kind lb ub] [-|kind lb ub] [-|comp] [-|comp]}*k   -> sets the current declaration list (bounds, then physical
                                                   bounds, then the single component concerned by each, '-' = all)
   E d2 pol entry m {id pd tensor n v1..vn}*m    -> exec on checkBounds_calls / integrate_calls of the declarations
   values: nan | inf | -inf | integer key.  Output per L/E line: events "t,k,var,comp" separated by ';' *)
open C27_model

let rec pos_of_int n = if n = 1 then XH else if n land 1 = 1 then XI (pos_of_int (n lsr 1)) else XO (pos_of_int (n lsr 1))
let z_of_int n = if n = 0 then Z0 else if n > 0 then Zpos (pos_of_int n) else Zneg (pos_of_int (- n))
let rec nat_of_int n = if n <= 0 then O else S (nat_of_int (n - 1))
let rec int_of_pos = function XH -> 1 | XO p -> 2 * int_of_pos p | XI p -> 2 * int_of_pos p + 1
let int_of_z = function Z0 -> 0 | Zpos p -> int_of_pos p | Zneg p -> - (int_of_pos p)

(* keys are 64-bit: OCaml's native int has 63 bits *)
let rec pos_of_int64 n =
  if Int64.equal n 1L then XH
  else if Int64.equal (Int64.logand n 1L) 1L then XI (pos_of_int64 (Int64.shift_right_logical n 1))
  else XO (pos_of_int64 (Int64.shift_right_logical n 1))
let z_of_int64 n = if Int64.equal n 0L then Z0 else if Int64.compare n 0L > 0 then Zpos (pos_of_int64 n) else Zneg (pos_of_int64 (Int64.neg n))
let xz_of s = match s with "nan" -> XNaN | "inf" -> XPInf | "-inf" -> XMInf | _ -> XFin (z_of_int64 (Int64.of_string s))
let pol_of = function "W" -> Warning | "S" -> Strict | "N" -> NoPolicy | "D" -> Strict | _ -> failwith "policy"
let bool_of = function "1" -> true | _ -> false

(* token stream *)
let toks = ref []
let next () = match !toks with t :: r -> toks := r; t | [] -> failwith "eol"
let bounds_of k = match k with
  | "L" -> let lb = xz_of (next ()) in let _ = next () in Lower lb
  | "U" -> let _ = next () in let ub = xz_of (next ()) in Upper ub
  | "B" -> let lb = xz_of (next ()) in let ub = xz_of (next ()) in Both (lb, ub)
  | _ -> failwith "kind"
let opt_bounds () = match next () with "-" -> None | k -> Some (bounds_of k)
let opt_comp () = match next () with "-" -> None | k -> Some (nat_of_int (int_of_string k))
let rec values n = if n = 0 then [] else let v = xz_of (next ()) in v :: values (n - 1)
let cat_of = function "MaterialProperty" -> MaterialProperty | "Persistent" -> Persistent
                    | "ExternalState" -> ExternalState | "LocalVar" -> LocalVar | _ -> failwith "cat"

let print_trace t =
  let evs = encode t in
  print_endline (String.concat ";" (List.map (fun e -> String.concat "," (List.map (fun z -> string_of_int (int_of_z z)) e)) evs))

let () =
  let ds = ref [] in
  try
    while true do
      let line = input_line stdin in
      toks := List.filter (fun s -> s <> "") (String.split_on_char ' ' line);
      match !toks with
      | [] -> ()
      | _ ->
        (match next () with
         | "L" ->
           let q = bool_of (next ()) in let d2 = bool_of (next ()) in let p = pol_of (next ()) in
           let b = bounds_of (next ()) in let tensor = bool_of (next ()) in let n = int_of_string (next ()) in
           let vs = values n in
           let x = if tensor then VTensor vs else VScalar (List.hd vs) in
           print_trace (check_value xz_ltb q d2 p b O x)
         | "D" ->
           let k = int_of_string (next ()) in
           let rec go k = if k = 0 then [] else
               let id = nat_of_int (int_of_string (next ())) in let c = cat_of (next ()) in
               let b = opt_bounds () in let ph = opt_bounds () in
               let bc = opt_comp () in let pc = opt_comp () in
               { vd_id = id; vd_cat = c; vd_bounds = b; vd_phys = ph; vd_bcomp = bc; vd_pcomp = pc } :: go (k - 1) in
           ds := go k
         | "E" ->
           let d2 = bool_of (next ()) in let p = pol_of (next ()) in let entry = next () in
           let m = int_of_string (next ()) in
           let rec go m = if m = 0 then [] else
               let id = nat_of_int (int_of_string (next ())) in let pd = bool_of (next ()) in
               let tensor = bool_of (next ()) in let n = int_of_string (next ()) in let vs = values n in
               ((id, pd), (if tensor then VTensor vs else VScalar (List.hd vs))) :: go (m - 1) in
           let e = env_of (go m) in
           let cs = if entry = "C" then checkBounds_calls !ds else integrate_calls !ds in
           print_trace (exec xz_ltb false d2 p e cs)
         | _ -> failwith "command")
    done
  with End_of_file -> ()

(* C27 -- specification, written from the documentation (docs/web/bounds.md wording: "bounds are inclusive",
   policies None / Warning / Strict; physical bounds are always strict), independently of the model. *)
From Coq Require Import Reals List Bool.
From C27 Require Import C27Model.
Import ListNotations.
Local Open Scope R_scope.

(* comparison of the reals as a boolean (the model is instantiated with it) *)
Definition Rltb (a b : R) : bool := if Rlt_dec a b then true else false.

(* "the value lies outside its bounds": bounds are inclusive *)
Definition outside (b : bounds R) (v : R) : Prop :=
  match b with
  | Lower lb => v < lb
  | Upper ub => v > ub
  | Both lb ub => v < lb \/ v > ub
  end.

Definition throws (t : trace) : Prop := thrown t <> None.
Definition warns_something (t : trace) : Prop := warns t <> [].
Definition silent (t : trace) : Prop := t = ok.

(* index of the first component outside the bounds *)
Definition first_outside (b : bounds R) (vs : list R) (i : nat) : Prop :=
  (i < length vs)%nat /\ outside b (nth i vs 0) /\ forall j, (j < i)%nat -> ~ outside b (nth j vs 0).

(* components of a value *)
Definition comps (x : value R) : list R := match x with VScalar v => [v] | VTensor vs => vs end.
Definition value_outside (b : bounds R) (x : value R) : Prop := exists v, In v (comps x) /\ outside b v.

(* values concerned by a check restricted to one component (`@Bounds s(k) in ...`); None: every component *)
Definition selected (k : option nat) (x : value R) : list R :=
  match k with
  | None => comps x
  | Some k => match x with
              | VScalar v => [v]
              | VTensor vs => match nth_error vs k with Some v => [v] | None => [] end
              end
  end.
Definition selection_outside (b : bounds R) (k : option nat) (x : value R) : Prop :=
  exists v, In v (selected k x) /\ outside b v.

(* component j, and only it, is outside the bounds *)
Definition only_outside (b : bounds R) (vs : list R) (j : nat) : Prop :=
  (j < length vs)%nat /\ outside b (nth j vs 0) /\
  forall i, (i < length vs)%nat -> i <> j -> ~ outside b (nth i vs 0).

(* C27 -- executable decision model of tfel::material::BoundsCheckBase / BoundsCheck<N>
   (include/TFEL/Material/BoundsCheck.hxx) and of the calls emitted by mfront
   (mfront/src/CodeGeneratorUtilities.cxx:writeBoundsChecks / writePhysicalBoundsChecks,
    mfront/src/BehaviourCodeGeneratorBase.cxx:writeBehaviourCheckBounds and the end of integrate()).
   Definitions only.  The model is generic in the scalar type T and its strict comparison `ltb`
   (the C++ `<`; `a > b` is `ltb b a`). *)
From Coq Require Import List Bool ZArith.
Import ListNotations.

Inductive policy := Warning | Strict | NoPolicy.           (* tfel::material::OutOfBoundsPolicy {Warning,Strict,None} *)
Inductive mkind := MLower | MUpper | MBoth.                (* which message / exception text *)
Inductive bounds (T : Type) := Lower (lb : T) | Upper (ub : T) | Both (lb ub : T).
Arguments Lower {T}. Arguments Upper {T}. Arguments Both {T}.

(* an observable event: a warning line on std::cerr or the OutOfBoundsException; `tag` identifies the
   variable / component named in the message *)
Record event := Ev { ev_kind : mkind; ev_tag : nat * nat }.
(* what one call does: warnings printed (in order), then possibly an exception *)
Record trace := Tr { warns : list event; thrown : option event }.
Definition ok : trace := Tr [] None.

(* sequential composition of C++ statements: the second runs only if the first did not throw *)
Definition seq (a b : trace) : trace :=
  match thrown a with
  | Some _ => a
  | None => Tr (warns a ++ warns b) (thrown b)
  end.
Definition seqs (l : list trace) : trace := fold_right seq ok l.

Section Model.
  Variable T : Type.
  Variable ltb : T -> T -> bool.

  Definition kind_of (b : bounds T) : mkind :=
    match b with Lower _ => MLower | Upper _ => MUpper | Both _ _ => MBoth end.

  (* the condition tested by the C++: (value < lBound), (value > uBound), (value < lBound) || (value > uBound) *)
  Definition oob (b : bounds T) (v : T) : bool :=
    match b with
    | Lower lb => ltb v lb
    | Upper ub => ltb ub v
    | Both lb ub => ltb v lb || ltb ub v
    end.

  (* BoundsCheckBase::lowerBoundCheck / upperBoundCheck / lowerAndUpperBoundsChecks on one scalar *)
  Definition check1 (p : policy) (b : bounds T) (tag : nat * nat) (v : T) : trace :=
    if oob b v then
      match p with
      | NoPolicy => ok
      | Strict => Tr [] (Some (Ev (kind_of b) tag))
      | Warning => Tr [Ev (kind_of b) tag] None
      end
    else ok.

  (* BoundsCheck<2u>::lowerAndUpperBoundsChecks(name, quantity, lb, ub, p): lower check then upper check *)
  Definition check1_q2 (p : policy) (b : bounds T) (tag : nat * nat) (v : T) : trace :=
    match b with
    | Both lb ub => seq (check1 p (Lower lb) tag v) (check1 p (Upper ub) tag v)
    | _ => check1 p b tag v
    end.

  (* BoundsCheck<N>::xxx(name, stensor, ...): components 0..size-1 in order, message names name(i) *)
  Fixpoint check_comps (p : policy) (b : bounds T) (var : nat) (i : nat) (vs : list T) : trace :=
    match vs with
    | [] => ok
    | v :: r => seq (check1 p b (var, S i) v) (check_comps p b var (S i) r)
    end.
  Definition check_tensor (p : policy) (b : bounds T) (var : nat) (vs : list T) : trace :=
    check_comps p b var 0 vs.

  (* ---- values and shapes of behaviour variables ------------------------------------------------ *)
  Inductive value := VScalar (v : T) | VTensor (vs : list T).
  (* quantity = true: the C++ type is a tfel::math::qt<> (behaviour compiled with @UseQt true);
     dim2 = true: space dimension N = 2 (selects the BoundsCheck<2u> overload set) *)
  Definition check_value (quantity dim2 : bool) (p : policy) (b : bounds T) (var : nat) (x : value) : trace :=
    match x with
    | VScalar v => if quantity && dim2 then check1_q2 p b (var, 0) v else check1 p b (var, 0) v
    | VTensor vs => check_tensor p b var vs
    end.

  (* bounds declared for ONE component of a non-scalar variable (`@Bounds s(k) in ...`): the emitted call is the
     scalar check on `s[k]`, named "s(k)"; only that component is concerned (a component index that does not
     exist in the current space dimension is not modelled: nothing is checked) *)
  Definition check_component (p : policy) (b : bounds T) (var : nat) (k : nat) (x : value) : trace :=
    match x with
    | VScalar v => check1 p b (var, 0) v
    | VTensor vs => match nth_error vs k with
                    | Some v => check1 p b (var, S k) v
                    | None => ok
                    end
    end.

  (* ---- the code emitted by mfront for a behaviour ---------------------------------------------- *)
  (* one `vardecl` per scalar/tensor variable and per ELEMENT of an array of variables (bounds may be declared for the
     whole array, `@Bounds x in ...`, or per element, `@Bounds x[1] in ...`: the emitted check of element i uses the
     bounds of element i) *)
  Inductive category := MaterialProperty | Persistent | ExternalState | LocalVar.
  Record vardecl := VD {
    vd_id : nat;                       (* identifies the variable in messages *)
    vd_cat : category;
    vd_bounds : option (bounds T);     (* @Bounds *)
    vd_phys : option (bounds T);       (* @PhysicalBounds *)
    vd_bcomp : option nat;             (* @Bounds v(k): component concerned (None: all) *)
    vd_pcomp : option nat }.           (* @PhysicalBounds v(k) *)

  (* one emitted call: physical? / variable / checks `v` or `v+dv` / bounds / single component *)
  Record call := Call { c_phys : bool; c_var : nat; c_plus_d : bool; c_bounds : bounds T; c_comp : option nat }.

  Definition calls_of (phys : bool) (with_d : bool) (d : vardecl) : list call :=
    match (if phys then vd_phys d else vd_bounds d) with
    | None => []
    | Some b => let k := if phys then vd_pcomp d else vd_bcomp d in
                Call phys (vd_id d) false b k :: (if with_d then [Call phys (vd_id d) true b k] else [])
    end.

  Definition of_cat (c : category) (ds : list vardecl) : list vardecl :=
    filter (fun d => match vd_cat d, c with
                     | MaterialProperty, MaterialProperty | Persistent, Persistent
                     | ExternalState, ExternalState | LocalVar, LocalVar => true
                     | _, _ => false end) ds.

  Definition block (phys : bool) (ds : list vardecl) : list call :=
    flat_map (calls_of phys false) (of_cat MaterialProperty ds) ++
    flat_map (calls_of phys false) (of_cat Persistent ds) ++
    flat_map (calls_of phys true) (of_cat ExternalState ds) ++
    flat_map (calls_of phys false) (of_cat LocalVar ds).

  (* BehaviourCodeGeneratorBase::writeBehaviourCheckBounds: all physical bounds, then all bounds *)
  Definition checkBounds_calls (ds : list vardecl) : list call := block true ds ++ block false ds.
  (* end of integrate() (Default DSL: BehaviourCodeGeneratorBase::writeBehaviourIntegrator; Implicit:
     ImplicitCodeGeneratorBase; IsotropicMisesCreep: IsotropicMisesCreepCodeGenerator -- same two loops):
     persistent variables at their end-of-step values, physical bounds then bounds *)
  Definition integrate_calls (ds : list vardecl) : list call :=
    flat_map (calls_of true false) (of_cat Persistent ds) ++ flat_map (calls_of false false) (of_cat Persistent ds).

  (* environment: value of variable `id` (plus_d = the end-of-step value v+dv) *)
  Definition env := nat -> bool -> value.

  (* a physical-bounds call is emitted WITHOUT the policy argument: the C++ default `p = Strict` applies *)
  Definition exec_call (quantity dim2 : bool) (p : policy) (e : env) (c : call) : trace :=
    let tagv := c_var c + (if c_plus_d c then 1000 else 0) in
    let pol := if c_phys c then Strict else p in
    match c_comp c with
    | None => check_value quantity dim2 pol (c_bounds c) tagv (e (c_var c) (c_plus_d c))
    | Some k => check_component pol (c_bounds c) tagv k (e (c_var c) (c_plus_d c))
    end.

  Definition exec (quantity dim2 : bool) (p : policy) (e : env) (cs : list call) : trace :=
    seqs (map (exec_call quantity dim2 p e) cs).
End Model.

Arguments VScalar {T}. Arguments VTensor {T}.
Arguments VD {T}. Arguments Call {T}.

(* ---- executable instance: doubles as extended dyadic numbers (value = z / 2^k for a fixed k chosen by the
   harness), +-infinity and NaN; `<` of IEEE-754: false whenever a NaN is involved ----------------------- *)
Inductive xz := XNaN | XMInf | XFin (z : Z) | XPInf.
Definition xz_ltb (a b : xz) : bool :=
  match a, b with
  | XNaN, _ | _, XNaN => false
  | XMInf, XMInf => false
  | XMInf, _ => true
  | _, XMInf => false
  | XPInf, _ => false
  | _, XPInf => true
  | XFin x, XFin y => Z.ltb x y
  end.

(* encoding of traces for the harness: warning -> [1;kind;var;comp], throw -> [2;kind;var;comp] *)
Definition kcode (k : mkind) : Z := match k with MLower => 0 | MUpper => 1 | MBoth => 2 end%Z.
Definition encode (t : trace) : list (list Z) :=
  map (fun e => [1%Z; kcode (ev_kind e); Z.of_nat (fst (ev_tag e)); Z.of_nat (snd (ev_tag e))]) (warns t) ++
  match thrown t with
  | Some e => [[2%Z; kcode (ev_kind e); Z.of_nat (fst (ev_tag e)); Z.of_nat (snd (ev_tag e))]]
  | None => []
  end.

(* environment from an association list ((id, plus_d), value); missing -> scalar NaN *)
Definition env_of (l : list ((nat * bool) * value xz)) : env xz :=
  fun id pd =>
    match find (fun kv => Nat.eqb (fst (fst kv)) id && Bool.eqb (snd (fst kv)) pd) l with
    | Some kv => snd kv
    | None => VScalar XNaN
    end.

(* C27 -- property theorems (statements only; proofs are in C27Proofs.v).  The model C27Model is instantiated
   with the reals and their order: every value, every bound, every policy. *)
From Coq Require Import Reals List Bool.
From C27 Require Import C27Model C27Spec C27Proofs.
Import ListNotations.
Local Open Scope R_scope.

(* Strict: throws exactly when the value is outside its bounds, never warns; the exception names the bound kind *)
Theorem C27_strict_throws_iff_outside : forall b tag v,
  (throws (check1 R Rltb Strict b tag v) <-> outside b v) /\ warns (check1 R Rltb Strict b tag v) = [] /\
  (outside b v -> thrown (check1 R Rltb Strict b tag v) = Some (Ev (kind_of R b) tag)).
Proof. exact strict_scalar. Qed.
Print Assumptions C27_strict_throws_iff_outside.

(* Warning: never throws, warns exactly in that case (one line) *)
Theorem C27_warning_never_throws_warns_iff_outside : forall b tag v,
  ~ throws (check1 R Rltb Warning b tag v) /\
  (warns_something (check1 R Rltb Warning b tag v) <-> outside b v) /\
  (outside b v -> warns (check1 R Rltb Warning b tag v) = [Ev (kind_of R b) tag]).
Proof. exact warning_scalar. Qed.
Print Assumptions C27_warning_never_throws_warns_iff_outside.

(* None: neither *)
Theorem C27_none_silent : forall b tag v, silent (check1 R Rltb NoPolicy b tag v).
Proof. exact none_scalar. Qed.
Print Assumptions C27_none_silent.

(* bounds are inclusive: a value equal to a bound (or anywhere between) passes under every policy *)
Theorem C27_bounds_inclusive : forall p tag lb ub v,
  (lb <= v <= ub -> silent (check1 R Rltb p (Both lb ub) tag v)) /\
  (lb <= v -> silent (check1 R Rltb p (Lower lb) tag v)) /\
  (v <= ub -> silent (check1 R Rltb p (Upper ub) tag v)).
Proof. exact inclusive. Qed.
Print Assumptions C27_bounds_inclusive.

(* the BoundsCheck<2u> overload for quantities (lower check then upper check) decides the same *)
Theorem C27_quantity_2D_overload : forall b tag v,
  (throws (check1_q2 R Rltb Strict b tag v) <-> outside b v) /\
  ~ throws (check1_q2 R Rltb Warning b tag v) /\
  (warns_something (check1_q2 R Rltb Warning b tag v) <-> outside b v) /\
  silent (check1_q2 R Rltb NoPolicy b tag v).
Proof. exact q2_scalar. Qed.
Print Assumptions C27_quantity_2D_overload.

(* tensors, any number of components: Strict throws for the FIRST component outside the bounds and only then *)
Theorem C27_tensor_strict : forall b var vs,
  warns (check_tensor R Rltb Strict b var vs) = [] /\
  (forall e, thrown (check_tensor R Rltb Strict b var vs) = Some e <->
             exists j, first_outside b vs j /\ e = Ev (kind_of R b) (var, S (0 + j))).
Proof. intros; exact (comps_strict b var 0 vs). Qed.
Print Assumptions C27_tensor_strict.

(* tensors: Warning never throws; one warning per component outside the bounds, in order *)
Theorem C27_tensor_warning : forall b var vs,
  thrown (check_tensor R Rltb Warning b var vs) = None /\
  (exists ks, warns (check_tensor R Rltb Warning b var vs) = map (fun k => Ev (kind_of R b) (var, k)) ks /\
     forall k, In k ks <-> exists j, (j < length vs)%nat /\ k = S (0 + j) /\ outside b (nth j vs 0)).
Proof.
  intros; split; [exact (comps_warning_no_throw b var 0 vs)|].
  exists (outside_indices b 0 vs); split; [exact (comps_warning_list b var 0 vs) | exact (in_outside_indices b 0 vs)].
Qed.
Print Assumptions C27_tensor_warning.

Theorem C27_tensor_none : forall b var vs, silent (check_tensor R Rltb NoPolicy b var vs).
Proof. intros; exact (comps_none b var 0 vs). Qed.
Print Assumptions C27_tensor_none.

(* tensors: when exactly one component, j, is outside the bounds, Strict throws naming j, Warning prints the single
   warning naming j, None does nothing (every component position is decisive on its own) *)
Theorem C27_tensor_single_violation : forall b var vs j, only_outside b vs j ->
  thrown (check_tensor R Rltb Strict b var vs) = Some (Ev (kind_of R b) (var, S j)) /\
  warns (check_tensor R Rltb Warning b var vs) = [Ev (kind_of R b) (var, S j)] /\
  thrown (check_tensor R Rltb Warning b var vs) = None /\
  check_tensor R Rltb NoPolicy b var vs = ok.
Proof. exact tensor_single_violation. Qed.
Print Assumptions C27_tensor_single_violation.

(* scalar, quantity (both overload sets) or tensor value: the check throws exactly under Strict when some component
   is outside the bounds *)
Theorem C27_value_check_throws_iff : forall q d2 p b var x,
  throws (check_value R Rltb q d2 p b var x) <-> (p = Strict /\ value_outside b x).
Proof. exact throws_check_value. Qed.
Print Assumptions C27_value_check_throws_iff.

(* bounds declared for one component (`@Bounds s(k) in ...`): the check depends on that component only ... *)
Theorem C27_component_check_concerns_only_that_component : forall p b var k vs vs',
  nth_error vs k = nth_error vs' k ->
  check_component R Rltb p b var k (VTensor vs) = check_component R Rltb p b var k (VTensor vs').
Proof. exact component_only. Qed.
Print Assumptions C27_component_check_concerns_only_that_component.

(* ... and follows the policies on it: Strict throws (naming component k) iff it is outside, Warning never throws and
   prints one warning iff it is outside, None is silent *)
Theorem C27_component_check_policies : forall b var k vs v, nth_error vs k = Some v ->
  (throws (check_component R Rltb Strict b var k (VTensor vs)) <-> outside b v) /\
  (outside b v -> thrown (check_component R Rltb Strict b var k (VTensor vs)) = Some (Ev (kind_of R b) (var, S k))) /\
  ~ throws (check_component R Rltb Warning b var k (VTensor vs)) /\
  (warns_something (check_component R Rltb Warning b var k (VTensor vs)) <-> outside b v) /\
  (outside b v -> warns (check_component R Rltb Warning b var k (VTensor vs)) = [Ev (kind_of R b) (var, S k)]) /\
  silent (check_component R Rltb NoPolicy b var k (VTensor vs)).
Proof. exact component_check. Qed.
Print Assumptions C27_component_check_policies.

(* emitted code: the physical-bounds block behaves the same under every policy ... *)
Theorem C27_physical_bounds_ignore_policy : forall q d2 p1 p2 e ds,
  exec R Rltb q d2 p1 e (block R true ds) = exec R Rltb q d2 p2 e (block R true ds).
Proof. exact physical_ignore_policy. Qed.
Print Assumptions C27_physical_bounds_ignore_policy.

(* ... and any emitted sequence of checks (checkBounds(), end of integrate()) throws exactly when some physical
   bound is violated, or some bound is violated under Strict; for scalar, quantity, tensor values, bounds on the whole
   variable or on one component (`violated` looks at the selected component(s) only) *)
Theorem C27_emitted_checks_throw_iff : forall q d2 p e cs,
  throws (exec R Rltb q d2 p e cs) <->
  exists c, In c cs /\ (c_phys R c = true \/ p = Strict) /\ violated e c.
Proof. exact exec_throws. Qed.
Print Assumptions C27_emitted_checks_throw_iff.

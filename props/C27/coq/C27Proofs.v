(* C27 -- lemmas about the model *)
From Coq Require Import Reals List Bool Lra Lia.
From C27 Require Import C27Model C27Spec.
Import ListNotations.
Local Open Scope R_scope.

Lemma Rltb_true a b : Rltb a b = true <-> a < b.
Proof. unfold Rltb; destruct (Rlt_dec a b); split; intros; try assumption; try reflexivity; try discriminate; contradiction. Qed.

Lemma oob_outside b v : oob R Rltb b v = true <-> outside b v.
Proof.
  destruct b; simpl; rewrite ?orb_true_iff, ?Rltb_true; unfold Rgt; tauto.
Qed.

Lemma oob_outside_false b v : oob R Rltb b v = false <-> ~ outside b v.
Proof.
  rewrite <- oob_outside. destruct (oob R Rltb b v); split; intros H.
  - discriminate.
  - exfalso; apply H; reflexivity.
  - discriminate.
  - reflexivity.
Qed.

(* ---- one scalar ------------------------------------------------------------------------------------ *)
Lemma strict_scalar b tag v :
  (throws (check1 R Rltb Strict b tag v) <-> outside b v) /\ warns (check1 R Rltb Strict b tag v) = [] /\
  (outside b v -> thrown (check1 R Rltb Strict b tag v) = Some (Ev (kind_of R b) tag)).
Proof.
  unfold check1, throws. destruct (oob R Rltb b v) eqn:E; simpl.
  - apply oob_outside in E.
    split; [split; [auto | intros _; discriminate] | split; [reflexivity | auto]].
  - apply oob_outside_false in E.
    split; [split; [intros H; exfalso; apply H; reflexivity | intros H; contradiction]
           | split; [reflexivity | intros H; contradiction]].
Qed.

Lemma warning_scalar b tag v :
  ~ throws (check1 R Rltb Warning b tag v) /\
  (warns_something (check1 R Rltb Warning b tag v) <-> outside b v) /\
  (outside b v -> warns (check1 R Rltb Warning b tag v) = [Ev (kind_of R b) tag]).
Proof.
  unfold check1, throws, warns_something. destruct (oob R Rltb b v) eqn:E; simpl.
  - apply oob_outside in E.
    split; [intros H; apply H; reflexivity | split; [split; [auto | intros _; discriminate] | auto]].
  - apply oob_outside_false in E.
    split; [intros H; apply H; reflexivity
           | split; [split; [intros H; exfalso; apply H; reflexivity | intros H; contradiction]
                    | intros H; contradiction]].
Qed.

Lemma none_scalar b tag v : silent (check1 R Rltb NoPolicy b tag v).
Proof. unfold check1, silent. destruct (oob R Rltb b v); reflexivity. Qed.

Lemma inside_silent p b tag v : ~ outside b v -> silent (check1 R Rltb p b tag v).
Proof. intros H. apply oob_outside_false in H. unfold check1, silent. rewrite H. reflexivity. Qed.

Lemma inclusive p tag lb ub v :
  (lb <= v <= ub -> silent (check1 R Rltb p (Both lb ub) tag v)) /\
  (lb <= v -> silent (check1 R Rltb p (Lower lb) tag v)) /\
  (v <= ub -> silent (check1 R Rltb p (Upper ub) tag v)).
Proof. repeat split; intros; apply inside_silent; simpl; lra. Qed.

(* the BoundsCheck<2u> quantity overload (lower check, then upper check) decides the same *)
Lemma q2_scalar b tag v :
  (throws (check1_q2 R Rltb Strict b tag v) <-> outside b v) /\
  ~ throws (check1_q2 R Rltb Warning b tag v) /\
  (warns_something (check1_q2 R Rltb Warning b tag v) <-> outside b v) /\
  silent (check1_q2 R Rltb NoPolicy b tag v).
Proof.
  destruct b as [lb|ub|lb ub]; simpl.
  - pose proof (strict_scalar (Lower lb) tag v); pose proof (warning_scalar (Lower lb) tag v);
      pose proof (none_scalar (Lower lb) tag v); tauto.
  - pose proof (strict_scalar (Upper ub) tag v); pose proof (warning_scalar (Upper ub) tag v);
      pose proof (none_scalar (Upper ub) tag v); tauto.
  - unfold check1, seq, throws, warns_something, silent; simpl.
    destruct (Rltb v lb) eqn:E1; destruct (Rltb ub v) eqn:E2; simpl;
      try (apply Rltb_true in E1); try (apply Rltb_true in E2);
      repeat split; intros; try discriminate; try congruence; auto; try tauto;
      try (exfalso;
           assert (N1 : ~ v < lb) by (intro A; apply Rltb_true in A; congruence);
           assert (N2 : ~ ub < v) by (intro A; apply Rltb_true in A; congruence);
           unfold Rgt in *; tauto).
Qed.

(* ---- sequences ------------------------------------------------------------------------------------- *)
Lemma seq_ok_l t : seq ok t = t.
Proof. unfold seq; simpl. destruct t; reflexivity. Qed.

Lemma throws_seqs l : throws (seqs l) <-> exists t, In t l /\ throws t.
Proof.
  unfold throws. induction l as [|a l IH]; simpl.
  - split; [intros H; exfalso; apply H; reflexivity | intros (t & [] & _)].
  - unfold seq at 1. destruct (thrown a) eqn:E.
    + split; intros _; [exists a; split; auto; congruence | congruence].
    + simpl. rewrite IH. split.
      * intros (t & Hin & Ht); exists t; auto.
      * intros (t & [->|Hin] & Ht); [congruence | exists t; auto].
Qed.

(* ---- tensors ----------------------------------------------------------------------------------------- *)
Lemma comps_none b var i vs : check_comps R Rltb NoPolicy b var i vs = ok.
Proof.
  revert i; induction vs as [|v r IH]; intros i; simpl; auto.
  rewrite (none_scalar b (var, S i) v), IH. reflexivity.
Qed.

Lemma comps_warning_no_throw b var i vs : thrown (check_comps R Rltb Warning b var i vs) = None.
Proof.
  revert i; induction vs as [|v r IH]; intros i; simpl; auto.
  unfold seq. destruct (warning_scalar b (var, S i) v) as (Hn & _).
  unfold throws in Hn. destruct (thrown (check1 R Rltb Warning b (var, S i) v)) eqn:E.
  - exfalso; apply Hn; congruence.
  - simpl. apply IH.
Qed.

(* the warnings are exactly the components outside the bounds, in order *)
Fixpoint outside_indices (b : bounds R) (i : nat) (vs : list R) : list nat :=
  match vs with
  | [] => []
  | v :: r => (if oob R Rltb b v then [S i] else []) ++ outside_indices b (S i) r
  end.

Lemma comps_warning_list b var i vs :
  warns (check_comps R Rltb Warning b var i vs) = map (fun k => Ev (kind_of R b) (var, k)) (outside_indices b i vs).
Proof.
  revert i; induction vs as [|v r IH]; intros i; simpl; auto.
  unfold seq, check1. destruct (oob R Rltb b v); simpl; rewrite IH; reflexivity.
Qed.

Lemma in_outside_indices b i vs k :
  In k (outside_indices b i vs) <-> exists j, (j < length vs)%nat /\ k = S (i + j) /\ outside b (nth j vs 0).
Proof.
  revert i; induction vs as [|v r IH]; intros i; simpl.
  - split; [tauto | intros (j & Hj & _); lia].
  - rewrite in_app_iff, IH. split.
    + intros [H | (j & Hj & -> & Ho)].
      * destruct (oob R Rltb b v) eqn:E; simpl in H; [|tauto]. destruct H as [<-|[]].
        exists 0%nat. split; [lia|]. split; [f_equal; lia|]. now apply oob_outside.
      * exists (S j). split; [lia|]. split; [f_equal; lia|]. exact Ho.
    + intros (j & Hj & -> & Ho). destruct j as [|j].
      * left. apply oob_outside in Ho. rewrite Ho. left. f_equal; lia.
      * right. exists j. split; [lia|]. split; [f_equal; lia|]. exact Ho.
Qed.

Lemma comps_strict b var i vs :
  warns (check_comps R Rltb Strict b var i vs) = [] /\
  (forall e, thrown (check_comps R Rltb Strict b var i vs) = Some e <->
             exists j, first_outside b vs j /\ e = Ev (kind_of R b) (var, S (i + j))).
Proof.
  revert i; induction vs as [|v r IH]; intros i; simpl.
  - split; auto. intros e; split; [discriminate | intros (j & (Hj & _) & _); simpl in Hj; lia].
  - unfold seq, check1. destruct (oob R Rltb b v) eqn:E; simpl.
    + split; auto. intros e; split.
      * intros H; inversion H; subst. exists 0%nat. split.
        -- repeat split; simpl; try lia. now apply oob_outside. 
        -- f_equal. f_equal. lia.
      * intros (j & (Hj & Ho & Hf) & ->). destruct j as [|j].
        -- do 3 f_equal. lia.
        -- exfalso. apply (Hf 0%nat); try lia. simpl. now apply oob_outside.
    + destruct (IH (S i)) as (Hw & Ht). split; [exact Hw|].
      intros e. rewrite Ht. apply oob_outside_false in E. split.
      * intros (j & (Hj & Ho & Hf) & ->). exists (S j). split.
        -- repeat split; simpl; try lia; auto. intros k Hk. destruct k; simpl; auto. apply Hf; lia.
        -- do 2 f_equal. lia.
      * intros (j & (Hj & Ho & Hf) & ->). destruct j as [|j]; [simpl in Ho; contradiction|].
        exists j. split.
        -- repeat split; simpl in *; try lia; auto. intros k Hk. apply (Hf (S k)); lia.
        -- do 2 f_equal. lia.
Qed.

(* ---- values -------------------------------------------------------------------------------------------- *)
Lemma throws_check_value q d2 p b var x :
  throws (check_value R Rltb q d2 p b var x) <-> (p = Strict /\ value_outside b x).
Proof.
  unfold value_outside. destruct x as [v|vs]; simpl.
  - assert (S1 : (exists w, (v = w \/ False) /\ outside b w) <-> outside b v).
    { split; [intros (w & [->|[]] & H); exact H | intros H; exists v; auto]. }
    rewrite S1. destruct (q && d2).
    + destruct (q2_scalar b (var, 0%nat) v) as (A & B & _ & D). destruct p.
      * split; [tauto | intros (H & _); discriminate].
      * tauto.
      * rewrite D. split; [intros H; exfalso; apply H; reflexivity | intros (H & _); discriminate].
    + destruct p.
      * destruct (warning_scalar b (var, 0%nat) v) as (A & _). split; [tauto | intros (H & _); discriminate].
      * destruct (strict_scalar b (var, 0%nat) v) as (A & _). tauto.
      * rewrite (none_scalar b (var, 0%nat) v). split; [intros H; exfalso; apply H; reflexivity | intros (H & _); discriminate].
  - unfold check_tensor. destruct p.
    + unfold throws. rewrite comps_warning_no_throw. split; [congruence | intros (H & _); discriminate].
    + destruct (comps_strict b var 0 vs) as (_ & Ht). unfold throws. split.
      * intros H. split; auto. destruct (thrown (check_comps R Rltb Strict b var 0 vs)) eqn:E; [|congruence].
        destruct (proj1 (Ht e) eq_refl) as (j & (Hj & Ho & _) & _). exists (nth j vs 0). split; auto. now apply nth_In.
      * intros (_ & (w & Hin & Ho)).
        (* there is a first outside component *)
        assert (Hex : exists j, first_outside b vs j).
        { clear Ht. induction vs as [|a r IH]; [destruct Hin|].
          destruct (oob R Rltb b a) eqn:E.
          - exists 0%nat. repeat split; simpl; try lia. now apply oob_outside.
          - apply oob_outside_false in E. destruct Hin as [->|Hin]; [contradiction|].
            destruct (IH Hin) as (j & Hj & Hoj & Hf). exists (S j). repeat split; simpl; try lia; auto.
            intros k Hk. destruct k; auto. apply Hf; lia. }
        destruct Hex as (j & Hj). intros E.
        assert (Hs : thrown (check_comps R Rltb Strict b var 0 vs) = Some (Ev (kind_of R b) (var, S (0 + j)))).
        { apply Ht. exists j; auto. }
        congruence.
    + rewrite comps_none. split; [intros H; exfalso; apply H; reflexivity | intros (H & _); discriminate].
Qed.

(* ---- one component ----------------------------------------------------------------------------------- *)
Lemma throws_check1 p b tag v : throws (check1 R Rltb p b tag v) <-> (p = Strict /\ outside b v).
Proof.
  destruct p.
  - destruct (warning_scalar b tag v) as (A & _). split; [tauto | intros (H & _); discriminate].
  - destruct (strict_scalar b tag v) as (A & _). tauto.
  - rewrite (none_scalar b tag v). split; [intros H; exfalso; apply H; reflexivity | intros (H & _); discriminate].
Qed.

Lemma throws_check_component p b var k x :
  throws (check_component R Rltb p b var k x) <-> (p = Strict /\ selection_outside b (Some k) x).
Proof.
  unfold selection_outside, selected, check_component. destruct x as [v|vs].
  - rewrite throws_check1. split.
    + intros (H & Ho). split; auto. exists v. simpl; auto.
    + intros (H & (w & [->|[]] & Ho)). auto.
  - destruct (nth_error vs k) as [v|].
    + rewrite throws_check1. split.
      * intros (H & Ho). split; auto. exists v. simpl; auto.
      * intros (H & (w & [->|[]] & Ho)). auto.
    + split.
      * intros H. exfalso. apply H. reflexivity.
      * intros (_ & (w & [] & _)).
Qed.

(* a check restricted to component k depends on that component only, names it, and follows the policy *)
Lemma component_only p b var k vs vs' : nth_error vs k = nth_error vs' k ->
  check_component R Rltb p b var k (VTensor vs) = check_component R Rltb p b var k (VTensor vs').
Proof. intros H. unfold check_component. rewrite H. reflexivity. Qed.

Lemma component_check b var k vs v : nth_error vs k = Some v ->
  (throws (check_component R Rltb Strict b var k (VTensor vs)) <-> outside b v) /\
  (outside b v -> thrown (check_component R Rltb Strict b var k (VTensor vs)) = Some (Ev (kind_of R b) (var, S k))) /\
  ~ throws (check_component R Rltb Warning b var k (VTensor vs)) /\
  (warns_something (check_component R Rltb Warning b var k (VTensor vs)) <-> outside b v) /\
  (outside b v -> warns (check_component R Rltb Warning b var k (VTensor vs)) = [Ev (kind_of R b) (var, S k)]) /\
  silent (check_component R Rltb NoPolicy b var k (VTensor vs)).
Proof.
  intros H. unfold check_component. rewrite H.
  destruct (strict_scalar b (var, S k) v) as (A1 & _ & A3).
  destruct (warning_scalar b (var, S k) v) as (B1 & B2 & B3).
  pose proof (none_scalar b (var, S k) v) as C1.
  repeat split; try tauto; auto; try (apply A1); try (apply B2).
Qed.

(* ---- tensors with a single component outside ------------------------------------------------------------ *)
Lemma outside_indices_nil b i vs :
  (forall k, (k < length vs)%nat -> ~ outside b (nth k vs 0)) -> outside_indices b i vs = [].
Proof.
  revert i; induction vs as [|v r IH]; intros i H; simpl; auto.
  assert (E : oob R Rltb b v = false) by (apply oob_outside_false; apply (H 0%nat); simpl; lia).
  rewrite E. simpl. apply IH. intros k Hk. apply (H (S k)). simpl; lia.
Qed.

Lemma outside_indices_single b i vs j : only_outside b vs j -> outside_indices b i vs = [S (i + j)].
Proof.
  revert i j; induction vs as [|v r IH]; intros i j (Hj & Ho & Hn); simpl in *; [lia|].
  destruct j as [|j].
  - apply oob_outside in Ho. rewrite Ho. simpl. f_equal; [f_equal; lia|].
    apply outside_indices_nil. intros k Hk. apply (Hn (S k)); lia.
  - assert (E : oob R Rltb b v = false) by (apply oob_outside_false; apply (Hn 0%nat); lia).
    rewrite E. simpl. rewrite (IH (S i) j).
    + do 2 f_equal. lia.
    + repeat split; [lia | exact Ho |]. intros k Hk Hkj. apply (Hn (S k)); lia.
Qed.

Lemma only_first_outside b vs j : only_outside b vs j -> first_outside b vs j.
Proof.
  intros (Hj & Ho & Hn). repeat split; auto. intros k Hk. apply Hn; lia.
Qed.

Lemma tensor_single_violation b var vs j : only_outside b vs j ->
  thrown (check_tensor R Rltb Strict b var vs) = Some (Ev (kind_of R b) (var, S j)) /\
  warns (check_tensor R Rltb Warning b var vs) = [Ev (kind_of R b) (var, S j)] /\
  thrown (check_tensor R Rltb Warning b var vs) = None /\
  check_tensor R Rltb NoPolicy b var vs = ok.
Proof.
  intros H. unfold check_tensor. split; [|split; [|split]].
  - destruct (comps_strict b var 0 vs) as (_ & Ht). apply Ht. exists j. split; [now apply only_first_outside | reflexivity].
  - rewrite comps_warning_list, (outside_indices_single b 0 vs j H). reflexivity.
  - apply comps_warning_no_throw.
  - apply comps_none.
Qed.

(* ---- emitted code ------------------------------------------------------------------------------------ *)
Definition violated (e : env R) (c : call R) : Prop :=
  selection_outside (c_bounds R c) (c_comp R c) (e (c_var R c) (c_plus_d R c)).

Lemma exec_throws q d2 p e cs :
  throws (exec R Rltb q d2 p e cs) <->
  exists c, In c cs /\ (c_phys R c = true \/ p = Strict) /\ violated e c.
Proof.
  unfold exec. rewrite throws_seqs. split.
  - intros (t & Hin & Ht). apply in_map_iff in Hin. destruct Hin as (c & <- & Hc).
    exists c. split; [exact Hc|]. unfold violated. unfold exec_call in Ht. revert Ht.
    destruct (c_comp R c) as [k|]; intros Ht;
      [apply throws_check_component in Ht | apply throws_check_value in Ht];
      destruct Ht as (Hp & Hv); (split; [|exact Hv]); destruct (c_phys R c); auto.
  - intros (c & Hc & Hp & Hv). exists (exec_call R Rltb q d2 p e c). split; [now apply in_map|].
    unfold exec_call. unfold violated in Hv. revert Hv.
    destruct (c_comp R c) as [k|]; intros Hv;
      [apply throws_check_component | apply throws_check_value]; (split; [|exact Hv]);
      destruct (c_phys R c); auto; (destruct Hp as [Hp|Hp]; [discriminate Hp | exact Hp]).
Qed.

Lemma exec_call_phys_policy q d2 p1 p2 e c : c_phys R c = true ->
  exec_call R Rltb q d2 p1 e c = exec_call R Rltb q d2 p2 e c.
Proof. intros H. unfold exec_call. rewrite H. reflexivity. Qed.

Lemma calls_of_phys b (d : vardecl R) c : In c (calls_of R true b d) -> c_phys R c = true.
Proof.
  unfold calls_of. destruct (vd_phys R d); simpl; [|tauto].
  destruct b; simpl; intros [<-|H]; auto; try destruct H as [<-|[]]; auto; tauto.
Qed.

Lemma block_phys ds c : In c (block R true ds) -> c_phys R c = true.
Proof.
  unfold block. rewrite !in_app_iff, !in_flat_map.
  intros [(d & _ & H)|[(d & _ & H)|[(d & _ & H)|(d & _ & H)]]]; eapply calls_of_phys; eauto.
Qed.

Lemma physical_ignore_policy q d2 p1 p2 e ds :
  exec R Rltb q d2 p1 e (block R true ds) = exec R Rltb q d2 p2 e (block R true ds).
Proof.
  unfold exec. f_equal. apply map_ext_in. intros c Hc. apply exec_call_phys_policy. eapply block_phys; eauto.
Qed.

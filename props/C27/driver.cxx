// C27 driver: runs the REAL tfel::material::BoundsCheckBase / BoundsCheck<N> functions of /repo on cases read from
// stdin, captures std::cerr (warnings) and OutOfBoundsException, prints what was observed.
// case line:  id type fp N kind lb ub policy nvals v0 v1 ...
//   type: b = BoundsCheckBase on F, d = BoundsCheck<N> on F, q = BoundsCheck<N> on qt<Stress,F>,
//         t = BoundsCheck<N> on stensor<N,F>, u = BoundsCheck<N> on stensor<N,qt<Stress,F>>
//   fp:   d = double, f = float, l = long double  (the floating-point type F)
//   kind: L U B ; policy: W S N or D (argument omitted: the default of the C++ signature)
//   values (and bounds): `x` or `x:k` where x is a C99 hexadecimal / decimal literal (nan, inf) exactly representable
//   in F and k in {-1,0,1}: the value is x moved k times by std::nextafter IN THE TYPE F (towards -inf / +inf)
#include <cmath>
#include <cstdlib>
#include <iostream>
#include <limits>
#include <sstream>
#include <string>
#include <vector>
#include "TFEL/Math/qt.hxx"
#include "TFEL/Math/stensor.hxx"
#include "TFEL/Material/BoundsCheck.hxx"
#include "TFEL/Material/MaterialException.hxx"

using namespace tfel::material;

template <typename F>
static F parse(const std::string& s) {
  const auto p = s.find(':');
  const auto base = static_cast<F>(std::strtold(s.substr(0, p).c_str(), nullptr));
  if (p == std::string::npos) return base;
  const int k = std::atoi(s.substr(p + 1).c_str());
  F v = base;
  for (int i = 0; i < (k < 0 ? -k : k); ++i) {
    v = std::nextafter(v, k < 0 ? -std::numeric_limits<F>::infinity() : std::numeric_limits<F>::infinity());
  }
  return v;
}

template <typename BC, typename V, typename B>
static void call(const std::string& n, const V& v, char kind, B lb, B ub, char pol) {
  const auto p = pol == 'W' ? Warning : (pol == 'S' ? Strict : None);
  if (kind == 'L') {
    if (pol == 'D') BC::lowerBoundCheck(n, v, lb); else BC::lowerBoundCheck(n, v, lb, p);
  } else if (kind == 'U') {
    if (pol == 'D') BC::upperBoundCheck(n, v, ub); else BC::upperBoundCheck(n, v, ub, p);
  } else {
    if (pol == 'D') BC::lowerAndUpperBoundsChecks(n, v, lb, ub); else BC::lowerAndUpperBoundsChecks(n, v, lb, ub, p);
  }
}

template <unsigned short N, typename F>
static void dispatch(char type, const std::vector<F>& vals, char kind, F lb, F ub, char pol) {
  using Stress = tfel::math::qt<tfel::math::unit::Stress, F>;
  const std::string n = "x";
  using BC = BoundsCheck<N>;
  if (type == 'd') {
    call<BC>(n, vals.at(0), kind, lb, ub, pol);
  } else if (type == 'q') {
    call<BC>(n, Stress(vals.at(0)), kind, lb, ub, pol);
  } else if (type == 't') {
    tfel::math::stensor<N, F> s;
    for (unsigned short i = 0; i != s.size(); ++i) s[i] = vals.at(i);
    call<BC>(n, s, kind, lb, ub, pol);
  } else if (type == 'u') {
    tfel::math::stensor<N, Stress> s;
    for (unsigned short i = 0; i != s.size(); ++i) s[i] = Stress(vals.at(i));
    call<BC>(n, s, kind, lb, ub, pol);
  } else {
    std::cout << "BADTYPE\n";
  }
}

template <typename F>
static void run(char type, int N, char kind, const std::string& slb, const std::string& sub, char pol,
                const std::vector<std::string>& svals) {
  const F lb = parse<F>(slb), ub = parse<F>(sub);
  std::vector<F> vals;
  for (const auto& s : svals) vals.push_back(parse<F>(s));
  if (type == 'b') {
    call<BoundsCheckBase>(std::string("x"), vals.at(0), kind, lb, ub, pol);
  } else if (N == 1) {
    dispatch<1, F>(type, vals, kind, lb, ub, pol);
  } else if (N == 2) {
    dispatch<2, F>(type, vals, kind, lb, ub, pol);
  } else {
    dispatch<3, F>(type, vals, kind, lb, ub, pol);
  }
}

int main() {
  std::string line;
  while (std::getline(std::cin, line)) {
    if (line.empty()) continue;
    std::istringstream is(line);
    std::string id, slb, sub;
    char type, fp, kind, pol;
    int N, nv;
    is >> id >> type >> fp >> N >> kind >> slb >> sub >> pol >> nv;
    std::vector<std::string> svals;
    for (int i = 0; i < nv; ++i) {
      std::string s;
      is >> s;
      svals.push_back(s);
    }
    std::ostringstream captured;
    auto* old = std::cerr.rdbuf(captured.rdbuf());
    std::string exc, other;
    try {
      if (fp == 'f') {
        run<float>(type, N, kind, slb, sub, pol, svals);
      } else if (fp == 'l') {
        run<long double>(type, N, kind, slb, sub, pol, svals);
      } else {
        run<double>(type, N, kind, slb, sub, pol, svals);
      }
    } catch (OutOfBoundsException& e) {
      exc = e.what();
    } catch (std::exception& e) {
      other = e.what();
    }
    std::cerr.rdbuf(old);
    std::cout << "CASE " << id << "\n";
    std::istringstream ws(captured.str());
    std::string w;
    while (std::getline(ws, w)) std::cout << "W " << w << "\n";
    if (!exc.empty()) std::cout << "T " << exc << "\n";
    if (!other.empty()) std::cout << "X " << other << "\n";
    std::cout << "END\n";
  }
  return 0;
}

// C27 driver: runs the REAL tfel::material::BoundsCheckBase / BoundsCheck<N> functions of /repo on cases read from
// stdin, captures std::cerr (warnings) and OutOfBoundsException, prints what was observed.
// case line:  id type N kind lb ub policy nvals v0 v1 ...
//   type: b = BoundsCheckBase on double, d = BoundsCheck<N> on double, q = BoundsCheck<N> on qt<Stress,double>,
//         t = BoundsCheck<N> on stensor<N,double>, u = BoundsCheck<N> on stensor<N,qt<Stress,double>>
//   kind: L U B ; policy: W S N or D (argument omitted: the default of the C++ signature)
#include <cstdlib>
#include <iostream>
#include <sstream>
#include <string>
#include <vector>
#include "TFEL/Math/qt.hxx"
#include "TFEL/Math/stensor.hxx"
#include "TFEL/Material/BoundsCheck.hxx"
#include "TFEL/Material/MaterialException.hxx"

using namespace tfel::material;
using Stress = tfel::math::qt<tfel::math::unit::Stress, double>;

template <typename BC, typename V, typename B>
static void call(const std::string& n, const V& v, char kind, B lb, B ub, char pol) {
  const auto p = pol == 'W' ? Warning : (pol == 'S' ? Strict : None);
  if (kind == 'L') {
    if (pol == 'D') BC::lowerBoundCheck(n, v, lb); else BC::lowerBoundCheck(n, v, lb, p);
  } else if (kind == 'U') {
    if (pol == 'D') BC::upperBoundCheck(n, v, ub); else BC::upperBoundCheck(n, v, ub, p);
  } else {
    if (pol == 'D') BC::lowerAndUpperBoundsChecks(n, v, lb, ub); else BC::lowerAndUpperBoundsChecks(n, v, lb, ub, p);
  }
}

template <unsigned short N>
static void dispatch(char type, const std::vector<double>& vals, char kind, double lb, double ub, char pol) {
  const std::string n = "x";
  using BC = BoundsCheck<N>;
  if (type == 'd') {
    call<BC>(n, vals.at(0), kind, lb, ub, pol);
  } else if (type == 'q') {
    call<BC>(n, Stress(vals.at(0)), kind, lb, ub, pol);
  } else if (type == 't') {
    tfel::math::stensor<N, double> s;
    for (unsigned short i = 0; i != s.size(); ++i) s[i] = vals.at(i);
    call<BC>(n, s, kind, lb, ub, pol);
  } else if (type == 'u') {
    tfel::math::stensor<N, Stress> s;
    for (unsigned short i = 0; i != s.size(); ++i) s[i] = Stress(vals.at(i));
    call<BC>(n, s, kind, lb, ub, pol);
  } else {
    std::cout << "BADTYPE\n";
  }
}

int main() {
  std::string line;
  while (std::getline(std::cin, line)) {
    if (line.empty()) continue;
    std::istringstream is(line);
    std::string id, slb, sub;
    char type, kind, pol;
    int N, nv;
    is >> id >> type >> N >> kind >> slb >> sub >> pol >> nv;
    const double lb = std::strtod(slb.c_str(), nullptr), ub = std::strtod(sub.c_str(), nullptr);
    std::vector<double> vals;
    for (int i = 0; i < nv; ++i) {
      std::string s;
      is >> s;
      vals.push_back(std::strtod(s.c_str(), nullptr));
    }
    std::ostringstream captured;
    auto* old = std::cerr.rdbuf(captured.rdbuf());
    std::string exc, other;
    try {
      if (type == 'b') {
        call<BoundsCheckBase>(std::string("x"), vals.at(0), kind, lb, ub, pol);
      } else if (N == 1) {
        dispatch<1>(type, vals, kind, lb, ub, pol);
      } else if (N == 2) {
        dispatch<2>(type, vals, kind, lb, ub, pol);
      } else {
        dispatch<3>(type, vals, kind, lb, ub, pol);
      }
    } catch (OutOfBoundsException& e) {
      exc = e.what();
    } catch (std::exception& e) {
      other = e.what();
    }
    std::cerr.rdbuf(old);
    std::cout << "CASE " << id << "\n";
    std::istringstream ws(captured.str());
    std::string w;
    while (std::getline(ws, w)) std::cout << "W " << w << "\n";
    if (!exc.empty()) std::cout << "T " << exc << "\n";
    if (!other.empty()) std::cout << "X " << other << "\n";
    std::cout << "END\n";
  }
  return 0;
}

#!/usr/bin/env python3
"""Build, OUTSIDE /repo, a private libTFELMFront.so / mfront-query from a scratch worktree of /repo in which some
mfront/src/*.cxx or mfront-query/src/*.cxx files were edited (candidate fixes, hand-made mutations).  Only the changed
translation units are recompiled (copied from props/C45/private_build.py; changed headers are tolerated when the change is
additive), with the command lines of /repo/_build's ninja files (source path redirected to the
worktree, object written to the output directory); the library / executable is relinked from /repo/_build's other
objects into the output directory.  Nothing is written into /repo or /repo/_build.

  python3 props/C27/private_build.py /tmp/wt_C27 /tmp/c27fix
  VERIF_MFRONT=/tmp/c27fix/mfront ./check C27
"""
import os, shlex, subprocess, sys

REPO, BUILD = "/repo", "/repo/_build"


def sh(cmd, cwd=BUILD):
    r = subprocess.run(cmd, shell=True, cwd=cwd, capture_output=True, text=True)
    if r.returncode != 0:
        sys.exit("FAILED: %s\n%s" % (cmd[:300], (r.stdout + r.stderr)[-4000:]))
    return r.stdout


def main():
    wt, out = os.path.abspath(sys.argv[1]), os.path.abspath(sys.argv[2])
    os.makedirs(out, exist_ok=True)
    changed = sh("git diff --name-only HEAD", cwd=wt).split()
    print("changed:", changed)
    lib_cmds = sh("ninja -t commands mfront/src/libTFELMFront.so").splitlines()
    exe_cmds = sh("ninja -t commands mfront-query/src/mfront-query").splitlines()
    repl_lib, repl_exe = {}, {}
    for f in changed:
        if not f.endswith(".cxx"):
            # headers: only ADDITIVE changes are supported (new declarations); the translation units that include them
            # and are not themselves changed are not recompiled
            print("header (not compiled by itself):", f)
            continue
        src = os.path.join(REPO, f)
        cmds = [l for l in (exe_cmds if f.startswith("mfront-query/") else lib_cmds) if (" -c " + src) in l]
        if not cmds:
            sys.exit("no compile command found for " + f)
        cmd = cmds[0]
        obj = [t for t in shlex.split(cmd) if t.endswith(".o") and not t.startswith("-")][-1]
        new = os.path.join(out, os.path.basename(obj))
        toks = shlex.split(cmd)
        toks = [os.path.join(wt, f) if t == src else new if t == obj else (new + ".d" if t.endswith(".o.d") else t) for t in toks]
        # headers are taken from the worktree first (a changed header must be seen by the recompiled units)
        toks2 = []
        for t in toks:
            if t.startswith("-I" + REPO + "/") and not t.startswith("-I" + BUILD):
                toks2.append("-I" + os.path.join(wt, t[len("-I" + REPO + "/"):]))
            toks2.append(t)
        toks = toks2
        sh(" ".join(shlex.quote(t) for t in toks))
        (repl_exe if f.startswith("mfront-query/") else repl_lib)[obj] = new
        print("compiled", f)
    libname = "libTFELMFront.so.5.2.0-dev"
    if repl_lib:
        link = [l for l in lib_cmds if "-shared" in l and "libTFELMFront.so" in l][0]
        link = link.split("&&")[1].strip() if link.strip().startswith(":") else link
        toks = [repl_lib.get(t, t) for t in shlex.split(link)]
        libname = os.path.basename(toks[toks.index("-o") + 1])
        toks[toks.index("-o") + 1] = os.path.join(out, libname)
        sh(" ".join(shlex.quote(t) for t in toks))
        print("linked", os.path.join(out, libname))
    with open(os.path.join(out, "mfront"), "w") as f:
        f.write("#!/bin/sh\n# the mfront of /repo/_build running with a privately rebuilt libTFELMFront (%s)\n"
                "LD_LIBRARY_PATH=%s:$LD_LIBRARY_PATH exec /repo/_build/mfront/src/mfront \"$@\"\n" % (", ".join(changed), out))
    os.chmod(os.path.join(out, "mfront"), 0o755)
    qbin = "/repo/_build/mfront-query/src/mfront-query"
    if repl_exe:
        link = [l for l in exe_cmds if " -o mfront-query/src/mfront-query " in l][0]
        link = link.split("&&")[1].strip() if link.strip().startswith(":") else link
        toks = [repl_exe.get(t, t) for t in shlex.split(link)]
        qbin = os.path.join(out, "mfront-query-bin")
        toks[toks.index("-o") + 1] = qbin
        sh(" ".join(shlex.quote(t) for t in toks))
        print("linked", qbin)
    with open(os.path.join(out, "mfront-query"), "w") as f:
        f.write("#!/bin/sh\nLD_LIBRARY_PATH=%s:$LD_LIBRARY_PATH exec %s \"$@\"\n" % (out, qbin))
    os.chmod(os.path.join(out, "mfront-query"), 0o755)


main()

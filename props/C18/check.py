"""C18 -- fixed-size algorithms equal their standard counterparts.
Engine H+S: Gallina Fixpoints on N mirroring every fsalgo template recursion with abstract operations; theorems by
induction on N against list specifications of the std:: algorithms (all N, all contents, all operations).
Tie: (S) fsalgo::*<N>, N = 0..32, instantiated from /repo on elements with UNINTERPRETED non-commutative operations
(symv::ufun); Coq checks that every traced term is the model's term (14 call sites x 33 sizes, with sentinel cells beyond
the range and the returned iterator); (H) the comparison-driven algorithms (equal, min/max_element) are run on all tie
patterns for N <= 4 and seeded contents for N = 0..32 and compared with the model evaluated by vm_compute.
Independent statement used for the failing-input search: the std:: algorithm itself, run next to the real template.
Known finding F5: accumulate passes (element, accumulator) and max_element(p, comp) calls comp(new, best)."""
import os, re
from concurrent.futures import ThreadPoolExecutor
from vlib import guarded_main

# call sites whose convention is the flipped one (finding F5): compared with the flipped std:: algorithm; a difference
# with the plain std:: algorithm is the known finding, a difference with the flipped one is a new violation
FLIPPED = {"accumulate_plus": "fsalgo::accumulate<N>::exe(p, init)",
           "accumulate_op": "fsalgo::accumulate<N>::exe(p, init, op)",
           "max_element_comp_lt": "fsalgo::max_element<N>::exe(p, comp)",
           "max_element_comp_gt": "fsalgo::max_element<N>::exe(p, comp)",
           "max_element_comp_le": "fsalgo::max_element<N>::exe(p, comp)"}
COMP = {"lt": "Nat.ltb", "gt": "(fun a b => Nat.ltb b a)", "le": "Nat.leb"}


def main(c):
    with ThreadPoolExecutor(max_workers=2) as ex:
        ft = ex.submit(lambda: c.cxx("trace", ["trace.cxx"], opt="-O0"))
        fd = ex.submit(lambda: c.cxx("driver", ["driver.cxx"], opt="-O0"))
        trace, driver = ft.result(), fd.result()
    c.log("built")
    gen = os.path.join(c.work, "coq", "Properties_C18_gen.v")
    os.makedirs(os.path.dirname(gen), exist_ok=True)
    rc, out, err = c.run([trace, "gen", gen])
    if rc != 0:
        c.report("trace", "tracer failed on /repo's fsalgo templates: " + err[-500:], {"stderr": err[-3000:]}, False)
        return
    c.trusted("engine S tracer (cxx/sym/sym.hxx hash-consed terms + printer; props/C18/trace.cxx element type whose +, *, ++ and functors are symv::ufun)",
              "g++ template instantiation of fsalgo::*<N> for N = 0..32",
              "props/C18/driver.cxx (std:: algorithms as the independent statement, printing)")
    # ---- run the real code next to std:: (failing-input search + property by execution)
    trials = c.pick(3, 40)
    rc, out, err = c.run([driver, "run", str(c.seed % (2 ** 31)), str(trials)])
    if rc != 0:
        c.report("run", "driver failed: " + err[-500:], {"stderr": err[-3000:]}, False)
        return
    cases = []
    for l in out.splitlines():
        m = re.match(r"CASE (\S+) (\d+) in=(\S+) tfel=(\S+) std=(\S+)(?: flip=(\S+))?$", l)
        if not m:
            c.report("parse", "unparsable driver line: " + l[:200], {}, False)
            continue
        cases.append(m.groups())
    bad_sites = set()
    nrep = {}
    for (site, N, inp, t, s, fl) in cases:
        c.count(1, (site, N, inp), True)
        if len(c.coverage["samples"]) < 8 and int(N) in (3, 4) and site in ("accumulate_op", "max_element_comp_lt", "copy_ra", "swap_ranges", "equal_pred"):
            c.sample({"call": site, "N": int(N), "in": inp[:120], "tfel": t[:120], "std": s[:120]})
        want = fl if site in FLIPPED else s
        if t != want:
            bad_sites.add(site)
            nrep[site] = nrep.get(site, 0) + 1
            if nrep[site] <= 3:
                c.report("%s:N=%s:%s" % (site, N, inp[:80]),
                         "fsalgo %s<%s> on %s returns %s; the std:: algorithm%s gives %s" % (
                             site, N, inp[:300], t[:300], " (arguments of the operation exchanged, the convention of F5)" if site in FLIPPED else "", want[:300]),
                         {"call_site": site, "N": int(N), "input": inp, "observed": t, "expected": want, "how": "props/C18/driver.cxx run"}, True)
        elif site in FLIPPED and t != s:
            # the known finding: one report per call site (stable key), with the first witness
            c.report("F5:" + FLIPPED[site],
                     "%s differs from std:: on N=%s in=%s: %s (std %s)" % (FLIPPED[site], N, inp[:100], t[:100], s[:100]),
                     {"call_site": site, "N": int(N), "input": inp, "observed": t, "std": s}, True)
    c.log("ran %d cases" % len(cases))
    # ---- model of the comparison-driven algorithms evaluated on the same inputs (tie for equal / min / max)
    ev, keys = [], []
    for (site, N, inp, t, s, fl) in cases:
        n = int(N)
        if site.startswith(("max_element", "min_element")):
            l = "[" + "; ".join(x for x in inp.split(",") if not x.startswith("-")) + "]"
            l = "[" + "; ".join(str(max(int(x), 0)) for x in inp.split(",")) + "]"   # sentinels -9 -> 0 (beyond N)
            which = "max" if site.startswith("max") else "min"
            if site.endswith("default"):
                cmp_ = "(fun a b => Nat.ltb b a)" if which == "max" else "Nat.ltb"    # operator> / operator<
            else:
                cmp_ = COMP[site[-2:]]
            ev.append("tfel_%s_element 0 %s %d %s" % (which, cmp_, n, l))
            keys.append((site, N, inp, t))
        elif site == "equal":
            p, q = inp.split("|")
            ev.append("(if tfel_equal 0 Nat.eqb %d [%s] [%s] then 1 else 0)" % (n, "; ".join(p.split(",")), "; ".join(q.split(","))))
            keys.append((site, N, inp, t))
    mism = 0
    CH = 1500
    for k in range(0, len(ev), CH):
        txt = ("From Coq Require Import List Arith.\nFrom C18 Require Import C18Spec C18Model.\nImport ListNotations.\n"
               "Eval vm_compute in [" + ";\n ".join(ev[k:k + CH]) + "].\n")
        rc, o, e = c.coq_eval(["C18Spec.v", "C18Model.v"], txt)
        if rc != 0:
            c.report("model-eval", "evaluation of the Gallina model failed: " + e[-400:], {"stderr": e[-2000:]}, False)
            return
        vals = re.findall(r"\d+", o[o.index("=") + 1:o.rindex(":")])
        if len(vals) != len(ev[k:k + CH]):
            c.report("model-eval-count", "model evaluation returned %d values for %d cases" % (len(vals), len(ev[k:k + CH])), {}, False)
            return
        for (site, N, inp, t), v in zip(keys[k:k + CH], vals):
            if v != t:
                mism += 1
                if mism <= 3 and site not in bad_sites:
                    c.report("model:%s:N=%s:%s" % (site, N, inp[:80]),
                             "Gallina model of %s<%s> gives %s on %s but the real template gives %s (it agrees with std::): the model no longer describes the code" % (site, N, v, inp, t),
                             {"call_site": site, "N": int(N), "input": inp, "model": v, "observed": t}, False)
    c.coverage["traces_validated_against_impl"] = len(ev)
    c.log("model evaluated on %d cases" % len(ev))
    # ---- proofs + correspondence of the traced terms with the model
    res = c.coq(["C18Spec.v", "C18Model.v", "C18Proofs.v", "Properties_C18.v", gen], timeout=900)
    c.coverage["rule"] = ("symbolic: 14 call sites x N = 0..32 traced with uninterpreted operations, every term proved equal to the model's; "
                          "concrete: %d cases (N = 0..32 x %d seeded trials x 25 call sites + all {0,1,2}^N tie patterns for N <= 4 x 8 extremum call sites), "
                          "each compared with the std:: algorithm; equal/min/max also with the model by vm_compute" % (len(cases), trials))
    # fsalgo::loop has no std counterpart; note whether it can be instantiated at all
    probe = os.path.join(c.work, "loop_probe.cxx")
    open(probe, "w").write('#include "TFEL/FSAlgorithm/FSAlgorithm.hxx"\nint main(){int s=0;auto f=[&s](unsigned i){s+=int(i);};tfel::fsalgo::loop<3> l;l.exe(f);return s;}\n')
    try:
        c.cxx("loop_probe", [probe], opt="-O0")
        c.notes.append("fsalgo::loop<3>::exe instantiates")
    except Exception:
        c.notes.append("fsalgo::loop<N>::exe cannot be instantiated (calls the non-static do_loop<0,N>::exe without an object): dead code, not part of the claim")
    if not res.ok:
        if c.violations and any(v[3] for v in c.violations):
            c.notes.append("proof obligations failed: %s; concrete failing inputs reported above" % [f[2] for f in res.failed])
        else:
            c.coq_failures(res, None)


guarded_main("C18", main)

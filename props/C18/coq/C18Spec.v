(* C18 -- specification: the std:: algorithms on the first N elements, as list functions (written from the
   C++ standard [alg.*] / [numeric.ops], independently of TFEL's templates).
   Ranges are lists; an output range `o` keeps its cells beyond N.  Indices (returned iterators) are offsets. *)
From Coq Require Import List Arith Bool.
Import ListNotations.

Section Std.
  Context {A : Type} (d : A).

  (* std::copy(p, p+N, o), std::fill_n(o, N, v), std::transform *)
  Definition std_copy (N : nat) (p o : list A) : list A := firstn N p ++ skipn N o.
  Definition std_fill (N : nat) (v : A) (o : list A) : list A := repeat v N ++ skipn N o.
  Definition std_transform1 (f : A -> A) (N : nat) (p o : list A) : list A := map f (firstn N p) ++ skipn N o.
  Definition std_transform2 (op : A -> A -> A) (N : nat) (p q o : list A) : list A :=
    map (fun ab => op (fst ab) (snd ab)) (combine (firstn N p) (firstn N q)) ++ skipn N o.

  (* std::accumulate: acc = op(acc, *i) in order  [accumulate] *)
  Definition std_accumulate {T : Type} (op : T -> A -> T) (N : nat) (p : list A) (init : T) : T :=
    fold_left op (firstn N p) init.
  (* std::inner_product: acc = op1(acc, op2( *i1, *i2 )) in order *)
  Definition std_inner_product {T : Type} (op1 : T -> A -> T) (op2 : A -> A -> A) (N : nat) (p q : list A) (init : T) : T :=
    fold_left (fun acc ab => op1 acc (op2 (fst ab) (snd ab))) (combine (firstn N p) (firstn N q)) init.

  (* std::equal *)
  Definition std_equal (eq : A -> A -> bool) (N : nat) (p q : list A) : bool :=
    forallb (fun ab => eq (fst ab) (snd ab)) (combine (firstn N p) (firstn N q)).

  (* std::for_each: f applied to each element in order; the functor's state is threaded *)
  Definition std_for_each {S : Type} (f : S -> A -> S) (N : nat) (p : list A) (s : S) : S := fold_left f (firstn N p) s.
  (* std::generate_n: *o++ = gen() N times; gen() returns g(state) and advances the state by nx *)
  Definition std_generate {S : Type} (g : S -> A) (nx : S -> S) (N : nat) (s : S) (o : list A) : list A :=
    map (fun i => g (Nat.iter i nx s)) (seq 0 N) ++ skipn N o.
  (* std::iota: *o++ = value; ++value *)
  Definition std_iota (succ : A -> A) (N : nat) (v : A) (o : list A) : list A :=
    map (fun i => Nat.iter i succ v) (seq 0 N) ++ skipn N o.
  (* std::swap_ranges *)
  Definition std_swap_ranges (N : nat) (p q : list A) : list A * list A :=
    (firstn N q ++ skipn N p, firstn N p ++ skipn N q).

  (* std::max_element(first, first+N, comp) [alg.min.max]: reference loop
       largest = first; while (++first != last) if (comp( *largest, *first )) largest = first;   (offset returned) *)
  Definition std_max_element (comp : A -> A -> bool) (N : nat) (l : list A) : nat :=
    fold_left (fun best i => if comp (nth best l d) (nth i l d) then i else best) (seq 1 (N - 1)) 0.
  (* std::min_element: if (comp( *first, *smallest )) smallest = first; *)
  Definition std_min_element (comp : A -> A -> bool) (N : nat) (l : list A) : nat :=
    fold_left (fun best i => if comp (nth i l d) (nth best l d) then i else best) (seq 1 (N - 1)) 0.
End Std.

(* declarative reading on a total order (nat): std::max_element returns the FIRST greatest element *)
Definition first_max_spec (N : nat) (l : list nat) (k : nat) : Prop :=
  k < N /\ (forall j, j < N -> nth j l 0 <= nth k l 0) /\ (forall j, j < k -> nth j l 0 < nth k l 0).
Definition first_min_spec (N : nat) (l : list nat) (k : nat) : Prop :=
  k < N /\ (forall j, j < N -> nth k l 0 <= nth j l 0) /\ (forall j, j < k -> nth k l 0 < nth j l 0).

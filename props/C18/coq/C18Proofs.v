(* C18 -- proofs by induction on N: every template recursion equals its std:: counterpart on the first N elements
   (for accumulate and max_element(comp): with the arguments of the operation flipped). *)
From Coq Require Import List Arith Bool Lia.
From C18 Require Import C18Spec C18Model.
Import ListNotations.

Section Proofs.
  Context {A : Type} (d : A).
  Notation hd := (List.hd d).

  Lemma copy_fw_std N : forall p o, N <= length p -> N <= length o -> tfel_copy_fw d N p o = std_copy N p o.
  Proof.
    unfold std_copy. induction N as [|n IH]; intros p o Hp Ho; [reflexivity|].
    destruct p as [|a p]; [simpl in Hp; lia|]. destruct o as [|b o]; [simpl in Ho; lia|].
    simpl in *. f_equal. apply IH; lia.
  Qed.

  Lemma map_nth_seq N : forall p, N <= length p -> map (fun i => nth i p d) (seq 0 N) = firstn N p.
  Proof.
    induction N as [|n IH]; intros p Hp; [reflexivity|].
    destruct p as [|a p]; [simpl in Hp; lia|]. simpl in Hp.
    cbn [seq map firstn nth]. f_equal. rewrite <- seq_shift, map_map. apply IH. lia.
  Qed.

  Lemma copy_ra_std N : forall p o, N <= length p -> N <= length o -> tfel_copy_ra d N p o = std_copy N p o.
  Proof.
    unfold std_copy. induction N as [|n IH]; intros p o Hp Ho; [reflexivity|].
    cbn [tfel_copy_ra]. destruct ((2 <=? S n) && (S n <=? 10)).
    - now rewrite map_nth_seq.
    - destruct p as [|a p]; [simpl in Hp; lia|]. destruct o as [|b o]; [simpl in Ho; lia|].
      simpl in *. f_equal. apply IH; lia.
  Qed.

  Lemma fill_std N (v : A) : forall o, N <= length o -> tfel_fill N v o = std_fill N v o.
  Proof.
    unfold std_fill. induction N as [|n IH]; intros o Ho; [reflexivity|].
    destruct o as [|b o]; [simpl in Ho; lia|]. simpl in *. f_equal. apply IH; lia.
  Qed.

  Lemma transform1_std (f : A -> A) N : forall p o, N <= length p -> N <= length o -> tfel_transform1 d f N p o = std_transform1 f N p o.
  Proof.
    unfold std_transform1. induction N as [|n IH]; intros p o Hp Ho; [reflexivity|].
    destruct p as [|a p]; [simpl in Hp; lia|]. destruct o as [|b o]; [simpl in Ho; lia|].
    simpl in *. f_equal. apply IH; lia.
  Qed.

  Lemma transform2_std (op : A -> A -> A) N : forall p q o, N <= length p -> N <= length q -> N <= length o ->
    tfel_transform2 d op N p q o = std_transform2 op N p q o.
  Proof.
    unfold std_transform2. induction N as [|n IH]; intros p q o Hp Hq Ho; [reflexivity|].
    destruct p as [|a p]; [simpl in Hp; lia|]. destruct q as [|a' q]; [simpl in Hq; lia|].
    destruct o as [|b o]; [simpl in Ho; lia|]. simpl in *. f_equal. apply IH; lia.
  Qed.

  (* accumulate: the operation receives (element, accumulator) *)
  Lemma accumulate_flipped {T} (op : A -> T -> T) N : forall p init, N <= length p ->
    tfel_accumulate d op N p init = std_accumulate (fun acc x => op x acc) N p init.
  Proof.
    unfold std_accumulate. induction N as [|n IH]; intros p init Hp; [reflexivity|].
    destruct p as [|a p]; [simpl in Hp; lia|]. simpl in *. apply IH; lia.
  Qed.
  Lemma accumulate_commutative (op : A -> A -> A) N p init :
    (forall a b, op a b = op b a) -> N <= length p -> tfel_accumulate d op N p init = std_accumulate op N p init.
  Proof.
    intros Hc Hp. rewrite accumulate_flipped by exact Hp. unfold std_accumulate.
    generalize (firstn N p) init. intro fl. induction fl as [|a fl IH]; intro i; [reflexivity|]. simpl. rewrite (Hc a i). apply IH.
  Qed.

  Lemma inner_product_std {T} (op1 : T -> A -> T) (op2 : A -> A -> A) N : forall p q init, N <= length p -> N <= length q ->
    tfel_inner_product d op1 op2 N p q init = std_inner_product op1 op2 N p q init.
  Proof.
    unfold std_inner_product. induction N as [|n IH]; intros p q init Hp Hq; [reflexivity|].
    destruct p as [|a p]; [simpl in Hp; lia|]. destruct q as [|a' q]; [simpl in Hq; lia|].
    simpl in *. apply IH; lia.
  Qed.
  (* without init: the first product is the initial value; equal to std with init zero when zero is a left unit *)
  Lemma inner_product_noinit_std (add mul : A -> A -> A) (zero : A) N p q :
    (forall a, add zero a = a) -> N <= length p -> N <= length q ->
    tfel_inner_product_noinit d add mul zero N p q = std_inner_product add mul N p q zero.
  Proof.
    intros Hz Hp Hq. destruct N as [|n]; [reflexivity|].
    destruct p as [|a p]; [simpl in Hp; lia|]. destruct q as [|a' q]; [simpl in Hq; lia|].
    unfold tfel_inner_product_noinit. simpl in *. rewrite inner_product_std by lia.
    unfold std_inner_product. simpl. now rewrite Hz.
  Qed.

  Lemma equal_std (eq : A -> A -> bool) N : forall p q, N <= length p -> N <= length q -> tfel_equal d eq N p q = std_equal eq N p q.
  Proof.
    unfold std_equal. induction N as [|n IH]; intros p q Hp Hq; [reflexivity|].
    destruct p as [|a p]; [simpl in Hp; lia|]. destruct q as [|a' q]; [simpl in Hq; lia|].
    simpl in *. f_equal. apply IH; lia.
  Qed.

  Lemma for_each_std {S} (f : S -> A -> S) N : forall p s, N <= length p -> tfel_for_each d f N p s = std_for_each f N p s.
  Proof.
    unfold std_for_each. induction N as [|n IH]; intros p s Hp; [reflexivity|].
    destruct p as [|a p]; [simpl in Hp; lia|]. simpl in *. apply IH; lia.
  Qed.

  Lemma iter_shift {S} (nx : S -> S) i s : Nat.iter i nx (nx s) = Nat.iter (Datatypes.S i) nx s.
  Proof. induction i as [|i IH]; [reflexivity|]. simpl in *. now rewrite IH. Qed.

  Lemma generate_std {S} (g : S -> A) (nx : S -> S) N : forall s o, N <= length o -> tfel_generate g nx N s o = std_generate g nx N s o.
  Proof.
    unfold std_generate. induction N as [|n IH]; intros s o Ho; [reflexivity|].
    destruct o as [|b o]; [simpl in Ho; lia|]. cbn [tfel_generate seq map skipn app]. simpl in Ho. f_equal.
    rewrite IH by lia. f_equal. rewrite <- seq_shift, map_map. apply map_ext. intro i. now rewrite iter_shift.
  Qed.

  Lemma iota_std (succ : A -> A) N : forall v o, N <= length o -> tfel_iota succ N v o = std_iota succ N v o.
  Proof.
    unfold std_iota. induction N as [|n IH]; intros v o Ho; [reflexivity|].
    destruct o as [|b o]; [simpl in Ho; lia|]. cbn [tfel_iota seq map skipn app]. simpl in Ho. f_equal.
    rewrite IH by lia. f_equal. rewrite <- seq_shift, map_map. apply map_ext. intro i. now rewrite iter_shift.
  Qed.

  Lemma swap_ranges_std N : forall (p q : list A), N <= length p -> N <= length q -> tfel_swap_ranges N p q = std_swap_ranges N p q.
  Proof.
    unfold std_swap_ranges. induction N as [|n IH]; intros p q Hp Hq; [reflexivity|].
    destruct p as [|a p]; [simpl in Hp; lia|]. destruct q as [|b q]; [simpl in Hq; lia|].
    simpl in *. rewrite IH by lia. reflexivity.
  Qed.

  (* extremum: the recursion is the reference loop with the comparison called on (new, best) *)
  Lemma extremum_exe_fold (c : A -> A -> bool) l K : forall p q, 1 <= K ->
    tfel_extremum_exe_ d c l K p q =
    fold_left (fun best i => if c (nth i l d) (nth best l d) then i else best) (seq p K) q.
  Proof.
    induction K as [|k IH]; intros p q HK; [lia|].
    cbn [tfel_extremum_exe_ seq fold_left]. destruct k as [|k']; [reflexivity|]. apply IH. lia.
  Qed.
  Lemma extremum_fold (c : A -> A -> bool) N l :
    tfel_extremum d c N l = fold_left (fun best i => if c (nth i l d) (nth best l d) then i else best) (seq 1 (N - 1)) 0.
  Proof.
    destruct N as [|[|n]]; [reflexivity | reflexivity |]. unfold tfel_extremum.
    rewrite extremum_exe_fold by lia. replace (S (S n) - 1) with (S n) by lia. reflexivity.
  Qed.

  Lemma min_element_std (c : A -> A -> bool) N l : tfel_min_element d c N l = std_min_element d c N l.
  Proof. apply extremum_fold. Qed.
  Lemma max_element_flipped (c : A -> A -> bool) N l : tfel_max_element d c N l = std_max_element d (fun a b => c b a) N l.
  Proof. apply extremum_fold. Qed.
  Lemma max_element_default (gt lt : A -> A -> bool) N l :
    (forall a b, gt a b = lt b a) -> tfel_max_element d gt N l = std_max_element d lt N l.
  Proof.
    intro H. rewrite max_element_flipped. unfold std_max_element.
    assert (E : forall best i, (if gt (nth i l d) (nth best l d) then i else best) = (if lt (nth best l d) (nth i l d) then i else best))
      by (intros; now rewrite H).
    generalize (seq 1 (N - 1)). intro sq. generalize 0. induction sq as [|x xs IH]; intro b; [reflexivity|]. simpl. rewrite E. apply IH.
  Qed.
End Proofs.

(* ---- the two places where the convention differs from std:: ---- *)
Lemma accumulate_is_std_refuted :
  ~ (forall (A : Type) (d : A) (op : A -> A -> A) N p init, N <= length p ->
       tfel_accumulate d op N p init = std_accumulate op N p init).
Proof.
  intro H. specialize (H (list nat) [] (@app nat) 3 [[1]; [2]; [3]] [0] (le_n 3)). vm_compute in H. discriminate H.
Qed.
Lemma max_element_comp_is_std_refuted :
  ~ (forall (A : Type) (d : A) (comp : A -> A -> bool) N l, N <= length l ->
       tfel_max_element d comp N l = std_max_element d comp N l).
Proof.
  intro H. specialize (H nat 0 Nat.ltb 4 [3; 1; 4; 1] (le_n 4)). vm_compute in H. discriminate H.
Qed.

(* ---- declarative reading of the reference loops on nat ---- *)
Lemma std_max_first_max N l : 1 <= N -> N <= length l -> first_max_spec N l (std_max_element 0 Nat.ltb N l).
Proof.
  intros H1 HN. unfold std_max_element.
  (* invariant: after scanning [0, m), best is the first maximum of the prefix *)
  assert (Inv : forall K m best, m + K = N -> 1 <= m -> first_max_spec m l best ->
                first_max_spec N l (fold_left (fun best i => if Nat.ltb (nth best l 0) (nth i l 0) then i else best) (seq m K) best)).
  { induction K as [|K IH]; intros m best Hm H1m Hb.
    - simpl. now replace N with m by lia.
    - cbn [seq fold_left]. apply IH; [lia | lia |].
      destruct Hb as (Hlt & Hge & Hfirst). unfold first_max_spec.
      destruct (Nat.ltb_spec (nth best l 0) (nth m l 0)) as [L|L].
      + split; [lia|]. split.
        * intros j Hj. destruct (Nat.eq_dec j m) as [->|]; [lia|]. specialize (Hge j). lia.
        * intros j Hj. specialize (Hge j). lia.
      + split; [lia|]. split.
        * intros j Hj. destruct (Nat.eq_dec j m) as [->|]; [lia|]. apply Hge. lia.
        * exact Hfirst. }
  apply (Inv (N - 1) 1 0); [lia | lia |].
  unfold first_max_spec. split; [lia|]. split; intros j Hj; [replace j with 0 by lia; lia | lia].
Qed.
Lemma std_min_first_min N l : 1 <= N -> N <= length l -> first_min_spec N l (std_min_element 0 Nat.ltb N l).
Proof.
  intros H1 HN. unfold std_min_element.
  assert (Inv : forall K m best, m + K = N -> 1 <= m -> first_min_spec m l best ->
                first_min_spec N l (fold_left (fun best i => if Nat.ltb (nth i l 0) (nth best l 0) then i else best) (seq m K) best)).
  { induction K as [|K IH]; intros m best Hm H1m Hb.
    - simpl. now replace N with m by lia.
    - cbn [seq fold_left]. apply IH; [lia | lia |].
      destruct Hb as (Hlt & Hge & Hfirst). unfold first_min_spec.
      destruct (Nat.ltb_spec (nth m l 0) (nth best l 0)) as [L|L].
      + split; [lia|]. split.
        * intros j Hj. destruct (Nat.eq_dec j m) as [->|]; [lia|]. specialize (Hge j). lia.
        * intros j Hj. specialize (Hge j). lia.
      + split; [lia|]. split.
        * intros j Hj. destruct (Nat.eq_dec j m) as [->|]; [lia|]. apply Hge. lia.
        * exact Hfirst. }
  apply (Inv (N - 1) 1 0); [lia | lia |].
  unfold first_min_spec. split; [lia|]. split; intros j Hj; [replace j with 0 by lia; lia | lia].
Qed.

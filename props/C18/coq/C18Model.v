(* C18 -- Gallina Fixpoints on N mirroring the template recursions of include/TFEL/FSAlgorithm/*.hxx (definitions only).
   An input iterator is a list (`*p` = hd, `++p` = tl); an output iterator is the list of remaining cells
   (`*q = v; ++q` replaces the head); ops are abstract.  The argument ORDER of every call is the one of the C++. *)
From Coq Require Import List Arith Bool.
Import ListNotations.

Section Model.
  Context {A : Type} (d : A).
  Notation hd := (List.hd d).

  (* copy<N>::exe, forward iterators:  *q = *p; return copy<N-1>::exe(++p, ++q);   copy<1>: *q = *p; return ++q;  copy<0>: return q *)
  Fixpoint tfel_copy_fw (N : nat) (p o : list A) : list A :=
    match N with
    | 0 => o
    | S n => match o with [] => [] | _ :: o' => hd p :: tfel_copy_fw n (tl p) o' end
    end.
  (* random access iterators: copy<2..10> are unrolled  q[0] = p[0]; ... q[N-1] = p[N-1];  larger N recurse down to copy<10> *)
  Fixpoint tfel_copy_ra (N : nat) (p o : list A) : list A :=
    match N with
    | 0 => o
    | S n => if (2 <=? N) && (N <=? 10) then map (fun i => nth i p d) (seq 0 N) ++ skipn N o
             else match o with [] => [] | _ :: o' => hd p :: tfel_copy_ra n (tl p) o' end
    end.

  (* fill<N>::exe(p, q):  *p = q; fill<N-1>::exe(++p, q) *)
  Fixpoint tfel_fill (N : nat) (v : A) (o : list A) : list A :=
    match N with
    | 0 => o
    | S n => match o with [] => [] | _ :: o' => v :: tfel_fill n v o' end
    end.

  (* transform<N>::exe(p, q, op):  *q = op( *p); return transform<N-1>::exe(++p, ++q, op);  transform<0>: return q *)
  Fixpoint tfel_transform1 (f : A -> A) (N : nat) (p o : list A) : list A :=
    match N with
    | 0 => o
    | S n => match o with [] => [] | _ :: o' => f (hd p) :: tfel_transform1 f n (tl p) o' end
    end.
  (* transform<N>::exe(p, q, r, op):  *r = op( *p, *q) *)
  Fixpoint tfel_transform2 (op : A -> A -> A) (N : nat) (p q o : list A) : list A :=
    match N with
    | 0 => o
    | S n => match o with [] => [] | _ :: o' => op (hd p) (hd q) :: tfel_transform2 op n (tl p) (tl q) o' end
    end.

  (* accumulate<N>::exe(p, init):  result = *p + init;  accumulate<N>::exe(p, init, op): result = op( *p, init);
     return accumulate<N-1>::exe(++p, result[, op]);   N = 0: return init.   `op` takes (element, accumulator). *)
  Fixpoint tfel_accumulate {T : Type} (op : A -> T -> T) (N : nat) (p : list A) (init : T) : T :=
    match N with
    | 0 => init
    | S n => tfel_accumulate op n (tl p) (op (hd p) init)
    end.

  (* inner_product<N>::exe(p, q, init[, op1, op2]):  r = op1(init, op2( *p, *q));  (default: init + ( *p) * ( *q)) *)
  Fixpoint tfel_inner_product {T : Type} (op1 : T -> A -> T) (op2 : A -> A -> A) (N : nat) (p q : list A) (init : T) : T :=
    match N with
    | 0 => init
    | S n => tfel_inner_product op1 op2 n (tl p) (tl q) (op1 init (op2 (hd p) (hd q)))
    end.
  (* inner_product<N>::exe<T>(p, q):  N == 0: T{};  else r = ( *p) * ( *q); return inner_product<N-1>::exe(++p, ++q, r) *)
  Definition tfel_inner_product_noinit (add mul : A -> A -> A) (zero : A) (N : nat) (p q : list A) : A :=
    match N with
    | 0 => zero
    | S n => tfel_inner_product add mul n (tl p) (tl q) (mul (hd p) (hd q))
    end.

  (* equal<N>::exe(p, q[, pred]):  return pred( *p, *q) && equal<N-1>::exe(++p, ++q[, pred]);  N = 0: true *)
  Fixpoint tfel_equal (eq : A -> A -> bool) (N : nat) (p q : list A) : bool :=
    match N with
    | 0 => true
    | S n => eq (hd p) (hd q) && tfel_equal eq n (tl p) (tl q)
    end.

  (* for_each<N>::exe(p, f):  f( *p); for_each<N-1>::exe(++p, f)   (f by reference: its state s is threaded) *)
  Fixpoint tfel_for_each {S : Type} (f : S -> A -> S) (N : nat) (p : list A) (s : S) : S :=
    match N with
    | 0 => s
    | S n => tfel_for_each f n (tl p) (f s (hd p))
    end.

  (* generate<N>::exe(p, gen):  *p = gen(); generate<N-1>::exe(++p, gen)   (gen by value: the copy made AFTER the call) *)
  Fixpoint tfel_generate {S : Type} (g : S -> A) (nx : S -> S) (N : nat) (s : S) (o : list A) : list A :=
    match N with
    | 0 => o
    | S n => match o with [] => [] | _ :: o' => g s :: tfel_generate g nx n (nx s) o' end
    end.

  (* iota<N>::exe(p, value):  *p = value; iota<N-1>::exe(++p, ++value);  iota<0>: nothing *)
  Fixpoint tfel_iota (succ : A -> A) (N : nat) (v : A) (o : list A) : list A :=
    match N with
    | 0 => o
    | S n => match o with [] => [] | _ :: o' => v :: tfel_iota succ n (succ v) o' end
    end.

  (* swap_ranges<N>::exe(p, q):  std::swap( *q, *p); return swap_ranges<N-1>::exe(++p, ++q) *)
  Fixpoint tfel_swap_ranges (N : nat) (p q : list A) : list A * list A :=
    match N with
    | 0 => (p, q)
    | S n => match p, q with
             | a :: p', b :: q' => let r := tfel_swap_ranges n p' q' in (b :: fst r, a :: snd r)
             | _, _ => (p, q)
             end
    end.

  (* max_element / min_element: iterators are offsets into l;  c is called as c( *p, *q) = c(NEW, BEST)
       max_element<K>::exe_(p, q[, c]):  r = c( *p, *q) ? p : q;  return max_element<K-1>::exe_(++p, r[, c]);
       max_element<1>::exe_(p, q[, c]):  if (c( *p, *q)) return p; return q;
       max_element<N>::exe(p[, c]):      result = p; return max_element<N-1>::exe_(++p, result[, c]);   N = 0, 1: return p
     default c: `*p > *q` for max_element, `*p < *q` for min_element; the recursions of min_element are the same. *)
  Fixpoint tfel_extremum_exe_ (c : A -> A -> bool) (l : list A) (K p q : nat) : nat :=
    match K with
    | 0 => q
    | S k => let r := if c (nth p l d) (nth q l d) then p else q in
             match k with 0 => r | S _ => tfel_extremum_exe_ c l k (S p) r end
    end.
  Definition tfel_extremum (c : A -> A -> bool) (N : nat) (l : list A) : nat :=
    match N with
    | 0 => 0
    | 1 => 0
    | S n => tfel_extremum_exe_ c l n 1 0
    end.
  Definition tfel_max_element := tfel_extremum.   (* c = operator> or the user's comp *)
  Definition tfel_min_element := tfel_extremum.   (* c = operator< or the user's comp *)
End Model.

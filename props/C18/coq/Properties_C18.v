(* C18 -- property theorems (statements only; proofs are in C18Proofs.v).  Every theorem is for ALL sizes N, all
   contents, all (abstract) operations; ranges must hold at least N elements. *)
From Coq Require Import List Arith Bool.
From C18 Require Import C18Spec C18Model C18Proofs.
Import ListNotations.

Theorem C18_copy : forall (A : Type) (d : A) N p o, N <= length p -> N <= length o ->
  tfel_copy_fw d N p o = std_copy N p o /\ tfel_copy_ra d N p o = std_copy N p o.
Proof. intros; split; [now apply copy_fw_std | now apply copy_ra_std]. Qed.
Print Assumptions C18_copy.

Theorem C18_fill : forall (A : Type) N (v : A) o, N <= length o -> tfel_fill N v o = std_fill N v o.
Proof. intros; now apply fill_std. Qed.
Print Assumptions C18_fill.

Theorem C18_transform : forall (A : Type) (d : A) (f : A -> A) (op : A -> A -> A) N p q o,
  N <= length p -> N <= length q -> N <= length o ->
  tfel_transform1 d f N p o = std_transform1 f N p o /\ tfel_transform2 d op N p q o = std_transform2 op N p q o.
Proof. intros; split; [now apply transform1_std | now apply transform2_std]. Qed.
Print Assumptions C18_transform.

(* accumulate: KNOWN FINDING F5 -- the binary operation receives (element, accumulator), std:: passes (accumulator, element) *)
Theorem C18_accumulate_is_std_refuted :
  ~ (forall (A : Type) (d : A) (op : A -> A -> A) N p init, N <= length p ->
       tfel_accumulate d op N p init = std_accumulate op N p init).
Proof. exact accumulate_is_std_refuted. Qed.
Print Assumptions C18_accumulate_is_std_refuted.
Theorem C18_accumulate_flipped : forall (A T : Type) (d : A) (op : A -> T -> T) N p init, N <= length p ->
  tfel_accumulate d op N p init = std_accumulate (fun acc x => op x acc) N p init.
Proof. intros; now apply accumulate_flipped. Qed.
Print Assumptions C18_accumulate_flipped.
Theorem C18_accumulate_commutative : forall (A : Type) (d : A) (op : A -> A -> A) N p init,
  (forall a b, op a b = op b a) -> N <= length p -> tfel_accumulate d op N p init = std_accumulate op N p init.
Proof. intros; now apply accumulate_commutative. Qed.
Print Assumptions C18_accumulate_commutative.

Theorem C18_inner_product : forall (A T : Type) (d : A) (op1 : T -> A -> T) (op2 : A -> A -> A) N p q init,
  N <= length p -> N <= length q -> tfel_inner_product d op1 op2 N p q init = std_inner_product op1 op2 N p q init.
Proof. intros; now apply inner_product_std. Qed.
Print Assumptions C18_inner_product.
Theorem C18_inner_product_noinit : forall (A : Type) (d : A) (add mul : A -> A -> A) zero N p q,
  (forall a, add zero a = a) -> N <= length p -> N <= length q ->
  tfel_inner_product_noinit d add mul zero N p q = std_inner_product add mul N p q zero.
Proof. intros; now apply inner_product_noinit_std. Qed.
Print Assumptions C18_inner_product_noinit.

Theorem C18_equal : forall (A : Type) (d : A) (eq : A -> A -> bool) N p q, N <= length p -> N <= length q ->
  tfel_equal d eq N p q = std_equal eq N p q.
Proof. intros; now apply equal_std. Qed.
Print Assumptions C18_equal.

(* side effects in order: the functor/generator state is threaded exactly as by the std:: loops *)
Theorem C18_for_each : forall (A S : Type) (d : A) (f : S -> A -> S) N p s, N <= length p ->
  tfel_for_each d f N p s = std_for_each f N p s.
Proof. intros; now apply for_each_std. Qed.
Print Assumptions C18_for_each.
Theorem C18_generate : forall (A S : Type) (g : S -> A) (nx : S -> S) N s o, N <= length o ->
  tfel_generate g nx N s o = std_generate g nx N s o.
Proof. intros; now apply generate_std. Qed.
Print Assumptions C18_generate.
Theorem C18_iota : forall (A : Type) (succ : A -> A) N v o, N <= length o -> tfel_iota succ N v o = std_iota succ N v o.
Proof. intros; now apply iota_std. Qed.
Print Assumptions C18_iota.
Theorem C18_swap_ranges : forall (A : Type) N (p q : list A), N <= length p -> N <= length q ->
  tfel_swap_ranges N p q = std_swap_ranges N p q.
Proof. intros; now apply swap_ranges_std. Qed.
Print Assumptions C18_swap_ranges.

(* min_element: same convention as std:: (comp(new, best)), any comp *)
Theorem C18_min_element : forall (A : Type) (d : A) (comp : A -> A -> bool) N l,
  tfel_min_element d comp N l = std_min_element d comp N l.
Proof. intros; apply min_element_std. Qed.
Print Assumptions C18_min_element.
(* max_element without comp uses operator>; equal to std:: (operator<) when a > b is b < a *)
Theorem C18_max_element_default : forall (A : Type) (d : A) (gt lt : A -> A -> bool) N l,
  (forall a b, gt a b = lt b a) -> tfel_max_element d gt N l = std_max_element d lt N l.
Proof. intros; now apply max_element_default. Qed.
Print Assumptions C18_max_element_default.
(* max_element(p, comp): KNOWN FINDING F5 -- comp is called as comp(new, best), std:: calls comp(best, new) *)
Theorem C18_max_element_comp_is_std_refuted :
  ~ (forall (A : Type) (d : A) (comp : A -> A -> bool) N l, N <= length l ->
       tfel_max_element d comp N l = std_max_element d comp N l).
Proof. exact max_element_comp_is_std_refuted. Qed.
Print Assumptions C18_max_element_comp_is_std_refuted.
Theorem C18_max_element_comp_flipped : forall (A : Type) (d : A) (comp : A -> A -> bool) N l,
  tfel_max_element d comp N l = std_max_element d (fun a b => comp b a) N l.
Proof. intros; apply max_element_flipped. Qed.
Print Assumptions C18_max_element_comp_flipped.

(* the reference loops of the specification mean what they should on a total order *)
Theorem C18_spec_meaning : forall N l, 1 <= N -> N <= length l ->
  first_max_spec N l (std_max_element 0 Nat.ltb N l) /\ first_min_spec N l (std_min_element 0 Nat.ltb N l).
Proof. intros; split; [now apply std_max_first_max | now apply std_min_first_min]. Qed.
Print Assumptions C18_spec_meaning.

// C18: driver running the REAL fsalgo templates of /repo, N = 0..32, on concrete data (strings with a non-commutative
// operation, 2x2 integer matrices, small integers with ties, counting predicates) next to the std:: algorithm:
//   driver run <seed> <trials>  -> one line per case:  CASE <call site> <N> in=.. tfel=.. std=.. [flip=..]
// (flip = the std:: algorithm with the arguments of the operation exchanged: the convention of finding F5)
#include <algorithm>
#include <array>
#include <cstdio>
#include <cstdlib>
#include <cstring>
#include <functional>
#include <iterator>
#include <numeric>
#include <random>
#include <string>
#include <utility>
#include <vector>
#include "TFEL/FSAlgorithm/FSAlgorithm.hxx"

namespace fs = tfel::fsalgo;
constexpr unsigned NMAX = 32;

// forward (non random access) iterator over an array
template <typename T>
struct FwdIt {
  using iterator_category = std::forward_iterator_tag;
  using value_type = T;
  using difference_type = std::ptrdiff_t;
  using pointer = T*;
  using reference = T&;
  T* p;
  T& operator*() const { return *p; }
  FwdIt& operator++() {
    ++p;
    return *this;
  }
  FwdIt operator++(int) {
    FwdIt r = *this;
    ++p;
    return r;
  }
  bool operator==(const FwdIt& o) const { return p == o.p; }
  bool operator!=(const FwdIt& o) const { return p != o.p; }
};

// ---------------------------------------------------------------- concrete runs
using S = std::string;
static S join(const std::vector<S>& v) {
  S s;
  for (size_t i = 0; i < v.size(); ++i) s += (i ? "," : "") + v[i];
  return s.empty() ? "-" : s;
}
static S joini(const std::vector<int>& v) {
  S s;
  for (size_t i = 0; i < v.size(); ++i) s += (i ? "," : "") + std::to_string(v[i]);
  return s.empty() ? "-" : s;
}
static S nc(const S& a, const S& b) { return "(" + a + "." + b + ")"; }

static void line(const char* algo, unsigned N, const S& in, const S& tfel, const S& stdv, const S& flip = "") {
  std::printf("CASE %s %u in=%s tfel=%s std=%s%s%s\n", algo, N, in.c_str(), tfel.c_str(), stdv.c_str(), flip.empty() ? "" : " flip=", flip.c_str());
}

template <unsigned N>
static void run_strings(std::mt19937& rng) {
  const unsigned L = N + 2;
  auto rnd = [&](const char* pre) {
    std::vector<S> v;
    for (unsigned i = 0; i < L; ++i) v.push_back(S(pre) + char('a' + rng() % 26) + std::to_string(i));
    return v;
  };
  const auto p = rnd("p"), q = rnd("q"), o = rnd("o");
  const S in = join(p) + "|" + join(q) + "|" + join(o);
  {
    auto a = o, b = o;
    auto r = fs::copy<N>::exe(p.data(), a.data());
    auto r2 = std::copy(p.begin(), p.begin() + N, b.begin());
    line("copy_ra", N, in, join(a) + "@" + std::to_string(r - a.data()), join(b) + "@" + std::to_string(r2 - b.begin()));
  }
  {
    auto a = o, b = o;
    auto r = fs::copy<N>::exe(FwdIt<const S>{p.data()}, FwdIt<S>{a.data()});
    auto r2 = std::copy(p.begin(), p.begin() + N, b.begin());
    line("copy_fw", N, in, join(a) + "@" + std::to_string(r.p - a.data()), join(b) + "@" + std::to_string(r2 - b.begin()));
  }
  {
    auto a = o, b = o;
    fs::fill<N>::exe(a.data(), S("V"));
    std::fill_n(b.begin(), N, S("V"));
    line("fill", N, in, join(a), join(b));
  }
  {
    auto a = o, b = o;
    auto f = [](const S& x) { return "f(" + x + ")"; };
    auto r = fs::transform<N>::exe(p.data(), a.data(), f);
    auto r2 = std::transform(p.begin(), p.begin() + N, b.begin(), f);
    line("transform1", N, in, join(a) + "@" + std::to_string(r - a.data()), join(b) + "@" + std::to_string(r2 - b.begin()));
  }
  {
    auto a = o, b = o;
    auto r = fs::transform<N>::exe(p.data(), q.data(), a.data(), nc);
    auto r2 = std::transform(p.begin(), p.begin() + N, q.begin(), b.begin(), nc);
    line("transform2", N, in, join(a) + "@" + std::to_string(r - a.data()), join(b) + "@" + std::to_string(r2 - b.begin()));
  }
  {
    const S init = "x";
    S t = fs::accumulate<N>::exe(p.data(), init);
    S s = std::accumulate(p.begin(), p.begin() + N, init);
    S fl = std::accumulate(p.begin(), p.begin() + N, init, [](const S& acc, const S& e) { return e + acc; });
    line("accumulate_plus", N, in, t, s, fl);
    S t2 = fs::accumulate<N>::exe(p.data(), init, nc);
    S s2 = std::accumulate(p.begin(), p.begin() + N, init, nc);
    S fl2 = std::accumulate(p.begin(), p.begin() + N, init, [](const S& acc, const S& e) { return nc(e, acc); });
    line("accumulate_op", N, in, t2, s2, fl2);
  }
  {
    // strings have no operator*: non-commutative 2x2 integer matrices instead for the +,* overloads
    struct M {
      long a, b, c, d;
      M operator+(const M& o) const { return {a + o.a, b + o.b, c + o.c, d + o.d}; }
      M operator*(const M& o) const { return {a * o.a + b * o.c, a * o.b + b * o.d, c * o.a + d * o.c, c * o.b + d * o.d}; }
      S str() const { return "[" + std::to_string(a) + ";" + std::to_string(b) + ";" + std::to_string(c) + ";" + std::to_string(d) + "]"; }
    };
    std::vector<M> mp, mq;
    S min;
    for (unsigned i = 0; i < L; ++i) {
      mp.push_back({long(rng() % 3), long(rng() % 3) - 1, long(rng() % 2), 1});
      mq.push_back({1, long(rng() % 3) - 1, long(rng() % 2), long(rng() % 3)});
      min += mp.back().str() + mq.back().str();
    }
    const M init{1, 2, 3, 4};
    M t = fs::inner_product<N>::exe(mp.data(), mq.data(), init);
    M s = std::inner_product(mp.begin(), mp.begin() + N, mq.begin(), init);
    line("inner_product_plus", N, min, t.str(), s.str());
    M t3 = fs::inner_product<N>::template exe<M>(mp.data(), mq.data());
    M s3 = std::inner_product(mp.begin(), mp.begin() + N, mq.begin(), M{0, 0, 0, 0});
    line("inner_product_noinit", N, min, t3.str(), s3.str());
    auto o1 = [](const S& x, const S& y) { return "A(" + x + "," + y + ")"; };
    auto o2 = [](const S& x, const S& y) { return "M(" + x + "," + y + ")"; };
    S t2 = fs::inner_product<N>::exe(p.data(), q.data(), S("x"), o1, o2);
    S s2 = std::inner_product(p.begin(), p.begin() + N, q.begin(), S("x"), o1, o2);
    line("inner_product_op", N, in, t2, s2);
  }
  {
    struct F {
      S log;
      void operator()(const S& x) { log += "<" + x + ">"; }
    } f1, f2;
    fs::for_each<N>::exe(p.data(), f1);
    f2 = std::for_each(p.begin(), p.begin() + N, f2);
    line("for_each", N, in, f1.log.empty() ? "-" : f1.log, f2.log.empty() ? "-" : f2.log);
  }
  {
    auto a = o, b = o;
    int k1 = 0, k2 = 0;
    fs::generate<N>::exe(a.data(), [&k1] { return "g" + std::to_string(k1++); });
    std::generate_n(b.begin(), N, [&k2] { return "g" + std::to_string(k2++); });
    line("generate", N, in, join(a) + "#" + std::to_string(k1), join(b) + "#" + std::to_string(k2));
  }
  {
    std::vector<int> a(L, -7), b(L, -7);
    fs::iota<N>::exe(a.data(), 5);
    std::iota(b.begin(), b.begin() + N, 5);
    line("iota", N, "5", joini(a), joini(b));
  }
  {
    auto a = p, b = q, c = p, d = q;
    auto r = fs::swap_ranges<N>::exe(a.data(), b.data());
    auto r2 = std::swap_ranges(c.begin(), c.begin() + N, d.begin());
    line("swap_ranges", N, in, join(a) + "/" + join(b) + "@" + std::to_string(r - b.data()), join(c) + "/" + join(d) + "@" + std::to_string(r2 - d.begin()));
  }
}

template <unsigned N>
static void run_ints_on(const std::vector<int>& v) {
  // v has N+2 entries
  auto idx = [&](const int* r) { return std::to_string(r - v.data()); };
  auto idi = [&](std::vector<int>::const_iterator r) { return std::to_string(r - v.begin()); };
  const S in = joini(v);
  auto lt = [](int a, int b) { return a < b; };
  auto gt = [](int a, int b) { return a > b; };
  auto le = [](int a, int b) { return a <= b; };
  if constexpr (N >= 1) {
    line("max_element_default", N, in, idx(fs::max_element<N>::exe(v.data())), idi(std::max_element(v.begin(), v.begin() + N)));
    line("min_element_default", N, in, idx(fs::min_element<N>::exe(v.data())), idi(std::min_element(v.begin(), v.begin() + N)));
    line("max_element_comp_lt", N, in, idx(fs::max_element<N>::exe(v.data(), lt)), idi(std::max_element(v.begin(), v.begin() + N, lt)),
         idi(std::max_element(v.begin(), v.begin() + N, [](int a, int b) { return b < a; })));
    line("max_element_comp_gt", N, in, idx(fs::max_element<N>::exe(v.data(), gt)), idi(std::max_element(v.begin(), v.begin() + N, gt)),
         idi(std::max_element(v.begin(), v.begin() + N, [](int a, int b) { return b > a; })));
    line("max_element_comp_le", N, in, idx(fs::max_element<N>::exe(v.data(), le)), idi(std::max_element(v.begin(), v.begin() + N, le)),
         idi(std::max_element(v.begin(), v.begin() + N, [](int a, int b) { return b <= a; })));
    line("min_element_comp_lt", N, in, idx(fs::min_element<N>::exe(v.data(), lt)), idi(std::min_element(v.begin(), v.begin() + N, lt)));
    line("min_element_comp_gt", N, in, idx(fs::min_element<N>::exe(v.data(), gt)), idi(std::min_element(v.begin(), v.begin() + N, gt)));
    line("min_element_comp_le", N, in, idx(fs::min_element<N>::exe(v.data(), le)), idi(std::min_element(v.begin(), v.begin() + N, le)));
  } else {
    line("max_element_default", N, in, idx(fs::max_element<N>::exe(v.data())), "0");
    line("min_element_default", N, in, idx(fs::min_element<N>::exe(v.data())), "0");
    line("max_element_comp_lt", N, in, idx(fs::max_element<N>::exe(v.data(), lt)), "0", "0");
    line("min_element_comp_lt", N, in, idx(fs::min_element<N>::exe(v.data(), lt)), "0");
  }
}
template <unsigned N>
static void run_equal_on(const std::vector<int>& p, const std::vector<int>& q) {
  int c1 = 0, c2 = 0;
  bool t = fs::equal<N>::exe(p.data(), q.data());
  bool s = std::equal(p.begin(), p.begin() + N, q.begin());
  bool t2 = fs::equal<N>::exe(p.data(), q.data(), [&c1](int a, int b) { ++c1; return a == b; });
  bool s2 = std::equal(p.begin(), p.begin() + N, q.begin(), [&c2](int a, int b) { ++c2; return a == b; });
  line("equal", N, joini(p) + "|" + joini(q), std::to_string(t), std::to_string(s));
  line("equal_pred", N, joini(p) + "|" + joini(q), std::to_string(t2) + "#" + std::to_string(c1), std::to_string(s2) + "#" + std::to_string(c2));
}

template <unsigned N>
static void run_one(std::mt19937& rng, int trials) {
  for (int t = 0; t < trials; ++t) {
    run_strings<N>(rng);
    std::vector<int> v;
    const int alpha = 2 + int(rng() % 4);
    for (unsigned i = 0; i < N + 2; ++i) v.push_back(int(rng() % alpha));
    run_ints_on<N>(v);
    // equal: identical up to a random position (or fully identical)
    std::vector<int> p = v, q = v;
    if (N > 0 && rng() % 3) q[rng() % N] += 1;
    if (N > 1 && rng() % 4 == 0) q[rng() % N] += 2;
    q[N] += 1;  // beyond the range: must not matter
    run_equal_on<N>(p, q);
  }
  // exhaustive tie patterns for small N
  if constexpr (N >= 1 && N <= 4) {
    unsigned tot = 1;
    for (unsigned i = 0; i < N; ++i) tot *= 3;
    for (unsigned c = 0; c < tot; ++c) {
      std::vector<int> v;
      unsigned x = c;
      for (unsigned i = 0; i < N; ++i) {
        v.push_back(int(x % 3));
        x /= 3;
      }
      v.push_back(9);
      v.push_back(-9);
      run_ints_on<N>(v);
    }
  }
}
template <unsigned... I>
static void run_all(std::mt19937& rng, int trials, std::integer_sequence<unsigned, I...>) {
  (run_one<I>(rng, trials), ...);
}

int main(int argc, char** argv) {
  if (argc >= 4 && !std::strcmp(argv[1], "run")) {
    std::mt19937 rng(static_cast<unsigned>(std::strtoul(argv[2], nullptr, 10)));
    const int trials = std::atoi(argv[3]);
    // canonical witnesses of finding F5
    {
      std::vector<S> p{"a", "b", "c", "-", "-"};
      line("accumulate_plus", 3, "a,b,c|x", fs::accumulate<3>::exe(p.data(), S("x")), std::accumulate(p.begin(), p.begin() + 3, S("x")), "cbax");
      std::vector<int> v{3, 1, 4, 1, 9, -9};
      run_ints_on<4>(v);
    }
    run_all(rng, trials, std::make_integer_sequence<unsigned, NMAX + 1>{});
    return 0;
  }
  std::fprintf(stderr, "usage: driver run <seed> <trials>\n");
  return 2;
}

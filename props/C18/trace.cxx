// C18: tracer (engine S) and driver for include/TFEL/FSAlgorithm/*.hxx of /repo.
//   trace gen <out.v> : instantiates fsalgo::*<N>, N = 0..32, on elements whose operations are UNINTERPRETED and
//                       non-commutative (symv::ufun), prints the resulting terms as Coq definitions together with the
//                       statements "traced term = Gallina model" (one theorem per algorithm, conjunction over N)
// (driver.cxx runs the real templates on concrete data)
#include "sym.hxx"
#include <algorithm>
#include <array>
#include <cstring>
#include <functional>
#include <iostream>
#include <iterator>
#include <numeric>
#include <random>
#include <sstream>
#include <string>
#include <utility>
#include <vector>
#include "TFEL/FSAlgorithm/FSAlgorithm.hxx"

using namespace symv;
namespace fs = tfel::fsalgo;
constexpr unsigned NMAX = 32;

// ---------------------------------------------------------------- symbolic element
struct E {
  Sym s;
  E() : s(var("zero")) {}
  explicit E(const Sym& x) : s(x) {}
  E& operator++() {
    s = ufun("succ", {s});
    return *this;
  }
};
inline E operator+(const E& a, const E& b) { return E(ufun("add", {a.s, b.s})); }
inline E operator*(const E& a, const E& b) { return E(ufun("mul", {a.s, b.s})); }

// forward (non random access) iterator over an array
template <typename T>
struct FwdIt {
  using iterator_category = std::forward_iterator_tag;
  using value_type = T;
  using difference_type = std::ptrdiff_t;
  using pointer = T*;
  using reference = T&;
  T* p;
  T& operator*() const { return *p; }
  FwdIt& operator++() {
    ++p;
    return *this;
  }
  FwdIt operator++(int) {
    FwdIt r = *this;
    ++p;
    return r;
  }
  bool operator==(const FwdIt& o) const { return p == o.p; }
  bool operator!=(const FwdIt& o) const { return p != o.p; }
};

static std::vector<E> mk(const std::string& pre, unsigned n) {
  std::vector<E> v;
  for (unsigned i = 0; i < n; ++i) v.emplace_back(var(pre + std::to_string(i)));
  return v;
}
static std::vector<Sym> syms(const std::vector<E>& v) {
  std::vector<Sym> r;
  for (auto& e : v) r.push_back(e.s);
  return r;
}
static std::string lst(const std::string& pre, unsigned n) {
  std::string s = "[";
  for (unsigned i = 0; i < n; ++i) s += (i ? "; " : "") + pre + std::to_string(i);
  return s + "]";
}
static std::string names(const std::string& pre, unsigned n) {
  std::string s;
  for (unsigned i = 0; i < n; ++i) s += " " + pre + std::to_string(i);
  return s;
}

struct Gen {
  Trace tr{"Properties_C18_gen"};
  std::map<std::string, std::vector<std::string>> stmts;  // algorithm -> statements (one per N)
  std::vector<std::string> order;
  void add(const std::string& algo, unsigned N, const std::vector<Sym>& params, const std::string& pnames, const std::vector<Sym>& outs,
           const std::string& model) {
    const std::string name = "cxx_" + algo + "_" + std::to_string(N);
    tr.def(name, params, outs);
    if (!stmts.count(algo)) order.push_back(algo);
    stmts[algo].push_back("(forall" + pnames + " : R, " + name + pnames + " = " + model + ")");
  }
};

template <unsigned N>
static void gen_one(Gen& g) {
  const unsigned L = N + 2;  // two sentinel cells beyond N: writes past the range would show
  const std::string n = std::to_string(N);
  const std::string P = lst("p", L), Q = lst("q", L), O = lst("o", L);
  auto cat = [](std::vector<Sym> a, const std::vector<Sym>& b) {
    a.insert(a.end(), b.begin(), b.end());
    return a;
  };
  {  // copy, random access iterators (pointers)
    auto p = mk("p", L), o = mk("o", L);
    auto params = cat(syms(p), syms(o));
    E* r = fs::copy<N>::exe(p.data(), o.data());
    auto outs = syms(o);
    outs.push_back(Sym(static_cast<long long>(r - o.data())));
    g.add("copy_ra", N, params, names("p", L) + names("o", L), outs, "tfel_copy_ra 0 " + n + " " + P + " " + O + " ++ [" + n + "]");
  }
  {  // copy, forward iterators
    auto p = mk("p", L), o = mk("o", L);
    auto params = cat(syms(p), syms(o));
    auto r = fs::copy<N>::exe(FwdIt<E>{p.data()}, FwdIt<E>{o.data()});
    auto outs = syms(o);
    outs.push_back(Sym(static_cast<long long>(r.p - o.data())));
    g.add("copy_fw", N, params, names("p", L) + names("o", L), outs, "tfel_copy_fw 0 " + n + " " + P + " " + O + " ++ [" + n + "]");
  }
  {  // fill
    auto o = mk("o", L);
    auto params = syms(o);
    params.push_back(var("v"));
    fs::fill<N>::exe(o.data(), E(var("v")));
    g.add("fill", N, params, names("o", L) + " v", syms(o), "tfel_fill " + n + " v " + O);
  }
  {  // transform, unary
    auto p = mk("p", L), o = mk("o", L);
    auto params = cat(syms(p), syms(o));
    E* r = fs::transform<N>::exe(p.data(), o.data(), [](const E& a) { return E(ufun("f", {a.s})); });
    auto outs = syms(o);
    outs.push_back(Sym(static_cast<long long>(r - o.data())));
    g.add("transform1", N, params, names("p", L) + names("o", L), outs, "tfel_transform1 0 f " + n + " " + P + " " + O + " ++ [" + n + "]");
  }
  {  // transform, binary
    auto p = mk("p", L), q = mk("q", L), o = mk("o", L);
    auto params = cat(cat(syms(p), syms(q)), syms(o));
    E* r = fs::transform<N>::exe(p.data(), q.data(), o.data(), [](const E& a, const E& b) { return E(ufun("op", {a.s, b.s})); });
    auto outs = syms(o);
    outs.push_back(Sym(static_cast<long long>(r - o.data())));
    g.add("transform2", N, params, names("p", L) + names("q", L) + names("o", L), outs,
          "tfel_transform2 0 op " + n + " " + P + " " + Q + " " + O + " ++ [" + n + "]");
  }
  {  // accumulate with operator+
    auto p = mk("p", L);
    auto params = syms(p);
    params.push_back(var("init"));
    E r = fs::accumulate<N>::exe(p.data(), E(var("init")));
    g.add("accumulate_plus", N, params, names("p", L) + " init", {r.s}, "[tfel_accumulate 0 add " + n + " " + P + " init]");
  }
  {  // accumulate with a binary operation
    auto p = mk("p", L);
    auto params = syms(p);
    params.push_back(var("init"));
    E r = fs::accumulate<N>::exe(p.data(), E(var("init")), [](const E& a, const E& b) { return E(ufun("op", {a.s, b.s})); });
    g.add("accumulate_op", N, params, names("p", L) + " init", {r.s}, "[tfel_accumulate 0 op " + n + " " + P + " init]");
  }
  {  // inner_product with + and *
    auto p = mk("p", L), q = mk("q", L);
    auto params = cat(syms(p), syms(q));
    params.push_back(var("init"));
    E r = fs::inner_product<N>::exe(p.data(), q.data(), E(var("init")));
    g.add("inner_product_plus", N, params, names("p", L) + names("q", L) + " init", {r.s},
          "[tfel_inner_product 0 add mul " + n + " " + P + " " + Q + " init]");
  }
  {  // inner_product with operations
    auto p = mk("p", L), q = mk("q", L);
    auto params = cat(syms(p), syms(q));
    params.push_back(var("init"));
    E r = fs::inner_product<N>::exe(p.data(), q.data(), E(var("init")), [](const E& a, const E& b) { return E(ufun("op1", {a.s, b.s})); },
                                    [](const E& a, const E& b) { return E(ufun("op2", {a.s, b.s})); });
    g.add("inner_product_op", N, params, names("p", L) + names("q", L) + " init", {r.s},
          "[tfel_inner_product 0 op1 op2 " + n + " " + P + " " + Q + " init]");
  }
  {  // inner_product without initial value
    auto p = mk("p", L), q = mk("q", L);
    auto params = cat(syms(p), syms(q));
    E r = fs::inner_product<N>::template exe<E>(p.data(), q.data());
    g.add("inner_product_noinit", N, params, names("p", L) + names("q", L), {r.s},
          "[tfel_inner_product_noinit 0 add mul zero " + n + " " + P + " " + Q + "]");
  }
  {  // for_each: functor state threaded
    auto p = mk("p", L);
    auto params = syms(p);
    params.push_back(var("s"));
    struct FE {
      Sym s;
      void operator()(const E& x) { s = ufun("fe", {s, x.s}); }
    } f{var("s")};
    fs::for_each<N>::exe(p.data(), f);
    g.add("for_each", N, params, names("p", L) + " s", {f.s}, "[tfel_for_each 0 fe " + n + " " + P + " s]");
  }
  {  // generate: generator with state
    auto o = mk("o", L);
    auto params = syms(o);
    params.push_back(var("s"));
    struct G {
      Sym s;
      E operator()() {
        E r(ufun("g", {s}));
        s = ufun("nx", {s});
        return r;
      }
    } gen{var("s")};
    fs::generate<N>::exe(o.data(), gen);
    g.add("generate", N, params, names("o", L) + " s", syms(o), "tfel_generate g nx " + n + " s " + O);
  }
  {  // iota
    auto o = mk("o", L);
    auto params = syms(o);
    params.push_back(var("v"));
    fs::iota<N>::exe(o.data(), E(var("v")));
    g.add("iota", N, params, names("o", L) + " v", syms(o), "tfel_iota succ " + n + " v " + O);
  }
  {  // swap_ranges
    auto p = mk("p", L), q = mk("q", L);
    auto params = cat(syms(p), syms(q));
    E* r = fs::swap_ranges<N>::exe(p.data(), q.data());
    auto outs = cat(syms(p), syms(q));
    outs.push_back(Sym(static_cast<long long>(r - q.data())));
    g.add("swap_ranges", N, params, names("p", L) + names("q", L), outs,
          "(let r := tfel_swap_ranges " + n + " " + P + " " + Q + " in fst r ++ snd r ++ [" + n + "])");
  }
}
template <unsigned... I>
static void gen_all(Gen& g, std::integer_sequence<unsigned, I...>) {
  (gen_one<I>(g), ...);
}

int main(int argc, char** argv) {
  if (argc >= 3 && !std::strcmp(argv[1], "gen")) {
    Gen g;
    g.tr.raw("From Coq Require Import Arith.\nFrom C18 Require Import C18Model.\n\nSection Gen.\n"
             "Variables op op1 op2 add mul fe : R -> R -> R.\nVariables f g nx succ : R -> R.\nVariable zero : R.\n\n");
    gen_all(g, std::make_integer_sequence<unsigned, NMAX + 1>{});
    std::string pa;
    for (auto& a : g.order) {
      g.tr.raw("(* the terms traced from fsalgo::" + a + "<N>, N = 0.." + std::to_string(NMAX) + ", are the terms of the Gallina model *)\n");
      g.tr.raw("Theorem C18_corr_" + a + " :\n  ");
      auto& v = g.stmts[a];
      for (size_t i = 0; i < v.size(); ++i) g.tr.raw((i ? " /\\\n  " : "") + v[i]);
      g.tr.raw(".\nProof. repeat split; intros; reflexivity. Qed.\n\n");
      pa += "Print Assumptions C18_corr_" + a + ".\n";
    }
    g.tr.raw("End Gen.\n" + pa);
    g.tr.write(argv[2]);
    std::printf("GEN %d definitions, %zu algorithms\n", g.tr.ndefs, g.order.size());
    return 0;
  }
  std::fprintf(stderr, "usage: trace gen <out.v>\n");
  return 2;
}

// C18: tracer (engine S) and driver for include/TFEL/FSAlgorithm/*.hxx of /repo.
//   trace gen <out.v> : instantiates fsalgo::*<N>, N = 0..32, on elements whose operations are UNINTERPRETED and
//                       non-commutative (symv::ufun), prints the resulting terms as Coq definitions together with the
//                       statements "traced term = Gallina model" (one theorem per algorithm, conjunction over N)
//   trace run <seed>  : runs the real templates on concrete data (strings with a non-commutative operation, small
//                       integers with ties, logging predicates) next to the std:: algorithm, one line per case
#include "sym.hxx"
#include <algorithm>
#include <array>
#include <cstring>
#include <functional>
#include <iostream>
#include <iterator>
#include <numeric>
#include <random>
#include <sstream>
#include <string>
#include <utility>
#include <vector>
#include "TFEL/FSAlgorithm/FSAlgorithm.hxx"

using namespace symv;
namespace fs = tfel::fsalgo;
constexpr unsigned NMAX = 32;

// ---------------------------------------------------------------- symbolic element
struct E {
  Sym s;
  E() : s(var("zero")) {}
  explicit E(const Sym& x) : s(x) {}
  E& operator++() {
    s = ufun("succ", {s});
    return *this;
  }
};
inline E operator+(const E& a, const E& b) { return E(ufun("add", {a.s, b.s})); }
inline E operator*(const E& a, const E& b) { return E(ufun("mul", {a.s, b.s})); }

// forward (non random access) iterator over an array
template <typename T>
struct FwdIt {
  using iterator_category = std::forward_iterator_tag;
  using value_type = T;
  using difference_type = std::ptrdiff_t;
  using pointer = T*;
  using reference = T&;
  T* p;
  T& operator*() const { return *p; }
  FwdIt& operator++() {
    ++p;
    return *this;
  }
  FwdIt operator++(int) {
    FwdIt r = *this;
    ++p;
    return r;
  }
  bool operator==(const FwdIt& o) const { return p == o.p; }
  bool operator!=(const FwdIt& o) const { return p != o.p; }
};

static std::vector<E> mk(const std::string& pre, unsigned n) {
  std::vector<E> v;
  for (unsigned i = 0; i < n; ++i) v.emplace_back(var(pre + std::to_string(i)));
  return v;
}
static std::vector<Sym> syms(const std::vector<E>& v) {
  std::vector<Sym> r;
  for (auto& e : v) r.push_back(e.s);
  return r;
}
static std::string lst(const std::string& pre, unsigned n) {
  std::string s = "[";
  for (unsigned i = 0; i < n; ++i) s += (i ? "; " : "") + pre + std::to_string(i);
  return s + "]";
}
static std::string names(const std::string& pre, unsigned n) {
  std::string s;
  for (unsigned i = 0; i < n; ++i) s += " " + pre + std::to_string(i);
  return s;
}

struct Gen {
  Trace tr{"Properties_C18_gen"};
  std::map<std::string, std::vector<std::string>> stmts;  // algorithm -> statements (one per N)
  std::vector<std::string> order;
  void add(const std::string& algo, unsigned N, const std::vector<Sym>& params, const std::string& pnames, const std::vector<Sym>& outs,
           const std::string& model) {
    const std::string name = "cxx_" + algo + "_" + std::to_string(N);
    tr.def(name, params, outs);
    if (!stmts.count(algo)) order.push_back(algo);
    stmts[algo].push_back("(forall" + pnames + " : R, " + name + pnames + " = " + model + ")");
  }
};

template <unsigned N>
static void gen_one(Gen& g) {
  const unsigned L = N + 2;  // two sentinel cells beyond N: writes past the range would show
  const std::string n = std::to_string(N);
  const std::string P = lst("p", L), Q = lst("q", L), O = lst("o", L);
  auto cat = [](std::vector<Sym> a, const std::vector<Sym>& b) {
    a.insert(a.end(), b.begin(), b.end());
    return a;
  };
  {  // copy, random access iterators (pointers)
    auto p = mk("p", L), o = mk("o", L);
    auto params = cat(syms(p), syms(o));
    E* r = fs::copy<N>::exe(p.data(), o.data());
    auto outs = syms(o);
    outs.push_back(Sym(static_cast<long long>(r - o.data())));
    g.add("copy_ra", N, params, names("p", L) + names("o", L), outs, "tfel_copy_ra 0 " + n + " " + P + " " + O + " ++ [" + n + "]");
  }
  {  // copy, forward iterators
    auto p = mk("p", L), o = mk("o", L);
    auto params = cat(syms(p), syms(o));
    auto r = fs::copy<N>::exe(FwdIt<E>{p.data()}, FwdIt<E>{o.data()});
    auto outs = syms(o);
    outs.push_back(Sym(static_cast<long long>(r.p - o.data())));
    g.add("copy_fw", N, params, names("p", L) + names("o", L), outs, "tfel_copy_fw 0 " + n + " " + P + " " + O + " ++ [" + n + "]");
  }
  {  // fill
    auto o = mk("o", L);
    auto params = syms(o);
    params.push_back(var("v"));
    fs::fill<N>::exe(o.data(), E(var("v")));
    g.add("fill", N, params, names("o", L) + " v", syms(o), "tfel_fill " + n + " v " + O);
  }
  {  // transform, unary
    auto p = mk("p", L), o = mk("o", L);
    auto params = cat(syms(p), syms(o));
    E* r = fs::transform<N>::exe(p.data(), o.data(), [](const E& a) { return E(ufun("f", {a.s})); });
    auto outs = syms(o);
    outs.push_back(Sym(static_cast<long long>(r - o.data())));
    g.add("transform1", N, params, names("p", L) + names("o", L), outs, "tfel_transform1 0 f " + n + " " + P + " " + O + " ++ [" + n + "]");
  }
  {  // transform, binary
    auto p = mk("p", L), q = mk("q", L), o = mk("o", L);
    auto params = cat(cat(syms(p), syms(q)), syms(o));
    E* r = fs::transform<N>::exe(p.data(), q.data(), o.data(), [](const E& a, const E& b) { return E(ufun("op", {a.s, b.s})); });
    auto outs = syms(o);
    outs.push_back(Sym(static_cast<long long>(r - o.data())));
    g.add("transform2", N, params, names("p", L) + names("q", L) + names("o", L), outs,
          "tfel_transform2 0 op " + n + " " + P + " " + Q + " " + O + " ++ [" + n + "]");
  }
  {  // accumulate with operator+
    auto p = mk("p", L);
    auto params = syms(p);
    params.push_back(var("init"));
    E r = fs::accumulate<N>::exe(p.data(), E(var("init")));
    g.add("accumulate_plus", N, params, names("p", L) + " init", {r.s}, "[tfel_accumulate 0 add " + n + " " + P + " init]");
  }
  {  // accumulate with a binary operation
    auto p = mk("p", L);
    auto params = syms(p);
    params.push_back(var("init"));
    E r = fs::accumulate<N>::exe(p.data(), E(var("init")), [](const E& a, const E& b) { return E(ufun("op", {a.s, b.s})); });
    g.add("accumulate_op", N, params, names("p", L) + " init", {r.s}, "[tfel_accumulate 0 op " + n + " " + P + " init]");
  }
  {  // inner_product with + and *
    auto p = mk("p", L), q = mk("q", L);
    auto params = cat(syms(p), syms(q));
    params.push_back(var("init"));
    E r = fs::inner_product<N>::exe(p.data(), q.data(), E(var("init")));
    g.add("inner_product_plus", N, params, names("p", L) + names("q", L) + " init", {r.s},
          "[tfel_inner_product 0 add mul " + n + " " + P + " " + Q + " init]");
  }
  {  // inner_product with operations
    auto p = mk("p", L), q = mk("q", L);
    auto params = cat(syms(p), syms(q));
    params.push_back(var("init"));
    E r = fs::inner_product<N>::exe(p.data(), q.data(), E(var("init")), [](const E& a, const E& b) { return E(ufun("op1", {a.s, b.s})); },
                                    [](const E& a, const E& b) { return E(ufun("op2", {a.s, b.s})); });
    g.add("inner_product_op", N, params, names("p", L) + names("q", L) + " init", {r.s},
          "[tfel_inner_product 0 op1 op2 " + n + " " + P + " " + Q + " init]");
  }
  {  // inner_product without initial value
    auto p = mk("p", L), q = mk("q", L);
    auto params = cat(syms(p), syms(q));
    E r = fs::inner_product<N>::template exe<E>(p.data(), q.data());
    g.add("inner_product_noinit", N, params, names("p", L) + names("q", L), {r.s},
          "[tfel_inner_product_noinit 0 add mul zero " + n + " " + P + " " + Q + "]");
  }
  {  // for_each: functor state threaded
    auto p = mk("p", L);
    auto params = syms(p);
    params.push_back(var("s"));
    struct FE {
      Sym s;
      void operator()(const E& x) { s = ufun("fe", {s, x.s}); }
    } f{var("s")};
    fs::for_each<N>::exe(p.data(), f);
    g.add("for_each", N, params, names("p", L) + " s", {f.s}, "[tfel_for_each 0 fe " + n + " " + P + " s]");
  }
  {  // generate: generator with state
    auto o = mk("o", L);
    auto params = syms(o);
    params.push_back(var("s"));
    struct G {
      Sym s;
      E operator()() {
        E r(ufun("g", {s}));
        s = ufun("nx", {s});
        return r;
      }
    } gen{var("s")};
    fs::generate<N>::exe(o.data(), gen);
    g.add("generate", N, params, names("o", L) + " s", syms(o), "tfel_generate g nx " + n + " s " + O);
  }
  {  // iota
    auto o = mk("o", L);
    auto params = syms(o);
    params.push_back(var("v"));
    fs::iota<N>::exe(o.data(), E(var("v")));
    g.add("iota", N, params, names("o", L) + " v", syms(o), "tfel_iota succ " + n + " v " + O);
  }
  {  // swap_ranges
    auto p = mk("p", L), q = mk("q", L);
    auto params = cat(syms(p), syms(q));
    E* r = fs::swap_ranges<N>::exe(p.data(), q.data());
    auto outs = cat(syms(p), syms(q));
    outs.push_back(Sym(static_cast<long long>(r - q.data())));
    g.add("swap_ranges", N, params, names("p", L) + names("q", L), outs,
          "(let r := tfel_swap_ranges " + n + " " + P + " " + Q + " in fst r ++ snd r ++ [" + n + "])");
  }
}
template <unsigned... I>
static void gen_all(Gen& g, std::integer_sequence<unsigned, I...>) {
  (gen_one<I>(g), ...);
}

// ---------------------------------------------------------------- concrete runs
using S = std::string;
static S join(const std::vector<S>& v) {
  S s;
  for (size_t i = 0; i < v.size(); ++i) s += (i ? "," : "") + v[i];
  return s.empty() ? "-" : s;
}
static S joini(const std::vector<int>& v) {
  S s;
  for (size_t i = 0; i < v.size(); ++i) s += (i ? "," : "") + std::to_string(v[i]);
  return s.empty() ? "-" : s;
}
static S nc(const S& a, const S& b) { return "(" + a + "." + b + ")"; }

static void line(const char* algo, unsigned N, const S& in, const S& tfel, const S& stdv, const S& flip = "") {
  std::printf("CASE %s %u in=%s tfel=%s std=%s%s%s\n", algo, N, in.c_str(), tfel.c_str(), stdv.c_str(), flip.empty() ? "" : " flip=", flip.c_str());
}

template <unsigned N>
static void run_strings(std::mt19937& rng) {
  const unsigned L = N + 2;
  auto rnd = [&](const char* pre) {
    std::vector<S> v;
    for (unsigned i = 0; i < L; ++i) v.push_back(S(pre) + char('a' + rng() % 26) + std::to_string(i));
    return v;
  };
  const auto p = rnd("p"), q = rnd("q"), o = rnd("o");
  const S in = join(p) + "|" + join(q) + "|" + join(o);
  {
    auto a = o, b = o;
    auto r = fs::copy<N>::exe(p.data(), a.data());
    auto r2 = std::copy(p.begin(), p.begin() + N, b.begin());
    line("copy_ra", N, in, join(a) + "@" + std::to_string(r - a.data()), join(b) + "@" + std::to_string(r2 - b.begin()));
  }
  {
    auto a = o, b = o;
    auto r = fs::copy<N>::exe(FwdIt<const S>{p.data()}, FwdIt<S>{a.data()});
    auto r2 = std::copy(p.begin(), p.begin() + N, b.begin());
    line("copy_fw", N, in, join(a) + "@" + std::to_string(r.p - a.data()), join(b) + "@" + std::to_string(r2 - b.begin()));
  }
  {
    auto a = o, b = o;
    fs::fill<N>::exe(a.data(), S("V"));
    std::fill_n(b.begin(), N, S("V"));
    line("fill", N, in, join(a), join(b));
  }
  {
    auto a = o, b = o;
    auto f = [](const S& x) { return "f(" + x + ")"; };
    auto r = fs::transform<N>::exe(p.data(), a.data(), f);
    auto r2 = std::transform(p.begin(), p.begin() + N, b.begin(), f);
    line("transform1", N, in, join(a) + "@" + std::to_string(r - a.data()), join(b) + "@" + std::to_string(r2 - b.begin()));
  }
  {
    auto a = o, b = o;
    auto r = fs::transform<N>::exe(p.data(), q.data(), a.data(), nc);
    auto r2 = std::transform(p.begin(), p.begin() + N, q.begin(), b.begin(), nc);
    line("transform2", N, in, join(a) + "@" + std::to_string(r - a.data()), join(b) + "@" + std::to_string(r2 - b.begin()));
  }
  {
    const S init = "x";
    S t = fs::accumulate<N>::exe(p.data(), init);
    S s = std::accumulate(p.begin(), p.begin() + N, init);
    S fl = std::accumulate(p.begin(), p.begin() + N, init, [](const S& acc, const S& e) { return e + acc; });
    line("accumulate_plus", N, in, t, s, fl);
    S t2 = fs::accumulate<N>::exe(p.data(), init, nc);
    S s2 = std::accumulate(p.begin(), p.begin() + N, init, nc);
    S fl2 = std::accumulate(p.begin(), p.begin() + N, init, [](const S& acc, const S& e) { return nc(e, acc); });
    line("accumulate_op", N, in, t2, s2, fl2);
  }
  {
    // strings have no operator*: non-commutative 2x2 integer matrices instead for the +,* overloads
    struct M {
      long a, b, c, d;
      M operator+(const M& o) const { return {a + o.a, b + o.b, c + o.c, d + o.d}; }
      M operator*(const M& o) const { return {a * o.a + b * o.c, a * o.b + b * o.d, c * o.a + d * o.c, c * o.b + d * o.d}; }
      S str() const { return "[" + std::to_string(a) + ";" + std::to_string(b) + ";" + std::to_string(c) + ";" + std::to_string(d) + "]"; }
    };
    std::vector<M> mp, mq;
    S min;
    for (unsigned i = 0; i < L; ++i) {
      mp.push_back({long(rng() % 3), long(rng() % 3) - 1, long(rng() % 2), 1});
      mq.push_back({1, long(rng() % 3) - 1, long(rng() % 2), long(rng() % 3)});
      min += mp.back().str() + mq.back().str();
    }
    const M init{1, 2, 3, 4};
    M t = fs::inner_product<N>::exe(mp.data(), mq.data(), init);
    M s = std::inner_product(mp.begin(), mp.begin() + N, mq.begin(), init);
    line("inner_product_plus", N, min, t.str(), s.str());
    M t3 = fs::inner_product<N>::template exe<M>(mp.data(), mq.data());
    M s3 = std::inner_product(mp.begin(), mp.begin() + N, mq.begin(), M{0, 0, 0, 0});
    line("inner_product_noinit", N, min, t3.str(), s3.str());
    auto o1 = [](const S& x, const S& y) { return "A(" + x + "," + y + ")"; };
    auto o2 = [](const S& x, const S& y) { return "M(" + x + "," + y + ")"; };
    S t2 = fs::inner_product<N>::exe(p.data(), q.data(), S("x"), o1, o2);
    S s2 = std::inner_product(p.begin(), p.begin() + N, q.begin(), S("x"), o1, o2);
    line("inner_product_op", N, in, t2, s2);
  }
  {
    struct F {
      S log;
      void operator()(const S& x) { log += "<" + x + ">"; }
    } f1, f2;
    fs::for_each<N>::exe(p.data(), f1);
    f2 = std::for_each(p.begin(), p.begin() + N, f2);
    line("for_each", N, in, f1.log.empty() ? "-" : f1.log, f2.log.empty() ? "-" : f2.log);
  }
  {
    auto a = o, b = o;
    int k1 = 0, k2 = 0;
    fs::generate<N>::exe(a.data(), [&k1] { return "g" + std::to_string(k1++); });
    std::generate_n(b.begin(), N, [&k2] { return "g" + std::to_string(k2++); });
    line("generate", N, in, join(a) + "#" + std::to_string(k1), join(b) + "#" + std::to_string(k2));
  }
  {
    std::vector<int> a(L, -7), b(L, -7);
    fs::iota<N>::exe(a.data(), 5);
    std::iota(b.begin(), b.begin() + N, 5);
    line("iota", N, "5", joini(a), joini(b));
  }
  {
    auto a = p, b = q, c = p, d = q;
    auto r = fs::swap_ranges<N>::exe(a.data(), b.data());
    auto r2 = std::swap_ranges(c.begin(), c.begin() + N, d.begin());
    line("swap_ranges", N, in, join(a) + "/" + join(b) + "@" + std::to_string(r - b.data()), join(c) + "/" + join(d) + "@" + std::to_string(r2 - d.begin()));
  }
}

static void extremum_case(unsigned N, const std::vector<int>& v);
template <unsigned N>
static void run_ints_on(const std::vector<int>& v) {
  // v has N+2 entries
  auto idx = [&](const int* r) { return std::to_string(r - v.data()); };
  auto idi = [&](std::vector<int>::const_iterator r) { return std::to_string(r - v.begin()); };
  const S in = joini(v);
  auto lt = [](int a, int b) { return a < b; };
  auto gt = [](int a, int b) { return a > b; };
  auto le = [](int a, int b) { return a <= b; };
  if constexpr (N >= 1) {
    line("max_element_default", N, in, idx(fs::max_element<N>::exe(v.data())), idi(std::max_element(v.begin(), v.begin() + N)));
    line("min_element_default", N, in, idx(fs::min_element<N>::exe(v.data())), idi(std::min_element(v.begin(), v.begin() + N)));
    line("max_element_comp_lt", N, in, idx(fs::max_element<N>::exe(v.data(), lt)), idi(std::max_element(v.begin(), v.begin() + N, lt)),
         idi(std::max_element(v.begin(), v.begin() + N, [](int a, int b) { return b < a; })));
    line("max_element_comp_gt", N, in, idx(fs::max_element<N>::exe(v.data(), gt)), idi(std::max_element(v.begin(), v.begin() + N, gt)),
         idi(std::max_element(v.begin(), v.begin() + N, [](int a, int b) { return b > a; })));
    line("max_element_comp_le", N, in, idx(fs::max_element<N>::exe(v.data(), le)), idi(std::max_element(v.begin(), v.begin() + N, le)),
         idi(std::max_element(v.begin(), v.begin() + N, [](int a, int b) { return b <= a; })));
    line("min_element_comp_lt", N, in, idx(fs::min_element<N>::exe(v.data(), lt)), idi(std::min_element(v.begin(), v.begin() + N, lt)));
    line("min_element_comp_gt", N, in, idx(fs::min_element<N>::exe(v.data(), gt)), idi(std::min_element(v.begin(), v.begin() + N, gt)));
    line("min_element_comp_le", N, in, idx(fs::min_element<N>::exe(v.data(), le)), idi(std::min_element(v.begin(), v.begin() + N, le)));
  } else {
    line("max_element_default", N, in, idx(fs::max_element<N>::exe(v.data())), "0");
    line("min_element_default", N, in, idx(fs::min_element<N>::exe(v.data())), "0");
    line("max_element_comp_lt", N, in, idx(fs::max_element<N>::exe(v.data(), lt)), "0", "0");
    line("min_element_comp_lt", N, in, idx(fs::min_element<N>::exe(v.data(), lt)), "0");
  }
}
template <unsigned N>
static void run_equal_on(const std::vector<int>& p, const std::vector<int>& q) {
  int c1 = 0, c2 = 0;
  bool t = fs::equal<N>::exe(p.data(), q.data());
  bool s = std::equal(p.begin(), p.begin() + N, q.begin());
  bool t2 = fs::equal<N>::exe(p.data(), q.data(), [&c1](int a, int b) { ++c1; return a == b; });
  bool s2 = std::equal(p.begin(), p.begin() + N, q.begin(), [&c2](int a, int b) { ++c2; return a == b; });
  line("equal", N, joini(p) + "|" + joini(q), std::to_string(t), std::to_string(s));
  line("equal_pred", N, joini(p) + "|" + joini(q), std::to_string(t2) + "#" + std::to_string(c1), std::to_string(s2) + "#" + std::to_string(c2));
}

template <unsigned N>
static void run_one(std::mt19937& rng, int trials) {
  for (int t = 0; t < trials; ++t) {
    run_strings<N>(rng);
    std::vector<int> v;
    const int alpha = 2 + int(rng() % 4);
    for (unsigned i = 0; i < N + 2; ++i) v.push_back(int(rng() % alpha));
    run_ints_on<N>(v);
    // equal: identical up to a random position (or fully identical)
    std::vector<int> p = v, q = v;
    if (N > 0 && rng() % 3) q[rng() % N] += 1;
    if (N > 1 && rng() % 4 == 0) q[rng() % N] += 2;
    q[N] += 1;  // beyond the range: must not matter
    run_equal_on<N>(p, q);
  }
  // exhaustive tie patterns for small N
  if constexpr (N >= 1 && N <= 4) {
    unsigned tot = 1;
    for (unsigned i = 0; i < N; ++i) tot *= 3;
    for (unsigned c = 0; c < tot; ++c) {
      std::vector<int> v;
      unsigned x = c;
      for (unsigned i = 0; i < N; ++i) {
        v.push_back(int(x % 3));
        x /= 3;
      }
      v.push_back(9);
      v.push_back(-9);
      run_ints_on<N>(v);
    }
  }
}
template <unsigned... I>
static void run_all(std::mt19937& rng, int trials, std::integer_sequence<unsigned, I...>) {
  (run_one<I>(rng, trials), ...);
}

int main(int argc, char** argv) {
  if (argc >= 3 && !std::strcmp(argv[1], "gen")) {
    Gen g;
    g.tr.raw("From Coq Require Import Arith.\nFrom C18 Require Import C18Model.\n\nSection Gen.\n"
             "Variables op op1 op2 add mul fe : R -> R -> R.\nVariables f g nx succ : R -> R.\nVariable zero : R.\n\n");
    gen_all(g, std::make_integer_sequence<unsigned, NMAX + 1>{});
    std::string pa;
    for (auto& a : g.order) {
      g.tr.raw("(* the terms traced from fsalgo::" + a + "<N>, N = 0.." + std::to_string(NMAX) + ", are the terms of the Gallina model *)\n");
      g.tr.raw("Theorem C18_corr_" + a + " :\n  ");
      auto& v = g.stmts[a];
      for (size_t i = 0; i < v.size(); ++i) g.tr.raw((i ? " /\\\n  " : "") + v[i]);
      g.tr.raw(".\nProof. repeat split; intros; reflexivity. Qed.\n\n");
      pa += "Print Assumptions C18_corr_" + a + ".\n";
    }
    g.tr.raw("End Gen.\n" + pa);
    g.tr.write(argv[2]);
    std::printf("GEN %d definitions, %zu algorithms\n", g.tr.ndefs, g.order.size());
    return 0;
  }
  if (argc >= 4 && !std::strcmp(argv[1], "run")) {
    std::mt19937 rng(static_cast<unsigned>(std::strtoul(argv[2], nullptr, 10)));
    const int trials = std::atoi(argv[3]);
    // canonical witnesses of finding F5
    {
      std::vector<S> p{"a", "b", "c", "-", "-"};
      line("accumulate_plus", 3, "a,b,c|x", fs::accumulate<3>::exe(p.data(), S("x")), std::accumulate(p.begin(), p.begin() + 3, S("x")), "cbax");
      std::vector<int> v{3, 1, 4, 1, 9, -9};
      run_ints_on<4>(v);
    }
    run_all(rng, trials, std::make_integer_sequence<unsigned, NMAX + 1>{});
    return 0;
  }
  std::fprintf(stderr, "usage: trace gen <out.v> | trace run <seed> <trials>\n");
  return 2;
}

(* C39 / C40 -- executable Gallina model (engine H) of
     mfront::gb::computePredictionOperator, mfront::gb::integrate           (Integrate.hxx)
     mfront::gb::green_lagrange_strain::integrate                           (GreenLagrangeStrainIntegrate.hxx)
     mfront::gb::logarithmic_strain::integrate                              (LogarithmicStrainIntegrate.hxx)
     mfront::gb::finite_strain::integrate                                   (StandardFiniteStrainBehaviourIntegrate.hxx)
   over a behaviour oracle ([script]: the outcome of every hook of the behaviour class) and the compile-time
   traits of the behaviour.  Definitions only.  The model is parametrised by a [variant]: four booleans that
   say how the header under test handles four points where the pinned tree departs from the documented
   convention; the check determines the variant of the working tree by correspondence on every run. *)
From Coq Require Import QArith ZArith List Bool.
Import ListNotations.
Local Open Scope Q_scope.

(* ------------------------------------------------------------------ behaviour oracle *)
Inductive outcome := Ok | Fail | Throw.
Inductive istatus := ISuccess | IFailure | IUnreliable | IThrow.
Inductive policy := PWarning | PStrict | PNone.
Inductive smtype := Elastic | Secant | Tangent | Consistent | NoStiffness.

Record script := {
  sc_init : outcome;          (* initialize(): true / false / throws *)
  sc_oob : bool;              (* a bounded variable is out of its bounds when checkBounds() runs *)
  sc_sos0 : outcome;          (* computeSpeedOfSound(rho0), prediction requests: Ok / Throw *)
  sc_pred : outcome;          (* computePredictionOperator: true / false / throws *)
  sc_texport : outcome;       (* exportTangentOperator(getTangentOperator()): Ok / Throw (unsupported alternative) *)
  sc_apriori : outcome; sc_apriori_v : Q;   (* computeAPrioriTimeStepScalingFactor: (true,v) / (false,v) / throws *)
  sc_integ : istatus;         (* integrate *)
  sc_apost : outcome; sc_apost_v : Q;       (* computeAPosterioriTimeStepScalingFactor *)
  sc_ie : outcome;            (* computeInternalEnergy: Ok / Throw *)
  sc_de : outcome;            (* computeDissipatedEnergy: Ok / Throw *)
  sc_sos1 : outcome;          (* computeSpeedOfSound(rho1): Ok / Throw *)
  sc_mintsf : Q               (* getMinimalTimeStepScalingFactor() *)
}.

(* MechanicalBehaviourTraits<Behaviour> *)
Record traits := {
  hasCTO : bool;   (* hasConsistentTangentOperator *)
  hasPred : bool;  (* hasPredictionOperator *)
  hasIE : bool;    (* hasComputeInternalEnergy *)
  hasDE : bool     (* hasComputeDissipatedEnergy *)
}.

(* how the header under test behaves at the four points of departure (all false = documented behaviour) *)
Record variant := {
  v_pred_raw : bool;     (* computePredictionOperator decodes the raw K[0], not K[0] without the +100 offset *)
  v_late_throw : bool;   (* hooks that may throw run after exportStateData *)
  v_wrap_nonzero : bool; (* the finite strain wrappers post-process when the inner return code is non zero *)
  v_wrap_raw : bool      (* the strain-measure wrappers classify the request on the raw K[0] *)
}.
Definition documented := {| v_pred_raw := false; v_late_throw := false; v_wrap_nonzero := false; v_wrap_raw := false |}.
Definition pinned := {| v_pred_raw := true; v_late_throw := true; v_wrap_nonzero := true; v_wrap_raw := true |}.

(* ------------------------------------------------------------------ observations *)
Inductive hook := HInit | HBounds | HSoS0 | HPred | HTExport | HApriori | HInteg | HApost | HIE | HDE | HSoS1.
(* flag given to the behaviour: standard, or one of the finite strain tangent operators *)
Inductive toper := DSIG_DF | DS_DEGL | DPK1_DF | DTAU_DDF | TOInvalid.
Inductive smflag := FStd | FFS (t : toper).
Inductive event :=
| EPolicy (p : policy) | EInit | EBounds | ESoS (initial : bool) | EPred (t : smtype) (f : smflag) | EGetK
| EApriori (r : Q) | EInteg (t : smtype) (f : smflag) | EApost (r : Q) | EExport | EIE | EDE | EMinTsf.
Inductive kstate := KUntouched | KExported (t : smtype).
Inductive sosstate := SUntouched | SInitial | SFinal.
Inductive errtok := ErrNone | ErrInitFailed | ErrNoPrediction | ErrNoTangent | ErrExc (h : hook) | ErrBadStressMeasure | ErrBadTangent
  | ErrNoAxial. (* plane stress: the behaviour does not declare the axial strain / axial deformation gradient *)

Record result := {
  ret : Z;                 (* value returned *)
  trace : list event;      (* hooks of the behaviour, in call order, with what they received (reversed: last first) *)
  rdt : Q;                 (* *d.rdt after the call *)
  st_written : bool;       (* exportStateData ran: thermodynamic forces and internal state variables of s1 written *)
  se_written : bool;       (* s1.stored_energy written *)
  de_written : bool;       (* s1.dissipated_energy written *)
  kst : kstate;            (* K buffer seen by the behaviour *)
  sos : sosstate;          (* *d.speed_of_sound *)
  err : errtok             (* error message *)
}.

Definition start (rdt0 : Q) : result :=
  {| ret := 1; trace := []; rdt := rdt0; st_written := false; se_written := false; de_written := false;
     kst := KUntouched; sos := SUntouched; err := ErrNone |}.
Definition log (e : event) (r : result) : result :=
  {| ret := ret r; trace := e :: trace r; rdt := rdt r; st_written := st_written r; se_written := se_written r;
     de_written := de_written r; kst := kst r; sos := sos r; err := err r |}.
Definition set_ret (z : Z) (r : result) : result :=
  {| ret := z; trace := trace r; rdt := rdt r; st_written := st_written r; se_written := se_written r;
     de_written := de_written r; kst := kst r; sos := sos r; err := err r |}.
Definition set_rdt (q : Q) (r : result) : result :=
  {| ret := ret r; trace := trace r; rdt := q; st_written := st_written r; se_written := se_written r;
     de_written := de_written r; kst := kst r; sos := sos r; err := err r |}.
Definition set_err (e : errtok) (r : result) : result :=
  {| ret := ret r; trace := trace r; rdt := rdt r; st_written := st_written r; se_written := se_written r;
     de_written := de_written r; kst := kst r; sos := sos r; err := e |}.
Definition set_state (r : result) : result :=
  {| ret := ret r; trace := trace r; rdt := rdt r; st_written := true; se_written := se_written r;
     de_written := de_written r; kst := kst r; sos := sos r; err := err r |}.
Definition set_se (r : result) : result :=
  {| ret := ret r; trace := trace r; rdt := rdt r; st_written := st_written r; se_written := true;
     de_written := de_written r; kst := kst r; sos := sos r; err := err r |}.
Definition set_de (r : result) : result :=
  {| ret := ret r; trace := trace r; rdt := rdt r; st_written := st_written r; se_written := se_written r;
     de_written := true; kst := kst r; sos := sos r; err := err r |}.
Definition set_k (k : kstate) (r : result) : result :=
  {| ret := ret r; trace := trace r; rdt := rdt r; st_written := st_written r; se_written := se_written r;
     de_written := de_written r; kst := k; sos := sos r; err := err r |}.
Definition set_sos (s : sosstate) (r : result) : result :=
  {| ret := ret r; trace := trace r; rdt := rdt r; st_written := st_written r; se_written := se_written r;
     de_written := de_written r; kst := kst r; sos := s; err := err r |}.

(* `return -1` with a message *)
Definition failure (e : errtok) (r : result) : result := set_ret (-1) (set_err e r).
(* the `catch (...)` clause of integrate: message, rdt = minimal time step scaling factor, -1 *)
Definition caught (s : script) (h : hook) (r : result) : result :=
  set_ret (-1) (set_rdt (sc_mintsf s) (log EMinTsf (set_err (ErrExc h) r))).

(* ------------------------------------------------------------------ decoding of K[0] *)
Definition Qltb (a b : Q) : bool := negb (Qle_bool b a).
Definition speed_of_sound_requested (K0 : Q) : bool := Qltb 50 K0.
Definition effective_K0 (K0 : Q) : Q := if speed_of_sound_requested K0 then K0 - 100 else K0.
Definition is_prediction (Ke : Q) : bool := Qltb Ke (-(1#4)).
(* lambda of computePredictionOperator, applied to x *)
Definition prediction_kind (x : Q) : smtype :=
  if Qltb (-(3#2)) x then Elastic
  else if Qltb (-(5#2)) x && Qltb x (-(3#2)) then Secant
  else Tangent.
(* lambda of integrate, applied to Ke *)
Definition integration_kind (Ke : Q) : smtype :=
  if Qltb Ke (1#2) then NoStiffness
  else if Qltb (1#2) Ke && Qltb Ke (3#2) then Elastic
  else if Qltb (3#2) Ke && Qltb Ke (5#2) then Secant
  else if Qltb (5#2) Ke && Qltb Ke (7#2) then Tangent
  else Consistent.
Definition is_nostiffness (t : smtype) : bool := match t with NoStiffness => true | _ => false end.

(* ------------------------------------------------------------------ mfront::gb::integrate *)
(* the tail of integrate after a successful a posteriori time step check, as in the pinned header:
   exportStateData, tangent operator, energies, speed of sound *)
Definition finish_late (tr : traits) (s : script) (bs : bool) (Ke : Q) (smt : smtype) (r0 : result) : result :=
  let r := set_state (log EExport r0) in
  let kexp := hasCTO tr && Qltb (1#2) Ke in
  let r := if kexp then log EGetK r else r in
  match (if kexp then sc_texport s else Ok) with
  | Ok =>
    let r := if kexp then set_k (KExported smt) r else r in
    let r := if hasIE tr then log EIE r else r in
    match (if hasIE tr then sc_ie s else Ok) with
    | Ok =>
      let r := if hasIE tr then set_se r else r in
      let r := if hasDE tr then log EDE r else r in
      match (if hasDE tr then sc_de s else Ok) with
      | Ok =>
        let r := if hasDE tr then set_de r else r in
        let r := if bs then log (ESoS false) r else r in
        match (if bs then sc_sos1 s else Ok) with
        | Ok => let r := if bs then set_sos SFinal r else r in
                set_ret (if Qltb (rdt r) (99#100) then 0 else 1) r
        | _ => caught s HSoS1 r
        end
      | _ => caught s HDE r
      end
    | _ => caught s HIE r
    end
  | _ => caught s HTExport r
  end.

(* the same tail when everything that may throw is evaluated before the output state is modified *)
Definition finish_early (tr : traits) (s : script) (bs : bool) (Ke : Q) (smt : smtype) (r0 : result) : result :=
  let kexp := hasCTO tr && Qltb (1#2) Ke in
  let r := if kexp then log EGetK r0 else r0 in
  match (if kexp then sc_texport s else Ok) with
  | Ok =>
    let r := if kexp then set_k (KExported smt) r else r in
    let r := if hasIE tr then log EIE r else r in
    match (if hasIE tr then sc_ie s else Ok) with
    | Ok =>
      let r := if hasDE tr then log EDE r else r in
      match (if hasDE tr then sc_de s else Ok) with
      | Ok =>
        let r := if bs then log (ESoS false) r else r in
        match (if bs then sc_sos1 s else Ok) with
        | Ok =>
          let r := set_state (log EExport r) in
          let r := if hasIE tr then set_se r else r in
          let r := if hasDE tr then set_de r else r in
          let r := if bs then set_sos SFinal r else r in
          set_ret (if Qltb (rdt r) (99#100) then 0 else 1) r
        | _ => caught s HSoS1 r
        end
      | _ => caught s HDE r
      end
    | _ => caught s HIE r
    end
  | _ => caught s HTExport r
  end.

(* [strict]: the policy given to the behaviour is Strict (the only thing checkBounds makes of it that matters here) *)
Definition integrate_body (v : variant) (tr : traits) (f : smflag) (K0 : Q) (strict : bool) (rdt0 : Q) (s : script) : result :=
  let r := log EInit (start rdt0) in
  match sc_init s with
  | Fail => failure ErrInitFailed r
  | Throw => caught s HInit r
  | Ok =>
    let r := log EBounds r in
    if sc_oob s && strict then caught s HBounds r
    else
      let bs := speed_of_sound_requested K0 in
      let Ke := effective_K0 K0 in
      if is_prediction Ke then
        (* prediction operator only *)
        let r := if bs then log (ESoS true) r else r in
        match (if bs then sc_sos0 s else Ok) with
        | Ok =>
          let r := if bs then set_sos SInitial r else r in
          if negb (hasPred tr) then failure ErrNoPrediction r
          else
            let smt := prediction_kind (if v_pred_raw v then K0 else Ke) in
            let r := log (EPred smt f) r in
            match sc_pred s with
            | Fail => set_ret (-1) r
            | Throw => caught s HPred r
            | Ok =>
              let r := log EGetK r in
              match sc_texport s with
              | Ok => set_ret 1 (set_k (KExported smt) r)
              | _ => caught s HTExport r
              end
            end
        | _ => caught s HSoS0 r
        end
      else
        let smt := integration_kind Ke in
        if negb (hasCTO tr) && negb (is_nostiffness smt) then failure ErrNoTangent r
        else
          let r := log (EApriori (rdt r)) r in
          match sc_apriori s with
          | Throw => caught s HApriori r
          | Fail => set_ret (-1) (set_rdt (sc_apriori_v s) r)
          | Ok =>
            let r := set_rdt (sc_apriori_v s) r in
            let r := log (EInteg smt f) r in
            match sc_integ s with
            | IThrow => caught s HInteg r
            | IFailure => set_ret (-1) (set_rdt (sc_mintsf s) (log EMinTsf r))
            | _ =>
              let r := log (EApost (rdt r)) r in
              match sc_apost s with
              | Throw => caught s HApost r
              | o =>
                let r := if Qltb (sc_apost_v s) (rdt r) then set_rdt (sc_apost_v s) r else r in
                match o with
                | Fail => set_ret (-1) r
                | _ => if v_late_throw v then finish_late tr s bs Ke smt r else finish_early tr s bs Ke smt r
                end
              end
            end
          end
  end.

(* the behaviour is built and told the policy (setOutOfBoundsPolicy) before anything else *)
Definition is_strict (p : policy) : bool := match p with PStrict => true | _ => false end.
Definition tell_policy (p : policy) (r : result) : result :=
  {| ret := ret r; trace := trace r ++ [EPolicy p]; rdt := rdt r; st_written := st_written r; se_written := se_written r;
     de_written := de_written r; kst := kst r; sos := sos r; err := err r |}.
Definition integrate (v : variant) (tr : traits) (f : smflag) (K0 : Q) (p : policy) (rdt0 : Q) (s : script) : result :=
  tell_policy p (integrate_body v tr f K0 (is_strict p) rdt0 s).

(* ------------------------------------------------------------------ finite strain wrappers *)
Inductive wrapper := WGreenLagrange | WHencky | WFiniteStrain.
Inductive smeasure := Cauchy | PK2 | PK1 | SMInvalid.

(* getStressMeasure *)
Definition stress_measure (K1 : Q) : smeasure :=
  if Qltb K1 (1#2) then Cauchy else if Qltb K1 (3#2) then PK2 else if Qltb K1 (5#2) then PK1 else SMInvalid.
(* getTangentOperator (TOInvalid stands for the C_TRUESDELL error value) *)
Definition tangent_operator (K0 K2 : Q) : toper :=
  if Qltb (-(1#2)) K0 && Qltb K0 (1#2) then DSIG_DF
  else if Qltb K2 (1#2) then DSIG_DF else if Qltb K2 (3#2) then DS_DEGL else if Qltb K2 (5#2) then DPK1_DF
  else if Qltb K2 (7#2) then DTAU_DDF else TOInvalid.

(* where the output stress of the caller comes from *)
Inductive fluxsrc := FromState | FromZero | FromInitial.
Inductive fluxstate := FluxUntouched | FluxWritten (m : smeasure) (s : fluxsrc).
(* caller's K buffer after the wrapper *)
Inductive wkstate :=
| WKUntouched
| WKExported (t : smtype) (f : toper)          (* finite strain behaviours export straight into the caller's buffer *)
| WKPrediction (f : toper) (t : smtype)        (* conversion at (F0,F0,s0) of the operator exported by the behaviour *)
| WKIntegration (f : toper) (t : smtype) (from_state : bool)  (* conversion at (F0,F1,s1), s1 from the exported / a zero stress *)
| WKGarbage.                                   (* conversion of an operator that the behaviour never exported *)

Record wresult := {
  w_ret : Z;
  w_called : bool;          (* the behaviour has been built and called *)
  w_inner : result;         (* what the inner mfront::gb::integrate did *)
  w_K0_seen : Q;            (* K[0] seen by the behaviour *)
  w_sm : smeasure;          (* stress measure used to convert the initial stress *)
  w_flux_private : bool;    (* the behaviour writes its stress in a buffer private to the wrapper *)
  w_flux : fluxstate;       (* caller's s1.thermodynamic_forces *)
  w_K : wkstate;
  w_err : errtok
}.

Definition wrapper_error (p : policy) (rdt0 : Q) (e : errtok) : wresult :=
  {| w_ret := -1; w_called := false; w_inner := start rdt0; w_K0_seen := 0; w_sm := SMInvalid; w_flux_private := false;
     w_flux := FluxUntouched; w_K := WKUntouched; w_err := e |}.

Definition post_process (v : variant) (r : Z) : bool :=
  if v_wrap_nonzero v then negb (r =? 0)%Z else negb (r =? -1)%Z.

Definition wrap (v : variant) (w : wrapper) (tr : traits) (K0 K1 K2 : Q) (p : policy) (rdt0 : Q) (s : script) : wresult :=
  let sm := stress_measure K1 in
  match sm with
  | SMInvalid => wrapper_error p rdt0 ErrBadStressMeasure
  | _ =>
    let smf := tangent_operator K0 K2 in
    match smf with
    | TOInvalid => wrapper_error p rdt0 ErrBadTangent
    | _ =>
      let Ke := effective_K0 K0 in
      match w with
      | WFiniteStrain =>
        let inner := integrate v tr (FFS smf) K0 p rdt0 s in
        let r := ret inner in
        let priv := match sm with Cauchy => false | _ => true end in
        let flux :=
          if priv then
            if negb (is_prediction Ke) && post_process v r
            then FluxWritten sm (if st_written inner then FromState else FromInitial)
            else FluxUntouched
          else if st_written inner then FluxWritten Cauchy FromState else FluxUntouched in
        {| w_ret := r; w_called := true; w_inner := inner; w_K0_seen := K0; w_sm := sm; w_flux_private := priv;
           w_flux := flux;
           w_K := match kst inner with KUntouched => WKUntouched | KExported t => WKExported t smf end;
           w_err := err inner |}
      | _ =>
        let inner := integrate v tr FStd K0 p rdt0 s in
        let r := ret inner in
        let x := if v_wrap_raw v then K0 else Ke in
        let bp := Qltb x (-(1#2)) in
        let bk := Qltb (1#2) x in
        let pp := post_process v r in
        let conv (integration : bool) :=
          match kst inner with
          | KUntouched => WKGarbage
          | KExported t => if integration then WKIntegration smf t (st_written inner) else WKPrediction smf t
          end in
        {| w_ret := r; w_called := true; w_inner := inner; w_K0_seen := K0; w_sm := sm; w_flux_private := true;
           w_flux := if pp && negb bp then FluxWritten sm (if st_written inner then FromState else FromZero) else FluxUntouched;
           w_K := if pp then (if bp then conv false else if bk then conv true else WKUntouched) else WKUntouched;
           w_err := err inner |}
      end
    end
  end.

(* ------------------------------------------------------------------ the wrappers in every modelling hypothesis
   [ps]: the hypothesis is PlaneStress or AxisymmetricalGeneralisedPlaneStress; [has_axial]: GenericBehaviourTraits declares
   has_axial_strain_offset (strain measure wrappers) / has_axial_deformation_gradient_offset (finite strain wrapper).
   In the plane stress branches the wrappers read the axial strain / axial deformation gradient in the internal state variables
   (at the beginning of the step before the behaviour is built, at the end of the step when the stress is post-processed); a
   behaviour that does not declare it is refused before it is built -- by the finite strain wrapper only when the stress
   measure is not the Cauchy stress (the conversions are the only users of the axial deformation gradient).  Everything else
   is independent of the hypothesis. *)
Definition needs_axial (w : wrapper) (K1 : Q) : bool :=
  match w with
  | WFiniteStrain => match stress_measure K1 with Cauchy => false | _ => true end
  | _ => true
  end.
Definition wrap_h (v : variant) (w : wrapper) (ps has_axial : bool) (tr : traits) (K0 K1 K2 : Q) (p : policy) (rdt0 : Q)
  (s : script) : wresult :=
  let r := wrap v w tr K0 K1 K2 p rdt0 s in
  if w_called r && ps && negb has_axial && needs_axial w K1 then wrapper_error p rdt0 ErrNoAxial else r.

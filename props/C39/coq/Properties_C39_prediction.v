(* C39 -- every documented code of K[0], prediction requests included, with or without the +100 offset, selects the
   documented computation.  Holds when computePredictionOperator decodes the value without the offset. *)
From Coq Require Import QArith ZArith List Bool.
From C39 Require Import C39Model C39Spec C39Proofs C39_gen.
Import ListNotations.
Local Open Scope Q_scope.

Theorem C39_requests_decoded : forall tr f K0 p rdt0 s n sos, (-3 <= n <= 4)%Z -> encodes K0 n sos ->
  all_hooks_succeed s -> full_traits tr ->
  let r := integrate code_variant tr f K0 p rdt0 s in
  Some (requests r) = option_map (fun q => [q]) (documented_request n) /\
  speed_of_sound_calls r = (if sos then [(n <? 0)%Z] else []).
Proof.
  exact (fun tr f K0 p rdt0 s n sos Hn He Hs Ht =>
    integrate_requests code_variant tr f K0 p rdt0 s n sos Hn He Hs Ht (fun _ => eq_refl)).
Qed.
Print Assumptions C39_requests_decoded.

(* C39 / C40 -- specification, written from the documentation of the calling convention
   (mfront/include/MFront/GenericBehaviour/BehaviourData.h, comment of the member K;
    docs/web/generic-behaviours-interface.md for the stress measures / tangent operators),
   independently of the way Integrate.hxx decodes.  It only uses the vocabulary of observations
   (events, result) of C39Model. *)
From Coq Require Import QArith ZArith List Bool.
From C39 Require Import C39Model.
Import ListNotations.
Local Open Scope Q_scope.

(* what the caller asks for *)
Inductive request := ReqPrediction (t : smtype) | ReqIntegration (t : smtype).

(* BehaviourData.h: "Ke has the following meaning" (the entry [2.5:3.5] reads "secant" in the header, an obvious
   slip for "tangent": 2 is already the secant operator and 3 is used for the tangent operator everywhere else) *)
Definition documented_request (n : Z) : option request :=
  match n with
  | (-3)%Z => Some (ReqPrediction Tangent)
  | (-2)%Z => Some (ReqPrediction Secant)
  | (-1)%Z => Some (ReqPrediction Elastic)
  | 0%Z => Some (ReqIntegration NoStiffness)
  | 1%Z => Some (ReqIntegration Elastic)
  | 2%Z => Some (ReqIntegration Secant)
  | 3%Z => Some (ReqIntegration Tangent)
  | 4%Z => Some (ReqIntegration Consistent)
  | _ => None
  end.

(* K0 encodes the integer code n, with or without the +100 offset that requests the speed of sound; the documented
   intervals are centred on the integers: we take the open quarter neighbourhood, where every reading of the
   documented closed intervals agrees *)
Definition near (q : Q) (n : Z) : Prop := inject_Z n - (1#4) < q /\ q < inject_Z n + (1#4).
Definition encodes (K0 : Q) (n : Z) (speed_of_sound : bool) : Prop :=
  if speed_of_sound then near (K0 - 100) n else near K0 n.

(* the requests actually made to the behaviour, in call order *)
Definition requests (r : result) : list request :=
  flat_map (fun e => match e with
                     | EPred t _ => [ReqPrediction t]
                     | EInteg t _ => [ReqIntegration t]
                     | _ => [] end) (rev (trace r)).
Definition speed_of_sound_calls (r : result) : list bool :=
  flat_map (fun e => match e with ESoS i => [i] | _ => [] end) (rev (trace r)).

(* nothing of the output state s1 has been written *)
Definition state_untouched (r : result) : Prop :=
  st_written r = false /\ se_written r = false /\ de_written r = false.

(* K[1], K[2] of finite strain behaviours (BehaviourData.h) *)
Definition documented_stress_measure (n : Z) : option smeasure :=
  match n with 0%Z => Some Cauchy | 1%Z => Some PK2 | 2%Z => Some PK1 | _ => None end.
Definition documented_tangent_operator (n : Z) : option toper :=
  match n with 0%Z => Some DSIG_DF | 1%Z => Some DS_DEGL | 2%Z => Some DPK1_DF | _ => None end.

(* a script on which every hook succeeds *)
Definition all_hooks_succeed (s : script) : Prop :=
  sc_init s = Ok /\ sc_oob s = false /\ sc_sos0 s = Ok /\ sc_pred s = Ok /\ sc_texport s = Ok /\ sc_apriori s = Ok /\
  (sc_integ s = ISuccess \/ sc_integ s = IUnreliable) /\ sc_apost s = Ok /\ sc_ie s = Ok /\ sc_de s = Ok /\ sc_sos1 s = Ok.
Definition full_traits (tr : traits) : Prop := hasCTO tr = true /\ hasPred tr = true.

Definition Qmin (a b : Q) : Q := if Qle_bool a b then a else b.

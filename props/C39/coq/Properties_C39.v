(* C39 -- property theorems that hold whatever the variant of the header (statements only; proofs in C39Proofs.v).
   [code_variant] (C39_gen.v, written by the check on every run) is the variant of the model that corresponds to the
   working tree. *)
From Coq Require Import QArith ZArith List Bool.
From C39 Require Import C39Model C39Spec C39Proofs C39_gen.
Import ListNotations.
Local Open Scope Q_scope.

(* the return value is -1, 0 or 1 *)
Theorem C39_return_code_range : forall tr f K0 p rdt0 s,
  let r := integrate code_variant tr f K0 p rdt0 s in (ret r = -1 \/ ret r = 0 \/ ret r = 1)%Z.
Proof. exact (ret_range code_variant). Qed.
Print Assumptions C39_return_code_range.

(* success of an integration request: the proposed time step scaling factor is the smaller of the a priori and
   a posteriori factors of the behaviour; 0 is returned exactly when it is below 0.99, 1 otherwise; the state is exported *)
Theorem C39_return_code_rule : forall tr f K0 p rdt0 s, let r := integrate code_variant tr f K0 p rdt0 s in
  is_prediction (effective_K0 K0) = false -> ret r <> (-1)%Z ->
  rdt r = (if Qltb (sc_apost_v s) (sc_apriori_v s) then sc_apost_v s else sc_apriori_v s) /\
  (ret r = 0%Z <-> rdt r < 99#100) /\ (ret r = 1%Z <-> 99#100 <= rdt r) /\ st_written r = true.
Proof. exact (integration_success code_variant). Qed.
Print Assumptions C39_return_code_rule.

(* success of a prediction request: 1, the time step scaling factor is left alone *)
Theorem C39_prediction_return_code : forall tr f K0 p rdt0 s, let r := integrate code_variant tr f K0 p rdt0 s in
  is_prediction (effective_K0 K0) = true -> ret r <> (-1)%Z -> ret r = 1%Z /\ rdt r = rdt0.
Proof. exact (prediction_success code_variant). Qed.
Print Assumptions C39_prediction_return_code.

(* every failure of a hook that the entry point consults is reported by -1 *)
Theorem C39_failures_give_minus_one : forall tr f K0 p rdt0 s, let r := integrate code_variant tr f K0 p rdt0 s in
  (sc_init s <> Ok -> ret r = (-1)%Z) /\
  (sc_oob s = true -> p = PStrict -> ret r = (-1)%Z) /\
  (is_prediction (effective_K0 K0) = true ->
     (hasPred tr = false \/ sc_pred s <> Ok \/ (speed_of_sound_requested K0 = true /\ sc_sos0 s <> Ok)) -> ret r = (-1)%Z) /\
  (is_prediction (effective_K0 K0) = false ->
     (sc_apriori s <> Ok \/ sc_integ s = IFailure \/ sc_integ s = IThrow \/ sc_apost s <> Ok) -> ret r = (-1)%Z).
Proof. exact (failure_table code_variant). Qed.
Print Assumptions C39_failures_give_minus_one.

(* ... and when every hook succeeds and the behaviour implements the operators, the call succeeds *)
Theorem C39_success_when_all_hooks_succeed : forall tr f K0 p rdt0 s, all_hooks_succeed s -> full_traits tr ->
  ret (integrate code_variant tr f K0 p rdt0 s) <> (-1)%Z.
Proof. exact (success_when_all_succeed code_variant). Qed.
Print Assumptions C39_success_when_all_hooks_succeed.

(* integration requests (documented codes 0..4, with or without +100): the behaviour is asked exactly the documented
   computation, and the speed of sound exactly when requested *)
Theorem C39_integration_requests_decoded : forall tr f K0 p rdt0 s n sos, (0 <= n <= 4)%Z -> encodes K0 n sos ->
  all_hooks_succeed s -> full_traits tr ->
  let r := integrate code_variant tr f K0 p rdt0 s in
  Some (requests r) = option_map (fun q => [q]) (documented_request n) /\
  speed_of_sound_calls r = (if sos then [(n <? 0)%Z] else []).
Proof.
  exact (fun tr f K0 p rdt0 s n sos Hn He Hs Ht =>
    integrate_requests code_variant tr f K0 p rdt0 s n sos (conj (Z.le_trans _ _ _ (Z.lt_le_incl (-3) 0 eq_refl) (proj1 Hn)) (proj2 Hn)) He Hs Ht
      (fun Hneg => False_ind _ (proj1 (Z.lt_nge n 0) Hneg (proj1 Hn)))).
Qed.
Print Assumptions C39_integration_requests_decoded.

(* Strict: an out of bounds variable makes the call fail before anything is asked to the behaviour *)
Theorem C39_strict_policy : forall tr f K0 rdt0 s, sc_init s = Ok -> sc_oob s = true ->
  let r := integrate code_variant tr f K0 PStrict rdt0 s in
  ret r = (-1)%Z /\ requests r = [] /\ state_untouched r /\ kst r = KUntouched /\ err r = ErrExc HBounds.
Proof. exact (strict_out_of_bounds code_variant). Qed.
Print Assumptions C39_strict_policy.

(* Warning and None give the same results *)
Theorem C39_warning_and_none_agree : forall tr f K0 rdt0 s,
  same_but_policy (integrate code_variant tr f K0 PWarning rdt0 s) (integrate code_variant tr f K0 PNone rdt0 s).
Proof. exact (warning_none_agree code_variant). Qed.
Print Assumptions C39_warning_and_none_agree.

(* a prediction request never modifies the output state *)
Theorem C39_prediction_leaves_state_untouched : forall tr f K0 p rdt0 s, is_prediction (effective_K0 K0) = true ->
  state_untouched (integrate code_variant tr f K0 p rdt0 s).
Proof. exact (prediction_state_untouched code_variant). Qed.
Print Assumptions C39_prediction_leaves_state_untouched.

(* K[1] and K[2] of finite strain behaviours follow the documented tables; an invalid stress measure is refused *)
Theorem C39_stress_measure_table : forall K1 n, (0 <= n <= 2)%Z -> near K1 n ->
  Some (stress_measure K1) = documented_stress_measure n.
Proof. exact stress_measure_table. Qed.
Print Assumptions C39_stress_measure_table.

Theorem C39_tangent_operator_table : forall K0 K2 n, (0 <= n <= 2)%Z -> near K2 n -> ~ (-(1#2) < K0 < 1#2) ->
  Some (tangent_operator K0 K2) = documented_tangent_operator n.
Proof. exact tangent_operator_table. Qed.
Print Assumptions C39_tangent_operator_table.

Theorem C39_invalid_stress_measure_refused : forall w tr K0 K1 K2 p rdt0 s, 5#2 <= K1 ->
  let r := wrap code_variant w tr K0 K1 K2 p rdt0 s in
  w_ret r = (-1)%Z /\ w_called r = false /\ w_flux r = FluxUntouched /\ w_K r = WKUntouched.
Proof. exact (invalid_stress_measure code_variant). Qed.
Print Assumptions C39_invalid_stress_measure_refused.

(* the finite strain wrappers return what the inner call returned *)
Theorem C39_wrapper_returns_inner_code : forall w tr K0 K1 K2 p rdt0 s, let r := wrap code_variant w tr K0 K1 K2 p rdt0 s in
  w_called r = true -> w_ret r = ret (w_inner r).
Proof. exact (wrapper_returns_inner code_variant). Qed.
Print Assumptions C39_wrapper_returns_inner_code.

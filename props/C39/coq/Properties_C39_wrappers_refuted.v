(* C39 -- on the working tree the wrappers do NOT follow the convention: either a successful integration returning 0
   (time step reduction advised) never delivers its stress, or a prediction request with the speed of sound
   overwrites the output stress. *)
From Coq Require Import QArith ZArith List Bool.
From C39 Require Import C39Model C39Spec C39Proofs C39_gen.
Import ListNotations.
Local Open Scope Q_scope.

Theorem C39_wrappers_refuted :
  exists w tr K0 K1 K2 p rdt0 s, let r := wrap code_variant w tr K0 K1 K2 p rdt0 s in
    w_called r = true /\
    ((w_ret r = 0%Z /\ st_written (w_inner r) = true /\ is_prediction (effective_K0 K0) = false /\ w_flux r = FluxUntouched) \/
     (is_prediction (effective_K0 K0) = true /\ w_flux r <> FluxUntouched)).
Proof. exact (wrapper_convention_refuted code_variant eq_refl). Qed.
Print Assumptions C39_wrappers_refuted.

(* C39 / C40 -- lemmas about the model (C39Model) against the specification (C39Spec). *)
From Coq Require Import QArith ZArith List Bool Lia Lqa.
From C39 Require Import C39Model C39Spec.
Import ListNotations.
Local Open Scope Q_scope.

(* ------------------------------------------------------------------ comparisons *)
Lemma Qltb_true a b : a < b -> Qltb a b = true.
Proof. intro H. unfold Qltb. destruct (Qle_bool b a) eqn:E; [|reflexivity]. apply Qle_bool_iff in E. lra. Qed.
Lemma Qltb_false a b : b <= a -> Qltb a b = false.
Proof. intro H. unfold Qltb. apply Qle_bool_iff in H. rewrite H. reflexivity. Qed.
Lemma Qltb_lt a b : Qltb a b = true -> a < b.
Proof. unfold Qltb. destruct (Qle_bool b a) eqn:E; [discriminate|]. intros _.
  apply Qnot_le_lt. intro H. apply Qle_bool_iff in H. congruence. Qed.
Lemma Qltb_ge a b : Qltb a b = false -> b <= a.
Proof. unfold Qltb. destruct (Qle_bool b a) eqn:E; [|discriminate]. intros _. now apply Qle_bool_iff. Qed.

(* decide every comparison that follows from the hypotheses *)
Ltac qdec := repeat match goal with
  | |- context [Qltb ?a ?b] => first [rewrite (Qltb_true a b) by lra | rewrite (Qltb_false a b) by lra] end.

Ltac simp := cbn [ret trace rdt st_written se_written de_written kst sos err set_ret set_rdt set_err set_state set_se set_de
  set_k set_sos log failure caught start negb andb orb tell_policy is_strict
  sc_init sc_oob sc_sos0 sc_pred sc_texport sc_apriori sc_apriori_v sc_integ sc_apost sc_apost_v sc_ie sc_de sc_sos1 sc_mintsf
  hasCTO hasPred hasIE hasDE v_pred_raw v_late_throw v_wrap_nonzero v_wrap_raw is_nostiffness
  w_ret w_called w_inner w_K0_seen w_sm w_flux_private w_flux w_K w_err wrapper_error].
Tactic Notation "simp" "in" hyp(H) := cbn [ret trace rdt st_written se_written de_written kst sos err set_ret set_rdt set_err set_state set_se set_de
  set_k set_sos log failure caught start negb andb orb tell_policy is_strict
  sc_init sc_oob sc_sos0 sc_pred sc_texport sc_apriori sc_apriori_v sc_integ sc_apost sc_apost_v sc_ie sc_de sc_sos1 sc_mintsf
  hasCTO hasPred hasIE hasDE v_pred_raw v_late_throw v_wrap_nonzero v_wrap_raw is_nostiffness
  w_ret w_called w_inner w_K0_seen w_sm w_flux_private w_flux w_K w_err wrapper_error] in H.
Tactic Notation "simp" "in" "*" := cbn [ret trace rdt st_written se_written de_written kst sos err set_ret set_rdt set_err set_state set_se set_de
  set_k set_sos log failure caught start negb andb orb tell_policy is_strict
  sc_init sc_oob sc_sos0 sc_pred sc_texport sc_apriori sc_apriori_v sc_integ sc_apost sc_apost_v sc_ie sc_de sc_sos1 sc_mintsf
  hasCTO hasPred hasIE hasDE v_pred_raw v_late_throw v_wrap_nonzero v_wrap_raw is_nostiffness
  w_ret w_called w_inner w_K0_seen w_sm w_flux_private w_flux w_K w_err wrapper_error] in *.

(* case analysis following the control flow of the model: split on the scrutinee of an innermost match/if *)
Ltac split_path := repeat (simp;
  match goal with
  | |- context [match ?x with _ => _ end] =>
    lazymatch x with
    | context [match _ with _ => _ end] => fail
    | _ => first [ match x with negb ?y => is_var y; destruct y | andb ?y _ => is_var y; destruct y end
                 | is_var x; destruct x | destruct x eqn:?]
    end
  end).

Ltac done := simp; try solve [auto | discriminate | congruence | intuition (auto; try discriminate; try congruence)].

(* ------------------------------------------------------------------ decoding of K[0] (pure) *)
Lemma in_range (n : Z) : (-3 <= n <= 4)%Z -> n = (-3)%Z \/ n = (-2)%Z \/ n = (-1)%Z \/ n = 0%Z \/ n = 1%Z \/ n = 2%Z \/ n = 3%Z \/ n = 4%Z.
Proof. lia. Qed.

Lemma decode_offset K0 n sos : (-3 <= n <= 4)%Z -> encodes K0 n sos ->
  speed_of_sound_requested K0 = sos /\ near (effective_K0 K0) n.
Proof.
  intros Hn He. unfold encodes, near in He. unfold effective_K0, speed_of_sound_requested, near.
  apply in_range in Hn.
  destruct sos; destruct He as [H1 H2];
    destruct Hn as [->|[->|[->|[->|[->|[->|[->| ->]]]]]]]; unfold inject_Z in *; qdec; (split; [reflexivity|]); split; lra.
Qed.

Lemma decode_kind Ke n : (-3 <= n <= 4)%Z -> near Ke n ->
  documented_request n = Some (if is_prediction Ke then ReqPrediction (prediction_kind Ke) else ReqIntegration (integration_kind Ke))
  /\ is_prediction Ke = (n <? 0)%Z /\ Qltb (1#2) Ke = (0 <? n)%Z /\ Qltb Ke (-(1#2)) = (n <? 0)%Z.
Proof.
  intros Hn [H1 H2]. apply in_range in Hn. unfold is_prediction, prediction_kind, integration_kind.
  destruct Hn as [->|[->|[->|[->|[->|[->|[->| ->]]]]]]]; unfold inject_Z in *; qdec; cbn; auto.
Qed.

(* ------------------------------------------------------------------ requests made to the behaviour *)
Definition req_of (e : event) : list request :=
  match e with EPred t _ => [ReqPrediction t] | EInteg t _ => [ReqIntegration t] | _ => [] end.
Definition sos_of (e : event) : list bool := match e with ESoS i => [i] | _ => [] end.
Lemma requests_cons e l : flat_map req_of (rev (e :: l)) = flat_map req_of (rev l) ++ req_of e.
Proof. cbn [rev]. rewrite flat_map_app. cbn. now rewrite app_nil_r. Qed.
Lemma sos_cons e l : flat_map sos_of (rev (e :: l)) = flat_map sos_of (rev l) ++ sos_of e.
Proof. cbn [rev]. rewrite flat_map_app. cbn. now rewrite app_nil_r. Qed.
Lemma requests_eq r : requests r = flat_map req_of (rev (trace r)).
Proof. reflexivity. Qed.
Lemma sos_eq r : speed_of_sound_calls r = flat_map sos_of (rev (trace r)).
Proof. reflexivity. Qed.
Lemma requests_policy p l : flat_map req_of (rev (l ++ [EPolicy p])) = flat_map req_of (rev l).
Proof. rewrite rev_app_distr. reflexivity. Qed.
Lemma sos_policy p l : flat_map sos_of (rev (l ++ [EPolicy p])) = flat_map sos_of (rev l).
Proof. rewrite rev_app_distr. reflexivity. Qed.
Lemma requests_tell p r : requests (tell_policy p r) = requests r.
Proof. unfold requests, tell_policy. cbn [trace]. apply requests_policy. Qed.
Lemma sos_tell p r : speed_of_sound_calls (tell_policy p r) = speed_of_sound_calls r.
Proof. unfold speed_of_sound_calls, tell_policy. cbn [trace]. apply sos_policy. Qed.
Ltac reqs := rewrite ?requests_eq, ?sos_eq; simp; rewrite ?requests_policy, ?sos_policy, ?requests_cons, ?sos_cons;
  cbn [req_of sos_of app rev flat_map]; rewrite ?app_nil_r.

(* the tail of integrate makes no request to the behaviour, and asks for the final speed of sound exactly when bs *)
Lemma finish_late_requests tr s bs Ke smt r0 : requests (finish_late tr s bs Ke smt r0) = requests r0.
Proof. destruct tr, s. unfold finish_late. split_path; reqs; reflexivity. Qed.
Lemma finish_early_requests tr s bs Ke smt r0 : requests (finish_early tr s bs Ke smt r0) = requests r0.
Proof. destruct tr, s. unfold finish_early. split_path; reqs; reflexivity. Qed.
Lemma finish_late_sos tr s bs Ke smt r0 : sc_texport s = Ok -> sc_ie s = Ok -> sc_de s = Ok ->
  speed_of_sound_calls (finish_late tr s bs Ke smt r0) = speed_of_sound_calls r0 ++ (if bs then [false] else []).
Proof. destruct tr, s. simp. intros -> -> ->. unfold finish_late. split_path; reqs; rewrite ?app_nil_r; reflexivity. Qed.
Lemma finish_early_sos tr s bs Ke smt r0 : sc_texport s = Ok -> sc_ie s = Ok -> sc_de s = Ok ->
  speed_of_sound_calls (finish_early tr s bs Ke smt r0) = speed_of_sound_calls r0 ++ (if bs then [false] else []).
Proof. destruct tr, s. simp. intros -> -> ->. unfold finish_early. split_path; reqs; rewrite ?app_nil_r; reflexivity. Qed.

(* ------------------------------------------------------------------ return code *)
Lemma finish_late_ret tr s bs Ke smt r0 : let r := finish_late tr s bs Ke smt r0 in
  (ret r = -1 \/ ret r = 0 \/ ret r = 1)%Z.
Proof. destruct tr, s. unfold finish_late. split_path; done. Qed.
Lemma finish_early_ret tr s bs Ke smt r0 : let r := finish_early tr s bs Ke smt r0 in
  (ret r = -1 \/ ret r = 0 \/ ret r = 1)%Z.
Proof. destruct tr, s. unfold finish_early. split_path; done. Qed.
Lemma ret_range v tr f K0 p rdt0 s : let r := integrate v tr f K0 p rdt0 s in (ret r = -1 \/ ret r = 0 \/ ret r = 1)%Z.
Proof. destruct v, tr, s. unfold integrate, integrate_body. split_path; simp; auto using finish_late_ret, finish_early_ret. Qed.

(* on success the tail returns 0 / 1 by comparing the proposed factor with 0.99, leaves rdt alone, writes the state *)
Lemma finish_late_success tr s bs Ke smt r0 : let r := finish_late tr s bs Ke smt r0 in
  ret r <> (-1)%Z -> rdt r = rdt r0 /\ (ret r = 0%Z <-> rdt r0 < 99#100) /\ (ret r = 1%Z <-> 99#100 <= rdt r0) /\ st_written r = true.
Proof.
  destruct tr, s. unfold finish_late. split_path; simp; intro H; try congruence;
    (split; [reflexivity|]); (split; [|split; [|reflexivity]]);
    match goal with
    | c : Qltb _ _ = true |- _ => apply Qltb_lt in c; simp in c; split; intro; try discriminate; auto; lra
    | c : Qltb _ _ = false |- _ => apply Qltb_ge in c; simp in c; split; intro; try discriminate; auto; lra
    end.
Qed.
Lemma finish_early_success tr s bs Ke smt r0 : let r := finish_early tr s bs Ke smt r0 in
  ret r <> (-1)%Z -> rdt r = rdt r0 /\ (ret r = 0%Z <-> rdt r0 < 99#100) /\ (ret r = 1%Z <-> 99#100 <= rdt r0) /\ st_written r = true.
Proof.
  destruct tr, s. unfold finish_early. split_path; simp; intro H; try congruence;
    (split; [reflexivity|]); (split; [|split; [|reflexivity]]);
    match goal with
    | c : Qltb _ _ = true |- _ => apply Qltb_lt in c; simp in c; split; intro; try discriminate; auto; lra
    | c : Qltb _ _ = false |- _ => apply Qltb_ge in c; simp in c; split; intro; try discriminate; auto; lra
    end.
Qed.

(* a successful integration: the proposed factor is the smaller of the two factors of the behaviour, the return
   value is 0 exactly when it is below 0.99, the state has been exported *)
Lemma integration_success v tr f K0 p rdt0 s : let r := integrate v tr f K0 p rdt0 s in
  is_prediction (effective_K0 K0) = false -> ret r <> (-1)%Z ->
  rdt r = (if Qltb (sc_apost_v s) (sc_apriori_v s) then sc_apost_v s else sc_apriori_v s) /\
  (ret r = 0%Z <-> rdt r < 99#100) /\ (ret r = 1%Z <-> 99#100 <= rdt r) /\ st_written r = true.
Proof.
  destruct v, tr, s. unfold integrate, integrate_body. simp. intros Hp. rewrite Hp.
  split_path; simp; try congruence; intro H;
    match goal with
    | |- context [finish_late ?a ?b ?c ?d ?e ?g] => destruct (finish_late_success a b c d e g H) as (E1 & E2 & E3 & E4)
    | |- context [finish_early ?a ?b ?c ?d ?e ?g] => destruct (finish_early_success a b c d e g H) as (E1 & E2 & E3 & E4)
    end; simp in *; rewrite E1; auto.
Qed.

(* a prediction request: 1 on success *)
Lemma prediction_success v tr f K0 p rdt0 s : let r := integrate v tr f K0 p rdt0 s in
  is_prediction (effective_K0 K0) = true -> ret r <> (-1)%Z -> ret r = 1%Z /\ rdt r = rdt0.
Proof. destruct v, tr, s. unfold integrate, integrate_body. simp. intros Hp. rewrite Hp. split_path; done. Qed.

(* every failure of a hook that the template consults gives -1 *)
Lemma failure_table v tr f K0 p rdt0 s : let r := integrate v tr f K0 p rdt0 s in
  (sc_init s <> Ok -> ret r = (-1)%Z) /\
  (sc_oob s = true -> p = PStrict -> ret r = (-1)%Z) /\
  (is_prediction (effective_K0 K0) = true ->
     (hasPred tr = false \/ sc_pred s <> Ok \/ (speed_of_sound_requested K0 = true /\ sc_sos0 s <> Ok)) -> ret r = (-1)%Z) /\
  (is_prediction (effective_K0 K0) = false ->
     (sc_apriori s <> Ok \/ sc_integ s = IFailure \/ sc_integ s = IThrow \/ sc_apost s <> Ok) -> ret r = (-1)%Z).
Proof.
  destruct v, tr, s. unfold integrate, integrate_body. simp. repeat split.
  - destruct sc_init; done.
  - intros -> ->. destruct sc_init; done.
  - intros Hp. rewrite Hp. split_path; simp; intuition congruence.
  - intros Hp. rewrite Hp. split_path; simp; intuition congruence.
Qed.

(* when every hook succeeds and the behaviour supports the request the call succeeds *)
Lemma finish_late_ok tr s bs Ke smt r0 : sc_texport s = Ok -> sc_ie s = Ok -> sc_de s = Ok -> sc_sos1 s = Ok ->
  ret (finish_late tr s bs Ke smt r0) <> (-1)%Z.
Proof. destruct tr, s. simp. intros -> -> -> ->. unfold finish_late. split_path; done. Qed.
Lemma finish_early_ok tr s bs Ke smt r0 : sc_texport s = Ok -> sc_ie s = Ok -> sc_de s = Ok -> sc_sos1 s = Ok ->
  ret (finish_early tr s bs Ke smt r0) <> (-1)%Z.
Proof. destruct tr, s. simp. intros -> -> -> ->. unfold finish_early. split_path; done. Qed.
Lemma success_when_all_succeed v tr f K0 p rdt0 s : all_hooks_succeed s -> full_traits tr ->
  ret (integrate v tr f K0 p rdt0 s) <> (-1)%Z.
Proof.
  destruct v, tr, s. unfold all_hooks_succeed, full_traits. simp.
  intros (-> & -> & -> & -> & -> & -> & Hi & -> & -> & -> & ->) (-> & ->).
  unfold integrate, integrate_body. simp. destruct Hi as [-> | ->]; split_path; simp; try discriminate;
    first [apply finish_late_ok | apply finish_early_ok]; reflexivity.
Qed.

(* ------------------------------------------------------------------ out of bounds policy *)
Lemma strict_out_of_bounds v tr f K0 rdt0 s : sc_init s = Ok -> sc_oob s = true ->
  let r := integrate v tr f K0 PStrict rdt0 s in
  ret r = (-1)%Z /\ requests r = [] /\ state_untouched r /\ kst r = KUntouched /\ err r = ErrExc HBounds.
Proof. destruct v, tr, s. simp. intros -> ->. unfold integrate, integrate_body, state_untouched. simp. repeat split. Qed.

(* Warning and None give the same results: the model only looks at "strict" (the only difference is the policy the
   behaviour is told, first event of the trace) *)
Definition same_but_policy (a b : result) : Prop :=
  ret a = ret b /\ rdt a = rdt b /\ st_written a = st_written b /\ se_written a = se_written b /\ de_written a = de_written b /\
  kst a = kst b /\ sos a = sos b /\ err a = err b /\ removelast (trace a) = removelast (trace b).
Lemma warning_none_agree v tr f K0 rdt0 s :
  same_but_policy (integrate v tr f K0 PWarning rdt0 s) (integrate v tr f K0 PNone rdt0 s).
Proof. unfold same_but_policy, integrate, tell_policy. simp. rewrite !removelast_last. repeat split. Qed.

(* ------------------------------------------------------------------ output state *)
Lemma prediction_state_untouched v tr f K0 p rdt0 s : is_prediction (effective_K0 K0) = true ->
  state_untouched (integrate v tr f K0 p rdt0 s).
Proof. destruct v, tr, s. unfold integrate, integrate_body, state_untouched. simp. intros ->. split_path; done. Qed.

(* C40: with the throwing hooks evaluated first, -1 implies that nothing of s1 was written *)
Lemma finish_early_failure tr s bs Ke smt r0 : state_untouched r0 ->
  ret (finish_early tr s bs Ke smt r0) = (-1)%Z -> state_untouched (finish_early tr s bs Ke smt r0).
Proof.
  destruct tr, s, r0. unfold state_untouched. simp. intros (-> & -> & ->). unfold finish_early. split_path; simp; try discriminate; auto.
Qed.
Lemma failure_state_untouched v tr f K0 p rdt0 s : v_late_throw v = false ->
  ret (integrate v tr f K0 p rdt0 s) = (-1)%Z -> state_untouched (integrate v tr f K0 p rdt0 s).
Proof.
  destruct v, tr, s. simp. intros ->. unfold integrate, integrate_body. simp.
  split_path; simp; try (intros; unfold state_untouched; simp; repeat split; reflexivity);
    apply finish_early_failure; unfold state_untouched; simp; repeat split; reflexivity.
Qed.
(* ... and in the pinned order it does not *)
Definition script_ok : script :=
  {| sc_init := Ok; sc_oob := false; sc_sos0 := Ok; sc_pred := Ok; sc_texport := Ok; sc_apriori := Ok; sc_apriori_v := 1;
     sc_integ := ISuccess; sc_apost := Ok; sc_apost_v := 1; sc_ie := Ok; sc_de := Ok; sc_sos1 := Ok; sc_mintsf := 1#10 |}.
Definition script_ie_throws : script :=
  {| sc_init := Ok; sc_oob := false; sc_sos0 := Ok; sc_pred := Ok; sc_texport := Ok; sc_apriori := Ok; sc_apriori_v := 1;
     sc_integ := ISuccess; sc_apost := Ok; sc_apost_v := 1; sc_ie := Throw; sc_de := Ok; sc_sos1 := Ok; sc_mintsf := 1#10 |}.
Definition script_integ_fails : script :=
  {| sc_init := Ok; sc_oob := false; sc_sos0 := Ok; sc_pred := Ok; sc_texport := Ok; sc_apriori := Ok; sc_apriori_v := 1;
     sc_integ := IFailure; sc_apost := Ok; sc_apost_v := 1; sc_ie := Ok; sc_de := Ok; sc_sos1 := Ok; sc_mintsf := 1#10 |}.
Definition script_small_step : script :=
  {| sc_init := Ok; sc_oob := false; sc_sos0 := Ok; sc_pred := Ok; sc_texport := Ok; sc_apriori := Ok; sc_apriori_v := 1;
     sc_integ := ISuccess; sc_apost := Ok; sc_apost_v := 1#2; sc_ie := Ok; sc_de := Ok; sc_sos1 := Ok; sc_mintsf := 1#10 |}.
Definition all_traits := {| hasCTO := true; hasPred := true; hasIE := true; hasDE := true |}.

Lemma failure_state_written v : v_late_throw v = true ->
  exists tr f K0 p rdt0 s, ret (integrate v tr f K0 p rdt0 s) = (-1)%Z /\ st_written (integrate v tr f K0 p rdt0 s) = true.
Proof.
  destruct v. simp. intros ->. exists (all_traits). exists (FStd). exists (4). exists (PNone). exists (1). exists (script_ie_throws). vm_compute. auto.
Qed.

(* ------------------------------------------------------------------ the request follows the documented table *)
Lemma integrate_requests v tr f K0 p rdt0 s n sos : (-3 <= n <= 4)%Z -> encodes K0 n sos ->
  all_hooks_succeed s -> full_traits tr -> ((n < 0)%Z -> v_pred_raw v = false) ->
  let r := integrate v tr f K0 p rdt0 s in
  Some (requests r) = option_map (fun q => [q]) (documented_request n) /\
  speed_of_sound_calls r = (if sos then [(n <? 0)%Z] else []).
Proof.
  intros Hn He Hs Ht Hv. destruct (decode_offset K0 n sos Hn He) as [Hbs Hnear].
  destruct (decode_kind _ n Hn Hnear) as (Hdoc & Hpred & _ & _).
  destruct v, tr, s. unfold all_hooks_succeed, full_traits in *. simp in *.
  destruct Hs as (-> & -> & -> & -> & -> & -> & Hi & -> & -> & -> & ->). destruct Ht as (-> & ->).
  rewrite Hdoc. unfold integrate. rewrite requests_tell, sos_tell. unfold integrate_body. simp. rewrite Hbs, Hpred. clear Hdoc Hbs.
  destruct (n <? 0)%Z eqn:En.
  - apply Z.ltb_lt in En. rewrite (Hv En). cbn [option_map]. destruct sos; simp; split; reqs; reflexivity.
  - cbn [option_map]. destruct Hi as [-> | ->]; destruct v_late_throw; simp;
      rewrite ?finish_late_requests, ?finish_early_requests, ?finish_late_sos, ?finish_early_sos by reflexivity;
      destruct (Qltb sc_apost_v sc_apriori_v);
      (split; [reqs; reflexivity | reqs; destruct sos; reflexivity]).
Qed.

Lemma prediction_request_refuted v : v_pred_raw v = true ->
  exists tr f p rdt0 s, all_hooks_succeed s /\ full_traits tr /\
    encodes 98 (-2) true /\
    requests (integrate v tr f 98 p rdt0 s) = [ReqPrediction Elastic] /\
    documented_request (-2) = Some (ReqPrediction Secant).
Proof.
  destruct v. simp. intros ->. exists (all_traits). exists (FStd). exists (PNone). exists (1). exists (script_ok).
  split; [unfold all_hooks_succeed; cbn; intuition|]. split; [split; reflexivity|].
  split; [unfold encodes, near, inject_Z; split; lra|]. split; reflexivity.
Qed.

(* ------------------------------------------------------------------ K[1], K[2] *)
Lemma stress_measure_table K1 n : (0 <= n <= 2)%Z -> near K1 n -> Some (stress_measure K1) = documented_stress_measure n.
Proof.
  intros Hn [H1 H2]. assert (n = 0 \/ n = 1 \/ n = 2)%Z as [-> | [-> | ->]] by lia; unfold inject_Z in *;
    unfold stress_measure; qdec; reflexivity.
Qed.
Lemma tangent_operator_table K0 K2 n : (0 <= n <= 2)%Z -> near K2 n -> ~ (-(1#2) < K0 < 1#2) ->
  Some (tangent_operator K0 K2) = documented_tangent_operator n.
Proof.
  intros Hn [H1 H2] HK. unfold tangent_operator.
  assert (Qltb (-(1#2)) K0 && Qltb K0 (1#2) = false) as ->.
  { destruct (Qltb (-(1#2)) K0) eqn:E1; [|reflexivity]. destruct (Qltb K0 (1#2)) eqn:E2; [|reflexivity].
    apply Qltb_lt in E1, E2. exfalso. apply HK. split; assumption. }
  assert (n = 0 \/ n = 1 \/ n = 2)%Z as [-> | [-> | ->]] by lia; unfold inject_Z in *; qdec; reflexivity.
Qed.
Lemma invalid_stress_measure v w tr K0 K1 K2 p rdt0 s : 5#2 <= K1 ->
  let r := wrap v w tr K0 K1 K2 p rdt0 s in w_ret r = (-1)%Z /\ w_called r = false /\ w_flux r = FluxUntouched /\ w_K r = WKUntouched.
Proof. intro H. unfold wrap, stress_measure. qdec. simp. auto. Qed.

(* ------------------------------------------------------------------ wrappers *)
Lemma wrapper_returns_inner v w tr K0 K1 K2 p rdt0 s : let r := wrap v w tr K0 K1 K2 p rdt0 s in
  w_called r = true -> w_ret r = ret (w_inner r).
Proof. unfold wrap. destruct (stress_measure K1), (tangent_operator K0 K2), w; simp; congruence. Qed.


(* ------------------------------------------------------------------ what the behaviour exported in K *)
Lemma finish_late_kst tr s bs Ke smt r0 : ret (finish_late tr s bs Ke smt r0) <> (-1)%Z ->
  kst (finish_late tr s bs Ke smt r0) = if hasCTO tr && Qltb (1#2) Ke then KExported smt else kst r0.
Proof. destruct tr, s. unfold finish_late. split_path; simp; try congruence; reflexivity. Qed.
Lemma finish_early_kst tr s bs Ke smt r0 : ret (finish_early tr s bs Ke smt r0) <> (-1)%Z ->
  kst (finish_early tr s bs Ke smt r0) = if hasCTO tr && Qltb (1#2) Ke then KExported smt else kst r0.
Proof. destruct tr, s. unfold finish_early. split_path; simp; try congruence; reflexivity. Qed.
Lemma integration_kst v tr f K0 p rdt0 s : let r := integrate v tr f K0 p rdt0 s in let Ke := effective_K0 K0 in
  is_prediction Ke = false -> ret r <> (-1)%Z ->
  kst r = if hasCTO tr && Qltb (1#2) Ke then KExported (integration_kind Ke) else KUntouched.
Proof.
  destruct v, tr, s. unfold integrate, integrate_body. simp. intros Hp. rewrite Hp.
  split_path; simp; try congruence; intro H;
    first [rewrite finish_late_kst by exact H | rewrite finish_early_kst by exact H]; simp;
    repeat match goal with E : _ = _ |- _ => rewrite E end; reflexivity.
Qed.
Lemma prediction_kst v tr f K0 p rdt0 s : let r := integrate v tr f K0 p rdt0 s in let Ke := effective_K0 K0 in
  is_prediction Ke = true -> ret r <> (-1)%Z -> kst r = KExported (prediction_kind (if v_pred_raw v then K0 else Ke)).
Proof. destruct v, tr, s. unfold integrate, integrate_body. simp. intros Hp. rewrite Hp. split_path; simp; congruence. Qed.

(* ------------------------------------------------------------------ wrappers: calling convention *)
(* strain measure wrappers: the stress is post-processed exactly on success of an integration request; the operator is
   converted as a prediction / integration operator exactly when one was requested and obtained *)
Lemma strain_wrapper_convention v w tr K0 K1 K2 p rdt0 s n sos :
  v_wrap_nonzero v = false -> v_wrap_raw v = false -> w <> WFiniteStrain -> hasCTO tr = true ->
  (-3 <= n <= 4)%Z -> encodes K0 n sos -> stress_measure K1 <> SMInvalid -> tangent_operator K0 K2 <> TOInvalid ->
  let r := wrap v w tr K0 K1 K2 p rdt0 s in
  let inner := integrate v tr FStd K0 p rdt0 s in
  let smf := tangent_operator K0 K2 in
  let Ke := effective_K0 K0 in
  w_called r = true /\ w_inner r = inner /\ w_ret r = ret inner /\
  w_flux r = (if (ret inner =? -1)%Z || (n <? 0)%Z then FluxUntouched else FluxWritten (stress_measure K1) FromState) /\
  w_K r = (if (ret inner =? -1)%Z then WKUntouched
           else if (n <? 0)%Z then WKPrediction smf (prediction_kind (if v_pred_raw v then K0 else Ke))
           else if (0 <? n)%Z then WKIntegration smf (integration_kind Ke) true else WKUntouched).
Proof.
  intros Hv1 Hv2 Hw Hc Hn He Hsm Hto.
  destruct (decode_offset K0 n sos Hn He) as [Hbs Hnear].
  destruct (decode_kind _ n Hn Hnear) as (_ & Hpred & Hk & Hp2).
  pose proof (integration_success v tr FStd K0 p rdt0 s) as HI.
  pose proof (integration_kst v tr FStd K0 p rdt0 s) as HIk.
  pose proof (prediction_kst v tr FStd K0 p rdt0 s) as HPk.
  cbv zeta in HI, HIk, HPk. rewrite Hpred in HI, HIk, HPk. rewrite Hc, Hk in HIk.
  unfold wrap. destruct (stress_measure K1) eqn:Esm; try congruence; clear Hsm;
  destruct (tangent_operator K0 K2) eqn:Eto; try congruence; clear Hto;
  destruct w; try congruence; simp; rewrite Hv2, Hk, Hp2; unfold post_process; rewrite Hv1;
  (split; [reflexivity|]); (split; [reflexivity|]); (split; [reflexivity|]);
  destruct (ret (integrate v tr FStd K0 p rdt0 s) =? -1)%Z eqn:Er; simp; (split; [|reflexivity || idtac]); try reflexivity;
  apply Z.eqb_neq in Er; destruct (n <? 0)%Z; simp; try reflexivity;
  try (rewrite (HPk eq_refl Er); reflexivity);
  try (destruct (HI eq_refl Er) as (_ & _ & _ & ->); reflexivity);
  rewrite (HIk eq_refl Er); destruct (HI eq_refl Er) as (_ & _ & _ & ->); destruct (0 <? n)%Z; reflexivity.
Qed.

(* standard finite strain wrapper: the stress computed by the behaviour (Cauchy) is converted to the requested measure
   exactly on success of an integration request *)
Lemma finite_strain_wrapper_convention v tr K0 K1 K2 p rdt0 s n sos :
  v_wrap_nonzero v = false ->
  (-3 <= n <= 4)%Z -> encodes K0 n sos -> stress_measure K1 <> SMInvalid -> tangent_operator K0 K2 <> TOInvalid ->
  let r := wrap v WFiniteStrain tr K0 K1 K2 p rdt0 s in
  let smf := tangent_operator K0 K2 in
  let inner := integrate v tr (FFS smf) K0 p rdt0 s in
  w_called r = true /\ w_inner r = inner /\ w_ret r = ret inner /\
  (stress_measure K1 <> Cauchy ->
   w_flux r = (if (ret inner =? -1)%Z || (n <? 0)%Z then FluxUntouched else FluxWritten (stress_measure K1) FromState)) /\
  (stress_measure K1 = Cauchy -> w_flux r = if st_written inner then FluxWritten Cauchy FromState else FluxUntouched).
Proof.
  intros Hv1 Hn He Hsm Hto.
  destruct (decode_offset K0 n sos Hn He) as [Hbs Hnear].
  destruct (decode_kind _ n Hn Hnear) as (_ & Hpred & Hk & Hp2).
  pose proof (integration_success v tr (FFS (tangent_operator K0 K2)) K0 p rdt0 s) as HI.
  cbv zeta in HI. rewrite Hpred in HI.
  unfold wrap. destruct (stress_measure K1) eqn:Esm; try congruence; clear Hsm;
  destruct (tangent_operator K0 K2) eqn:Eto; try congruence; clear Hto; simp; rewrite ?Hpred; unfold post_process; rewrite ?Hv1;
  (split; [reflexivity|]); (split; [reflexivity|]); (split; [reflexivity|]); (split; [intro; try congruence | intro; try congruence; try reflexivity]);
  destruct (ret (integrate v tr _ K0 p rdt0 s) =? -1)%Z eqn:Er; destruct (n <? 0)%Z; simp; try reflexivity;
  apply Z.eqb_neq in Er; destruct (HI eq_refl Er) as (_ & _ & _ & ->); reflexivity.
Qed.

(* ------------------------------------------------------------------ wrappers: failure leaves the output state untouched *)
Lemma wrapper_failure_untouched v w tr K0 K1 K2 p rdt0 s : v_late_throw v = false -> v_wrap_nonzero v = false ->
  let r := wrap v w tr K0 K1 K2 p rdt0 s in
  w_ret r = (-1)%Z -> w_flux r = FluxUntouched /\ state_untouched (w_inner r).
Proof.
  intros Hv1 Hv2. unfold wrap.
  destruct (stress_measure K1) eqn:Esm; [| | |simp; intros _; split; [reflexivity|repeat split]];
  (destruct (tangent_operator K0 K2) eqn:Eto; [| | | |simp; intros _; split; [reflexivity|repeat split]]);
  destruct w; simp; intro Hr; pose proof (failure_state_untouched v tr _ K0 p rdt0 s Hv1 Hr) as Hu;
  (split; [|exact Hu]); unfold post_process; rewrite ?Hv2, ?Hr; simp; rewrite ?andb_false_r; try reflexivity;
  destruct Hu as (-> & _); reflexivity.
Qed.

(* ------------------------------------------------------------------ refutations on the pinned header *)
Definition K0_of (n : Z) (sos : bool) : Q := if sos then inject_Z n + 100 else inject_Z n.

Lemma wrapper_convention_refuted v : v_wrap_nonzero v || v_wrap_raw v = true ->
  exists w tr K0 K1 K2 p rdt0 s, let r := wrap v w tr K0 K1 K2 p rdt0 s in
    w_called r = true /\
    ((* a successful integration whose stress is never delivered to the caller *)
     (w_ret r = 0%Z /\ st_written (w_inner r) = true /\ is_prediction (effective_K0 K0) = false /\ w_flux r = FluxUntouched) \/
     (* a prediction request that overwrites the output stress *)
     (is_prediction (effective_K0 K0) = true /\ w_flux r <> FluxUntouched)).
Proof.
  destruct v as [a b c d]. simp. destruct c.
  - intros _. exists (WGreenLagrange). exists (all_traits). exists (4). exists (1). exists (1). exists (PNone). exists (1). exists (script_small_step).
    destruct a, b, d; vm_compute; (split; [reflexivity|]); left; repeat split; reflexivity.
  - destruct d; [|discriminate]. intros _. exists (WGreenLagrange). exists (all_traits). exists (98). exists (1). exists (1). exists (PNone). exists (1). exists (script_ok).
    destruct a, b; vm_compute; (split; [reflexivity|]); right; (split; [reflexivity|discriminate]).
Qed.

Lemma wrapper_failure_refuted v : v_wrap_nonzero v || v_late_throw v = true ->
  exists w tr K0 K1 K2 p rdt0 s, let r := wrap v w tr K0 K1 K2 p rdt0 s in
    w_ret r = (-1)%Z /\ (w_flux r <> FluxUntouched \/ st_written (w_inner r) = true).
Proof.
  destruct v as [a b c d]. simp. destruct c.
  - intros _. exists (WGreenLagrange). exists (all_traits). exists (4). exists (1). exists (1). exists (PNone). exists (1). exists (script_integ_fails).
    destruct a, b, d; vm_compute; (split; [reflexivity|]); left; discriminate.
  - destruct b; [|discriminate]. intros _. exists (WGreenLagrange). exists (all_traits). exists (4). exists (1). exists (1). exists (PNone). exists (1). exists (script_ie_throws).
    destruct a, d; vm_compute; (split; [reflexivity|]); right; reflexivity.
Qed.

(* ------------------------------------------------------------------ the wrappers in every modelling hypothesis *)
Lemma wrap_h_other_hypotheses v w has_axial tr K0 K1 K2 p rdt0 s :
  wrap_h v w false has_axial tr K0 K1 K2 p rdt0 s = wrap v w tr K0 K1 K2 p rdt0 s.
Proof. unfold wrap_h. destruct (w_called (wrap v w tr K0 K1 K2 p rdt0 s)); reflexivity. Qed.

Lemma wrap_h_axial_declared v w ps tr K0 K1 K2 p rdt0 s :
  wrap_h v w ps true tr K0 K1 K2 p rdt0 s = wrap v w tr K0 K1 K2 p rdt0 s.
Proof. unfold wrap_h. destruct (w_called (wrap v w tr K0 K1 K2 p rdt0 s)); destruct ps; reflexivity. Qed.

Lemma wrap_h_refusal v w tr K0 K1 K2 p rdt0 s : needs_axial w K1 = true ->
  let r := wrap_h v w true false tr K0 K1 K2 p rdt0 s in
  w_ret r = (-1)%Z /\ w_called r = false /\ w_flux r = FluxUntouched /\ w_K r = WKUntouched /\ state_untouched (w_inner r).
Proof.
  intros Hn. unfold wrap_h. rewrite Hn.
  destruct (w_called (wrap v w tr K0 K1 K2 p rdt0 s)) eqn:Hc; cbn [andb negb].
  - cbn. repeat split; reflexivity.
  - (* the request is already refused for its stress measure / tangent operator *)
    revert Hc. unfold wrap.
    destruct (stress_measure K1); try (intros _; cbn; repeat split; reflexivity);
      destruct (tangent_operator K0 K2); try (intros _; cbn; repeat split; reflexivity);
      destruct w; cbn; intro Hc; discriminate Hc.
Qed.

(* C39 / C40 -- the finite strain wrappers in every modelling hypothesis (model [wrap_h]): outside plane stress, and in
   plane stress for a behaviour that declares the axial strain / axial deformation gradient, the calling convention is the one
   of [wrap] (so every wrapper theorem holds in every hypothesis); in plane stress a behaviour that does not declare it is
   refused with -1 before it is built and nothing is written. *)
From Coq Require Import QArith ZArith List Bool.
From C39 Require Import C39Model C39Spec C39Proofs C39_gen.
Local Open Scope Q_scope.

Theorem C39_wrappers_hypothesis_independent : forall w ps has_axial tr K0 K1 K2 p rdt0 s,
  ps = false \/ has_axial = true ->
  wrap_h code_variant w ps has_axial tr K0 K1 K2 p rdt0 s = wrap code_variant w tr K0 K1 K2 p rdt0 s.
Proof.
  exact (fun w ps has_axial tr K0 K1 K2 p rdt0 s H =>
    match H with
    | or_introl e => eq_ind_r (fun b => wrap_h code_variant w b has_axial tr K0 K1 K2 p rdt0 s = _)
                              (wrap_h_other_hypotheses code_variant w has_axial tr K0 K1 K2 p rdt0 s) e
    | or_intror e => eq_ind_r (fun b => wrap_h code_variant w ps b tr K0 K1 K2 p rdt0 s = _)
                              (wrap_h_axial_declared code_variant w ps tr K0 K1 K2 p rdt0 s) e
    end).
Qed.
Print Assumptions C39_wrappers_hypothesis_independent.

Theorem C39_plane_stress_without_axial_variable_refused : forall w tr K0 K1 K2 p rdt0 s, needs_axial w K1 = true ->
  let r := wrap_h code_variant w true false tr K0 K1 K2 p rdt0 s in
  w_ret r = (-1)%Z /\ w_called r = false /\ w_flux r = FluxUntouched /\ w_K r = WKUntouched /\ state_untouched (w_inner r).
Proof. exact (wrap_h_refusal code_variant). Qed.
Print Assumptions C39_plane_stress_without_axial_variable_refused.

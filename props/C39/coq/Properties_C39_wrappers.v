(* C39 -- the finite strain wrappers follow the calling convention: the stress is post-processed exactly when an
   integration request succeeds (return code 0 or 1), prediction requests (with or without +100) leave the stress alone,
   the operator is converted as requested. *)
From Coq Require Import QArith ZArith List Bool.
From C39 Require Import C39Model C39Spec C39Proofs C39_gen.
Import ListNotations.
Local Open Scope Q_scope.

Theorem C39_strain_measure_wrappers : forall w tr K0 K1 K2 p rdt0 s n sos,
  w <> WFiniteStrain -> hasCTO tr = true ->
  (-3 <= n <= 4)%Z -> encodes K0 n sos -> stress_measure K1 <> SMInvalid -> tangent_operator K0 K2 <> TOInvalid ->
  let r := wrap code_variant w tr K0 K1 K2 p rdt0 s in
  let inner := integrate code_variant tr FStd K0 p rdt0 s in
  let smf := tangent_operator K0 K2 in
  let Ke := effective_K0 K0 in
  w_called r = true /\ w_inner r = inner /\ w_ret r = ret inner /\
  w_flux r = (if (ret inner =? -1)%Z || (n <? 0)%Z then FluxUntouched else FluxWritten (stress_measure K1) FromState) /\
  w_K r = (if (ret inner =? -1)%Z then WKUntouched
           else if (n <? 0)%Z then WKPrediction smf (prediction_kind (if v_pred_raw code_variant then K0 else Ke))
           else if (0 <? n)%Z then WKIntegration smf (integration_kind Ke) true else WKUntouched).
Proof. exact (fun w tr K0 K1 K2 p rdt0 s n sos => strain_wrapper_convention code_variant w tr K0 K1 K2 p rdt0 s n sos eq_refl eq_refl). Qed.
Print Assumptions C39_strain_measure_wrappers.

Theorem C39_finite_strain_wrapper : forall tr K0 K1 K2 p rdt0 s n sos,
  (-3 <= n <= 4)%Z -> encodes K0 n sos -> stress_measure K1 <> SMInvalid -> tangent_operator K0 K2 <> TOInvalid ->
  let r := wrap code_variant WFiniteStrain tr K0 K1 K2 p rdt0 s in
  let smf := tangent_operator K0 K2 in
  let inner := integrate code_variant tr (FFS smf) K0 p rdt0 s in
  w_called r = true /\ w_inner r = inner /\ w_ret r = ret inner /\
  (stress_measure K1 <> Cauchy ->
   w_flux r = (if (ret inner =? -1)%Z || (n <? 0)%Z then FluxUntouched else FluxWritten (stress_measure K1) FromState)) /\
  (stress_measure K1 = Cauchy -> w_flux r = if st_written inner then FluxWritten Cauchy FromState else FluxUntouched).
Proof. exact (fun tr K0 K1 K2 p rdt0 s n sos => finite_strain_wrapper_convention code_variant tr K0 K1 K2 p rdt0 s n sos eq_refl). Qed.
Print Assumptions C39_finite_strain_wrapper.

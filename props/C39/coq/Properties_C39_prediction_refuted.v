(* C39 -- on the working tree the decoding theorem is FALSE for prediction requests with the speed of sound:
   K[0] = 98 encodes "secant prediction operator + speed of sound" and the behaviour is asked the ELASTIC operator. *)
From Coq Require Import QArith ZArith List Bool.
From C39 Require Import C39Model C39Spec C39Proofs C39_gen.
Import ListNotations.
Local Open Scope Q_scope.

Theorem C39_requests_decoded_refuted :
  exists tr f p rdt0 s, all_hooks_succeed s /\ full_traits tr /\ encodes 98 (-2) true /\
    requests (integrate code_variant tr f 98 p rdt0 s) = [ReqPrediction Elastic] /\
    documented_request (-2) = Some (ReqPrediction Secant).
Proof. exact (prediction_request_refuted code_variant eq_refl). Qed.
Print Assumptions C39_requests_decoded_refuted.

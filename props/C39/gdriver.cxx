// C39 / C40 -- execution of REAL mfront-generated behaviours through their generated `extern "C"` entry points
// (generic interface).  The behaviours are generated on every run by /repo's mfront from props/C39/mfront/*.in
// (gencommon.py); every hook of the behaviour class can be made to fail on demand through the external state
// variable `code` (bit mask) and the material properties tsf_apriori / tsf_apost.  One line per call, in the format
// of driver.cxx without the hook trace (a generated behaviour cannot be observed from inside):
//   P fn=gen:<wrapper>:<Name>:<Hypothesis> tr=.. K0=.. K1=.. K2=.. pol=seq<:v>* rdt0=.. | <script> | <observations>
// gtable.hxx (written by gencommon.py) declares the entry points and lists them.
#include <cmath>
#include <cstdio>
#include <cstring>
#include <string>
#include <vector>
#include <cstdlib>
#include "MFront/GenericBehaviour/BehaviourData.h"

extern "C" {
typedef int (*c39g_entry)(mfront_gb_BehaviourData* const);
typedef void (*c39g_setpolicy)(const int);
typedef int (*c39g_initfct)(mfront_gb_BehaviourData* const, const double* const);
}

struct Entry {
  const char* wrapper;  // plain, log, gl, fs
  const char* name;
  const char* hyp;
  unsigned tr;      // traits bits as in driver.cxx
  int full;         // 1: the scripted behaviour (4 material properties, every hook), 0: the bare one
  c39g_entry f;
  c39g_setpolicy setpolicy;
  c39g_initfct init;  // initialize function `SetP` (may be null)
  const char* default_policy;  // policy declared in the DSL options
  int runtime_policy;          // out_of_bounds_policy_runtime_modification
};

#include "gtable.hxx"

namespace {

  constexpr int KSIZE = 96;

  struct Script {
    int init = 0, oob = 0, sos0 = 0, pred = 0, apriori = 0, apriori_v = 2000, integ = 0, apost = 0, apost_v = 3000, ie = 0, de = 0, sos1 = 0;
    long code() const {
      long c = 0;
      if (init == 2) c |= 1;
      if (pred == 1) c |= 2;
      if (pred == 2) c |= 4;
      if (apriori == 1) c |= 8;
      if (apriori == 2) c |= 16;
      if (integ == 1) c |= 32;
      if (integ == 2) c |= 64;
      if (apost == 1) c |= 128;
      if (apost == 2) c |= 256;
      if (ie == 1) c |= 512;
      if (de == 1) c |= 1024;
      if (sos0 == 1) c |= 2048;
      if (sos1 == 1) c |= 4096;
      if (integ == 3) c |= 8192;
      return c;
    }
  };

  struct Sizes {
    int sts, ts, nisv, axial;  // stensor size, tensor size, number of internal state variables, index of the axial component (-1: none)
  };
  Sizes sizes(const std::string& h) {
    if (h == "Tridimensional") return {6, 9, 2, -1};
    if (h == "PlaneStress") return {4, 5, 3, 2};
    if (h == "AxisymmetricalGeneralisedPlaneStress") return {3, 3, 3, 1};
    if (h == "AxisymmetricalGeneralisedPlaneStrain") return {3, 3, 2, -1};
    return {4, 5, 2, -1};  // Axisymmetrical, PlaneStrain, GeneralisedPlaneStrain
  }

  struct Buffers {
    char err[512];
    double g0[9], g1[9], tf0[9], tf1[9], mp[4], isv0[4], isv1[4], esv0[2], esv1[2];
    double se0, se1, de0, de1, rho0, rho1, K[KSIZE], rdt, sos;
    mfront_gb_BehaviourData d;
  };

  void fill(Buffers& b, const Entry& e, const double K0, const double K1, const double K2, const Script& s) {
    std::memset(&b, 0, sizeof b);
    const bool fs = std::string(e.wrapper) != "plain";
    const auto sz = sizes(e.hyp);
    if (fs) {
      // deformation gradients (xx yy zz xy yx xz zx yz zy)
      const double F0[9] = {1.10, 0.95, 1.05, 0.03, -0.02, 0.015, 0.01, -0.025, 0.02};
      const double F1[9] = {1.25, 0.90, 1.08, 0.08, -0.05, 0.04, 0.02, -0.06, 0.05};
      for (int i = 0; i != 9; ++i) {
        b.g0[i] = i < sz.ts ? F0[i] : 0;
        b.g1[i] = i < sz.ts ? F1[i] : 0;
      }
    } else {
      const double e0[6] = {1e-3, -2e-4, 3e-4, 1.5e-4, -1e-4, 5e-5};
      const double e1[6] = {2e-3, -5e-4, 4e-4, 2.5e-4, -3e-4, 8e-5};
      for (int i = 0; i != sz.sts; ++i) {
        b.g0[i] = e0[i];
        b.g1[i] = e1[i];
      }
    }
    if (sz.axial >= 0) {
      // the axial component of the gradients is not an input in plane stress
      b.g0[sz.axial] = 0;
      b.g1[sz.axial] = 0;
      // (the Hencky wrapper takes the logarithm of the gradient as given before it replaces the axial component; the two others ADD the axial
      // deformation gradient to the axial slot)
      if (std::string(e.wrapper) == "log") {
        b.g0[sz.axial] = 1;
        b.g1[sz.axial] = 1;
      }
    }
    const double T0[9] = {12., -7., 5., 3., 2.5, -1.5, -1.25, 0.75, 0.5};
    for (int i = 0; i != 9; ++i) {
      b.tf0[i] = (i < (K1 > 1.5 && K1 < 2.5 ? sz.ts : sz.sts)) ? T0[i] : 0;
      b.tf1[i] = 31. + i;
    }
    if (sz.axial >= 0) b.tf0[sz.axial] = 0;
    b.mp[0] = 150e3;
    b.mp[1] = 0.3;
    b.mp[2] = s.apriori_v / 1000.;
    b.mp[3] = s.apost_v / 1000.;
    for (int i = 0; i != 4; ++i) {
      b.isv0[i] = 0.01 * (i + 1);
      b.isv1[i] = 0.61 + 0.01 * i;
    }
    b.esv0[0] = 293.15;
    b.esv1[0] = s.oob ? 3000. : 300.;
    b.esv0[1] = 0;
    b.esv1[1] = double(s.code());
    b.se0 = 3.;
    b.se1 = 41.;
    b.de0 = 5.;
    b.de1 = 42.;
    b.rho0 = 7800.;
    b.rho1 = 7900.;
    for (int i = 0; i != KSIZE; ++i) b.K[i] = 7000. + i;
    b.K[0] = K0;
    b.K[1] = K1;
    b.K[2] = K2;
    b.rdt = 1.;
    b.sos = 51.;
    auto& d = b.d;
    d.error_message = b.err;
    d.dt = 0.5;
    d.K = b.K;
    d.rdt = &b.rdt;
    d.speed_of_sound = &b.sos;
    d.s0.gradients = b.g0;
    d.s0.thermodynamic_forces = b.tf0;
    d.s0.mass_density = &b.rho0;
    d.s0.material_properties = b.mp;
    d.s0.internal_state_variables = b.isv0;
    d.s0.stored_energy = &b.se0;
    d.s0.dissipated_energy = &b.de0;
    d.s0.external_state_variables = b.esv0;
    d.s1.gradients = b.g1;
    d.s1.thermodynamic_forces = b.tf1;
    d.s1.mass_density = &b.rho1;
    d.s1.material_properties = b.mp;
    d.s1.internal_state_variables = b.isv1;
    d.s1.stored_energy = &b.se1;
    d.s1.dissipated_energy = &b.de1;
    d.s1.external_state_variables = b.esv1;
  }

  bool pointers_restored(const Buffers& b) {
    const auto& d = b.d;
    return d.error_message == b.err && d.K == b.K && d.rdt == &b.rdt && d.speed_of_sound == &b.sos && d.s0.gradients == b.g0 &&
           d.s0.thermodynamic_forces == b.tf0 && d.s0.mass_density == &b.rho0 && d.s0.material_properties == b.mp &&
           d.s0.internal_state_variables == b.isv0 && d.s0.stored_energy == &b.se0 && d.s0.dissipated_energy == &b.de0 &&
           d.s0.external_state_variables == b.esv0 && d.s1.gradients == b.g1 && d.s1.thermodynamic_forces == b.tf1 &&
           d.s1.mass_density == &b.rho1 && d.s1.material_properties == b.mp && d.s1.internal_state_variables == b.isv1 &&
           d.s1.stored_energy == &b.se1 && d.s1.dissipated_energy == &b.de1 && d.s1.external_state_variables == b.esv1;
  }
  bool same(const double* a, const double* b, const int n) { return std::memcmp(a, b, n * sizeof(double)) == 0; }
  bool close(const double a, const double b, const double scale) { return std::abs(a - b) <= 1e-11 * scale; }

  std::string pm(const double v) {
    char b[64];
    std::snprintf(b, sizeof b, "%ld", std::lround(v * 1000));
    return b;
  }
  std::string err_token(const char* e) {
    const std::string s(e);
    if (s.empty()) return "none";
    if (s == "behaviour initialisation failed") return "initfailed";
    if (s == "prediction operator is not implemented") return "noprediction";
    if (s == "tangent operator is not implemented") return "notangent";
    if (s == "invalid choice for the stress measure") return "badstressmeasure";
    if (s == "invalid choice for consistent tangent operator") return "badtangent";
    if (s.rfind("hook:", 0) == 0) return "exc:" + s.substr(5);
    // generated finite strain behaviours in plane stress: the conversions of the tangent operator are not available, the generated
    // integrate / computePredictionOperator throw for any operator but the one the behaviour provides
    if (s.find("is not supported") != std::string::npos && s.find("computeConsistentTangentOperator_") != std::string::npos) return "exc:integ";
    if (s.find("is not supported") != std::string::npos && s.find("computePredictionOperator_") != std::string::npos) return "exc:pred";
    if (s.find("out of bounds") != std::string::npos || s.find("OutOfBounds") != std::string::npos || s.find("bound") != std::string::npos)
      return "exc:bounds";
    std::string t = s.substr(0, 120);
    for (auto& ch : t)
      if (ch == ' ' || ch == '|' || ch == '=') ch = '_';
    return "other(" + t + ")";
  }

  long ncalls = 0;

  void call(const Entry& e, const double K0, const double K1, const double K2, const Script& s, const std::string& polseq) {
    Buffers b, ref;
    fill(b, e, K0, K1, K2, s);
    fill(ref, e, K0, K1, K2, s);
    const auto sz = sizes(e.hyp);
    const bool plain = std::string(e.wrapper) == "plain";
    int r = 99;
    bool escaped = false;
    try {
      r = e.f(&b.d);
    } catch (...) {
      escaped = true;
    }
    std::string o = "ret=" + (escaped ? std::string("escaped") : std::to_string(r));
    o += " rdt=" + pm(b.rdt);
    // ---- thermodynamic forces
    std::string ft = "X";
    if (same(b.tf1, ref.tf1, 9)) {
      ft = "U";
    } else if (!plain) {
      // written exactly on the components of the stress measure, the rest of the buffer untouched
      const int n = (K1 > 1.5 && K1 < 2.5) ? sz.ts : sz.sts;
      ft = same(b.tf1 + n, ref.tf1 + n, 9 - n) ? "C" : "X";
    } else {
      // Hooke's law, written independently of TFEL
      const double E = ref.mp[0], nu = ref.mp[1];
      const double la = nu * E / ((1 + nu) * (1 - 2 * nu)), mu = E / (2 * (1 + nu));
      double eps[6] = {0, 0, 0, 0, 0, 0};
      for (int i = 0; i != sz.sts; ++i) eps[i] = ref.g1[i];
      if (sz.axial >= 0) {
        eps[sz.axial] = 0;
        eps[sz.axial] = -la / (la + 2 * mu) * (eps[0] + eps[1] + eps[2]);
      }
      const double t = eps[0] + eps[1] + eps[2];
      bool ok = same(b.tf1 + sz.sts, ref.tf1 + sz.sts, 9 - sz.sts);
      for (int i = 0; i != sz.sts; ++i) ok = ok && close(b.tf1[i], (i < 3 ? la * t : 0) + 2 * mu * eps[i], E * 1e-3);
      if (sz.axial >= 0) ok = ok && std::abs(b.tf1[sz.axial]) < 1e-9;
      ft = ok ? "W" : "X";
    }
    o += " flux=" + ft;
    // ---- internal state variables
    std::string it = "X";
    if (same(b.isv1, ref.isv1, 4)) {
      it = "U";
    } else {
      bool ok = same(b.isv1 + sz.nisv, ref.isv1 + sz.nisv, 4 - sz.nisv);
      ok = ok && close(b.isv1[0], ref.isv0[0] + 1, 1.) && close(b.isv1[1], ref.isv0[1] + 2, 1.);
      it = ok ? "W" : "X";
    }
    o += " isv=" + it;
    o += std::string(" se=") + (b.se1 == ref.se1 ? "U" : b.se1 == ref.se0 + 1000 ? "W" : "X");
    o += std::string(" de=") + (b.de1 == ref.de1 ? "U" : b.de1 == ref.de0 + 2000 ? "W" : "X");
    // ---- K buffer
    std::string kt = "X";
    if (same(b.K, ref.K, KSIZE)) {
      kt = "U";
    } else if (!plain) {
      kt = "C";
    } else {
      const double E = ref.mp[0], nu = ref.mp[1];
      const double la = nu * E / ((1 + nu) * (1 - 2 * nu)), mu = E / (2 * (1 + nu));
      const int n = sz.sts;
      const double f = b.K[0] / (la + 2 * mu);
      const long fi = std::lround(f);
      bool ok = same(b.K + n * n, ref.K + n * n, KSIZE - n * n);
      for (int i = 0; i != n; ++i)
        for (int j = 0; j != n; ++j) {
          const double h = ((i < 3 && j < 3) ? la : 0) + (i == j ? 2 * mu : 0);
          ok = ok && close(b.K[i * n + j], fi * h, 20 * E);
        }
      static const char* kinds[] = {"?", "elastic", "secant", "tangent", "consistent"};
      if (ok && fi >= 1 && fi <= 4) kt = std::string("E:") + kinds[fi] + ":integ";
      if (ok && fi >= 11 && fi <= 14) kt = std::string("E:") + kinds[fi - 10] + ":pred";
    }
    o += " K=" + kt;
    o += std::string(" sos=") + (b.sos == ref.sos ? "U" : b.sos == 2 * ref.rho0 ? "S0" : b.sos == 2 * ref.rho1 ? "S1" : "X");
    o += " err=" + err_token(b.err);
    const bool inputs_ok = same(b.g0, ref.g0, 9) && same(b.g1, ref.g1, 9) && same(b.tf0, ref.tf0, 9) && same(b.isv0, ref.isv0, 4) &&
                           b.se0 == ref.se0 && b.de0 == ref.de0 && same(b.mp, ref.mp, 4) && same(b.esv0, ref.esv0, 2) &&
                           same(b.esv1, ref.esv1, 2) && b.rho0 == ref.rho0 && b.rho1 == ref.rho1;
    o += std::string(" frame=") + (pointers_restored(b) && inputs_ok ? "ok" : "bad");
    std::printf("P fn=gen:%s:%s:%s tr=%u K0=%s K1=%s K2=%s pol=%s rdt0=1000 | init=%d,oob=%d,sos0=%d,pred=%d,texport=0,apriori=%d:%d,integ=%d,apost=%d:%d,ie=%d,de=%d,sos1=%d | %s\n",
                e.wrapper, e.name, e.hyp, e.tr, pm(K0).c_str(), pm(K1).c_str(), pm(K2).c_str(), polseq.c_str(), s.init, s.oob, s.sos0, s.pred,
                s.apriori, s.apriori_v, s.integ, s.apost, s.apost_v, s.ie, s.de, s.sos1, o.c_str());
    ++ncalls;
  }

  std::vector<Script> scripts(const bool rich, const bool full) {
    std::vector<Script> v;
    Script ok;
    if (!full) {
      // the bare behaviour has no time step scaling factor block: the generated defaults are (true, maximal factor)
      ok.apriori_v = 1000000;
      ok.apost_v = 1000000;
      v.push_back(ok);
      Script s = ok;
      s.oob = 1;
      v.push_back(s);
      s = ok;
      s.integ = 1;
      v.push_back(s);
      return v;
    }
    v.push_back(ok);
    for (const int a : {2000, 990, 500, 50})
      for (const int p : {3000, 990, 980, 500, 20}) {
        if (!rich && !((a == 2000) || (p == 3000))) continue;
        Script s;
        s.apriori_v = a;
        s.apost_v = p;
        v.push_back(s);
      }
#define FAULT(field, val) \
  {                       \
    Script s;             \
    s.field = val;        \
    v.push_back(s);       \
  }
    FAULT(init, 2) FAULT(oob, 1) FAULT(sos0, 1) FAULT(pred, 1) FAULT(pred, 2) FAULT(apriori, 1) FAULT(apriori, 2) FAULT(integ, 1) FAULT(integ, 2)
    FAULT(apost, 1) FAULT(apost, 2) FAULT(ie, 1) FAULT(de, 1) FAULT(sos1, 1)
#undef FAULT
    // failed time step checks with a value, two faults (UNRELIABLE_RESULTS is left to the mock: user code returning it in the
    // Default DSL skips the update of the state variables)
    {
      Script s;
      s.apriori = 1;
      s.apriori_v = 700;
      v.push_back(s);
      s = Script();
      s.apost = 1;
      s.apost_v = 600;
      v.push_back(s);
      s = Script();
      s.oob = 1;
      s.ie = 1;
      v.push_back(s);
      s = Script();
      s.de = 1;
      s.sos1 = 1;
      v.push_back(s);
      s = Script();
      s.oob = 1;
      s.apost = 1;
      v.push_back(s);
    }
    return v;
  }

}  // namespace

int main(const int argc, const char* const* argv) {
  const std::string mode = argc > 1 ? argv[1] : "quick";
  const bool rich = mode == "thorough";
  const std::vector<double> K0_all = {-3, -2, -1, 0, 1, 2, 3, 4, 97, 98, 99, 100, 101, 102, 103, 104, -2.7, -1.8, 0.2, 2.2, 4.4, 102.2, 97.3};
  const std::vector<double> K0_int = {-3, -2, -1, 0, 1, 2, 3, 4, 97, 98, 99, 100, 101, 102, 103, 104};
  // policy sequences: the calls made to <name>_setOutOfBoundsPolicy before the behaviour is called ("seq" = none: the
  // policy declared in the DSL options); the generated function keeps the previous policy for an invalid argument
  const std::vector<std::vector<int>> polseqs = {{}, {0}, {1}, {2}, {2, 7}, {2, 0}, {1, -1}, {2, 1}};
  for (const auto& e : entries) {
    const bool plain = std::string(e.wrapper) == "plain";
    const auto sc = scripts(rich, e.full != 0);
    for (const auto& ps : polseqs) {
      std::string pname = "seq";
      for (const int p : ps) {
        e.setpolicy(p);
        pname += ":" + std::to_string(p);
      }
      const bool main_policy = ps.size() == 1 && ps[0] == 0;
      const auto& K0s = (plain && e.full && main_policy) ? K0_all : K0_int;
      const std::vector<double> K1s = plain ? std::vector<double>{0} : (main_policy ? std::vector<double>{0, 1, 2, 3} : std::vector<double>{1});
      const std::vector<double> K2s = plain ? std::vector<double>{0} : (main_policy ? std::vector<double>{0, 1, 2, 3, 4} : std::vector<double>{1});
      for (const auto K0 : K0s)
        for (const auto K1 : K1s)
          for (const auto K2 : K2s)
            for (const auto& s : sc) {
              // every script under the None (set explicitly) and Strict policies; the others only see the scripts where the policy matters
              const bool strict = ps.size() == 1 && ps[0] == 2;
              if (!main_policy && !strict && !(s.oob == 1 || s.code() == 0)) continue;
              // off the two reference (K[1], K[2]) pairs: the plain success, a failed integration, a late exception
              if (!plain && !(K1 == 0 && K2 == 0) && !(K1 == 1 && K2 == 1) &&
                  !((s.code() == 0 && s.oob == 0 && s.apriori_v == 2000 && s.apost_v == 3000) || s.integ == 1 || s.ie == 1 || s.pred == 1))
                continue;
              call(e, K0, K1, K2, s, pname);
            }
    }
    // back to the declared default is not possible through the interface: leave the last policy
  }
  // ---- initialize functions (calling convention of the generated <name>_<hypothesis>_InitializeFunction_<f>)
  for (const auto& e : entries) {
    if (e.init == nullptr) continue;
    for (const double K1 : {0., 1., 2., 3.}) {
      Buffers b, ref;
      Script s;
      fill(b, e, 0, K1, 0, s);
      fill(ref, e, 0, K1, 0, s);
      const double values[1] = {0.77};
      int r = 99;
      try {
        r = e.init(&b.d, values);
      } catch (...) {
        r = 98;
      }
      const auto sz = sizes(e.hyp);
      std::printf("I fn=%s:%s:%s K1=%s ret=%d p=%.17g others=%s flux=%s frame=%s err=%s\n", e.wrapper, e.name, e.hyp, pm(K1).c_str(), r, b.isv1[0],
                  (b.isv1[1] == ref.isv0[1] && same(b.isv1 + sz.nisv, ref.isv1 + sz.nisv, 4 - sz.nisv)) ? "initial" : "X",
                  same(b.tf1, ref.tf1, 9) ? "U" : "C", (pointers_restored(b) && same(b.g0, ref.g0, 9) && same(b.tf0, ref.tf0, 9)) ? "ok" : "bad",
                  err_token(b.err).c_str());
      ++ncalls;
    }
  }
  std::printf("END cases=%ld\n", ncalls);
  return 0;
}

// C39 / C40 driver: the REAL templates mfront::gb::integrate / computePredictionOperator and the three
// finite-strain wrappers (green_lagrange_strain::integrate, logarithmic_strain::integrate,
// finite_strain::integrate) instantiated with mock behaviours whose hooks take their outcome from a
// choice oracle.  A depth-first search over the oracle enumerates every distinct execution (every
// combination of hook outcomes that the template can observe), for every traits combination, every
// K[0]/K[1]/K[2] encoding and every out-of-bounds policy.  One line per execution is printed:
//   <inputs> | <choices> | <observations>
// The observations are: return code, ordered hook trace (with the arguments received), proposed time step
// scaling factor, the byte image of every output buffer before/after (tokens U = untouched, W = the values the
// behaviour exports, ...), the K buffer, the speed of sound, the error message, pointer restoration.
#include <cstdio>
#include <cstring>
#include <cmath>
#include <string>
#include <vector>
#include <stdexcept>
#include <iostream>
#include <sstream>
#include <utility>
#include "TFEL/Math/tensor.hxx"
#include "TFEL/Math/stensor.hxx"
#include "TFEL/Math/st2tost2.hxx"
#include "TFEL/Math/t2tost2.hxx"
#include "TFEL/Math/t2tot2.hxx"
#include "TFEL/Material/BoundsCheck.hxx"
#include "TFEL/Material/MechanicalBehaviour.hxx"
#include "TFEL/Material/MechanicalBehaviourTraits.hxx"
#include "TFEL/Material/FiniteStrainBehaviourTangentOperator.hxx"
#include "TFEL/Material/LogarithmicStrainHandler.hxx"
#include "MFront/GenericBehaviour/Integrate.hxx"
#include "MFront/GenericBehaviour/GreenLagrangeStrainIntegrate.hxx"
#include "MFront/GenericBehaviour/LogarithmicStrainIntegrate.hxx"
#include "MFront/GenericBehaviour/StandardFiniteStrainBehaviourIntegrate.hxx"

namespace vt {

  // ------------------------------------------------------------------ choice oracle (DFS)
  enum Hook { H_INIT, H_OOB, H_SOS0, H_PRED, H_TEXPORT, H_APRIORI, H_INTEG, H_APOST, H_IE, H_DE, H_SOS1, H_COUNT };
  static const char* hook_names[] = {"init", "oob", "sos0", "pred", "texport", "apriori", "integ", "apost", "ie", "de", "sos1"};

  struct Oracle {
    std::vector<int> prefix;   // choices imposed
    std::vector<int> nopt;     // number of options of every choice point met
    std::vector<int> hooks;    // hook of every choice point met
    size_t pos = 0;
    int taken[H_COUNT];
    int value[H_COUNT];  // permille value attached to the option taken (time step scaling factor hooks)
    void start() {
      pos = 0;
      nopt.clear();
      hooks.clear();
      for (auto& t : taken) t = -1;
      for (auto& t : value) t = 0;
    }
    int choose(const int hook, const int n) {
      int c = 0;
      if (pos < prefix.size()) {
        c = prefix[pos];
      } else {
        prefix.push_back(0);
      }
      nopt.push_back(n);
      hooks.push_back(hook);
      ++pos;
      taken[hook] = c;
      return c;
    }
    // next prefix in DFS order; false when the enumeration is complete
    bool next() {
      prefix.resize(pos);
      while (!prefix.empty()) {
        const auto i = prefix.size() - 1;
        if (prefix[i] + 1 < nopt[i]) {
          ++prefix[i];
          return true;
        }
        prefix.pop_back();
      }
      return false;
    }
  };

  static Oracle oracle;
  static std::vector<std::string> trace;
  static bool rich = true;  // rich = all time-step-factor values, coarse = a few

  // option tables for the time step scaling factor hooks: (status, value in 1/1000)  status 0 = true, 1 = false, 2 = throw
  struct TsfOpt { int status; int permille; };
  static const TsfOpt apriori_rich[] = {{0, 2000}, {0, 990}, {0, 500}, {1, 700}, {2, 0}};
  static const TsfOpt apost_rich[] = {{0, 3000}, {0, 990}, {0, 980}, {0, 500}, {1, 600}, {2, 0}};
  static const TsfOpt apriori_coarse[] = {{0, 2000}, {1, 700}, {2, 0}};
  static const TsfOpt apost_coarse[] = {{0, 3000}, {0, 500}, {1, 600}, {2, 0}};

  static std::string sm_name(const int t) {
    using B = tfel::material::MechanicalBehaviourBase;
    switch (t) {
      case B::ELASTIC: return "elastic";
      case B::SECANTOPERATOR: return "secant";
      case B::TANGENTOPERATOR: return "tangent";
      case B::CONSISTENTTANGENTOPERATOR: return "consistent";
      case B::NOSTIFFNESSREQUESTED: return "nostiffness";
    }
    return "?";
  }
  static std::string flag_name(const int f) {
    using F = tfel::material::FiniteStrainBehaviourTangentOperatorBase;
    switch (f) {
      case F::DSIG_DF: return "DSIG_DF";
      case F::DS_DEGL: return "DS_DEGL";
      case F::DPK1_DF: return "DPK1_DF";
      case F::DTAU_DDF: return "DTAU_DDF";
      case F::C_TRUESDELL: return "C_TRUESDELL";
    }
    return "flag" + std::to_string(f);
  }
  static std::string pm(const double v) {
    char b[64];
    std::snprintf(b, sizeof b, "%ld", std::lround(v * 1000));
    return b;
  }

  [[noreturn]] static void hook_throw(const char* h) { throw std::runtime_error(std::string("hook:") + h); }

  // values exported by the mock behaviours
  inline double stress_sentinel(const int i) { return 100. + 10. * i + (i < 3 ? 0. : 3.); }
  inline double isv_sentinel(const int i) { return 200. + i; }
  inline double op_sentinel(const int smt, const int flag, const int i) { return 5000. + 100000. * (smt + 1) + 1000000. * flag + i; }

  // what the constructor of the behaviour saw
  struct CtorView {
    double K0;
    const double* g0;
    const double* g1;
    const double* tf0;
    double* tf1;
    double* K;
    double grad0[9], grad1[9], flux0[9];
  };
  static CtorView ctor_view;
  static int last_smt = -1;
  static int last_flag = -1;

  // ------------------------------------------------------------------ mock behaviours
  // TR: bit 0 hasConsistentTangentOperator, bit 1 hasPredictionOperator, bit 2 hasComputeInternalEnergy,
  //     bit 3 hasComputeDissipatedEnergy.   FS = standard finite strain behaviour (else strain based)
  template <tfel::material::ModellingHypothesis::Hypothesis H, unsigned TR, bool FS>
  struct Mock : public tfel::material::MechanicalBehaviourBase,
                public tfel::material::TangentOperatorTraits<
                    FS ? tfel::material::MechanicalBehaviourBase::STANDARDFINITESTRAINBEHAVIOUR
                       : tfel::material::MechanicalBehaviourBase::STANDARDSTRAINBASEDBEHAVIOUR> {
    static constexpr unsigned short N = tfel::material::ModellingHypothesisToSpaceDimension<H>::value;
    static constexpr auto StensorSize = tfel::material::ModellingHypothesisToStensorSize<H>::value;
    static constexpr auto TensorSize = tfel::material::ModellingHypothesisToTensorSize<H>::value;
    using BType = tfel::material::TangentOperatorTraits<
        FS ? tfel::material::MechanicalBehaviourBase::STANDARDFINITESTRAINBEHAVIOUR
           : tfel::material::MechanicalBehaviourBase::STANDARDSTRAINBASEDBEHAVIOUR>;
    using SMFlag = typename BType::SMFlag;
    using real = double;
    using stress = double;
    using speed = double;
    using massdensity = double;
    using FSTangent = tfel::material::FiniteStrainBehaviourTangentOperator<N, double>;
    using TangentOperator = std::conditional_t<FS, FSTangent, tfel::math::st2tost2<N, double>>;
    tfel::material::OutOfBoundsPolicy policy = tfel::material::None;
    TangentOperator Dt;
    tfel::math::st2tost2<N, double> Dt_s;
    tfel::math::t2tost2<N, double> Dt_ts;
    tfel::math::t2tot2<N, double> Dt_tt;
    int flag = 0;

    explicit Mock(const mfront_gb_BehaviourData& d) {
      ctor_view.K0 = d.K[0];
      ctor_view.g0 = d.s0.gradients;
      ctor_view.g1 = d.s1.gradients;
      ctor_view.tf0 = d.s0.thermodynamic_forces;
      ctor_view.tf1 = d.s1.thermodynamic_forces;
      ctor_view.K = d.K;
      for (int i = 0; i != 9; ++i) {
        ctor_view.grad0[i] = ctor_view.grad1[i] = ctor_view.flux0[i] = 0;
      }
      const int ng = FS ? TensorSize : StensorSize;
      const int nf = StensorSize;
      for (int i = 0; i != ng; ++i) {
        ctor_view.grad0[i] = d.s0.gradients[i];
        ctor_view.grad1[i] = d.s1.gradients[i];
      }
      for (int i = 0; i != nf; ++i) {
        ctor_view.flux0[i] = d.s0.thermodynamic_forces[i];
      }
      last_smt = -1;
      last_flag = -1;
    }
    void setOutOfBoundsPolicy(const tfel::material::OutOfBoundsPolicy p) {
      this->policy = p;
      trace.push_back(std::string("policy:") + (p == tfel::material::Strict ? "strict" : p == tfel::material::Warning ? "warning" : "none"));
    }
    bool initialize() {
      trace.push_back("init");
      const auto c = oracle.choose(H_INIT, 3);
      if (c == 2) hook_throw("init");
      return c == 0;
    }
    void checkBounds() const {
      trace.push_back("bounds");
      const auto c = oracle.choose(H_OOB, 2);
      // as in generated code: the real TFEL bounds check, with the policy given to the behaviour
      const double T = (c == 0) ? 300. : 3000.;
      tfel::material::BoundsCheck<N>::lowerAndUpperBoundsChecks("T", T, 100., 1000., this->policy);
    }
    speed computeSpeedOfSound(const massdensity rho) const {
      const bool initial = (rho == 7800.);
      trace.push_back(initial ? "sos:rho0" : (rho == 7900. ? "sos:rho1" : "sos:?"));
      const auto c = oracle.choose(initial ? H_SOS0 : H_SOS1, 2);
      if (c == 1) hook_throw(initial ? "sos0" : "sos1");
      return 2 * rho;
    }
    void build_operator(const int f, const int smt) {
      this->flag = f;
      last_smt = smt;
      last_flag = f;
      for (int i = 0; i != StensorSize * StensorSize; ++i) *(Dt_s.begin() + i) = op_sentinel(smt, f, i);
      for (int i = 0; i != StensorSize * TensorSize; ++i) *(Dt_ts.begin() + i) = op_sentinel(smt, f, i);
      for (int i = 0; i != TensorSize * TensorSize; ++i) *(Dt_tt.begin() + i) = op_sentinel(smt, f, i);
      if constexpr (!FS) {
        Dt = Dt_s;
      }
    }
    IntegrationResult computePredictionOperator(const SMFlag f, const SMType t) {
      trace.push_back("pred:" + sm_name(t) + ":" + (FS ? flag_name(int(f)) : std::string("std")));
      const auto c = oracle.choose(H_PRED, 3);
      if (c == 2) hook_throw("pred");
      if (c == 1) return FAILURE;
      build_operator(int(f), int(t));
      return SUCCESS;
    }
    const TangentOperator& getTangentOperator() {
      trace.push_back("getK");
      if constexpr (FS) {
        const auto c = oracle.choose(H_TEXPORT, 2);
        if (c == 1) {
          Dt = FSTangent();  // empty variant: not one of the supported alternatives
        } else {
          using F = tfel::material::FiniteStrainBehaviourTangentOperatorBase;
          if (flag == F::DS_DEGL) {
            Dt = Dt_s;
          } else if (flag == F::DPK1_DF) {
            Dt = Dt_tt;
          } else {
            Dt = Dt_ts;
          }
        }
      }
      return Dt;
    }
    std::pair<bool, real> computeAPrioriTimeStepScalingFactor(const real r) const {
      trace.push_back("apriori:" + pm(r));
      const auto* tab = rich ? apriori_rich : apriori_coarse;
      const int n = rich ? 5 : 3;
      const auto& o = tab[oracle.choose(H_APRIORI, n)];
      oracle.taken[H_APRIORI] = o.status;
      oracle.value[H_APRIORI] = o.permille;
      if (o.status == 2) hook_throw("apriori");
      return {o.status == 0, o.permille / 1000.};
    }
    IntegrationResult integrate(const SMFlag f, const SMType t) {
      trace.push_back("integ:" + sm_name(t) + ":" + (FS ? flag_name(int(f)) : std::string("std")));
      const auto c = oracle.choose(H_INTEG, 4);
      if (c == 2) hook_throw("integ");
      if (c == 1) return FAILURE;
      build_operator(int(f), int(t));
      return c == 0 ? SUCCESS : UNRELIABLE_RESULTS;
    }
    std::pair<bool, real> computeAPosterioriTimeStepScalingFactor(const real r) const {
      trace.push_back("apost:" + pm(r));
      const auto* tab = rich ? apost_rich : apost_coarse;
      const int n = rich ? 6 : 4;
      const auto& o = tab[oracle.choose(H_APOST, n)];
      oracle.taken[H_APOST] = o.status;
      oracle.value[H_APOST] = o.permille;
      if (o.status == 2) hook_throw("apost");
      return {o.status == 0, o.permille / 1000.};
    }
    void exportStateData(mfront_gb_State& s) const {
      trace.push_back("export");
      for (int i = 0; i != StensorSize; ++i) s.thermodynamic_forces[i] = stress_sentinel(i);
      for (int i = 0; i != 4; ++i) s.internal_state_variables[i] = isv_sentinel(i);
    }
    void computeInternalEnergy(stress& e) const {
      trace.push_back("ie");
      const auto c = oracle.choose(H_IE, 2);
      if (c == 1) hook_throw("ie");
      e += 1000;
    }
    void computeDissipatedEnergy(stress& e) const {
      trace.push_back("de");
      const auto c = oracle.choose(H_DE, 2);
      if (c == 1) hook_throw("de");
      e += 2000;
    }
    real getMinimalTimeStepScalingFactor() const {
      trace.push_back("mintsf");
      return 0.1;
    }
  };

}  // namespace vt

namespace tfel::material {
  template <ModellingHypothesis::Hypothesis H, unsigned TR, bool FS>
  struct MechanicalBehaviourTraits<vt::Mock<H, TR, FS>> {
    static constexpr bool is_defined = true;
    static constexpr bool hasConsistentTangentOperator = (TR & 1u) != 0;
    static constexpr bool hasPredictionOperator = (TR & 2u) != 0;
    static constexpr bool hasComputeInternalEnergy = (TR & 4u) != 0;
    static constexpr bool hasComputeDissipatedEnergy = (TR & 8u) != 0;
  };
}  // namespace tfel::material
namespace mfront::gb {
  template <tfel::material::ModellingHypothesis::Hypothesis H, unsigned TR, bool FS>
  struct GenericBehaviourTraits<vt::Mock<H, TR, FS>> {
    static constexpr auto hypothesis = H;
    static constexpr auto has_axial_strain_offset = true;
    static constexpr auto axial_strain_offset = 1;
    static constexpr auto has_axial_deformation_gradient_offset = true;
    static constexpr auto axial_deformation_gradient_offset = 1;
  };
}  // namespace mfront::gb

namespace vt {

  constexpr int KSIZE = 96;
  struct Buffers {
    char err[512];
    double g0[9], g1[9], tf0[9], tf1[9], mp[4], isv0[4], isv1[4], esv0[2], esv1[2];
    double se0, se1, de0, de1, rho0, rho1, K[KSIZE], rdt, sos;
    mfront_gb_BehaviourData d;
  };

  static void fill(Buffers& b, const double K0, const double K1, const double K2, const double rdt_in, const int nflux) {
    std::memset(&b, 0, sizeof b);
    // deformation gradients (3D storage order: xx yy zz xy yx xz zx yz zy), positive determinant
    const double F0[9] = {1.10, 0.95, 1.05, 0.03, -0.02, 0.015, 0.01, -0.025, 0.02};
    const double F1[9] = {1.25, 0.90, 1.08, 0.08, -0.05, 0.04, 0.02, -0.06, 0.05};
    for (int i = 0; i != 9; ++i) {
      b.g0[i] = F0[i];
      b.g1[i] = F1[i];
      b.tf0[i] = 0;
      b.tf1[i] = 31. + i;
    }
    // initial stress: symmetric content when read as a stensor, a PK1-like content when read as a tensor
    const double T0[9] = {12., -7., 5., 3., 2.5, -1.5, -1.25, 0.75, 0.5};
    for (int i = 0; i != nflux; ++i) b.tf0[i] = T0[i];
    for (int i = 0; i != 4; ++i) {
      b.mp[i] = 1 + i;
      b.isv0[i] = 0.01 * (i + 1);
      b.isv1[i] = 61. + i;
    }
    b.esv0[0] = 293.15;
    b.esv1[0] = 300.;
    b.se0 = 3.;
    b.se1 = 41.;
    b.de0 = 5.;
    b.de1 = 42.;
    b.rho0 = 7800.;
    b.rho1 = 7900.;
    for (int i = 0; i != KSIZE; ++i) b.K[i] = 7000. + i;
    b.K[0] = K0;
    b.K[1] = K1;
    b.K[2] = K2;
    b.rdt = rdt_in;
    b.sos = 51.;
    auto& d = b.d;
    d.error_message = b.err;
    d.dt = 0.5;
    d.K = b.K;
    d.rdt = &b.rdt;
    d.speed_of_sound = &b.sos;
    d.s0.gradients = b.g0;
    d.s0.thermodynamic_forces = b.tf0;
    d.s0.mass_density = &b.rho0;
    d.s0.material_properties = b.mp;
    d.s0.internal_state_variables = b.isv0;
    d.s0.stored_energy = &b.se0;
    d.s0.dissipated_energy = &b.de0;
    d.s0.external_state_variables = b.esv0;
    d.s1.gradients = b.g1;
    d.s1.thermodynamic_forces = b.tf1;
    d.s1.mass_density = &b.rho1;
    d.s1.material_properties = b.mp;
    d.s1.internal_state_variables = b.isv1;
    d.s1.stored_energy = &b.se1;
    d.s1.dissipated_energy = &b.de1;
    d.s1.external_state_variables = b.esv1;
  }

  static bool pointers_restored(const Buffers& b) {
    const auto& d = b.d;
    return d.error_message == b.err && d.K == b.K && d.rdt == &b.rdt && d.speed_of_sound == &b.sos && d.s0.gradients == b.g0 &&
           d.s0.thermodynamic_forces == b.tf0 && d.s0.mass_density == &b.rho0 && d.s0.material_properties == b.mp &&
           d.s0.internal_state_variables == b.isv0 && d.s0.stored_energy == &b.se0 && d.s0.dissipated_energy == &b.de0 &&
           d.s0.external_state_variables == b.esv0 && d.s1.gradients == b.g1 && d.s1.thermodynamic_forces == b.tf1 &&
           d.s1.mass_density == &b.rho1 && d.s1.material_properties == b.mp && d.s1.internal_state_variables == b.isv1 &&
           d.s1.stored_energy == &b.se1 && d.s1.dissipated_energy == &b.de1 && d.s1.external_state_variables == b.esv1;
  }

  static bool same(const double* a, const double* b, const int n) { return std::memcmp(a, b, n * sizeof(double)) == 0; }
  static bool close(const double* a, const double* b, const int n) {
    double s = 0;
    for (int i = 0; i != n; ++i) s = std::max(s, std::abs(b[i]));
    for (int i = 0; i != n; ++i) {
      if (!(std::abs(a[i] - b[i]) <= 1e-10 * (s + 1e-300))) return false;
    }
    return true;
  }

  static std::string err_token(const char* e) {
    const std::string s(e);
    if (s.empty()) return "none";
    if (s == "behaviour initialisation failed") return "initfailed";
    if (s == "prediction operator is not implemented") return "noprediction";
    if (s == "tangent operator is not implemented") return "notangent";
    if (s == "invalid choice for the stress measure") return "badstressmeasure";
    if (s == "invalid choice for consistent tangent operator") return "badtangent";
    if (s.rfind("hook:", 0) == 0) return "exc:" + s.substr(5);
    if (s.find("unsupported tangent operator type") != std::string::npos) return "exc:texport";
    if (s.find("out of bounds") != std::string::npos || s.find("OutOfBounds") != std::string::npos || s.find("bound") != std::string::npos)
      return "exc:bounds";
    return "other(" + s + ")";
  }

  static std::string join_trace() {
    std::string r;
    for (const auto& t : trace) {
      if (!r.empty()) r += ";";
      r += t;
    }
    return r.empty() ? "-" : r;
  }
  static std::string choices() {
    std::string r;
    for (int h = 0; h != H_COUNT; ++h) {
      if (!r.empty()) r += ",";
      r += std::string(hook_names[h]) + "=" + std::to_string(oracle.taken[h]);
      if (h == H_APRIORI || h == H_APOST) r += ":" + std::to_string(oracle.value[h]);
    }
    return r;
  }
  static const char* policy_name(const tfel::material::OutOfBoundsPolicy p) {
    return p == tfel::material::Strict ? "strict" : p == tfel::material::Warning ? "warning" : "none";
  }

  static long ncases = 0;

  // ------------------------------------------------------------------ plain mfront::gb::integrate
  template <unsigned TR, bool FS>
  static void run_plain(const double K0, const tfel::material::OutOfBoundsPolicy p, const double rdt_in) {
    constexpr auto H = tfel::material::ModellingHypothesis::TRIDIMENSIONAL;
    using B = Mock<H, TR, FS>;
    oracle.prefix.clear();
    // for the finite strain flavour the flag given by the caller is part of the calling convention
    const auto f = [] {
      if constexpr (FS) {
        return tfel::material::FiniteStrainBehaviourTangentOperatorBase::DS_DEGL;
      } else {
        return B::STANDARDTANGENTOPERATOR;
      }
    }();
    do {
      Buffers b, ref;
      fill(b, K0, 0, 0, rdt_in, 6);
      fill(ref, K0, 0, 0, rdt_in, 6);
      oracle.start();
      trace.clear();
      int r = 99;
      bool escaped = false;
      try {
        r = mfront::gb::integrate<B>(b.d, f, p);
      } catch (...) {
        escaped = true;
      }
      // observations
      std::ostringstream o;
      o << "ret=" << (escaped ? std::string("escaped") : std::to_string(r));
      o << " trace=" << join_trace();
      o << " rdt=" << pm(b.rdt);
      double w[9];
      for (int i = 0; i != 9; ++i) w[i] = i < 6 ? stress_sentinel(i) : ref.tf1[i];
      o << " flux=" << (same(b.tf1, ref.tf1, 9) ? "U" : same(b.tf1, w, 9) ? "W" : "X");
      double wi[4];
      for (int i = 0; i != 4; ++i) wi[i] = isv_sentinel(i);
      o << " isv=" << (same(b.isv1, ref.isv1, 4) ? "U" : same(b.isv1, wi, 4) ? "W" : "X");
      o << " se=" << (b.se1 == ref.se1 ? "U" : b.se1 == ref.se0 + 1000 ? "W" : "X");
      o << " de=" << (b.de1 == ref.de1 ? "U" : b.de1 == ref.de0 + 2000 ? "W" : "X");
      // K buffer
      std::string kt = "X";
      if (same(b.K, ref.K, KSIZE)) {
        kt = "U";
      } else {
        for (int smt = 0; smt != 5 && kt == "X"; ++smt) {
          for (const int n : {36, 54, 81}) {
            double kk[KSIZE];
            std::memcpy(kk, ref.K, sizeof kk);
            for (int i = 0; i != n; ++i) kk[i] = op_sentinel(smt, int(f), i);
            if (same(b.K, kk, KSIZE)) {
              kt = "E:" + sm_name(smt) + ":" + std::to_string(n);
              break;
            }
          }
        }
      }
      o << " K=" << kt;
      o << " sos=" << (b.sos == ref.sos ? "U" : b.sos == 2 * ref.rho0 ? "S0" : b.sos == 2 * ref.rho1 ? "S1" : "X");
      o << " err=" << err_token(b.err);
      const bool inputs_ok = same(b.g0, ref.g0, 9) && same(b.g1, ref.g1, 9) && same(b.tf0, ref.tf0, 9) && same(b.isv0, ref.isv0, 4) &&
                             b.se0 == ref.se0 && b.de0 == ref.de0 && same(b.mp, ref.mp, 4);
      o << " frame=" << (pointers_restored(b) && inputs_ok ? "ok" : "bad");
      std::printf("P fn=%s tr=%u K0=%s K1=0 K2=0 pol=%s rdt0=%s | %s | %s\n", FS ? "plainfs" : "plain", TR, pm(K0).c_str(), policy_name(p),
                  pm(rdt_in).c_str(), choices().c_str(), o.str().c_str());
      ++ncases;
    } while (oracle.next());
  }

  // ------------------------------------------------------------------ wrappers
  // reference post-processing kinds, recomputed with TFEL's conversion functions, to recognise what the wrapper wrote
  using namespace tfel::math;
  using FSTO = tfel::material::FiniteStrainBehaviourTangentOperatorBase;

  struct WrapRef {
    tensor<3u, double> F0, F1;
    stensor<3u, double> Sexp;   // stress exported by the mock
    st2tost2<3u, double> Kexp;  // operator exported by the mock (strain based mocks)
  };

  // W = 0 Green-Lagrange, 1 Hencky, 2 standard finite strain
  template <int W, unsigned TR>
  static void run_wrapper(const double K0, const double K1, const double K2, const tfel::material::OutOfBoundsPolicy p) {
    constexpr auto H = tfel::material::ModellingHypothesis::TRIDIMENSIONAL;
    using B = Mock<H, TR, W == 2>;
    const double rdt_in = 1.;
    const int nflux = (K1 > 1.5 && K1 < 2.5) ? 9 : 6;  // PK1: unsymmetric tensor
    oracle.prefix.clear();
    do {
      Buffers b, ref;
      fill(b, K0, K1, K2, rdt_in, nflux);
      fill(ref, K0, K1, K2, rdt_in, nflux);
      oracle.start();
      trace.clear();
      ctor_view = CtorView{};
      ctor_view.K0 = -999;
      int r = 99;
      bool escaped = false;
      try {
        if constexpr (W == 0) {
          r = mfront::gb::green_lagrange_strain::integrate<B>(b.d, p);
        } else if constexpr (W == 1) {
          r = mfront::gb::logarithmic_strain::integrate<B>(b.d, p);
        } else {
          r = mfront::gb::finite_strain::integrate<B>(b.d, p);
        }
      } catch (...) {
        escaped = true;
      }
      const bool inner_called = !trace.empty();
      tensor<3u, double> F0, F1;
      for (int i = 0; i != 9; ++i) {
        F0[i] = ref.g0[i];
        F1[i] = ref.g1[i];
      }
      std::ostringstream o;
      o << "ret=" << (escaped ? std::string("escaped") : std::to_string(r));
      o << " trace=" << join_trace();
      o << " rdt=" << pm(b.rdt);
      // ---- what the inner behaviour saw
      std::string seen = "-";
      if (inner_called) {
        seen = "K0:" + pm(ctor_view.K0);
        // gradients
        if constexpr (W == 0) {
          const auto e0 = computeGreenLagrangeTensor(F0);
          const auto e1 = computeGreenLagrangeTensor(F1);
          seen += (close(ctor_view.grad0, e0.begin(), 6) && close(ctor_view.grad1, e1.begin(), 6)) ? ",grad:GL" : ",grad:X";
        } else if constexpr (W == 1) {
          using LSH = tfel::material::LogarithmicStrainHandler<3u, double>;
          LSH l0(LSH::LAGRANGIAN, F0), l1(LSH::LAGRANGIAN, F1);
          const auto e0 = l0.getHenckyLogarithmicStrain();
          const auto e1 = l1.getHenckyLogarithmicStrain();
          seen += (close(ctor_view.grad0, e0.begin(), 6) && close(ctor_view.grad1, e1.begin(), 6)) ? ",grad:HENCKY" : ",grad:X";
        } else {
          seen += (ctor_view.g0 == b.g0 && ctor_view.g1 == b.g1) ? ",grad:F" : ",grad:X";
        }
        // initial stress given to the behaviour, recognised among the conversions of the caller's initial stress
        stensor<3u, double> sig0;
        {
          tensor<3u, double> pk0;
          stensor<3u, double> S0;
          for (int i = 0; i != 9; ++i) pk0[i] = ref.tf0[i];
          for (int i = 0; i != 6; ++i) S0[i] = ref.tf0[i];
          std::string tk = "X";
          const stensor<3u, double> asC = S0;
          const stensor<3u, double> fromPK1 = convertFirstPiolaKirchhoffStressToCauchyStress(pk0, F0);
          const stensor<3u, double> fromPK2 = convertSecondPiolaKirchhoffStressToCauchyStress(S0, F0);
          const stensor<3u, double>* cands[3] = {&asC, &fromPK2, &fromPK1};
          const char* names[3] = {"cauchy", "pk2", "pk1"};
          for (int k = 0; k != 3 && tk == "X"; ++k) {
            stensor<3u, double> T;
            if constexpr (W == 0) {
              T = convertCauchyStressToSecondPiolaKirchhoffStress(*cands[k], F0);
            } else if constexpr (W == 1) {
              using LSH = tfel::material::LogarithmicStrainHandler<3u, double>;
              LSH l0(LSH::LAGRANGIAN, F0);
              T = l0.convertFromCauchyStress(*cands[k]);
            } else {
              T = *cands[k];
            }
            if (close(ctor_view.flux0, T.begin(), 6)) tk = names[k];
          }
          seen += ",stress0:from-" + tk;
        }
        seen += std::string(",flux1:") + (ctor_view.tf1 == b.tf1 ? "caller" : "private");
        seen += std::string(",K:") + (ctor_view.K == b.K ? "caller" : "private");
      }
      o << " seen=" << seen;
      // ---- caller's output stress
      stensor<3u, double> Sexp;
      for (int i = 0; i != 6; ++i) Sexp[i] = stress_sentinel(i);
      std::string ft = "X";
      if (same(b.tf1, ref.tf1, 9)) {
        ft = "U";
      } else {
        // candidates: conversion of the exported stress / of a zero stress / of the initial stress, to each stress measure
        stensor<3u, double> zero(0.);
        stensor<3u, double> sini;
        for (int i = 0; i != 6; ++i) sini[i] = ctor_view.flux0[i];
        const stensor<3u, double>* srcs[3] = {&Sexp, &zero, &sini};
        const char* snames[3] = {"state", "zero", "initial"};
        for (int k = 0; k != 3 && ft == "X"; ++k) {
          stensor<3u, double> sig;  // Cauchy stress at the end of the time step
          if constexpr (W == 0) {
            sig = convertSecondPiolaKirchhoffStressToCauchyStress(*srcs[k], F1);
          } else if constexpr (W == 1) {
            using LSH = tfel::material::LogarithmicStrainHandler<3u, double>;
            LSH l1(LSH::LAGRANGIAN, F1);
            sig = l1.convertToCauchyStress(*srcs[k]);
          } else {
            sig = *srcs[k];
          }
          // the measure requested by the caller is tried first: a zero stress has the same image as Cauchy and as PK2
          const int req = K1 < 0.5 ? 0 : (K1 < 1.5 ? 1 : 2);
          for (int mm = 0; mm != 3 && ft == "X"; ++mm) {
            const int m = (req + mm) % 3;
            double w[9];
            std::memcpy(w, ref.tf1, sizeof w);
            if (m == 0) {
              for (int i = 0; i != 6; ++i) w[i] = sig[i];
            } else if (m == 1) {
              const stensor<3u, double> S = convertCauchyStressToSecondPiolaKirchhoffStress(sig, F1);
              for (int i = 0; i != 6; ++i) w[i] = S[i];
            } else {
              const tensor<3u, double> P = convertCauchyStressToFirstPiolaKirchhoffStress(sig, F1);
              for (int i = 0; i != 9; ++i) w[i] = P[i];
            }
            if (close(b.tf1, w, 9)) {
              ft = std::string(m == 0 ? "cauchy:" : m == 1 ? "pk2:" : "pk1:") + snames[k];
            }
          }
        }
      }
      o << " flux=" << ft;
      double wi[4];
      for (int i = 0; i != 4; ++i) wi[i] = isv_sentinel(i);
      o << " isv=" << (same(b.isv1, ref.isv1, 4) ? "U" : same(b.isv1, wi, 4) ? "W" : "X");
      o << " se=" << (b.se1 == ref.se1 ? "U" : b.se1 == ref.se0 + 1000 ? "W" : "X");
      o << " de=" << (b.de1 == ref.de1 ? "U" : b.de1 == ref.de0 + 2000 ? "W" : "X");
      // ---- caller's K buffer
      std::string kt = "X";
      if (same(b.K, ref.K, KSIZE)) {
        kt = "U";
      } else if constexpr (W == 2) {
        for (int smt = 0; smt != 5 && kt == "X"; ++smt) {
          for (int fl = 0; fl != 15 && kt == "X"; ++fl) {
            for (const int n : {36, 54, 81}) {
              double kk[KSIZE];
              std::memcpy(kk, ref.K, sizeof kk);
              for (int i = 0; i != n; ++i) kk[i] = op_sentinel(smt, fl, i);
              if (same(b.K, kk, KSIZE)) {
                kt = "E:" + sm_name(smt) + ":" + flag_name(fl) + ":" + std::to_string(n);
                break;
              }
            }
          }
        }
      } else if (last_smt >= 0) {
        // conversions of the operator exported by the behaviour, at (F0,F0,s0) [prediction] or (F0,F1,s1) [integration]
        st2tost2<3u, double> Kexp;
        for (int i = 0; i != 36; ++i) *(Kexp.begin() + i) = op_sentinel(last_smt, 0, i);
        // Cauchy stresses as the wrapper computes them
        stensor<3u, double> s0c, s1c;
        {
          tensor<3u, double> pk0;
          stensor<3u, double> S0;
          for (int i = 0; i != 9; ++i) pk0[i] = ref.tf0[i];
          for (int i = 0; i != 6; ++i) S0[i] = ref.tf0[i];
          if (K1 < 0.5) {
            s0c = S0;
          } else if (K1 < 1.5) {
            s0c = convertSecondPiolaKirchhoffStressToCauchyStress(S0, F0);
          } else {
            s0c = convertFirstPiolaKirchhoffStressToCauchyStress(pk0, F0);
          }
        }
        std::string kmatch, ktail;
        for (int which = 0; which != 2; ++which) {  // 0: prediction, 1: integration
          for (int s = 0; s != 2; ++s) {            // integration: exported stress / zero stress
            if (which == 0 && s == 1) continue;
            stensor<3u, double> Tsrc = (s == 0) ? Sexp : stensor<3u, double>(0.);
            for (int k2 = 0; k2 != 4; ++k2) {
              double kk[KSIZE];
              std::memcpy(kk, ref.K, sizeof kk);
              const auto& Fa = F0;
              const auto& Fb = which == 0 ? F0 : F1;
              if constexpr (W == 0) {
                s1c = convertSecondPiolaKirchhoffStressToCauchyStress(Tsrc, F1);
                const auto& sg = which == 0 ? s0c : s1c;
                using tfel::material::convert;
                if (k2 == 0) {
                  map<t2tost2<3u, double>>(kk) = convert<FSTO::DSIG_DF, FSTO::DS_DEGL>(Kexp, Fa, Fb, sg);
                } else if (k2 == 1) {
                  for (int i = 0; i != 36; ++i) kk[i] = *(Kexp.begin() + i);
                } else if (k2 == 2) {
                  map<t2tot2<3u, double>>(kk) = convert<FSTO::DPK1_DF, FSTO::DS_DEGL>(Kexp, Fa, Fb, sg);
                } else {
                  const auto K1_ = convert<FSTO::SPATIAL_MODULI, FSTO::DS_DEGL>(Kexp, Fa, Fb, sg);
                  const auto K2_ = convert<FSTO::DTAU_DF, FSTO::SPATIAL_MODULI>(K1_, Fa, Fb, sg);
                  map<t2tost2<3u, double>>(kk) = convert<FSTO::DTAU_DDF, FSTO::DTAU_DF>(K2_, Fa, Fb, sg);
                }
              } else if constexpr (W == 1) {
                using LSH = tfel::material::LogarithmicStrainHandler<3u, double>;
                using tfel::material::convert;
                const auto setting = (k2 == 0) ? LSH::EULERIAN : LSH::LAGRANGIAN;
                LSH l0(setting, F0), l1(setting, F1);
                s1c = l1.convertToCauchyStress(Tsrc);
                const auto& sg = which == 0 ? s0c : s1c;
                const stensor<3u, double> T0 = l0.convertFromCauchyStress(s0c);
                auto& lh = which == 0 ? l0 : l1;
                const stensor<3u, double> Tk = which == 0 ? T0 : Tsrc;
                if (k2 == 0) {
                  const auto Cs = lh.convertToSpatialTangentModuli(Kexp, Tk);
                  const auto Dt = convert<FSTO::DTAU_DF, FSTO::SPATIAL_MODULI>(Cs, Fa, Fb, sg);
                  map<t2tost2<3u, double>>(kk) = convert<FSTO::DSIG_DF, FSTO::DTAU_DF>(Dt, Fa, Fb, sg);
                } else if (k2 == 1) {
                  map<st2tost2<3u, double>>(kk) = lh.convertToMaterialTangentModuli(Kexp, Tk);
                } else if (k2 == 2) {
                  const auto Cse = lh.convertToMaterialTangentModuli(Kexp, Tk);
                  map<t2tot2<3u, double>>(kk) = convert<FSTO::DPK1_DF, FSTO::DS_DEGL>(Cse, Fa, Fb, sg);
                } else {
                  // as written in the header: the handler of the beginning of the time step is used here
                  const auto Cs = l0.convertToSpatialTangentModuli(Kexp, Tk);
                  const auto Dt = convert<FSTO::DTAU_DF, FSTO::SPATIAL_MODULI>(Cs, Fa, Fb, sg);
                  map<t2tost2<3u, double>>(kk) = convert<FSTO::DTAU_DDF, FSTO::DTAU_DF>(Dt, Fa, Fb, sg);
                }
              }
              if (close(b.K, kk, KSIZE)) {
                // every kind of conversion that gives the observed image is listed (the plain copy of the
                // Green-Lagrange wrapper for DS_DEGL is the same in the three cases)
                static const char* k2n[4] = {"DSIG_DF", "DS_DEGL", "DPK1_DF", "DTAU_DDF"};
                const std::string kind = which == 0 ? "P" : (s == 0 ? "I" : "Izero");
                if (kmatch.empty()) {
                  kmatch = kind;
                  ktail = std::string(":") + k2n[k2] + ":" + sm_name(last_smt);
                } else if (ktail == std::string(":") + k2n[k2] + ":" + sm_name(last_smt)) {
                  kmatch += "/" + kind;
                }
              }
            }
          }
        }
        if (!kmatch.empty()) kt = kmatch + ktail;
      }
      o << " K=" << kt;
      o << " sos=" << (b.sos == ref.sos ? "U" : b.sos == 2 * ref.rho0 ? "S0" : b.sos == 2 * ref.rho1 ? "S1" : "X");
      o << " err=" << err_token(b.err);
      const bool inputs_ok = same(b.g0, ref.g0, 9) && same(b.g1, ref.g1, 9) && same(b.tf0, ref.tf0, 9) && same(b.isv0, ref.isv0, 4) &&
                             b.se0 == ref.se0 && b.de0 == ref.de0 && same(b.mp, ref.mp, 4);
      o << " frame=" << (pointers_restored(b) && inputs_ok ? "ok" : "bad");
      std::printf("P fn=%s tr=%u K0=%s K1=%s K2=%s pol=%s rdt0=%s | %s | %s\n", W == 0 ? "gl" : W == 1 ? "log" : "fs", TR, pm(K0).c_str(),
                  pm(K1).c_str(), pm(K2).c_str(), policy_name(p), pm(rdt_in).c_str(), choices().c_str(), o.str().c_str());
      ++ncases;
    } while (oracle.next());
  }

  template <unsigned TR>
  static void plain_all(const std::vector<double>& K0s, const bool fs) {
    using namespace tfel::material;
    for (const auto K0 : K0s) {
      for (const auto p : {None, Warning, Strict}) {
        if (fs) {
          run_plain<TR, true>(K0, p, 1.);
        } else {
          run_plain<TR, false>(K0, p, 1.);
        }
      }
    }
  }
  template <int W, unsigned TR>
  static void wrapper_all(const std::vector<double>& K0s, const std::vector<double>& K1s, const std::vector<double>& K2s) {
    for (const auto K0 : K0s)
      for (const auto K1 : K1s)
        for (const auto K2 : K2s) run_wrapper<W, TR>(K0, K1, K2, tfel::material::None);
  }

}  // namespace vt

int main(const int argc, const char* const* argv) {
  using namespace vt;
  const std::string mode = argc > 1 ? argv[1] : "quick";
  // warnings of the bounds checks go to stdout/stderr of the library: keep our protocol on stdout clean
  const std::vector<double> K0_all = {-3, -2, -1, 0, 1, 2, 3, 4, 97, 98, 99, 100, 101, 102, 103, 104, -2.7, -1.8, 0.2, 2.2, 4.4, 102.2, 97.3};
  const std::vector<double> K0_int = {-3, -2, -1, 0, 1, 2, 3, 4, 97, 98, 99, 100, 101, 102, 103, 104};
  if (mode == "replay") {
    // replay <fn> <tr> <K0> <K1> <K2> <policy> : all executions for one configuration (rich tables)
    if (argc < 8) return 2;
    const std::string fn = argv[2];
    const unsigned tr = std::stoul(argv[3]);
    const double K0 = std::stod(argv[4]) / 1000, K1 = std::stod(argv[5]) / 1000, K2 = std::stod(argv[6]) / 1000;
    const std::string ps = argv[7];
    const auto p = ps == "strict" ? tfel::material::Strict : ps == "warning" ? tfel::material::Warning : tfel::material::None;
    rich = (fn == "plain" || fn == "plainfs");
#define VT_DISPATCH(TRV)                                           \
  if (tr == TRV) {                                                 \
    if (fn == "plain") run_plain<TRV, false>(K0, p, 1.);          \
    if (fn == "plainfs") run_plain<TRV, true>(K0, p, 1.);         \
    if (fn == "gl") run_wrapper<0, TRV>(K0, K1, K2, p);           \
    if (fn == "log") run_wrapper<1, TRV>(K0, K1, K2, p);          \
    if (fn == "fs") run_wrapper<2, TRV>(K0, K1, K2, p);           \
  }
    VT_DISPATCH(0u) VT_DISPATCH(15u) VT_DISPATCH(3u) VT_DISPATCH(5u) VT_DISPATCH(10u) VT_DISPATCH(12u)
    return 0;
  }
  const bool thorough = (mode == "thorough");
  // ---- plain integrate
  rich = true;
  const auto& K0p = K0_all;
  plain_all<15u>(K0p, false);
  plain_all<0u>(K0p, false);
  plain_all<3u>(K0_int, false);
  plain_all<5u>(K0_int, false);
  plain_all<10u>(K0_int, false);
  plain_all<12u>(K0_int, false);
  plain_all<15u>(K0_int, true);
  // ---- wrappers
  rich = thorough;
  const std::vector<double> K1s = {0, 1, 2, 3};
  const std::vector<double> K2s = {0, 1, 2, 3, 4};
  wrapper_all<0, 15u>(K0_int, K1s, K2s);
  wrapper_all<1, 15u>(K0_int, K1s, K2s);
  wrapper_all<2, 15u>(K0_int, K1s, K2s);
  wrapper_all<0, 0u>(K0_int, {0, 2}, {0, 1});
  wrapper_all<1, 0u>(K0_int, {0, 2}, {0, 1});
  wrapper_all<2, 0u>(K0_int, {0, 2}, {0, 1});
  std::printf("END cases=%ld\n", ncases);
  return 0;
}

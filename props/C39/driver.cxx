// C39 / C40 driver: the REAL templates mfront::gb::integrate / computePredictionOperator and the three
// finite-strain wrappers (green_lagrange_strain::integrate, logarithmic_strain::integrate,
// finite_strain::integrate) instantiated with mock behaviours whose hooks take their outcome from a
// choice oracle.  A depth-first search over the oracle enumerates every distinct execution (every
// combination of hook outcomes that the template can observe), for every traits combination, every
// K[0]/K[1]/K[2] encoding and every out-of-bounds policy.  One line per execution is printed:
//   <inputs> | <choices> | <observations>
// The observations are: return code, ordered hook trace (with the arguments received), proposed time step
// scaling factor, the byte image of every output buffer before/after (tokens U = untouched, W = the values the
// behaviour exports, ...), the K buffer, the speed of sound, the error message, pointer restoration.
#include "mockgb.hxx"

namespace vt {

  // ------------------------------------------------------------------ plain mfront::gb::integrate
  template <unsigned TR, bool FS>
  static void run_plain(const double K0, const tfel::material::OutOfBoundsPolicy p, const double rdt_in) {
    constexpr auto H = tfel::material::ModellingHypothesis::TRIDIMENSIONAL;
    using B = Mock<H, TR, FS>;
    oracle.prefix.clear();
    // for the finite strain flavour the flag given by the caller is part of the calling convention
    const auto f = [] {
      if constexpr (FS) {
        return tfel::material::FiniteStrainBehaviourTangentOperatorBase::DS_DEGL;
      } else {
        return B::STANDARDTANGENTOPERATOR;
      }
    }();
    do {
      Buffers b, ref;
      fill(b, K0, 0, 0, rdt_in, 6);
      fill(ref, K0, 0, 0, rdt_in, 6);
      oracle.start();
      trace.clear();
      int r = 99;
      bool escaped = false;
      try {
        r = mfront::gb::integrate<B>(b.d, f, p);
      } catch (...) {
        escaped = true;
      }
      // observations
      std::ostringstream o;
      o << "ret=" << (escaped ? std::string("escaped") : std::to_string(r));
      o << " trace=" << join_trace();
      o << " rdt=" << pm(b.rdt);
      double w[9];
      for (int i = 0; i != 9; ++i) w[i] = i < 6 ? stress_sentinel(i) : ref.tf1[i];
      o << " flux=" << (same(b.tf1, ref.tf1, 9) ? "U" : same(b.tf1, w, 9) ? "W" : "X");
      double wi[4];
      for (int i = 0; i != 4; ++i) wi[i] = isv_sentinel(i);
      o << " isv=" << (same(b.isv1, ref.isv1, 4) ? "U" : same(b.isv1, wi, 4) ? "W" : "X");
      o << " se=" << (b.se1 == ref.se1 ? "U" : b.se1 == ref.se0 + 1000 ? "W" : "X");
      o << " de=" << (b.de1 == ref.de1 ? "U" : b.de1 == ref.de0 + 2000 ? "W" : "X");
      // K buffer
      std::string kt = "X";
      if (same(b.K, ref.K, KSIZE)) {
        kt = "U";
      } else {
        for (int smt = 0; smt != 5 && kt == "X"; ++smt) {
          for (const int n : {36, 54, 81}) {
            double kk[KSIZE];
            std::memcpy(kk, ref.K, sizeof kk);
            for (int i = 0; i != n; ++i) kk[i] = op_sentinel(smt, int(f), i);
            if (same(b.K, kk, KSIZE)) {
              kt = "E:" + sm_name(smt) + ":" + std::to_string(n);
              break;
            }
          }
        }
      }
      o << " K=" << kt;
      o << " sos=" << (b.sos == ref.sos ? "U" : b.sos == 2 * ref.rho0 ? "S0" : b.sos == 2 * ref.rho1 ? "S1" : "X");
      o << " err=" << err_token(b.err);
      const bool inputs_ok = same(b.g0, ref.g0, 9) && same(b.g1, ref.g1, 9) && same(b.tf0, ref.tf0, 9) && same(b.isv0, ref.isv0, 4) &&
                             b.se0 == ref.se0 && b.de0 == ref.de0 && same(b.mp, ref.mp, 4);
      o << " frame=" << (pointers_restored(b) && inputs_ok ? "ok" : "bad");
      std::printf("P fn=%s tr=%u K0=%s K1=0 K2=0 pol=%s rdt0=%s | %s | %s\n", FS ? "plainfs" : "plain", TR, pm(K0).c_str(), policy_name(p),
                  pm(rdt_in).c_str(), choices().c_str(), o.str().c_str());
      ++ncases;
    } while (oracle.next());
  }

  // ------------------------------------------------------------------ wrappers
  // reference post-processing kinds, recomputed with TFEL's conversion functions, to recognise what the wrapper wrote
  using namespace tfel::math;
  using FSTO = tfel::material::FiniteStrainBehaviourTangentOperatorBase;

  struct WrapRef {
    tensor<3u, double> F0, F1;
    stensor<3u, double> Sexp;   // stress exported by the mock
    st2tost2<3u, double> Kexp;  // operator exported by the mock (strain based mocks)
  };

  // W = 0 Green-Lagrange, 1 Hencky, 2 standard finite strain
  template <int W, unsigned TR>
  static void run_wrapper(const double K0, const double K1, const double K2, const tfel::material::OutOfBoundsPolicy p) {
    constexpr auto H = tfel::material::ModellingHypothesis::TRIDIMENSIONAL;
    using B = Mock<H, TR, W == 2>;
    const double rdt_in = 1.;
    const int nflux = (K1 > 1.5 && K1 < 2.5) ? 9 : 6;  // PK1: unsymmetric tensor
    oracle.prefix.clear();
    do {
      Buffers b, ref;
      fill(b, K0, K1, K2, rdt_in, nflux);
      fill(ref, K0, K1, K2, rdt_in, nflux);
      oracle.start();
      trace.clear();
      ctor_view = CtorView{};
      ctor_view.K0 = -999;
      int r = 99;
      bool escaped = false;
      try {
        if constexpr (W == 0) {
          r = mfront::gb::green_lagrange_strain::integrate<B>(b.d, p);
        } else if constexpr (W == 1) {
          r = mfront::gb::logarithmic_strain::integrate<B>(b.d, p);
        } else {
          r = mfront::gb::finite_strain::integrate<B>(b.d, p);
        }
      } catch (...) {
        escaped = true;
      }
      const bool inner_called = !trace.empty();
      tensor<3u, double> F0, F1;
      for (int i = 0; i != 9; ++i) {
        F0[i] = ref.g0[i];
        F1[i] = ref.g1[i];
      }
      std::ostringstream o;
      o << "ret=" << (escaped ? std::string("escaped") : std::to_string(r));
      o << " trace=" << join_trace();
      o << " rdt=" << pm(b.rdt);
      // ---- what the inner behaviour saw
      std::string seen = "-";
      if (inner_called) {
        seen = "K0:" + pm(ctor_view.K0);
        // gradients
        if constexpr (W == 0) {
          const auto e0 = computeGreenLagrangeTensor(F0);
          const auto e1 = computeGreenLagrangeTensor(F1);
          seen += (close(ctor_view.grad0, e0.begin(), 6) && close(ctor_view.grad1, e1.begin(), 6)) ? ",grad:GL" : ",grad:X";
        } else if constexpr (W == 1) {
          using LSH = tfel::material::LogarithmicStrainHandler<3u, double>;
          LSH l0(LSH::LAGRANGIAN, F0), l1(LSH::LAGRANGIAN, F1);
          const auto e0 = l0.getHenckyLogarithmicStrain();
          const auto e1 = l1.getHenckyLogarithmicStrain();
          seen += (close(ctor_view.grad0, e0.begin(), 6) && close(ctor_view.grad1, e1.begin(), 6)) ? ",grad:HENCKY" : ",grad:X";
        } else {
          seen += (ctor_view.g0 == b.g0 && ctor_view.g1 == b.g1) ? ",grad:F" : ",grad:X";
        }
        // initial stress given to the behaviour, recognised among the conversions of the caller's initial stress
        stensor<3u, double> sig0;
        {
          tensor<3u, double> pk0;
          stensor<3u, double> S0;
          for (int i = 0; i != 9; ++i) pk0[i] = ref.tf0[i];
          for (int i = 0; i != 6; ++i) S0[i] = ref.tf0[i];
          std::string tk = "X";
          const stensor<3u, double> asC = S0;
          const stensor<3u, double> fromPK1 = convertFirstPiolaKirchhoffStressToCauchyStress(pk0, F0);
          const stensor<3u, double> fromPK2 = convertSecondPiolaKirchhoffStressToCauchyStress(S0, F0);
          const stensor<3u, double>* cands[3] = {&asC, &fromPK2, &fromPK1};
          const char* names[3] = {"cauchy", "pk2", "pk1"};
          for (int k = 0; k != 3 && tk == "X"; ++k) {
            stensor<3u, double> T;
            if constexpr (W == 0) {
              T = convertCauchyStressToSecondPiolaKirchhoffStress(*cands[k], F0);
            } else if constexpr (W == 1) {
              using LSH = tfel::material::LogarithmicStrainHandler<3u, double>;
              LSH l0(LSH::LAGRANGIAN, F0);
              T = l0.convertFromCauchyStress(*cands[k]);
            } else {
              T = *cands[k];
            }
            if (close(ctor_view.flux0, T.begin(), 6)) tk = names[k];
          }
          seen += ",stress0:from-" + tk;
        }
        seen += std::string(",flux1:") + (ctor_view.tf1 == b.tf1 ? "caller" : "private");
        seen += std::string(",K:") + (ctor_view.K == b.K ? "caller" : "private");
      }
      o << " seen=" << seen;
      // ---- caller's output stress
      stensor<3u, double> Sexp;
      for (int i = 0; i != 6; ++i) Sexp[i] = stress_sentinel(i);
      std::string ft = "X";
      if (same(b.tf1, ref.tf1, 9)) {
        ft = "U";
      } else {
        // candidates: conversion of the exported stress / of a zero stress / of the initial stress, to each stress measure
        stensor<3u, double> zero(0.);
        stensor<3u, double> sini;
        for (int i = 0; i != 6; ++i) sini[i] = ctor_view.flux0[i];
        const stensor<3u, double>* srcs[3] = {&Sexp, &zero, &sini};
        const char* snames[3] = {"state", "zero", "initial"};
        for (int k = 0; k != 3 && ft == "X"; ++k) {
          stensor<3u, double> sig;  // Cauchy stress at the end of the time step
          if constexpr (W == 0) {
            sig = convertSecondPiolaKirchhoffStressToCauchyStress(*srcs[k], F1);
          } else if constexpr (W == 1) {
            using LSH = tfel::material::LogarithmicStrainHandler<3u, double>;
            LSH l1(LSH::LAGRANGIAN, F1);
            sig = l1.convertToCauchyStress(*srcs[k]);
          } else {
            sig = *srcs[k];
          }
          // the measure requested by the caller is tried first: a zero stress has the same image as Cauchy and as PK2
          const int req = K1 < 0.5 ? 0 : (K1 < 1.5 ? 1 : 2);
          for (int mm = 0; mm != 3 && ft == "X"; ++mm) {
            const int m = (req + mm) % 3;
            double w[9];
            std::memcpy(w, ref.tf1, sizeof w);
            if (m == 0) {
              for (int i = 0; i != 6; ++i) w[i] = sig[i];
            } else if (m == 1) {
              const stensor<3u, double> S = convertCauchyStressToSecondPiolaKirchhoffStress(sig, F1);
              for (int i = 0; i != 6; ++i) w[i] = S[i];
            } else {
              const tensor<3u, double> P = convertCauchyStressToFirstPiolaKirchhoffStress(sig, F1);
              for (int i = 0; i != 9; ++i) w[i] = P[i];
            }
            if (close(b.tf1, w, 9)) {
              ft = std::string(m == 0 ? "cauchy:" : m == 1 ? "pk2:" : "pk1:") + snames[k];
            }
          }
        }
      }
      o << " flux=" << ft;
      double wi[4];
      for (int i = 0; i != 4; ++i) wi[i] = isv_sentinel(i);
      o << " isv=" << (same(b.isv1, ref.isv1, 4) ? "U" : same(b.isv1, wi, 4) ? "W" : "X");
      o << " se=" << (b.se1 == ref.se1 ? "U" : b.se1 == ref.se0 + 1000 ? "W" : "X");
      o << " de=" << (b.de1 == ref.de1 ? "U" : b.de1 == ref.de0 + 2000 ? "W" : "X");
      // ---- caller's K buffer
      std::string kt = "X";
      if (same(b.K, ref.K, KSIZE)) {
        kt = "U";
      } else if constexpr (W == 2) {
        for (int smt = 0; smt != 5 && kt == "X"; ++smt) {
          for (int fl = 0; fl != 15 && kt == "X"; ++fl) {
            for (const int n : {36, 54, 81}) {
              double kk[KSIZE];
              std::memcpy(kk, ref.K, sizeof kk);
              for (int i = 0; i != n; ++i) kk[i] = op_sentinel(smt, fl, i);
              if (same(b.K, kk, KSIZE)) {
                kt = "E:" + sm_name(smt) + ":" + flag_name(fl) + ":" + std::to_string(n);
                break;
              }
            }
          }
        }
      } else if (last_smt >= 0) {
        // conversions of the operator exported by the behaviour, at (F0,F0,s0) [prediction] or (F0,F1,s1) [integration]
        st2tost2<3u, double> Kexp;
        for (int i = 0; i != 36; ++i) *(Kexp.begin() + i) = op_sentinel(last_smt, 0, i);
        // Cauchy stresses as the wrapper computes them
        stensor<3u, double> s0c, s1c;
        {
          tensor<3u, double> pk0;
          stensor<3u, double> S0;
          for (int i = 0; i != 9; ++i) pk0[i] = ref.tf0[i];
          for (int i = 0; i != 6; ++i) S0[i] = ref.tf0[i];
          if (K1 < 0.5) {
            s0c = S0;
          } else if (K1 < 1.5) {
            s0c = convertSecondPiolaKirchhoffStressToCauchyStress(S0, F0);
          } else {
            s0c = convertFirstPiolaKirchhoffStressToCauchyStress(pk0, F0);
          }
        }
        std::string kmatch, ktail;
        for (int which = 0; which != 2; ++which) {  // 0: prediction, 1: integration
          for (int s = 0; s != 2; ++s) {            // integration: exported stress / zero stress
            if (which == 0 && s == 1) continue;
            stensor<3u, double> Tsrc = (s == 0) ? Sexp : stensor<3u, double>(0.);
            for (int k2 = 0; k2 != 4; ++k2) {
              double kk[KSIZE];
              std::memcpy(kk, ref.K, sizeof kk);
              const auto& Fa = F0;
              const auto& Fb = which == 0 ? F0 : F1;
              if constexpr (W == 0) {
                s1c = convertSecondPiolaKirchhoffStressToCauchyStress(Tsrc, F1);
                const auto& sg = which == 0 ? s0c : s1c;
                using tfel::material::convert;
                if (k2 == 0) {
                  map<t2tost2<3u, double>>(kk) = convert<FSTO::DSIG_DF, FSTO::DS_DEGL>(Kexp, Fa, Fb, sg);
                } else if (k2 == 1) {
                  for (int i = 0; i != 36; ++i) kk[i] = *(Kexp.begin() + i);
                } else if (k2 == 2) {
                  map<t2tot2<3u, double>>(kk) = convert<FSTO::DPK1_DF, FSTO::DS_DEGL>(Kexp, Fa, Fb, sg);
                } else {
                  const auto K1_ = convert<FSTO::SPATIAL_MODULI, FSTO::DS_DEGL>(Kexp, Fa, Fb, sg);
                  const auto K2_ = convert<FSTO::DTAU_DF, FSTO::SPATIAL_MODULI>(K1_, Fa, Fb, sg);
                  map<t2tost2<3u, double>>(kk) = convert<FSTO::DTAU_DDF, FSTO::DTAU_DF>(K2_, Fa, Fb, sg);
                }
              } else if constexpr (W == 1) {
                using LSH = tfel::material::LogarithmicStrainHandler<3u, double>;
                using tfel::material::convert;
                const auto setting = (k2 == 0) ? LSH::EULERIAN : LSH::LAGRANGIAN;
                LSH l0(setting, F0), l1(setting, F1);
                s1c = l1.convertToCauchyStress(Tsrc);
                const auto& sg = which == 0 ? s0c : s1c;
                const stensor<3u, double> T0 = l0.convertFromCauchyStress(s0c);
                auto& lh = which == 0 ? l0 : l1;
                const stensor<3u, double> Tk = which == 0 ? T0 : Tsrc;
                if (k2 == 0) {
                  const auto Cs = lh.convertToSpatialTangentModuli(Kexp, Tk);
                  const auto Dt = convert<FSTO::DTAU_DF, FSTO::SPATIAL_MODULI>(Cs, Fa, Fb, sg);
                  map<t2tost2<3u, double>>(kk) = convert<FSTO::DSIG_DF, FSTO::DTAU_DF>(Dt, Fa, Fb, sg);
                } else if (k2 == 1) {
                  map<st2tost2<3u, double>>(kk) = lh.convertToMaterialTangentModuli(Kexp, Tk);
                } else if (k2 == 2) {
                  const auto Cse = lh.convertToMaterialTangentModuli(Kexp, Tk);
                  map<t2tot2<3u, double>>(kk) = convert<FSTO::DPK1_DF, FSTO::DS_DEGL>(Cse, Fa, Fb, sg);
                } else {
                  const auto Cs = lh.convertToSpatialTangentModuli(Kexp, Tk);
                  const auto Dt = convert<FSTO::DTAU_DF, FSTO::SPATIAL_MODULI>(Cs, Fa, Fb, sg);
                  map<t2tost2<3u, double>>(kk) = convert<FSTO::DTAU_DDF, FSTO::DTAU_DF>(Dt, Fa, Fb, sg);
                }
              }
              if (close(b.K, kk, KSIZE)) {
                // every kind of conversion that gives the observed image is listed (the plain copy of the
                // Green-Lagrange wrapper for DS_DEGL is the same in the three cases)
                static const char* k2n[4] = {"DSIG_DF", "DS_DEGL", "DPK1_DF", "DTAU_DDF"};
                const std::string kind = which == 0 ? "P" : (s == 0 ? "I" : "Izero");
                if (kmatch.empty()) {
                  kmatch = kind;
                  ktail = std::string(":") + k2n[k2] + ":" + sm_name(last_smt);
                } else if (ktail == std::string(":") + k2n[k2] + ":" + sm_name(last_smt)) {
                  kmatch += "/" + kind;
                }
              }
            }
          }
        }
        if (!kmatch.empty()) kt = kmatch + ktail;
      }
      o << " K=" << kt;
      o << " sos=" << (b.sos == ref.sos ? "U" : b.sos == 2 * ref.rho0 ? "S0" : b.sos == 2 * ref.rho1 ? "S1" : "X");
      o << " err=" << err_token(b.err);
      const bool inputs_ok = same(b.g0, ref.g0, 9) && same(b.g1, ref.g1, 9) && same(b.tf0, ref.tf0, 9) && same(b.isv0, ref.isv0, 4) &&
                             b.se0 == ref.se0 && b.de0 == ref.de0 && same(b.mp, ref.mp, 4);
      o << " frame=" << (pointers_restored(b) && inputs_ok ? "ok" : "bad");
      std::printf("P fn=%s tr=%u K0=%s K1=%s K2=%s pol=%s rdt0=%s | %s | %s\n", W == 0 ? "gl" : W == 1 ? "log" : "fs", TR, pm(K0).c_str(),
                  pm(K1).c_str(), pm(K2).c_str(), policy_name(p), pm(rdt_in).c_str(), choices().c_str(), o.str().c_str());
      ++ncases;
    } while (oracle.next());
  }

  template <unsigned TR>
  static void plain_all(const std::vector<double>& K0s, const bool fs) {
    using namespace tfel::material;
    for (const auto K0 : K0s) {
      for (const auto p : {None, Warning, Strict}) {
        if (fs) {
          run_plain<TR, true>(K0, p, 1.);
        } else {
          run_plain<TR, false>(K0, p, 1.);
        }
      }
    }
  }
  template <int W, unsigned TR>
  static void wrapper_all(const std::vector<double>& K0s, const std::vector<double>& K1s, const std::vector<double>& K2s) {
    for (const auto K0 : K0s)
      for (const auto K1 : K1s)
        for (const auto K2 : K2s) run_wrapper<W, TR>(K0, K1, K2, tfel::material::None);
  }

}  // namespace vt

int main(const int argc, const char* const* argv) {
  using namespace vt;
  const std::string mode = argc > 1 ? argv[1] : "quick";
  // warnings of the bounds checks go to stdout/stderr of the library: keep our protocol on stdout clean
  const std::vector<double> K0_all = {-3, -2, -1, 0, 1, 2, 3, 4, 97, 98, 99, 100, 101, 102, 103, 104, -2.7, -1.8, 0.2, 2.2, 4.4, 102.2, 97.3};
  const std::vector<double> K0_int = {-3, -2, -1, 0, 1, 2, 3, 4, 97, 98, 99, 100, 101, 102, 103, 104};
  if (mode == "replay") {
    // replay <fn> <tr> <K0> <K1> <K2> <policy> : all executions for one configuration (rich tables)
    if (argc < 8) return 2;
    const std::string fn = argv[2];
    const unsigned tr = std::stoul(argv[3]);
    const double K0 = std::stod(argv[4]) / 1000, K1 = std::stod(argv[5]) / 1000, K2 = std::stod(argv[6]) / 1000;
    const std::string ps = argv[7];
    const auto p = ps == "strict" ? tfel::material::Strict : ps == "warning" ? tfel::material::Warning : tfel::material::None;
    rich = (fn == "plain" || fn == "plainfs");
#define VT_DISPATCH(TRV)                                           \
  if (tr == TRV) {                                                 \
    if (fn == "plain") run_plain<TRV, false>(K0, p, 1.);          \
    if (fn == "plainfs") run_plain<TRV, true>(K0, p, 1.);         \
    if (fn == "gl") run_wrapper<0, TRV>(K0, K1, K2, p);           \
    if (fn == "log") run_wrapper<1, TRV>(K0, K1, K2, p);          \
    if (fn == "fs") run_wrapper<2, TRV>(K0, K1, K2, p);           \
  }
    VT_DISPATCH(0u) VT_DISPATCH(15u) VT_DISPATCH(3u) VT_DISPATCH(5u) VT_DISPATCH(10u) VT_DISPATCH(12u)
    return 0;
  }
  const bool thorough = (mode == "thorough");
  // ---- plain integrate
  rich = true;
  const auto& K0p = K0_all;
  plain_all<15u>(K0p, false);
  plain_all<0u>(K0p, false);
  plain_all<3u>(K0_int, false);
  plain_all<5u>(K0_int, false);
  plain_all<10u>(K0_int, false);
  plain_all<12u>(K0_int, false);
  plain_all<15u>(K0_int, true);
  // ---- wrappers
  rich = thorough;
  const std::vector<double> K1s = {0, 1, 2, 3};
  const std::vector<double> K2s = {0, 1, 2, 3, 4};
  wrapper_all<0, 15u>(K0_int, K1s, K2s);
  wrapper_all<1, 15u>(K0_int, K1s, K2s);
  wrapper_all<2, 15u>(K0_int, K1s, K2s);
  wrapper_all<0, 0u>(K0_int, {0, 2}, {0, 1});
  wrapper_all<1, 0u>(K0_int, {0, 2}, {0, 1});
  wrapper_all<2, 0u>(K0_int, {0, 2}, {0, 1});
  std::printf("END cases=%ld\n", ncases);
  return 0;
}

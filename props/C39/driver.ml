(* C39 / C40 correspondence driver: reads the lines printed by driver.cxx (inputs | choices | observations),
   runs the extracted Gallina model (C39_model: integrate, wrap) on the same inputs and scripts, prints the
   observations the model predicts in the same textual form, and reports every difference.
   usage: c39_ml <variant bits: pred_raw late_throw wrap_nonzero wrap_raw, e.g. 1111> < lines *)
open C39_model

let rec pos_of_int n = if n <= 1 then XH else if n land 1 = 0 then XO (pos_of_int (n / 2)) else XI (pos_of_int (n / 2))
let z_of_int n = if n = 0 then Z0 else if n > 0 then Zpos (pos_of_int n) else Zneg (pos_of_int (-n))
let rec int_of_pos = function XH -> 1 | XO p -> 2 * int_of_pos p | XI p -> 2 * int_of_pos p + 1
let int_of_z = function Z0 -> 0 | Zpos p -> int_of_pos p | Zneg p -> - (int_of_pos p)
let q_of_permille n = { qnum = z_of_int n; qden = pos_of_int 1000 }
(* all values handled have a denominator dividing 1000 *)
let permille_of_q q = let n = int_of_z q.qnum and d = int_of_pos q.qden in
  if (n * 1000) mod d <> 0 then failwith "permille" else n * 1000 / d

let kv s = match String.index_opt s '=' with
  | Some i -> (String.sub s 0 i, String.sub s (i + 1) (String.length s - i - 1))
  | None -> (s, "")
let assoc k l = try List.assoc k l with Not_found -> failwith ("missing key " ^ k)

let outcome_of = function 1 -> Fail | 2 -> Throw | _ -> Ok
let okthrow_of = function 1 -> Throw | _ -> Ok
let istatus_of = function 1 -> IFailure | 2 -> IThrow | 3 -> IUnreliable | _ -> ISuccess
let sv s = match String.split_on_char ':' s with
  | [a; b] -> (int_of_string a, int_of_string b)
  | [a] -> (int_of_string a, 0)
  | _ -> failwith "sv"

let sm_name = function Elastic -> "elastic" | Secant -> "secant" | Tangent -> "tangent" | Consistent -> "consistent" | NoStiffness -> "nostiffness"
let toper_name = function DSIG_DF -> "DSIG_DF" | DS_DEGL -> "DS_DEGL" | DPK1_DF -> "DPK1_DF" | DTAU_DDF -> "DTAU_DDF" | TOInvalid -> "C_TRUESDELL"
let flag_name = function FStd -> "std" | FFS t -> toper_name t
let policy_name = function PStrict -> "strict" | PWarning -> "warning" | PNone -> "none"
let hook_name = function HInit -> "init" | HBounds -> "bounds" | HSoS0 -> "sos0" | HPred -> "pred" | HTExport -> "texport"
  | HApriori -> "apriori" | HInteg -> "integ" | HApost -> "apost" | HIE -> "ie" | HDE -> "de" | HSoS1 -> "sos1"
let event_name = function
  | EPolicy p -> "policy:" ^ policy_name p | EInit -> "init" | EBounds -> "bounds"
  | ESoS true -> "sos:rho0" | ESoS false -> "sos:rho1"
  | EPred (t, f) -> "pred:" ^ sm_name t ^ ":" ^ flag_name f | EGetK -> "getK"
  | EApriori r -> "apriori:" ^ string_of_int (permille_of_q r)
  | EInteg (t, f) -> "integ:" ^ sm_name t ^ ":" ^ flag_name f
  | EApost r -> "apost:" ^ string_of_int (permille_of_q r) | EExport -> "export" | EIE -> "ie" | EDE -> "de" | EMinTsf -> "mintsf"
let err_name = function ErrNone -> "none" | ErrInitFailed -> "initfailed" | ErrNoPrediction -> "noprediction" | ErrNoTangent -> "notangent"
  | ErrExc h -> "exc:" ^ hook_name h | ErrBadStressMeasure -> "badstressmeasure" | ErrBadTangent -> "badtangent" | ErrNoAxial -> "noaxial"
let sos_name = function SUntouched -> "U" | SInitial -> "S0" | SFinal -> "S1"
let uw b = if b then "W" else "U"
let measure_name = function Cauchy -> "cauchy" | PK2 -> "pk2" | PK1 -> "pk1" | SMInvalid -> "invalid"
let src_name = function FromState -> "state" | FromZero -> "zero" | FromInitial -> "initial"
let toper_size = function DSIG_DF -> 54 | DS_DEGL -> 36 | DPK1_DF -> 81 | DTAU_DDF -> 54 | TOInvalid -> 0

let trace_string (r : result) = match List.rev r.trace with
  | [] -> "-"
  | l -> String.concat ";" (List.map event_name l)

let () =
  let bits = Sys.argv.(1) in
  let b i = bits.[i] = '1' in
  let v = { v_pred_raw = b 0; v_late_throw = b 1; v_wrap_nonzero = b 2; v_wrap_raw = b 3 } in
  let nok = ref 0 and nbad = ref 0 in
  (try
    while true do
      let line = input_line stdin in
      if String.length line > 2 && line.[0] = 'P' then begin
        match String.split_on_char '|' line with
        | [a; c; o] ->
          let a = List.map kv (List.filter (fun s -> s <> "") (String.split_on_char ' ' (String.trim a))) in
          let c = List.map kv (String.split_on_char ',' (String.trim c)) in
          let observed = String.trim o in
          let fn = assoc "fn" a in
          let trb = int_of_string (assoc "tr" a) in
          let tr = { hasCTO = trb land 1 <> 0; hasPred = trb land 2 <> 0; hasIE = trb land 4 <> 0; hasDE = trb land 8 <> 0 } in
          let k0 = q_of_permille (int_of_string (assoc "K0" a)) in
          let k1 = q_of_permille (int_of_string (assoc "K1" a)) in
          let k2 = q_of_permille (int_of_string (assoc "K2" a)) in
          let p = match assoc "pol" a with "strict" -> PStrict | "warning" -> PWarning | _ -> PNone in
          let rdt0 = q_of_permille (int_of_string (assoc "rdt0" a)) in
          let ci k = fst (sv (assoc k c)) in
          let s = { sc_init = outcome_of (ci "init"); sc_oob = (ci "oob" = 1); sc_sos0 = okthrow_of (ci "sos0");
                    sc_pred = outcome_of (ci "pred"); sc_texport = okthrow_of (ci "texport");
                    sc_apriori = outcome_of (ci "apriori"); sc_apriori_v = q_of_permille (snd (sv (assoc "apriori" c)));
                    sc_integ = istatus_of (ci "integ");
                    sc_apost = outcome_of (ci "apost"); sc_apost_v = q_of_permille (snd (sv (assoc "apost" c)));
                    sc_ie = okthrow_of (ci "ie"); sc_de = okthrow_of (ci "de"); sc_sos1 = okthrow_of (ci "sos1");
                    sc_mintsf = q_of_permille 100 } in
          let is_gen = String.length fn > 4 && String.sub fn 0 4 = "gen:" in
          let gw = if is_gen then List.nth (String.split_on_char ':' fn) 1 else "" in
          let expected =
            if is_gen && gw = "plain" then begin
              (* a real mfront-generated behaviour called through its generated entry point: no hook trace *)
              let r = integrate v tr FStd k0 p rdt0 s in
              Printf.sprintf "ret=%d rdt=%d flux=%s isv=%s se=%s de=%s K=%s sos=%s err=%s frame=ok"
                (int_of_z r.ret) (permille_of_q r.rdt) (uw r.st_written) (uw r.st_written) (uw r.se_written) (uw r.de_written)
                (match r.kst with KUntouched -> "U"
                 | KExported t -> "E:" ^ sm_name t ^ (if is_prediction (effective_K0 k0) then ":pred" else ":integ"))
                (sos_name r.sos) (err_name r.err)
            end else if is_gen then begin
              (* generated behaviour declared with a strain measure: C = changed, the values are C55's business *)
              let w = match gw with "gl" -> WGreenLagrange | "log" -> WHencky | _ -> WFiniteStrain in
              let r = wrap v w tr k0 k1 k2 p rdt0 s in
              let i = r.w_inner in
              Printf.sprintf "ret=%d rdt=%d flux=%s isv=%s se=%s de=%s K=%s sos=%s err=%s frame=ok"
                (int_of_z r.w_ret) (permille_of_q i.rdt)
                (match r.w_flux with FluxUntouched -> "U" | FluxWritten (_, _) -> "C")
                (uw i.st_written) (uw i.se_written) (uw i.de_written)
                (match r.w_K with WKUntouched -> "U" | _ -> "C")
                (sos_name i.sos) (err_name r.w_err)
            end else
            if fn = "glh" || fn = "logh" || fn = "fsh" then begin
              (* the wrappers in the other modelling hypotheses (driver_h.cxx): model wrap_h, coarse images (U / C) *)
              let w = match fn with "glh" -> WGreenLagrange | "logh" -> WHencky | _ -> WFiniteStrain in
              let ps = (assoc "ps" a = "1") in
              let r = wrap_h v w ps (trb land 16 = 0) tr k0 k1 k2 p rdt0 s in
              let i = r.w_inner in
              let seen =
                if not r.w_called then "-"
                else Printf.sprintf "K0:%d,flux1:%s,K:%s" (permille_of_q r.w_K0_seen) (if r.w_flux_private then "private" else "caller")
                    (match w with WFiniteStrain -> "caller" | _ -> "private") in
              Printf.sprintf "ret=%d trace=%s rdt=%d seen=%s flux=%s isv=%s se=%s de=%s K=%s sos=%s err=%s frame=ok"
                (int_of_z r.w_ret) (if r.w_called then trace_string i else "-") (permille_of_q i.rdt) seen
                (match r.w_flux with FluxUntouched -> "U" | FluxWritten (_, _) -> "C")
                (uw i.st_written) (uw i.se_written) (uw i.de_written)
                (match r.w_K with WKUntouched -> "U" | _ -> "C")
                (sos_name i.sos) (err_name r.w_err)
            end else
            if fn = "plain" || fn = "plainfs" then begin
              let f = if fn = "plain" then FStd else FFS DS_DEGL in
              let r = integrate v tr f k0 p rdt0 s in
              Printf.sprintf "ret=%d trace=%s rdt=%d flux=%s isv=%s se=%s de=%s K=%s sos=%s err=%s frame=ok"
                (int_of_z r.ret) (trace_string r) (permille_of_q r.rdt) (uw r.st_written) (uw r.st_written) (uw r.se_written)
                (uw r.de_written)
                (match r.kst with KUntouched -> "U" | KExported t -> "E:" ^ sm_name t ^ ":36")
                (sos_name r.sos) (err_name r.err)
            end else begin
              let w = match fn with "gl" -> WGreenLagrange | "log" -> WHencky | _ -> WFiniteStrain in
              let r = wrap v w tr k0 k1 k2 p rdt0 s in
              let i = r.w_inner in
              let seen =
                if not r.w_called then "-"
                else Printf.sprintf "K0:%d,grad:%s,stress0:from-%s,flux1:%s,K:%s" (permille_of_q r.w_K0_seen)
                    (match w with WGreenLagrange -> "GL" | WHencky -> "HENCKY" | WFiniteStrain -> "F")
                    (measure_name r.w_sm) (if r.w_flux_private then "private" else "caller")
                    (match w with WFiniteStrain -> "caller" | _ -> "private") in
              Printf.sprintf "ret=%d trace=%s rdt=%d seen=%s flux=%s isv=%s se=%s de=%s K=%s sos=%s err=%s frame=ok"
                (int_of_z r.w_ret) (if r.w_called then trace_string i else "-") (permille_of_q i.rdt) seen
                (match r.w_flux with FluxUntouched -> "U" | FluxWritten (m, s) -> measure_name m ^ ":" ^ src_name s)
                (uw i.st_written) (uw i.se_written) (uw i.de_written)
                (match r.w_K with
                 | WKUntouched -> "U"
                 | WKExported (t, f) -> Printf.sprintf "E:%s:%s:%d" (sm_name t) (toper_name f) (toper_size f)
                 (* Green-Lagrange + DS_DEGL is a plain copy: the three kinds of conversion have the same image *)
                 | WKPrediction (DS_DEGL, t) | WKIntegration (DS_DEGL, t, _) when w = WGreenLagrange -> "P/I/Izero:DS_DEGL:" ^ sm_name t
                 | WKPrediction (f, t) -> "P:" ^ toper_name f ^ ":" ^ sm_name t
                 | WKIntegration (f, t, st) -> (if st then "I:" else "Izero:") ^ toper_name f ^ ":" ^ sm_name t
                 | WKGarbage -> "X")
                (sos_name i.sos) (err_name r.w_err)
            end in
          if expected = observed then incr nok
          else begin
            incr nbad;
            Printf.printf "MISMATCH %s || expected %s\n" line expected
          end
        | _ -> Printf.printf "BADLINE %s\n" line
      end
    done
  with End_of_file -> ());
  Printf.printf "DONE ok=%d bad=%d\n" !nok !nbad

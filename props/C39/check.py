"""C39 -- the generic behaviour entry point honours its calling convention.
Engine H: Gallina model of mfront::gb::integrate / computePredictionOperator and of the three finite strain
wrappers (props/C39/coq/C39Model.v), theorems on it, and the tie: the REAL templates instantiated with mock
behaviours whose hooks are scripted over every outcome combination (DFS over a choice oracle), for every
K[0]/K[1]/K[2] encoding, traits combination and policy; every execution is (1) checked against an independent
statement of the convention and (2) compared, field by field, with the extracted model run on the same script."""
import os, sys
sys.path.insert(0, os.path.dirname(os.path.abspath(__file__)))
from vlib import guarded_main
import gbcommon as G
import gencommon as GC


def main(c):
    if c.replay:
        return G.replay(c, "C39")
    # the stage on real mfront-generated behaviours runs in a worker thread (preprocessing / compilation) while the mock stages run
    wait_generated = GC.start_stage(c, "C39")
    exe, lines = G.run_driver(c)
    hlines = G.run_driver_h(c) if lines is not None else None
    if lines is None or hlines is None:
        wait_generated()
        return
    parsed = []
    findings = []
    for l in hlines:
        d, ch, ob = G.parse(l)
        nontrivial = any(v[0] > 0 for v in ch.values()) or d["K0"] > 50000 or d["K0"] < 0
        c.count(1, (d["fn"], d["hyp"], d["tr"], d["K0"], d["K1"], d["K2"], tuple(sorted(ch.items()))), nontrivial)
        for f in G.spec_check_h(d, ch, ob):
            findings.append(f + (d, l))
    c.sample({"execution_other_hypothesis": hlines[len(hlines) // 2][:600]})
    for l in lines:
        d, ch, ob = G.parse(l)
        parsed.append((d, ch, ob, l))
        fs = G.spec_check(d, ch, ob)
        nontrivial = any(v[0] > 0 for v in ch.values()) or d["K0"] > 50000 or d["K0"] < 0
        c.count(1, (d["fn"], d["tr"], d["K0"], d["K1"], d["K2"], d["pol"], tuple(sorted(ch.items()))), nontrivial)
        for f in fs:
            findings.append(f + (d, l))
    for f in G.policy_agreement(parsed):
        findings.append(f + ({}, ""))
    for i in (0, len(lines) // 3, 2 * len(lines) // 3, len(lines) - 1):
        c.sample({"execution": lines[i][:600]})
    # the variant of the model that corresponds to the working tree
    v = G.detect_variant([(p, k, w) for (p, k, w, _d, _l) in findings])
    c.notes.append("model variant of the working tree: %s" % v)
    # report the C39 findings (one per key)
    seen = set()
    for (p, k, w, d, l) in findings:
        if p != "C39" or k in seen:
            continue
        seen.add(k)
        c.report(k, w, {"line": l, "replay": G.replay_of(d) if d else {}}, True)
    # theorems (while the stage on generated behaviours runs in its thread)
    gen = G.gen_file(c, v, "C39")
    files = G.model_sources(c, "C39") + [gen, "Properties_C39.v"]
    files.append("Properties_C39_prediction_refuted.v" if v["v_pred_raw"] else "Properties_C39_prediction.v")
    files.append("Properties_C39_wrappers_refuted.v" if (v["v_wrap_nonzero"] or v["v_wrap_raw"]) else "Properties_C39_wrappers.v")
    files.append("Properties_C39_hypotheses.v")
    res = c.coq(files, timeout=900)
    if not res.ok:
        if c.violations and any(x[3] for x in c.violations):
            c.notes.append("proof obligations failed: %s; concrete failing inputs reported above" % [f[2] for f in res.failed])
        else:
            c.coq_failures(res)
    # execution of real generated behaviours (findings of the independent statement, lines for the model)
    g = wait_generated()
    glines = []
    if g is not None:
        glines, gfind, ginfo = g
        c.notes.append("EXECUTION of mfront-generated behaviours through the generated extern \"C\" entry points: %s" % ginfo)
        gseen = set()
        for (p, k, w, l) in gfind:
            if p == "C39" and k not in gseen:
                gseen.add(k)
                c.report(k, w, {"line": l, "how": "props/C39/gdriver.cxx on the behaviours generated from props/C39/mfront/*.in (gencommon.py)"}, True)
    # correspondence with the extracted model
    bad, nok = G.correspondence(c, lines + hlines + glines, v, "C39")
    if bad is None:
        return
    c.coverage["traces_validated_against_impl"] = nok
    for b in bad[:5]:
        d, ch, ob = G.parse(b.split(" || ")[0][len("MISMATCH "):])
        key = "model-mismatch:%s:tr=%d:K0=%d:K1=%d:K2=%d:%s" % (d["fn"], d["tr"], d["K0"], d["K1"], d["K2"], d["pol"])
        c.report(key, "the templates do not behave as the model (variant %s) on this script: %s" % (G.variant_bits(v), b[:1500]),
                 {"line": b, "replay": G.replay_of(d)}, True)
    if bad:
        c.notes.append("%d executions differ from the model" % len(bad))
    c.trusted("drivers props/C39/driver_h.cxx (other hypotheses, coarse images) and props/C39/gdriver.cxx + gencommon.py (generated behaviours: scripted "
              "reference programs props/C39/mfront/*.in, /repo's mfront, g++)",
              "driver props/C39/driver.cxx (mock behaviours, choice oracle, recognition of the images written in the output buffers by "
              "recomputing the candidate conversions with TFEL's own conversion functions)",
              "OCaml driver props/C39/driver.ml (parsing / printing of observations)",
              "the mock behaviour stands for every behaviour class: the templates only interact with the behaviour through the hooks scripted here")
    c.coverage["rule"] = ("exhaustive over hook outcomes: depth-first enumeration of every combination of outcomes (ok/fail/throw, time step "
                          "factors on both sides of 0.99) that the template consults, x traits {all, none, pred+cto, cto+ie, pred+de, ie+de} x "
                          "K[0] in {-3..4, 97..104, five non-integer codes} x policy {None, Warning, Strict} for integrate; x K[1] in {0,1,2,3} "
                          "x K[2] in {0..4} for the three wrappers (3D); the three wrappers in PlaneStress, AxisymmetricalGeneralisedPlaneStress, "
                          "Axisymmetrical (thorough: the six non-3D hypotheses, all K[1], K[2]) with and without declared axial variable (coarse images); "
                          "EXECUTION (not exhaustive): generated behaviours C39GFull/Bare/Fixed/Log/GL, K[0] x K[1] x K[2] x policy sequences x single "
                          "and some double hook faults; non-trivial = some hook fails or prediction/speed-of-sound request")
    c.coverage["exhaustive"] = True


guarded_main("C39", main)

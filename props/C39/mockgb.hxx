// C39 / C40 -- mock behaviours, choice oracle (DFS), buffers and observation helpers shared by driver.cxx (3D, fine
// recognition of the images written) and driver_h.cxx (the other modelling hypotheses, plane stress branches).
#ifndef VERIF_C39_MOCKGB_HXX
#define VERIF_C39_MOCKGB_HXX
#include <cstdio>
#include <cstring>
#include <cmath>
#include <string>
#include <vector>
#include <stdexcept>
#include <iostream>
#include <sstream>
#include <utility>
#include "TFEL/Math/tensor.hxx"
#include "TFEL/Math/stensor.hxx"
#include "TFEL/Math/st2tost2.hxx"
#include "TFEL/Math/t2tost2.hxx"
#include "TFEL/Math/t2tot2.hxx"
#include "TFEL/Material/BoundsCheck.hxx"
#include "TFEL/Material/MechanicalBehaviour.hxx"
#include "TFEL/Material/MechanicalBehaviourTraits.hxx"
#include "TFEL/Material/FiniteStrainBehaviourTangentOperator.hxx"
#include "TFEL/Material/LogarithmicStrainHandler.hxx"
#include "MFront/GenericBehaviour/Integrate.hxx"
#include "MFront/GenericBehaviour/GreenLagrangeStrainIntegrate.hxx"
#include "MFront/GenericBehaviour/LogarithmicStrainIntegrate.hxx"
#include "MFront/GenericBehaviour/StandardFiniteStrainBehaviourIntegrate.hxx"

namespace vt {

  // ------------------------------------------------------------------ choice oracle (DFS)
  enum Hook { H_INIT, H_OOB, H_SOS0, H_PRED, H_TEXPORT, H_APRIORI, H_INTEG, H_APOST, H_IE, H_DE, H_SOS1, H_COUNT };
  static const char* hook_names[] = {"init", "oob", "sos0", "pred", "texport", "apriori", "integ", "apost", "ie", "de", "sos1"};

  struct Oracle {
    std::vector<int> prefix;   // choices imposed
    std::vector<int> nopt;     // number of options of every choice point met
    std::vector<int> hooks;    // hook of every choice point met
    size_t pos = 0;
    int taken[H_COUNT];
    int value[H_COUNT];  // permille value attached to the option taken (time step scaling factor hooks)
    void start() {
      pos = 0;
      nopt.clear();
      hooks.clear();
      for (auto& t : taken) t = -1;
      for (auto& t : value) t = 0;
    }
    int choose(const int hook, const int n) {
      int c = 0;
      if (pos < prefix.size()) {
        c = prefix[pos];
      } else {
        prefix.push_back(0);
      }
      nopt.push_back(n);
      hooks.push_back(hook);
      ++pos;
      taken[hook] = c;
      return c;
    }
    // next prefix in DFS order; false when the enumeration is complete
    bool next() {
      prefix.resize(pos);
      while (!prefix.empty()) {
        const auto i = prefix.size() - 1;
        if (prefix[i] + 1 < nopt[i]) {
          ++prefix[i];
          return true;
        }
        prefix.pop_back();
      }
      return false;
    }
  };

  static Oracle oracle;
  static std::vector<std::string> trace;
  static bool rich = true;  // rich = all time-step-factor values, coarse = a few

  // option tables for the time step scaling factor hooks: (status, value in 1/1000)  status 0 = true, 1 = false, 2 = throw
  struct TsfOpt { int status; int permille; };
  static const TsfOpt apriori_rich[] = {{0, 2000}, {0, 990}, {0, 500}, {1, 700}, {2, 0}};
  static const TsfOpt apost_rich[] = {{0, 3000}, {0, 990}, {0, 980}, {0, 500}, {1, 600}, {2, 0}};
  static const TsfOpt apriori_coarse[] = {{0, 2000}, {1, 700}, {2, 0}};
  static const TsfOpt apost_coarse[] = {{0, 3000}, {0, 500}, {1, 600}, {2, 0}};

  static std::string sm_name(const int t) {
    using B = tfel::material::MechanicalBehaviourBase;
    switch (t) {
      case B::ELASTIC: return "elastic";
      case B::SECANTOPERATOR: return "secant";
      case B::TANGENTOPERATOR: return "tangent";
      case B::CONSISTENTTANGENTOPERATOR: return "consistent";
      case B::NOSTIFFNESSREQUESTED: return "nostiffness";
    }
    return "?";
  }
  static std::string flag_name(const int f) {
    using F = tfel::material::FiniteStrainBehaviourTangentOperatorBase;
    switch (f) {
      case F::DSIG_DF: return "DSIG_DF";
      case F::DS_DEGL: return "DS_DEGL";
      case F::DPK1_DF: return "DPK1_DF";
      case F::DTAU_DDF: return "DTAU_DDF";
      case F::C_TRUESDELL: return "C_TRUESDELL";
    }
    return "flag" + std::to_string(f);
  }
  static std::string pm(const double v) {
    char b[64];
    std::snprintf(b, sizeof b, "%ld", std::lround(v * 1000));
    return b;
  }

  [[noreturn]] static void hook_throw(const char* h) { throw std::runtime_error(std::string("hook:") + h); }

  // values exported by the mock behaviours
  inline double stress_sentinel(const int i) { return 100. + 10. * i + (i < 3 ? 0. : 3.); }
  inline double isv_sentinel(const int i) { return 0.2 + 0.01 * i; }
  inline double op_sentinel(const int smt, const int flag, const int i) { return 5000. + 100000. * (smt + 1) + 1000000. * flag + i; }

  // what the constructor of the behaviour saw
  struct CtorView {
    double K0;
    const double* g0;
    const double* g1;
    const double* tf0;
    double* tf1;
    double* K;
    double grad0[9], grad1[9], flux0[9];
  };
  static CtorView ctor_view;
  static int last_smt = -1;
  static int last_flag = -1;

  // ------------------------------------------------------------------ mock behaviours
  // TR: bit 0 hasConsistentTangentOperator, bit 1 hasPredictionOperator, bit 2 hasComputeInternalEnergy,
  //     bit 3 hasComputeDissipatedEnergy.   FS = standard finite strain behaviour (else strain based)
  template <tfel::material::ModellingHypothesis::Hypothesis H, unsigned TR, bool FS>
  struct Mock : public tfel::material::MechanicalBehaviourBase,
                public tfel::material::TangentOperatorTraits<
                    FS ? tfel::material::MechanicalBehaviourBase::STANDARDFINITESTRAINBEHAVIOUR
                       : tfel::material::MechanicalBehaviourBase::STANDARDSTRAINBASEDBEHAVIOUR> {
    static constexpr unsigned short N = tfel::material::ModellingHypothesisToSpaceDimension<H>::value;
    static constexpr auto StensorSize = tfel::material::ModellingHypothesisToStensorSize<H>::value;
    static constexpr auto TensorSize = tfel::material::ModellingHypothesisToTensorSize<H>::value;
    using BType = tfel::material::TangentOperatorTraits<
        FS ? tfel::material::MechanicalBehaviourBase::STANDARDFINITESTRAINBEHAVIOUR
           : tfel::material::MechanicalBehaviourBase::STANDARDSTRAINBASEDBEHAVIOUR>;
    using SMFlag = typename BType::SMFlag;
    using real = double;
    using stress = double;
    using speed = double;
    using massdensity = double;
    using FSTangent = tfel::material::FiniteStrainBehaviourTangentOperator<N, double>;
    using TangentOperator = std::conditional_t<FS, FSTangent, tfel::math::st2tost2<N, double>>;
    tfel::material::OutOfBoundsPolicy policy = tfel::material::None;
    TangentOperator Dt;
    tfel::math::st2tost2<N, double> Dt_s;
    tfel::math::t2tost2<N, double> Dt_ts;
    tfel::math::t2tot2<N, double> Dt_tt;
    int flag = 0;

    explicit Mock(const mfront_gb_BehaviourData& d) {
      ctor_view.K0 = d.K[0];
      ctor_view.g0 = d.s0.gradients;
      ctor_view.g1 = d.s1.gradients;
      ctor_view.tf0 = d.s0.thermodynamic_forces;
      ctor_view.tf1 = d.s1.thermodynamic_forces;
      ctor_view.K = d.K;
      for (int i = 0; i != 9; ++i) {
        ctor_view.grad0[i] = ctor_view.grad1[i] = ctor_view.flux0[i] = 0;
      }
      const int ng = FS ? TensorSize : StensorSize;
      const int nf = StensorSize;
      for (int i = 0; i != ng; ++i) {
        ctor_view.grad0[i] = d.s0.gradients[i];
        ctor_view.grad1[i] = d.s1.gradients[i];
      }
      for (int i = 0; i != nf; ++i) {
        ctor_view.flux0[i] = d.s0.thermodynamic_forces[i];
      }
      last_smt = -1;
      last_flag = -1;
    }
    void setOutOfBoundsPolicy(const tfel::material::OutOfBoundsPolicy p) {
      this->policy = p;
      trace.push_back(std::string("policy:") + (p == tfel::material::Strict ? "strict" : p == tfel::material::Warning ? "warning" : "none"));
    }
    bool initialize() {
      trace.push_back("init");
      const auto c = oracle.choose(H_INIT, 3);
      if (c == 2) hook_throw("init");
      return c == 0;
    }
    void checkBounds() const {
      trace.push_back("bounds");
      const auto c = oracle.choose(H_OOB, 2);
      // as in generated code: the real TFEL bounds check, with the policy given to the behaviour
      const double T = (c == 0) ? 300. : 3000.;
      tfel::material::BoundsCheck<N>::lowerAndUpperBoundsChecks("T", T, 100., 1000., this->policy);
    }
    speed computeSpeedOfSound(const massdensity rho) const {
      const bool initial = (rho == 7800.);
      trace.push_back(initial ? "sos:rho0" : (rho == 7900. ? "sos:rho1" : "sos:?"));
      const auto c = oracle.choose(initial ? H_SOS0 : H_SOS1, 2);
      if (c == 1) hook_throw(initial ? "sos0" : "sos1");
      return 2 * rho;
    }
    void build_operator(const int f, const int smt) {
      this->flag = f;
      last_smt = smt;
      last_flag = f;
      for (int i = 0; i != StensorSize * StensorSize; ++i) *(Dt_s.begin() + i) = op_sentinel(smt, f, i);
      for (int i = 0; i != StensorSize * TensorSize; ++i) *(Dt_ts.begin() + i) = op_sentinel(smt, f, i);
      for (int i = 0; i != TensorSize * TensorSize; ++i) *(Dt_tt.begin() + i) = op_sentinel(smt, f, i);
      if constexpr (!FS) {
        Dt = Dt_s;
      }
    }
    IntegrationResult computePredictionOperator(const SMFlag f, const SMType t) {
      trace.push_back("pred:" + sm_name(t) + ":" + (FS ? flag_name(int(f)) : std::string("std")));
      const auto c = oracle.choose(H_PRED, 3);
      if (c == 2) hook_throw("pred");
      if (c == 1) return FAILURE;
      build_operator(int(f), int(t));
      return SUCCESS;
    }
    const TangentOperator& getTangentOperator() {
      trace.push_back("getK");
      if constexpr (FS) {
        const auto c = oracle.choose(H_TEXPORT, 2);
        if (c == 1) {
          Dt = FSTangent();  // empty variant: not one of the supported alternatives
        } else {
          using F = tfel::material::FiniteStrainBehaviourTangentOperatorBase;
          if (flag == F::DS_DEGL) {
            Dt = Dt_s;
          } else if (flag == F::DPK1_DF) {
            Dt = Dt_tt;
          } else {
            Dt = Dt_ts;
          }
        }
      }
      return Dt;
    }
    std::pair<bool, real> computeAPrioriTimeStepScalingFactor(const real r) const {
      trace.push_back("apriori:" + pm(r));
      const auto* tab = rich ? apriori_rich : apriori_coarse;
      const int n = rich ? 5 : 3;
      const auto& o = tab[oracle.choose(H_APRIORI, n)];
      oracle.taken[H_APRIORI] = o.status;
      oracle.value[H_APRIORI] = o.permille;
      if (o.status == 2) hook_throw("apriori");
      return {o.status == 0, o.permille / 1000.};
    }
    IntegrationResult integrate(const SMFlag f, const SMType t) {
      trace.push_back("integ:" + sm_name(t) + ":" + (FS ? flag_name(int(f)) : std::string("std")));
      const auto c = oracle.choose(H_INTEG, 4);
      if (c == 2) hook_throw("integ");
      if (c == 1) return FAILURE;
      build_operator(int(f), int(t));
      return c == 0 ? SUCCESS : UNRELIABLE_RESULTS;
    }
    std::pair<bool, real> computeAPosterioriTimeStepScalingFactor(const real r) const {
      trace.push_back("apost:" + pm(r));
      const auto* tab = rich ? apost_rich : apost_coarse;
      const int n = rich ? 6 : 4;
      const auto& o = tab[oracle.choose(H_APOST, n)];
      oracle.taken[H_APOST] = o.status;
      oracle.value[H_APOST] = o.permille;
      if (o.status == 2) hook_throw("apost");
      return {o.status == 0, o.permille / 1000.};
    }
    void exportStateData(mfront_gb_State& s) const {
      trace.push_back("export");
      for (int i = 0; i != StensorSize; ++i) s.thermodynamic_forces[i] = stress_sentinel(i);
      for (int i = 0; i != 4; ++i) s.internal_state_variables[i] = isv_sentinel(i);
    }
    void computeInternalEnergy(stress& e) const {
      trace.push_back("ie");
      const auto c = oracle.choose(H_IE, 2);
      if (c == 1) hook_throw("ie");
      e += 1000;
    }
    void computeDissipatedEnergy(stress& e) const {
      trace.push_back("de");
      const auto c = oracle.choose(H_DE, 2);
      if (c == 1) hook_throw("de");
      e += 2000;
    }
    real getMinimalTimeStepScalingFactor() const {
      trace.push_back("mintsf");
      return 0.1;
    }
  };

}  // namespace vt

namespace tfel::material {
  template <ModellingHypothesis::Hypothesis H, unsigned TR, bool FS>
  struct MechanicalBehaviourTraits<vt::Mock<H, TR, FS>> {
    static constexpr bool is_defined = true;
    static constexpr bool hasConsistentTangentOperator = (TR & 1u) != 0;
    static constexpr bool hasPredictionOperator = (TR & 2u) != 0;
    static constexpr bool hasComputeInternalEnergy = (TR & 4u) != 0;
    static constexpr bool hasComputeDissipatedEnergy = (TR & 8u) != 0;
  };
}  // namespace tfel::material
namespace mfront::gb {
  template <tfel::material::ModellingHypothesis::Hypothesis H, unsigned TR, bool FS>
  struct GenericBehaviourTraits<vt::Mock<H, TR, FS>> {
    static constexpr auto hypothesis = H;
    static constexpr auto has_axial_strain_offset = (TR & 16u) == 0;
    static constexpr auto axial_strain_offset = 1;
    static constexpr auto has_axial_deformation_gradient_offset = (TR & 16u) == 0;
    static constexpr auto axial_deformation_gradient_offset = 1;
  };
}  // namespace mfront::gb

namespace vt {

  constexpr int KSIZE = 96;
  struct Buffers {
    char err[512];
    double g0[9], g1[9], tf0[9], tf1[9], mp[4], isv0[4], isv1[4], esv0[2], esv1[2];
    double se0, se1, de0, de1, rho0, rho1, K[KSIZE], rdt, sos;
    mfront_gb_BehaviourData d;
  };

  static void fill(Buffers& b, const double K0, const double K1, const double K2, const double rdt_in, const int nflux) {
    std::memset(&b, 0, sizeof b);
    // deformation gradients (3D storage order: xx yy zz xy yx xz zx yz zy), positive determinant
    const double F0[9] = {1.10, 0.95, 1.05, 0.03, -0.02, 0.015, 0.01, -0.025, 0.02};
    const double F1[9] = {1.25, 0.90, 1.08, 0.08, -0.05, 0.04, 0.02, -0.06, 0.05};
    for (int i = 0; i != 9; ++i) {
      b.g0[i] = F0[i];
      b.g1[i] = F1[i];
      b.tf0[i] = 0;
      b.tf1[i] = 31. + i;
    }
    // initial stress: symmetric content when read as a stensor, a PK1-like content when read as a tensor
    const double T0[9] = {12., -7., 5., 3., 2.5, -1.5, -1.25, 0.75, 0.5};
    for (int i = 0; i != nflux; ++i) b.tf0[i] = T0[i];
    for (int i = 0; i != 4; ++i) {
      b.mp[i] = 1 + i;
      b.isv0[i] = 0.01 * (i + 1);
      b.isv1[i] = 0.61 + 0.01 * i;
    }
    b.esv0[0] = 293.15;
    b.esv1[0] = 300.;
    b.se0 = 3.;
    b.se1 = 41.;
    b.de0 = 5.;
    b.de1 = 42.;
    b.rho0 = 7800.;
    b.rho1 = 7900.;
    for (int i = 0; i != KSIZE; ++i) b.K[i] = 7000. + i;
    b.K[0] = K0;
    b.K[1] = K1;
    b.K[2] = K2;
    b.rdt = rdt_in;
    b.sos = 51.;
    auto& d = b.d;
    d.error_message = b.err;
    d.dt = 0.5;
    d.K = b.K;
    d.rdt = &b.rdt;
    d.speed_of_sound = &b.sos;
    d.s0.gradients = b.g0;
    d.s0.thermodynamic_forces = b.tf0;
    d.s0.mass_density = &b.rho0;
    d.s0.material_properties = b.mp;
    d.s0.internal_state_variables = b.isv0;
    d.s0.stored_energy = &b.se0;
    d.s0.dissipated_energy = &b.de0;
    d.s0.external_state_variables = b.esv0;
    d.s1.gradients = b.g1;
    d.s1.thermodynamic_forces = b.tf1;
    d.s1.mass_density = &b.rho1;
    d.s1.material_properties = b.mp;
    d.s1.internal_state_variables = b.isv1;
    d.s1.stored_energy = &b.se1;
    d.s1.dissipated_energy = &b.de1;
    d.s1.external_state_variables = b.esv1;
  }

  static bool pointers_restored(const Buffers& b) {
    const auto& d = b.d;
    return d.error_message == b.err && d.K == b.K && d.rdt == &b.rdt && d.speed_of_sound == &b.sos && d.s0.gradients == b.g0 &&
           d.s0.thermodynamic_forces == b.tf0 && d.s0.mass_density == &b.rho0 && d.s0.material_properties == b.mp &&
           d.s0.internal_state_variables == b.isv0 && d.s0.stored_energy == &b.se0 && d.s0.dissipated_energy == &b.de0 &&
           d.s0.external_state_variables == b.esv0 && d.s1.gradients == b.g1 && d.s1.thermodynamic_forces == b.tf1 &&
           d.s1.mass_density == &b.rho1 && d.s1.material_properties == b.mp && d.s1.internal_state_variables == b.isv1 &&
           d.s1.stored_energy == &b.se1 && d.s1.dissipated_energy == &b.de1 && d.s1.external_state_variables == b.esv1;
  }

  static bool same(const double* a, const double* b, const int n) { return std::memcmp(a, b, n * sizeof(double)) == 0; }
  static bool close(const double* a, const double* b, const int n) {
    double s = 0;
    for (int i = 0; i != n; ++i) s = std::max(s, std::abs(b[i]));
    for (int i = 0; i != n; ++i) {
      if (!(std::abs(a[i] - b[i]) <= 1e-10 * (s + 1e-300))) return false;
    }
    return true;
  }

  static std::string err_token(const char* e) {
    const std::string s(e);
    if (s.empty()) return "none";
    if (s == "behaviour initialisation failed") return "initfailed";
    if (s == "prediction operator is not implemented") return "noprediction";
    if (s == "tangent operator is not implemented") return "notangent";
    if (s == "invalid choice for the stress measure") return "badstressmeasure";
    if (s == "invalid choice for consistent tangent operator") return "badtangent";
    if (s.find("does not declare the axial strain") != std::string::npos) return "noaxial";
    if (s.find("xial deformation gradient is") != std::string::npos) return "noaxial";
    if (s.rfind("hook:", 0) == 0) return "exc:" + s.substr(5);
    if (s.find("unsupported tangent operator type") != std::string::npos) return "exc:texport";
    if (s.find("out of bounds") != std::string::npos || s.find("OutOfBounds") != std::string::npos || s.find("bound") != std::string::npos)
      return "exc:bounds";
    return "other(" + s + ")";
  }

  static std::string join_trace() {
    std::string r;
    for (const auto& t : trace) {
      if (!r.empty()) r += ";";
      r += t;
    }
    return r.empty() ? "-" : r;
  }
  static std::string choices() {
    std::string r;
    for (int h = 0; h != H_COUNT; ++h) {
      if (!r.empty()) r += ",";
      r += std::string(hook_names[h]) + "=" + std::to_string(oracle.taken[h]);
      if (h == H_APRIORI || h == H_APOST) r += ":" + std::to_string(oracle.value[h]);
    }
    return r;
  }
  static const char* policy_name(const tfel::material::OutOfBoundsPolicy p) {
    return p == tfel::material::Strict ? "strict" : p == tfel::material::Warning ? "warning" : "none";
  }

  static long ncases = 0;

}  // namespace vt
#endif

// C39 / C40 driver for the modelling hypotheses other than Tridimensional: the REAL wrappers
// green_lagrange_strain::integrate, logarithmic_strain::integrate, finite_strain::integrate instantiated with the mock
// behaviours of mockgb.hxx in AxisymmetricalGeneralisedPlaneStrain, AxisymmetricalGeneralisedPlaneStress, Axisymmetrical,
// PlaneStress, PlaneStrain, GeneralisedPlaneStrain, including the plane stress branches (axial strain / axial deformation
// gradient read from the internal state variables, offset 1) and behaviours that do NOT declare that variable (TR bit 16).
// Same depth-first enumeration of every hook outcome as driver.cxx.  The observations are coarser for the numbers (C55 checks
// the values of the conversions in every hypothesis): U = untouched byte image, C = changed on the components of the requested
// stress measure only, X = anything else; the hook trace, return code, rdt, K[0] seen by the behaviour, internal state
// variables, energies, speed of sound, error message and pointer restoration are observed as in driver.cxx.
#include "mockgb.hxx"

namespace vt {

  template <tfel::material::ModellingHypothesis::Hypothesis H>
  static const char* hyp_name() {
    using MH = tfel::material::ModellingHypothesis;
    return H == MH::AXISYMMETRICALGENERALISEDPLANESTRAIN ? "AGPStrain"
         : H == MH::AXISYMMETRICALGENERALISEDPLANESTRESS ? "AGPStress"
         : H == MH::AXISYMMETRICAL ? "Axisymmetrical"
         : H == MH::PLANESTRESS ? "PlaneStress"
         : H == MH::PLANESTRAIN ? "PlaneStrain"
         : H == MH::GENERALISEDPLANESTRAIN ? "GeneralisedPlaneStrain" : "Tridimensional";
  }

  // W = 0 Green-Lagrange, 1 Hencky, 2 standard finite strain
  template <int W, tfel::material::ModellingHypothesis::Hypothesis H, unsigned TR>
  static void run_wrapper_h(const double K0, const double K1, const double K2, const tfel::material::OutOfBoundsPolicy p) {
    using MH = tfel::material::ModellingHypothesis;
    using B = Mock<H, TR, W == 2>;
    constexpr int sts = tfel::material::ModellingHypothesisToStensorSize<H>::value;
    constexpr int ts = tfel::material::ModellingHypothesisToTensorSize<H>::value;
    constexpr bool ps = (H == MH::PLANESTRESS) || (H == MH::AXISYMMETRICALGENERALISEDPLANESTRESS);
    const double rdt_in = 1.;
    const bool pk1 = K1 > 1.5 && K1 < 2.5;
    oracle.prefix.clear();
    do {
      Buffers b, ref;
      fill(b, K0, K1, K2, rdt_in, pk1 ? ts : sts);
      fill(ref, K0, K1, K2, rdt_in, pk1 ? ts : sts);
      oracle.start();
      trace.clear();
      ctor_view = CtorView{};
      ctor_view.K0 = -999;
      int r = 99;
      bool escaped = false;
      try {
        if constexpr (W == 0) {
          r = mfront::gb::green_lagrange_strain::integrate<B>(b.d, p);
        } else if constexpr (W == 1) {
          r = mfront::gb::logarithmic_strain::integrate<B>(b.d, p);
        } else {
          r = mfront::gb::finite_strain::integrate<B>(b.d, p);
        }
      } catch (...) {
        escaped = true;
      }
      const bool inner_called = !trace.empty();
      std::ostringstream o;
      o << "ret=" << (escaped ? std::string("escaped") : std::to_string(r));
      o << " trace=" << join_trace();
      o << " rdt=" << pm(b.rdt);
      std::string seen = "-";
      if (inner_called) {
        seen = "K0:" + pm(ctor_view.K0);
        seen += std::string(",flux1:") + (ctor_view.tf1 == b.tf1 ? "caller" : "private");
        seen += std::string(",K:") + (ctor_view.K == b.K ? "caller" : "private");
      }
      o << " seen=" << seen;
      const int nf = pk1 ? ts : sts;
      o << " flux=" << (same(b.tf1, ref.tf1, 9) ? "U" : same(b.tf1 + nf, ref.tf1 + nf, 9 - nf) ? "C" : "X");
      double wi[4];
      for (int i = 0; i != 4; ++i) wi[i] = isv_sentinel(i);
      o << " isv=" << (same(b.isv1, ref.isv1, 4) ? "U" : same(b.isv1, wi, 4) ? "W" : "X");
      o << " se=" << (b.se1 == ref.se1 ? "U" : b.se1 == ref.se0 + 1000 ? "W" : "X");
      o << " de=" << (b.de1 == ref.de1 ? "U" : b.de1 == ref.de0 + 2000 ? "W" : "X");
      // the largest operator of the hypothesis has ts*ts entries: nothing beyond may change
      o << " K=" << (same(b.K, ref.K, KSIZE) ? "U" : same(b.K + ts * ts, ref.K + ts * ts, KSIZE - ts * ts) ? "C" : "X");
      o << " sos=" << (b.sos == ref.sos ? "U" : b.sos == 2 * ref.rho0 ? "S0" : b.sos == 2 * ref.rho1 ? "S1" : "X");
      o << " err=" << err_token(b.err);
      const bool inputs_ok = same(b.g0, ref.g0, 9) && same(b.g1, ref.g1, 9) && same(b.tf0, ref.tf0, 9) && same(b.isv0, ref.isv0, 4) &&
                             b.se0 == ref.se0 && b.de0 == ref.de0 && same(b.mp, ref.mp, 4);
      o << " frame=" << (pointers_restored(b) && inputs_ok ? "ok" : "bad");
      std::printf("P fn=%s tr=%u K0=%s K1=%s K2=%s pol=%s rdt0=%s hyp=%s ps=%d | %s | %s\n", W == 0 ? "glh" : W == 1 ? "logh" : "fsh", TR, pm(K0).c_str(),
                  pm(K1).c_str(), pm(K2).c_str(), policy_name(p), pm(rdt_in).c_str(), hyp_name<H>(), ps ? 1 : 0, choices().c_str(), o.str().c_str());
      ++ncases;
    } while (oracle.next());
  }

  template <int W, tfel::material::ModellingHypothesis::Hypothesis H, unsigned TR>
  static void all_h(const std::vector<double>& K0s, const std::vector<double>& K1s, const std::vector<double>& K2s) {
    for (const auto K0 : K0s)
      for (const auto K1 : K1s)
        for (const auto K2 : K2s) run_wrapper_h<W, H, TR>(K0, K1, K2, tfel::material::None);
  }

  template <tfel::material::ModellingHypothesis::Hypothesis H>
  static void hypothesis(const bool thorough) {
    using MH = tfel::material::ModellingHypothesis;
    constexpr bool ps = (H == MH::PLANESTRESS) || (H == MH::AXISYMMETRICALGENERALISEDPLANESTRESS);
    const std::vector<double> K0_int = {-3, -2, -1, 0, 1, 2, 3, 4, 97, 98, 99, 100, 101, 102, 103, 104};
    const std::vector<double> K0_few = {-2, 0, 1, 4, 98, 100, 104};
    const auto K1s = thorough ? std::vector<double>{0, 1, 2, 3} : std::vector<double>{0, 2};
    const auto K2s = thorough ? std::vector<double>{0, 1, 2, 3, 4} : std::vector<double>{0, 1};
    all_h<0, H, 15u>(K0_int, K1s, K2s);
    all_h<1, H, 15u>(K0_int, K1s, K2s);
    all_h<2, H, 15u>(K0_int, K1s, K2s);
    if (!thorough) {
      // invalid stress measure / tangent operator
      all_h<0, H, 15u>(K0_few, {3}, {0});
      all_h<1, H, 15u>(K0_few, {1}, {4});
      all_h<2, H, 15u>(K0_few, {3}, {1});
    }
    if constexpr (ps) {
      // behaviours that do not declare the axial strain / axial deformation gradient
      all_h<0, H, 31u>(K0_few, {0, 1, 2}, {0, 1});
      all_h<1, H, 31u>(K0_few, {0, 1, 2}, {0, 1});
      all_h<2, H, 31u>(K0_few, {0, 1, 2}, {0, 1});
    }
  }

}  // namespace vt

int main(const int argc, const char* const* argv) {
  using namespace vt;
  using MH = tfel::material::ModellingHypothesis;
  const std::string mode = argc > 1 ? argv[1] : "quick";
  const bool thorough = (mode == "thorough");
  rich = false;
  if (mode == "replay") {
    // replay <fn> <tr> <K0> <K1> <K2> <policy> <hyp>
    if (argc < 9) return 2;
    const std::string fn = argv[2], hyp = argv[8];
    const unsigned tr = std::stoul(argv[3]);
    const double K0 = std::stod(argv[4]) / 1000, K1 = std::stod(argv[5]) / 1000, K2 = std::stod(argv[6]) / 1000;
    const auto p = tfel::material::None;
#define VT_H(HV, TRV)                                                        \
  if (hyp == hyp_name<HV>() && tr == TRV) {                                  \
    if (fn == "glh") run_wrapper_h<0, HV, TRV>(K0, K1, K2, p);               \
    if (fn == "logh") run_wrapper_h<1, HV, TRV>(K0, K1, K2, p);              \
    if (fn == "fsh") run_wrapper_h<2, HV, TRV>(K0, K1, K2, p);               \
  }
    VT_H(MH::AXISYMMETRICALGENERALISEDPLANESTRAIN, 15u) VT_H(MH::AXISYMMETRICALGENERALISEDPLANESTRESS, 15u) VT_H(MH::AXISYMMETRICAL, 15u)
    VT_H(MH::PLANESTRESS, 15u) VT_H(MH::PLANESTRAIN, 15u) VT_H(MH::GENERALISEDPLANESTRAIN, 15u)
    VT_H(MH::AXISYMMETRICALGENERALISEDPLANESTRESS, 31u) VT_H(MH::PLANESTRESS, 31u)
    return 0;
  }
  hypothesis<MH::PLANESTRESS>(thorough);
  hypothesis<MH::AXISYMMETRICALGENERALISEDPLANESTRESS>(thorough);
  hypothesis<MH::AXISYMMETRICAL>(thorough);
  if (thorough) {
    hypothesis<MH::AXISYMMETRICALGENERALISEDPLANESTRAIN>(thorough);
    hypothesis<MH::PLANESTRAIN>(thorough);
    hypothesis<MH::GENERALISEDPLANESTRAIN>(thorough);
  }
  std::printf("END cases=%ld\n", ncases);
  return 0;
}

"""Shared by the C39 and C40 checks: building and running the driver on the REAL templates of
mfront/include/MFront/GenericBehaviour, the independent statement of the properties on the observations, the
determination of the model variant that corresponds to the working tree, the correspondence with the extracted
Gallina model."""
import os, re

HERE = os.path.dirname(os.path.abspath(__file__))
SUPPORT = ["src/Material/BoundsCheck.cxx", "src/Exception/ContractViolation.cxx", "src/Exception/TFELException.cxx",
           "src/Material/MaterialException.cxx", "src/Material/LogarithmicStrainHandler.cxx", "src/Math/LUException.cxx",
           "src/Math/MathException.cxx", "src/Utilities/GenTypeCastError.cxx"]
MODEL_FILES = ["C39Model.v", "C39Spec.v", "C39Proofs.v"]
FLAGS = ["v_pred_raw", "v_late_throw", "v_wrap_nonzero", "v_wrap_raw"]


def parse(line):
    a, c, o = line.split("|")
    d = {}
    for t in a.split()[1:]:
        k, v = t.split("=", 1)
        d[k] = v
    ch = {}
    for t in c.strip().split(","):
        k, v = t.split("=", 1)
        ch[k] = tuple(int(x) for x in v.split(":"))
    ob = {}
    for t in o.split():
        k, v = t.split("=", 1)
        ob[k] = v
    for k in ("K0", "K1", "K2", "tr", "rdt0"):
        d[k] = int(d[k])
    return d, ch, ob


def run_driver(c, mode=None):
    exe = c.cxx("driver", [os.path.join(HERE, "driver.cxx")], SUPPORT)
    rc, out, err = c.run([exe, mode or c.tier], timeout=900)
    if rc != 0 or "END cases=" not in out:
        c.report("driver", "driver running the real templates failed (rc=%d): %s" % (rc, err[-400:]), {"stderr": err[-3000:]}, False)
        return None, None
    lines = [l for l in out.splitlines() if l.startswith("P ")]
    return exe, lines


# ---------------------------------------------------------------- independent statement of the properties
def documented_kind(Ke):
    """BehaviourData.h, comment of K (Ke in thousandths); None where the documentation is ambiguous"""
    k = Ke / 1000.0
    for b in (-2.5, -1.5, -0.5, 0.5, 1.5, 2.5, 3.5):
        if abs(k - b) < 1e-9:
            return None
    if -0.5 < k < 0:
        return None  # "Ke negative => prediction" and "[-0.5:0.5] => integration" both apply
    if k < -2.5:
        return ("pred", "tangent")
    if k < -1.5:
        return ("pred", "secant")
    if k < -0.5:
        return ("pred", "elastic")
    if k < 0.5:
        return ("integ", "nostiffness")
    if k < 1.5:
        return ("integ", "elastic")
    if k < 2.5:
        return ("integ", "secant")
    if k < 3.5:
        return ("integ", "tangent")
    return ("integ", "consistent")


def events(ob):
    return [] if ob["trace"] == "-" else ob["trace"].split(";")


def expected_failure(d, ch, doc):
    """a consulted hook failed, or the behaviour does not implement what is requested"""
    tr = d["tr"]
    if ch["init"][0] in (1, 2):
        return True
    if ch["oob"][0] == 1 and d["pol"] == "strict":
        return True
    for h in ("sos0", "texport", "ie", "de", "sos1"):
        if ch[h][0] == 1:
            return True
    if ch["pred"][0] in (1, 2) or ch["integ"][0] in (1, 2):
        return True
    if ch["apriori"][0] in (1, 2) or ch["apost"][0] in (1, 2):
        return True
    if doc is not None and ch["init"][0] == 0 and not (ch["oob"][0] == 1 and d["pol"] == "strict"):
        if doc[0] == "pred" and not (tr & 2):
            return True
        if doc[0] == "integ" and doc[1] != "nostiffness" and not (tr & 1):
            return True
    return False


def spec_check(d, ch, ob):
    """returns a list of (property, key, what) for one observed execution"""
    res = []
    fn = d["fn"]
    wrapper = fn in ("gl", "log", "fs")
    K0 = d["K0"]
    bs = K0 > 50000
    Ke = K0 - 100000 if bs else K0
    doc = documented_kind(Ke)
    ev = events(ob)
    ret = ob["ret"]
    where = "%s tr=%d K0=%g K1=%g K2=%g policy=%s script[%s]" % (fn, d["tr"], K0 / 1000., d["K1"] / 1000., d["K2"] / 1000., d["pol"],
                                                                 ",".join("%s=%s" % (k, ":".join(map(str, v))) for k, v in ch.items() if v[0] >= 0))
    if ret not in ("-1", "0", "1"):
        res.append(("C39", "retcode:%s:K0=%d:ret=%s" % (fn, K0, ret), "return value %s is not -1, 0 or 1 (%s)" % (ret, where)))
        return res
    if ob["frame"] != "ok":
        res.append(("C39", "frame:%s:K0=%d" % (fn, K0), "pointers of the behaviour data not restored or inputs modified (%s)" % where))
    invalid_wrapper_request = wrapper and (d["K1"] > 2500 or (d["K2"] > 3500 and not (-500 < K0 < 500)))
    if invalid_wrapper_request:
        if ret != "-1" or ev:
            res.append(("C39", "invalid-option:%s:K1=%d:K2=%d" % (fn, d["K1"], d["K2"]),
                        "invalid stress measure / tangent operator not refused before calling the behaviour (%s)" % where))
        if any(ob[k] != "U" for k in ("flux", "isv", "se", "de")):
            res.append(("C40", "s1-written-on-failure:%s:invalid-option" % fn, "refused request wrote the output state (%s)" % where))
        return res
    # ---- C39 (a) the request made to the behaviour
    reqs = [e.split(":") for e in ev if e.startswith("pred:") or e.startswith("integ:")]
    if doc is not None and reqs:
        kind = (reqs[0][0], reqs[0][1])
        if len(reqs) != 1 or kind != doc:
            res.append(("C39", "request:K0=%d" % K0,
                        "K[0]=%g documented as %s %s, the behaviour was asked %s (%s)" % (K0 / 1000., doc[0], doc[1], "+".join(r[0] + " " + r[1] for r in reqs), where)))
    if wrapper and fn == "fs" and reqs:
        want = {0: "DSIG_DF", 1000: "DS_DEGL", 2000: "DPK1_DF", 3000: "DTAU_DDF"}.get(d["K2"])
        if -500 < K0 < 500:
            want = "DSIG_DF"
        if want and reqs[0][2] != want:
            res.append(("C39", "fs-flag:K2=%d" % d["K2"], "finite strain behaviour asked %s for K[2]=%g (%s)" % (reqs[0][2], d["K2"] / 1000., where)))
    # ---- C39 (b) speed of sound
    if not bs and (ob["sos"] != "U" or any(e.startswith("sos:") for e in ev)):
        res.append(("C39", "sos-unrequested:%s:K0=%d" % (fn, K0), "speed of sound computed though K[0] <= 50 (%s)" % where))
    if bs and ret != "-1" and doc is not None:
        want = "S0" if doc[0] == "pred" else "S1"
        if ob["sos"] != want:
            res.append(("C39", "sos:%s:K0=%d" % (fn, K0), "speed of sound requested: expected %s, observed %s (%s)" % (want, ob["sos"], where)))
    # ---- C39 (c) return code
    fail = expected_failure(d, ch, doc)
    if doc is not None:
        if fail != (ret == "-1"):
            res.append(("C39", "retcode:%s:K0=%d:%s" % (fn, K0, "missed-failure" if fail else "spurious-failure"),
                        "return value %s though %s (%s)" % (ret, "a hook failed" if fail else "every hook succeeded", where)))
        elif not fail:
            if doc[0] == "pred":
                ok = ret == "1"
            else:
                prop = min(ch["apriori"][1], ch["apost"][1])
                ok = int(ob["rdt"]) == prop and ret == ("0" if prop < 990 else "1")
            if not ok:
                res.append(("C39", "retcode:%s:K0=%d:rule" % (fn, K0),
                            "return value %s and proposed factor %s do not follow the -1/0/1 rule (%s)" % (ret, ob["rdt"], where)))
    # ---- C39 (d) Strict
    if d["pol"] == "strict" and ch["oob"][0] == 1 and (ret != "-1" or reqs):
        res.append(("C39", "strict:%s:K0=%d" % (fn, K0), "Strict policy with an out of bounds variable did not fail before the behaviour was asked anything (%s)" % where))
    # ---- C39 (e) outputs of successful calls
    if doc is not None and ret != "-1":
        if not wrapper:
            asked = reqs[0][1] if reqs else "?"  # (a) checks that what is asked is what is documented
            if doc[0] == "pred":
                good = all(ob[k] == "U" for k in ("flux", "isv", "se", "de")) and ob["K"].startswith("E:" + asked)
            else:
                good = ob["flux"] == "W" and ob["isv"] == "W" and ob["se"] == ("W" if d["tr"] & 4 else "U") and ob["de"] == ("W" if d["tr"] & 8 else "U")
                good = good and (ob["K"] == "U" if doc[1] == "nostiffness" else ob["K"].startswith("E:" + doc[1]))
            if not good:
                res.append(("C39", "outputs:%s:K0=%d" % (fn, K0), "outputs of a successful call do not match the request: %s (%s)" % (ob, where)))
        else:
            sm = {0: "cauchy", 1000: "pk2", 2000: "pk1"}[d["K1"]]
            smf = {0: "DSIG_DF", 1000: "DS_DEGL", 2000: "DPK1_DF", 3000: "DTAU_DDF"}.get(d["K2"], "DSIG_DF")
            if -500 < K0 < 500:
                smf = "DSIG_DF"
            if doc[0] == "pred":
                if ob["flux"] != "U" or ob["isv"] != "U":
                    res.append(("C39", "wrapper:%s:prediction%s:output-stress-written" % (fn, "+speed-of-sound" if bs else ""),
                                "prediction request K[0]=%g modified the output state: flux=%s (%s)" % (K0 / 1000., ob["flux"], where)))
                elif fn != "fs":
                    kinds = ob["K"].split(":")[0].split("/")
                    if "P" not in kinds or ":".join(ob["K"].split(":")[1:]) != smf + ":" + doc[1]:
                        res.append(("C39", "wrapper:%s:prediction-operator:K0=%d" % (fn, K0), "prediction operator not converted as requested: K=%s (%s)" % (ob["K"], where)))
            else:
                bad = []
                if ob["flux"] != sm + ":state":
                    bad.append("the output stress is %s, expected the %s conversion of the computed stress" % (ob["flux"], sm))
                if fn != "fs":
                    if doc[1] == "nostiffness":
                        if ob["K"] != "U":
                            res.append(("C39", "wrapper:%s:no-stiffness-requested:K-overwritten%s" % (fn, ":K0=%d" % K0 if bs else ""),
                                        "no stiffness requested (K[0]=%g) but the K buffer was overwritten (%s) (%s)" % (K0 / 1000., ob["K"], where)))
                    else:
                        kinds = ob["K"].split(":")[0].split("/")
                        if "I" not in kinds or ":".join(ob["K"].split(":")[1:]) != smf + ":" + doc[1]:
                            bad.append("the tangent operator is not converted as requested (K=%s)" % ob["K"])
                if bad:
                    res.append(("C39", "wrapper:%s:success-ret=%s:not-post-processed" % (fn, ret),
                                "successful integration (return %s) but %s (%s)" % (ret, " and ".join(bad), where)))
    # ---- C40: failure leaves the output state untouched
    if ret == "-1":
        written = [k for k in ("flux", "isv", "se", "de") if ob[k] != "U"]
        if written:
            if ob["isv"] == "U" and wrapper:
                cause = "%s:post-processing-on-failure" % fn
            else:
                cause = ob["err"] if ob["err"].startswith("exc:") else "other:" + ob["err"]
            res.append(("C40", "s1-written-on-failure:" + cause,
                        "return -1 but %s of the output state were written (%s) (%s)" % ("/".join(written), " ".join("%s=%s" % (k, ob[k]) for k in written), where)))
    return res


def run_driver_h(c):
    """the wrappers in the other modelling hypotheses (driver_h.cxx)"""
    exe = c.cxx("driver_h", [os.path.join(HERE, "driver_h.cxx")], SUPPORT)
    rc, out, err = c.run([exe, c.tier], timeout=900)
    if rc != 0 or "END cases=" not in out:
        c.report("driver_h", "driver running the real wrappers in the other hypotheses failed (rc=%d): %s" % (rc, err[-400:]), {"stderr": err[-3000:]}, False)
        return None
    return [l for l in out.splitlines() if l.startswith("P ")]


def spec_check_h(d, ch, ob):
    """independent statement for one execution of a wrapper in a hypothesis other than Tridimensional (coarse images: U untouched,
    C changed on the components of the requested stress measure / inside the operator of the hypothesis, X anything else)"""
    res = []
    fn, hyp = d["fn"], d["hyp"]
    K0 = d["K0"]
    bs = K0 > 50000
    Ke = K0 - 100000 if bs else K0
    doc = documented_kind(Ke)
    ev = events(ob)
    ret = ob["ret"]
    tag = "%s:%s" % (fn, hyp)
    where = "%s %s tr=%d K0=%g K1=%g K2=%g script[%s]" % (fn, hyp, d["tr"], K0 / 1000., d["K1"] / 1000., d["K2"] / 1000.,
                                                       ",".join("%s=%s" % (k, ":".join(map(str, v))) for k, v in ch.items() if v[0] >= 0))
    if ret not in ("-1", "0", "1"):
        return [("C39", "wrapper-h:%s:retcode:K0=%d:ret=%s" % (tag, K0, ret), "return value %s is not -1, 0 or 1 (%s)" % (ret, where))]
    if ob["frame"] != "ok":
        res.append(("C39", "wrapper-h:%s:frame:K0=%d" % (tag, K0), "pointers of the behaviour data not restored or inputs modified (%s)" % where))
    state = [ob[k] for k in ("flux", "isv", "se", "de")]
    if "X" in state or ob["K"] == "X":
        res.append(("C39", "wrapper-h:%s:stray-write:K0=%d" % (tag, K0), "a buffer was written outside the components of the request: %s (%s)" % (ob, where)))
    if ret == "-1" and any(x != "U" for x in state):
        res.append(("C40", "s1-written-on-failure:%s:%s" % (tag, ob["err"]),
                    "return -1 but the output state was written (flux=%s isv=%s se=%s de=%s) (%s)" % (tuple(state) + (where,))))
    invalid = d["K1"] > 2500 or (d["K2"] > 3500 and not (-500 < K0 < 500))
    noaxial = d["ps"] == "1" and (d["tr"] & 16) and (fn != "fsh" or d["K1"] > 500)
    if invalid or noaxial:
        if ret != "-1" or ev or ob["K"] != "U" or ob["sos"] != "U" or (noaxial and not invalid and ob["err"] != "noaxial"):
            res.append(("C39", "wrapper-h:%s:%s:K1=%d:K2=%d" % (tag, "invalid-option" if invalid else "no-axial-variable", d["K1"], d["K2"]),
                        "request that must be refused before the behaviour is built (%s): %s (%s)" % (
                            "invalid stress measure / tangent operator" if invalid else "plane stress without axial strain / deformation gradient variable", ob, where)))
        return res
    if doc is None:
        return res
    reqs = [e.split(":") for e in ev if e.startswith("pred:") or e.startswith("integ:")]
    if reqs and (len(reqs) != 1 or (reqs[0][0], reqs[0][1]) != doc):
        res.append(("C39", "wrapper-h:%s:request:K0=%d" % (tag, K0), "K[0]=%g documented as %s %s, the behaviour was asked %s (%s)" % (
            K0 / 1000., doc[0], doc[1], "+".join(r[0] + " " + r[1] for r in reqs), where)))
    fail = expected_failure(d, ch, doc)
    if fail != (ret == "-1"):
        res.append(("C39", "wrapper-h:%s:retcode:K0=%d:%s" % (tag, K0, "missed-failure" if fail else "spurious-failure"),
                    "return value %s though %s (%s)" % (ret, "a hook failed" if fail else "every hook succeeded", where)))
        return res
    if fail:
        return res
    if doc[0] == "pred":
        good = ret == "1" and all(x == "U" for x in state) and ob["K"] == "C" and ob["sos"] == ("S0" if bs else "U")
    else:
        prop = min(ch["apriori"][1], ch["apost"][1])
        good = int(ob["rdt"]) == prop and ret == ("0" if prop < 990 else "1") and ob["flux"] == "C" and ob["isv"] == "W"
        good = good and ob["se"] == ("W" if d["tr"] & 4 else "U") and ob["de"] == ("W" if d["tr"] & 8 else "U")
        good = good and ob["K"] == ("U" if doc[1] == "nostiffness" else "C") and ob["sos"] == ("S1" if bs else "U")
    if not good:
        res.append(("C39", "wrapper-h:%s:outputs:K0=%d:ret=%s" % (tag, K0, ret), "successful call (%s %s): return code / time step factor / buffers written do not "
                    "match the request: %s (%s)" % (doc[0], doc[1], ob, where)))
    return res


def policy_agreement(parsed):
    """Warning and None must give the same observations (the policy told to the behaviour apart)"""
    res = []
    table = {}
    for (d, ch, ob, line) in parsed:
        if d["pol"] in ("warning", "none"):
            key = (d["fn"], d["tr"], d["K0"], d["K1"], d["K2"], tuple(sorted(ch.items())))
            o = dict(ob)
            o["trace"] = o["trace"].replace("policy:" + d["pol"], "policy:*")
            table.setdefault(key, {})[d["pol"]] = o
    for key, v in table.items():
        if len(v) == 2 and v["warning"] != v["none"]:
            res.append(("C39", "warning-vs-none:%s:K0=%d" % (key[0], key[2]), "Warning and None policies give different results: %s vs %s" % (v["warning"], v["none"])))
    return res


def detect_variant(findings):
    keys = [k for (_p, k, _w) in findings]
    v = {f: False for f in FLAGS}
    for k in keys:
        if k.startswith("request:K0=97") or k.startswith("request:K0=98"):
            v["v_pred_raw"] = True
        if k.startswith("s1-written-on-failure:exc:"):
            v["v_late_throw"] = True
        if "post-processing-on-failure" in k or "success-ret=0:not-post-processed" in k:
            v["v_wrap_nonzero"] = True
        if "prediction+speed-of-sound:output-stress-written" in k or "no-stiffness-requested:K-overwritten:K0=" in k:
            v["v_wrap_raw"] = True
    return v


def variant_bits(v):
    return "".join("1" if v[f] else "0" for f in FLAGS)


def gen_file(c, v, prefix):
    gen = os.path.join(c.work, "coq", "C39_gen.v")
    os.makedirs(os.path.dirname(gen), exist_ok=True)
    with open(gen, "w") as f:
        f.write("(* written by the check: the variant of the model that corresponds to the working tree on this run *)\n")
        f.write("From %s Require Import C39Model.\n" % prefix)
        f.write("Definition code_variant : variant := {| %s |}.\n" % "; ".join("%s := %s" % (k, "true" if v[k] else "false") for k in FLAGS))
    return gen


def model_sources(c, prefix):
    """the Coq sources of the model (props/C39/coq); for another property they are re-prefixed copies"""
    out = []
    for f in MODEL_FILES:
        src = os.path.join(HERE, "coq", f)
        if prefix == "C39":
            out.append(src)
        else:
            dst = os.path.join(c.work, "coq_src", f)
            os.makedirs(os.path.dirname(dst), exist_ok=True)
            with open(dst, "w") as g:
                g.write(open(src).read().replace("From C39 Require", "From %s Require" % prefix))
            out.append(dst)
    return out


def correspondence(c, lines, v, prefix):
    """run the extracted model on every observed execution; returns the list of mismatching lines"""
    ml = c.ocaml_extract("c39", [model_sources(c, prefix)[0]],
                         "From %s Require Import C39Model.\nRequire Import ExtrOcamlBasic.\nExtraction \"c39_model.ml\" integrate wrap wrap_h documented pinned.\n" % prefix,
                         os.path.join(HERE, "driver.ml"))
    rc, out, err = c.run([ml, variant_bits(v)], input="\n".join(lines) + "\n", timeout=600)
    m = re.search(r"DONE ok=(\d+) bad=(\d+)", out)
    if rc != 0 or not m:
        c.report("model-driver", "extracted model driver failed: " + (err or out)[-400:], {"stderr": err[-2000:]}, False)
        return None, 0
    bad = [l for l in out.splitlines() if l.startswith("MISMATCH") or l.startswith("BADLINE")]
    return bad, int(m.group(1))


def replay_of(d, exe=None):
    return {"driver": "props/C39/driver.cxx", "how": "driver replay %s %d %d %d %d %s  (all executions of that configuration; the script is in the message)" % (
        d["fn"], d["tr"], d["K0"], d["K1"], d["K2"], d["pol"]), "configuration": d}


def replay(c, pid):
    """./check <ID> --replay file: re-run every execution of the recorded configuration and re-evaluate the property"""
    cfg = (c.replay.get("replay", {}).get("replay", {}) or {}).get("configuration")
    if not cfg:
        c.notes.append("replay file has no configuration")
        return
    hyp = cfg["fn"] in ("glh", "logh", "fsh")
    exe = c.cxx("driver_h" if hyp else "driver", [os.path.join(HERE, "driver_h.cxx" if hyp else "driver.cxx")], SUPPORT)
    rc, out, err = c.run([exe, "replay", cfg["fn"], str(cfg["tr"]), str(cfg["K0"]), str(cfg["K1"]), str(cfg["K2"]), cfg["pol"]] + ([cfg["hyp"]] if hyp else []))
    seen = set()
    for l in out.splitlines():
        if not l.startswith("P "):
            continue
        d, ch, ob = parse(l)
        c.count(1)
        for (p_, k, w) in (spec_check_h if hyp else spec_check)(d, ch, ob):
            if p_ == pid and k not in seen:
                seen.add(k)
                c.report(k, w, {"line": l, "replay": replay_of(d)}, True)

"""C39 / C40, execution stage on REAL mfront-generated behaviours (engine G tie): the reference programs of
props/C39/mfront are given to /repo's mfront (generic interface) on every run, compiled, and their generated
`extern "C"` entry points are driven by gdriver.cxx for every K[0] encoding, K[1], K[2], policy set through the generated
<name>_setOutOfBoundsPolicy, and scripted hook failure.  Every call is (1) checked against an independent statement of the
calling convention (gen_spec_check, Python) and (2) compared with the extracted Gallina model (same OCaml driver as the
mock executions, lines `fn=gen:...`)."""
import os, re
import vlib
import gbcommon as G

HERE = os.path.dirname(os.path.abspath(__file__))
KEY_INIT = "generated:does-not-compile:GreenLagrange+InitializeFunction"


def _ps_decl(h):
    return '@StateVariable<%s> real etozz;\n%s::etozz.setGlossaryName("AxialStrain");\n' % (h, h)


def _ps_code(h):
    return "@Integrator<%s,Append,AtEnd>{\n  detozz = ezz_ps - etozz;\n}\n" % h


INITFCT = "@InitializeFunctionVariable real p0;\n@InitializeFunction SetP{\n  p = p0;\n}\n"

# name, template, DSL options, strain measure, hypotheses, extra, wrapper, traits bits, full, default policy, runtime modification, init function
BEHAVIOURS = [
    dict(name="C39GFull", tpl="C39GTemplate", dsl="", sm="", hyps=["Tridimensional", "PlaneStress", "Axisymmetrical", "AxisymmetricalGeneralisedPlaneStress"],
         extra="", wrapper="plain", tr=15, full=1, default="none", runtime=1, init=0),
    dict(name="C39GBare", tpl="C39GBare", dsl='{default_out_of_bounds_policy: "Strict"}', sm="", hyps=["Tridimensional"], extra="", wrapper="plain", tr=0,
         full=0, default="strict", runtime=1, init=0),
    dict(name="C39GFixed", tpl="C39GBare", dsl='{default_out_of_bounds_policy: "Strict", out_of_bounds_policy_runtime_modification: false}', sm="",
         hyps=["Tridimensional"], extra="", wrapper="plain", tr=0, full=0, default="strict", runtime=0, init=0),
    dict(name="C39GLog", tpl="C39GTemplate", dsl="", sm="@StrainMeasure Hencky;", hyps=["Tridimensional", "PlaneStress"], extra="", wrapper="log", tr=15,
         full=1, default="none", runtime=1, init=0),
    dict(name="C39GFS", tpl="C39GFS", dsl="", sm="", hyps=["Tridimensional", "PlaneStress"], extra="", wrapper="fs", tr=15, full=1, default="none",
         runtime=1, init=0),
    dict(name="C39GGL", tpl="C39GTemplate", dsl="", sm="@StrainMeasure GreenLagrange;", hyps=["Tridimensional", "PlaneStress"], extra=INITFCT, wrapper="gl",
         tr=15, full=1, default="none", runtime=1, init=1),
    # the same without the initialize function: used when the one above does not compile (known finding)
    dict(name="C39GGLNoInit", tpl="C39GTemplate", dsl="", sm="@StrainMeasure GreenLagrange;", hyps=["Tridimensional", "PlaneStress"], extra="", wrapper="gl",
         tr=15, full=1, default="none", runtime=1, init=0),
]


POSTPROC = "@PostProcessingVariable real pp;\n@PostProcessing GetP{\n  pp = p;\n}\n"
# compile probes (g++ -fsyntax-only on the generated interface source): programs accepted by mfront whose generated code
# instantiates executeInitializeFunction / executePostProcessing of the strain-measure and finite-strain wrappers
PROBES = [
    dict(name="C39GProbeLog", tpl="C39GTemplate", dsl="", sm="@StrainMeasure Hencky;", hyps=["Tridimensional"], extra=INITFCT, what="Hencky+InitializeFunction"),
    dict(name="C39GProbeFSInit", tpl="C39GProbeFS", dsl="", sm="", hyps=[], extra=INITFCT, what="FiniteStrain+InitializeFunction"),
    dict(name="C39GProbeFSPost", tpl="C39GProbeFS", dsl="", sm="", hyps=[], extra=POSTPROC, what="FiniteStrain+PostProcessing"),
]
KEY_COMPILE = "generated:does-not-compile:"


def write_programs(c):
    d = os.path.join(c.work, "gmfront")
    os.makedirs(d, exist_ok=True)
    files = []
    for b in BEHAVIOURS + PROBES:
        s = open(os.path.join(HERE, "mfront", b["tpl"] + ".mfront.in")).read()
        ps = [h for h in b["hyps"] if "PlaneStress" in h]
        for k, v in (("%NAME%", b["name"]), ("%DSLOPTIONS%", b["dsl"]), ("%STRAINMEASURE%", b["sm"]), ("%HYPOTHESES%", ",".join(b["hyps"])),
                     ("%PSDECL%", "".join(_ps_decl(h) for h in ps)), ("%PSCODE%", "".join(_ps_code(h) for h in ps)), ("%EXTRA%", b["extra"])):
            s = s.replace(k, v)
        p = os.path.join(d, b["name"] + ".mfront")
        open(p, "w").write(s)
        files.append(p)
    return files


def generate(c):
    c.repo_build(["mfront"])
    exe = os.path.join(vlib.REPO_BUILD, "mfront", "src", "mfront")
    out = os.path.join(c.work, "ggen")
    os.makedirs(out, exist_ok=True)
    rc, o, e = c.run([exe, "--interface=generic"] + write_programs(c), cwd=out, timeout=300)
    if rc != 0:
        raise vlib.BuildError("mfront failed on the C39 reference programs:\n" + (o + e)[-3000:])
    return out


def write_table(c, out, behs):
    d = os.path.join(c.work, "gtable")
    os.makedirs(d, exist_ok=True)
    decl, rows = [], []
    for b in behs:
        n = b["name"]
        decl.append('extern "C" void %s_setOutOfBoundsPolicy(const int);' % n)
        for h in b["hyps"]:
            decl.append('extern "C" int %s_%s(mfront_gb_BehaviourData* const);' % (n, h))
            ini = "nullptr"
            if b["init"]:
                decl.append('extern "C" int %s_%s_InitializeFunction_SetP(mfront_gb_BehaviourData* const, const double* const);' % (n, h))
                ini = "%s_%s_InitializeFunction_SetP" % (n, h)
            rows.append('  {"%s", "%s", "%s", %du, %d, %s_%s, %s_setOutOfBoundsPolicy, %s, "%s", %d},' % (
                b["wrapper"], n, h, b["tr"], b["full"], n, h, n, ini, b["default"], b["runtime"]))
    open(os.path.join(d, "gtable.hxx"), "w").write("\n".join(decl) + "\nstatic const Entry entries[] = {\n" + "\n".join(rows) + "\n};\n")
    return d


def _probe(c, out, flags, b):
    src = os.path.join(out, "src", b["name"] + "-generic.cxx")
    rc, o, e = c.run(["g++"] + c.cxx_flags() + flags + ["-O0", "-fsyntax-only", src], timeout=600)
    return rc, e


def build_and_run(c, pid="C39"):
    """returns (lines, init_lines, init_compiles, behaviours, probe results) or None after having reported the failure.
    One pool of 4 jobs: objects of the generated sources (vlib's cache, keyed by the preprocessed text) and compile probes."""
    from concurrent.futures import ThreadPoolExecutor
    out = generate(c)
    flags = ["-I" + os.path.join(out, "include")]
    tdir = os.path.join(c.work, "gtable")
    fl = c.cxx_flags() + ["-O1"] + flags + ["-I" + tdir]
    main_behs = [b for b in BEHAVIOURS if b["name"] != "C39GGLNoInit"]
    write_table(c, out, main_behs)
    jobs = [("obj", os.path.join(out, "src", "C39GGL-generic.cxx"))]
    if pid == "C39":  # whether these programs compile is part of the calling convention (C39), not of C40
        jobs += [("probe", b) for b in PROBES]
    for b in main_behs:
        jobs.append(("obj", os.path.join(out, "src", b["name"] + ".cxx")))
        if b["name"] != "C39GGL":
            jobs.append(("obj", os.path.join(out, "src", b["name"] + "-generic.cxx")))
    jobs += [("obj", os.path.join(vlib.REPO, s)) for s in G.SUPPORT]
    objs, errors, probes = {}, {}, {}

    def one(job):
        kind, x = job
        if kind == "obj":
            try:
                objs[x] = c._obj(x, fl)
            except vlib.BuildError as e:
                errors[x] = str(e)
        else:
            probes[x["what"]] = (x,) + _probe(c, out, flags, x)

    with ThreadPoolExecutor(max_workers=4) as ex:
        list(ex.map(one, jobs))
    init_errors = {s: e for s, e in errors.items() if os.path.basename(s) == "C39GGL-generic.cxx"}
    other = {s: e for s, e in errors.items() if s not in init_errors}
    if other:
        s, e = sorted(other.items())[0]
        c.report("generated:build", "a generated reference behaviour does not compile: %s" % e[-1500:], {"source": s, "stderr": e[-4000:]}, False)
        return None
    probe_results = {}
    for what, (b, rc, e) in sorted(probes.items()):
        probe_results[what] = rc == 0
        c.count(1, ("probe", what), True)
        if rc != 0:
            errs = sorted(set(re.findall(r"(\w+\.hxx:\d+):\d+: error: ([^\n]{0,160})", e)))
            c.report(KEY_COMPILE + what, "a behaviour accepted by mfront (%s, props/C39/mfront/%s.mfront.in) does not compile with the generic "
                     "interface: %s" % (what, b["tpl"], "; ".join("%s: %s" % x for x in errs[:4])),
                     {"program": open(os.path.join(c.work, "gmfront", b["name"] + ".mfront")).read(), "stderr": e[-3000:]}, True)
    init_compiles = not init_errors
    c.count(1, ("probe", "GreenLagrange+InitializeFunction"), True)
    behs = main_behs
    if not init_compiles and pid == "C39":
        e = sorted(init_errors.values())[0]
        m = re.search(r"\w+StrainIntegrate\.hxx:\d+:\d+: error: [^\n]{0,200}", e)
        c.report(KEY_INIT, "a behaviour with @StrainMeasure GreenLagrange and an @InitializeFunction, accepted by mfront, does not compile with "
                 "the generic interface: <strain measure>::executeInitializeFunction (GreenLagrangeStrainIntegrate.hxx, same call in "
                 "LogarithmicStrainIntegrate.hxx and StandardFiniteStrainBehaviourIntegrate.hxx) calls mfront::gb::executeInitializeFunction"
                 "<Behaviour, m>(initialize_variables, d, p) though it is declared (d, initialize_variables, p)%s" % (": " + m.group(0) if m else ""),
                 {"program": open(os.path.join(c.work, "gmfront", "C39GGL.mfront")).read(), "stderr": e[-3000:]}, True)
    if not init_compiles:
        # the same program without the initialize function, so that the Green-Lagrange entry points are exercised anyway
        behs = [b for b in BEHAVIOURS if b["name"] != "C39GGL"]
        try:
            del objs[os.path.join(out, "src", "C39GGL.cxx")]
            for n in ("C39GGLNoInit.cxx", "C39GGLNoInit-generic.cxx"):
                objs[n] = c._obj(os.path.join(out, "src", n), fl)
        except vlib.BuildError as e:
            c.report("generated:build", "a generated reference behaviour does not compile: %s" % str(e)[-1500:], {"stderr": str(e)[-4000:]}, False)
            return None
    write_table(c, out, behs)
    try:
        objs["driver"] = c._obj(os.path.join(HERE, "gdriver.cxx"), fl)
    except vlib.BuildError as e:
        c.report("generated:build", "gdriver.cxx does not compile: %s" % str(e)[-1500:], {"stderr": str(e)[-4000:]}, False)
        return None
    exe = os.path.join(c.work, "gdriver")
    rc, o, e = c.run(["g++"] + list(objs.values()) + ["-o", exe, "-lpthread"], timeout=600)
    if rc != 0:
        c.report("generated:build", "link of the driver of the generated behaviours failed: %s" % e[-1500:], {"stderr": e[-4000:]}, False)
        return None
    # the generic interface makes no environment lookup for the policy: these variables must change nothing
    env = {"OUT_OF_BOUNDS_POLICY": "STRICT", "GENERIC_OUT_OF_BOUNDS_POLICY": "STRICT", "MFRONT_OUT_OF_BOUNDS_POLICY": "STRICT"}
    rc, o, e = c.run([exe, c.tier], timeout=600, env=env)
    if rc != 0 or "END cases=" not in o:
        c.report("generated:driver", "driver of the generated behaviours failed (rc=%d): %s" % (rc, e[-400:]), {"stderr": e[-3000:]}, False)
        return None
    lines = [l for l in o.splitlines() if l.startswith("P ")]
    ilines = [l for l in o.splitlines() if l.startswith("I ")]
    return lines, ilines, init_compiles, behs, probe_results


# ---------------------------------------------------------------- documented semantics of the policy functions
def documented_policy(beh, seq):
    """policy in force after the calls <name>_setOutOfBoundsPolicy(v) for v in seq (docs: 0 None, 1 Warning, 2 Strict; an invalid
    value is reported and changes nothing; without runtime modification the policy of the DSL option stays)"""
    p = beh["default"]
    if beh["runtime"]:
        for v in seq:
            p = {0: "none", 1: "warning", 2: "strict"}.get(v, p)
    return p


def normalise(line, behs):
    """line of gdriver.cxx -> line for the model driver: pol = documented policy, time step scaling factors = the values the
    generated computeAPriori/APosterioriTimeStepScalingFactor return (user value clamped to [minimal, maximal] factor and to the
    current one)"""
    a, ch, o = line.split("|")
    m = re.search(r"fn=gen:(\w+):(\w+):(\w+)", a)
    beh = [b for b in behs if b["name"] == m.group(2)][0]
    seq = [int(x) for x in re.search(r"pol=seq([:\-\d]*)", a).group(1).split(":") if x]
    pol = documented_policy(beh, seq)
    a = re.sub(r"pol=seq[:\-\d]*", "pol=" + pol, a)
    ap = re.search(r"apriori=(\d+):(\d+)", ch)
    po = re.search(r"apost=(\d+):(\d+)", ch)
    ea = min(max(int(ap.group(2)), 100), 1000)
    ep = min(max(int(po.group(2)), 100), ea)
    ch = ch.replace(ap.group(0), "apriori=%s:%d" % (ap.group(1), ea)).replace(po.group(0), "apost=%s:%d" % (po.group(1), ep))
    if m.group(1) == "fs" and m.group(3) == "PlaneStress":
        # mfront provides no conversion of finite strain tangent operators in plane stress: the generated integrate() /
        # computePredictionOperator() throw for any operator but the one the behaviour defines (DS_DEGL): an exception of that hook
        K0, K2 = int(re.search(r"K0=(-?\d+)", a).group(1)), int(re.search(r"K2=(\d+)", a).group(1))
        Ke = K0 - 100000 if K0 > 50000 else K0
        if not (500 <= K2 < 1500) and K2 < 3500:
            if Ke < -250:
                ch = re.sub(r"pred=\d,", "pred=2,", ch)  # thrown before the user block runs
            elif Ke > 500:
                ch = ch.replace("integ=0,", "integ=2,")
    return a + "|" + ch + "|" + o, seq


# ---------------------------------------------------------------- independent statement for the generated behaviours
def gen_expected_failure(d, ch, doc, bs):
    """a hook CONSULTED for the documented request fails (false / FAILURE / exception), or the request is not implemented; the
    script of a generated behaviour also sets hooks that the request never consults"""
    tr = d["tr"]
    if ch["init"][0] in (1, 2) or (ch["oob"][0] == 1 and d["pol"] == "strict"):
        return True
    if doc[0] == "pred":
        return (bs and ch["sos0"][0] == 1) or not (tr & 2) or ch["pred"][0] in (1, 2)
    if doc[1] != "nostiffness" and not (tr & 1):
        return True
    if ch["apriori"][0] in (1, 2) or ch["integ"][0] in (1, 2) or ch["apost"][0] in (1, 2):
        return True
    return bool((tr & 4 and ch["ie"][0] == 1) or (tr & 8 and ch["de"][0] == 1) or (bs and ch["sos1"][0] == 1))


def gen_spec_check(d, ch, ob, seq):
    """(property, key, what) for one call of a generated entry point (normalised line)"""
    res = []
    _g, w, name, hyp = d["fn"].split(":")
    K0 = d["K0"]
    bs = K0 > 50000
    Ke = K0 - 100000 if bs else K0
    doc = G.documented_kind(Ke)
    ret = ob["ret"]
    where = "%s_%s K[0]=%g K[1]=%g K[2]=%g setOutOfBoundsPolicy%s (=> %s) script[%s]" % (
        name, hyp, K0 / 1000., d["K1"] / 1000., d["K2"] / 1000., seq, d["pol"],
        ",".join("%s=%s" % (k, ":".join(map(str, v))) for k, v in ch.items() if v[0] > 0 or k in ("apriori", "apost")))
    tag = "%s:%s" % (name, hyp)
    if ret not in ("-1", "0", "1"):
        return [("C39", "generated:retcode:%s:K0=%d:ret=%s" % (tag, K0, ret), "return value %s is not -1, 0 or 1 (%s)" % (ret, where))]
    if ob["frame"] != "ok":
        res.append(("C39", "generated:frame:%s:K0=%d" % (tag, K0), "pointers of the behaviour data not restored or inputs modified (%s)" % where))
    state = [ob[k] for k in ("flux", "isv", "se", "de")]
    if ret == "-1" and any(x != "U" for x in state):
        res.append(("C40", "generated:s1-written-on-failure:%s:%s" % (tag, ob["err"]),
                    "return -1 but the output state was written (flux=%s isv=%s se=%s de=%s) (%s)" % (tuple(state) + (where,))))
    if w != "plain" and (d["K1"] > 2500 or (d["K2"] > 3500 and not (-500 < K0 < 500))):
        if ret != "-1" or ob["K"] != "U" or ob["sos"] != "U":
            res.append(("C39", "generated:invalid-option:%s:K1=%d:K2=%d" % (tag, d["K1"], d["K2"]), "invalid stress measure / tangent operator not refused (%s)" % where))
        return res
    if doc is None:
        return res
    fail = gen_expected_failure(d, ch, doc, bs)
    if fail != (ret == "-1"):
        res.append(("C39", "generated:retcode:%s:K0=%d:%s" % (tag, K0, "missed-failure" if fail else "spurious-failure"),
                    "return value %s though %s (%s)" % (ret, "a hook failed / the request is not implemented" if fail else "every hook succeeded", where)))
        return res
    if not bs and ob["sos"] != "U":
        res.append(("C39", "generated:sos-unrequested:%s:K0=%d" % (tag, K0), "speed of sound written though K[0] <= 50 (%s)" % where))
    if fail:
        return res
    tr = d["tr"]
    if doc[0] == "pred":
        good = ret == "1" and all(x == "U" for x in state) and int(ob["rdt"]) == d["rdt0"] and ob["sos"] == ("S0" if bs else "U")
        good = good and (ob["K"] == "E:%s:pred" % doc[1] if w == "plain" else ob["K"] == "C")
    else:
        prop = min(ch["apriori"][1], ch["apost"][1])
        good = int(ob["rdt"]) == prop and ret == ("0" if prop < 990 else "1") and ob["sos"] == ("S1" if bs else "U")
        good = good and ob["flux"] == ("W" if w == "plain" else "C") and ob["isv"] == "W"
        good = good and ob["se"] == ("W" if tr & 4 else "U") and ob["de"] == ("W" if tr & 8 else "U")
        if doc[1] == "nostiffness":
            good = good and ob["K"] == "U"
        else:
            good = good and (ob["K"] == "E:%s:integ" % doc[1] if w == "plain" else ob["K"] == "C")
    if not good:
        res.append(("C39", "generated:outputs:%s:K0=%d" % (tag, K0),
                    "successful call: return code / time step factor / outputs do not match the documented request %s %s: %s (%s)" % (
                        doc[0], doc[1], " ".join("%s=%s" % kv for kv in ob.items()), where)))
    return res


def init_check(il):
    """calling convention of a generated initialize function: 0 on success, the state variable set, nothing else touched"""
    kv = dict(t.split("=", 1) for t in il.split()[1:])
    bad = []
    if kv["K1"] == "3000":
        if kv["ret"] != "-1":
            bad.append("invalid stress measure not refused (ret=%s)" % kv["ret"])
    else:
        if kv["ret"] != "0":
            bad.append("ret=%s" % kv["ret"])
        if abs(float(kv["p"]) - 0.77) > 1e-15:
            bad.append("state variable p=%s, expected 0.77" % kv["p"])
        if kv["others"] != "initial":
            bad.append("the other state variables are not those of the beginning of the time step")
    if kv["frame"] != "ok":
        bad.append("pointers not restored / inputs modified")
    return kv, bad


def stage(c, pid):
    """runs the stage; returns (normalised lines for the model driver, findings [(prop, key, what, line)], info dict) or None"""
    r = build_and_run(c, pid)
    if r is None:
        return None
    lines, ilines, init_compiles, behs, probe_results = r
    norm, findings = [], []
    nfail = 0
    for l in lines:
        nl, seq = normalise(l, behs)
        d, ch, ob = G.parse(nl)
        nfail += ob["ret"] == "-1"
        interesting = (ob["ret"] == "-1") if pid == "C40" else (any(v[0] > 0 for v in ch.values()) or d["K0"] > 50000 or d["K0"] < 0)
        c.count(1, (d["fn"], d["K0"], d["K1"], d["K2"], tuple(seq), tuple(sorted(ch.items()))), interesting)
        for f in gen_spec_check(d, ch, ob, seq):
            findings.append(f + (l,))
        norm.append(nl)
    for il in ilines:
        kv, bad = init_check(il)
        c.count(1, ("init", kv["fn"], kv["K1"]), True)
        if bad:
            findings.append(("C39", "generated:initialize-function:%s:K1=%s" % (kv["fn"], kv["K1"]),
                             "generated initialize function SetP (values = {0.77}): %s (%s)" % ("; ".join(bad), il), il))
    for i in (0, len(lines) // 2, len(lines) - 1):
        c.sample({"generated_behaviour_call": lines[i][:500]})
    info = {"calls": len(lines), "failed": nfail, "init_calls": len(ilines), "init_compiles": init_compiles, "compile_probes": probe_results,
            "behaviours": ["%s[%s]" % (b["name"], ",".join(b["hyps"])) for b in behs]}
    return norm, findings, info


class Recorder:
    """stands for the check object while the stage runs in a worker thread: reports / counts / samples are replayed on the
    real object by the main thread (flush)"""

    def __init__(self, c):
        self._c = c
        self._calls = []

    def __getattr__(self, k):
        return getattr(self._c, k)

    def report(self, *a, **kw):
        self._calls.append(("report", a, kw))

    def count(self, *a, **kw):
        self._calls.append(("count", a, kw))

    def sample(self, *a, **kw):
        self._calls.append(("sample", a, kw))

    def flush(self):
        for k, a, kw in self._calls:
            getattr(self._c, k)(*a, **kw)
        self._calls = []


def start_stage(c, pid):
    """runs the stage in a worker thread (it is dominated by preprocessing / compilation); returns a function that waits for it,
    replays its reports and returns what `stage` returned (None on a reported failure)"""
    import threading
    rec = Recorder(c)
    box = {}

    def work():
        try:
            box["r"] = stage(rec, pid)
        except Exception as e:  # BuildError of mfront etc.
            box["e"] = e

    t = threading.Thread(target=work)
    t.start()

    def wait():
        t.join()
        rec.flush()
        if "e" in box:
            c.report("generated:stage", "the stage on generated behaviours could not run: %s" % str(box["e"])[-1500:], {"error": str(box["e"])[-4000:]}, False)
            return None
        return box["r"]

    return wait

(* C38 -- errno clause on the tree as found (finding F11): the check selects this file when the witness is observed
   (model variant `AsFound` is then the one compared with the generated code on every case). *)
From Coq Require Import Reals List Bool ZArith.
From C38 Require Import C38Model C38Spec C38Proofs.
Local Open Scope Z_scope.

(* false today: upper-bound-only variable, Strict policy, argument above the bound, caller errno 33 -> errno 0 *)
Theorem C38_errno_always_restored_refuted :
  exists d args nargs p e0 body, errno_after (generic R Rltb AsFound d args nargs p e0 body) <> e0.
Proof. exact errno_asfound_refuted. Qed.
Print Assumptions C38_errno_always_restored_refuted.

(* the one-line repair restores errno in every branch ... *)
Theorem C38_errno_restored_once_repaired : forall d args nargs p e0 body,
  errno_after (generic R Rltb Fixed d args nargs p e0 body) = e0.
Proof. exact errno_fixed. Qed.
Print Assumptions C38_errno_restored_once_repaired.

(* ... and changes nothing else *)
Theorem C38_repair_changes_only_errno : forall d args nargs p e0 body,
  same_but_errno (generic R Rltb AsFound d args nargs p e0 body) (generic R Rltb Fixed d args nargs p e0 body).
Proof. exact variants_agree. Qed.
Print Assumptions C38_repair_changes_only_errno.

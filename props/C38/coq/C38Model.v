(* C38 -- executable contract model of the code emitted by mfront for material properties:
   * generic interface: mfront/src/GenericMaterialPropertyInterfaceBase.cxx (writeSrcFile, writeBounds, writePhysicalBounds)
   * C interface `<name>_checkBounds`: mfront/src/CMaterialPropertyInterfaceBase.cxx (writeMaterialPropertyCheckBoundsBody)
   (declaration, args, nargs, policy, caller errno, law outcome) |-> (status, bounds_status, c_error_number, returned value, errno after).
   Definitions only.  Generic in the scalar type T with strict comparison ltb; doubles are `ext T` (finite, +-inf, NaN). *)
From Coq Require Import List Bool ZArith.
Import ListNotations.
Local Open Scope Z_scope.

Inductive ext (T : Type) := NaN | MInf | Fin (v : T) | PInf.
Arguments NaN {T}. Arguments MInf {T}. Arguments Fin {T}. Arguments PInf {T}.

Inductive bounds (T : Type) := Lower (lb : T) | Upper (ub : T) | Both (lb ub : T).
Arguments Lower {T}. Arguments Upper {T}. Arguments Both {T}.

(* mfront_gmp_OutOfBoundsPolicy: NONE = 0, WARNING = 1, STRICT = 2 *)
Inductive policy := PNone | PWarning | PStrict.

(* F11: `AsFound` = the pinned tree (the Strict branch emitted for an upper-bound-only variable returns without
   `errno = mfront_errno_old;`), `Fixed` = with that line *)
Inductive variant := AsFound | Fixed.

(* what the @Function body does once it runs: the value it leaves in the output variable and the value it leaves in
   errno (0 = untouched, since the wrapper zeroes errno before), or a C++ exception *)
Inductive outcome (T : Type) := Returns (v : ext T) (errno_left : Z) | Throws.
Arguments Returns {T}. Arguments Throws {T}.

Record result (T : Type) := Res {
  status : Z; bounds_status : Z; c_error_number : Z;
  ret : ext T;            (* NaN = std::nan("") *)
  errno_after : Z }.
Arguments Res {T}. Arguments status {T}. Arguments bounds_status {T}. Arguments c_error_number {T}.
Arguments ret {T}. Arguments errno_after {T}.

Section Model.
  Variable T : Type.
  Variable ltb : T -> T -> bool.

  (* IEEE-754 `<` on doubles *)
  Definition xltb (a b : ext T) : bool :=
    match a, b with
    | NaN, _ | _, NaN => false
    | MInf, MInf => false
    | MInf, _ => true
    | _, MInf => false
    | PInf, _ => false
    | _, PInf => true
    | Fin x, Fin y => ltb x y
    end.
  Definition isfinite (a : ext T) : bool := match a with Fin _ => true | _ => false end.

  Definition oob (b : bounds T) (v : ext T) : bool :=
    match b with
    | Lower lb => xltb v (Fin lb)
    | Upper ub => xltb (Fin ub) v
    | Both lb ub => xltb v (Fin lb) || xltb (Fin ub) v
    end.
  Definition oob_opt (ob : option (bounds T)) (v : ext T) : bool :=
    match ob with None => false | Some b => oob b v end.

  Record var := Var { v_bounds : option (bounds T); v_phys : option (bounds T) }.
  Record decl := Decl { inputs : list var; output : var }.

  (* rank (from i) of the first variable whose selected bounds are violated *)
  Fixpoint first_oob (sel : var -> option (bounds T)) (i : nat) (vs : list var) (args : list (ext T)) : option nat :=
    match vs, args with
    | v :: vs', a :: args' => if oob_opt (sel v) a then Some i else first_oob sel (S i) vs' args'
    | _, _ => None
    end.

  (* does the emitted Strict branch restore errno before returning? *)
  Definition strict_restores (vr : variant) (b : bounds T) : bool :=
    match vr, b with AsFound, Upper _ => false | _, _ => true end.

  (* standard bounds of the inputs, in order (generic interface) *)
  Inductive scan := Stop (rank : nat) (restores : bool) | Cont (st bs : Z).
  Definition bound_step (vr : variant) (p : policy) (i : nat) (v : var) (a : ext T) (st bs : Z) : scan :=
    match v_bounds v with
    | None => Cont st bs
    | Some b =>
      if oob b a then
        match p with
        | PStrict => Stop i (strict_restores vr b)
        | PWarning => Cont 1 (Z.of_nat i)
        | PNone => Cont st bs
        end
      else Cont st bs
    end.
  Fixpoint scan_bounds (vr : variant) (p : policy) (i : nat) (vs : list var) (args : list (ext T)) (st bs : Z) : scan :=
    match vs, args with
    | v :: vs', a :: args' =>
      match bound_step vr p i v a st bs with
      | Stop r e => Stop r e
      | Cont st' bs' => scan_bounds vr p (S i) vs' args' st' bs'
      end
    | _, _ => Cont st bs
    end.

  (* end of the emitted function: errno test, errno restored, finiteness test *)
  Definition finish (st bs : Z) (v : ext T) (el e0 : Z) : result T :=
    let st1 := if Z.eqb el 0 then st else -3 in
    let cen := if Z.eqb el 0 then 0 else el in
    let st2 := if isfinite v then st1 else -4 in
    Res st2 bs cen v e0.

  (* the generic-interface function *)
  Definition generic (vr : variant) (d : decl) (args : list (ext T)) (nargs : nat) (p : policy) (e0 : Z)
             (body : outcome T) : result T :=
    let n := length (inputs d) in
    if negb (Nat.eqb nargs n) then Res (-5) 0 0 NaN e0 else
    match first_oob v_phys 1 (inputs d) args with
    | Some i => Res (-1) (- Z.of_nat i) 0 NaN e0
    | None =>
      match scan_bounds vr p 1 (inputs d) args 0 0 with
      | Stop i restores => Res (-1) (- Z.of_nat i) 0 NaN (if restores then e0 else 0)
      | Cont st bs =>
        match body with
        | Throws => Res (-2) bs 0 NaN e0
        | Returns v el =>
          if oob_opt (v_phys (output d)) v then Res (-1) (- Z.of_nat (S n)) 0 NaN e0 else
          match bound_step vr p (S n) (output d) v st bs with
          | Stop i restores => Res (-1) (- Z.of_nat i) 0 NaN (if restores then e0 else el)
          | Cont st' bs' => finish st' bs' v el e0
          end
        end
      end
    end.

  (* C interface: int <name>_checkBounds(args...) *)
  Definition c_checkBounds (d : decl) (args : list (ext T)) : Z :=
    match first_oob v_phys 1 (inputs d) args with
    | Some i => - Z.of_nat i
    | None => match first_oob v_bounds 1 (inputs d) args with
              | Some i => Z.of_nat i
              | None => 0
              end
    end.
End Model.

Arguments Var {T}. Arguments Decl {T}.
Arguments v_bounds {T}. Arguments v_phys {T}. Arguments inputs {T}. Arguments output {T}.

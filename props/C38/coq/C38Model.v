(* C38 -- executable contract model of the code emitted by mfront for material properties:
   * generic interface: mfront/src/GenericMaterialPropertyInterfaceBase.cxx (writeSrcFile, writeBounds, writePhysicalBounds)
   * C interface `<name>_checkBounds`: mfront/src/CMaterialPropertyInterfaceBase.cxx (writeMaterialPropertyCheckBoundsBody)
   (declaration, args, nargs, policy, caller errno, law outcome) |-> (status, bounds_status, c_error_number, returned value, errno after).
   Definitions only.  Generic in the scalar type T with strict comparison ltb; doubles are `ext T` (finite, +-inf, NaN). *)
From Coq Require Import List Bool ZArith.
Import ListNotations.
Local Open Scope Z_scope.

Inductive ext (T : Type) := NaN | MInf | Fin (v : T) | PInf.
Arguments NaN {T}. Arguments MInf {T}. Arguments Fin {T}. Arguments PInf {T}.

Inductive bounds (T : Type) := Lower (lb : T) | Upper (ub : T) | Both (lb ub : T).
Arguments Lower {T}. Arguments Upper {T}. Arguments Both {T}.

(* mfront_gmp_OutOfBoundsPolicy: NONE = 0, WARNING = 1, STRICT = 2 *)
Inductive policy := PNone | PWarning | PStrict.

(* variants of the emission (the check selects the one the generated code exhibits):
   `AsFound`    = the pinned tree: the Strict branch emitted for an upper-bound-only variable returns without
                  `errno = mfront_errno_old;` (finding F11, repaired since);
   `Fixed`      = with that line; the computed value is still returned with status -3 / -4 (second finding: the
                  documentation says that every negative status returns nan);
   `Documented` = additionally `return std::nan("")` whenever the final status is negative *)
Inductive variant := AsFound | Fixed | Documented.

(* lines of the parameters file `<name>-parameters.txt` as the generated handler classifies them
   (mfront/src/MaterialPropertyParametersHandler.cxx): no token; first token beginning with '#'; exactly two tokens
   (is the first a parameter name / external name?  does the second convert to a double?); any other token count *)
Inductive pline := PBlank | PComment | PAssign (known convertible : bool) | PTokens.

(* DSL options of the declaration that change the emitted function *)
Record options := Opt {
  o_params : bool;      (* at least one @Parameter *)
  o_static : bool;      (* parameters_as_static_variables *)
  o_from_file : bool;   (* parameters_initialization_from_file (default true) *)
  o_nochecks : bool }.  (* disable_runtime_checks *)

(* what the @Function body does once it runs: the value it leaves in the output variable and the value it leaves in
   errno (0 = untouched, since the wrapper zeroes errno before), or a C++ exception *)
Inductive outcome (T : Type) := Returns (v : ext T) (errno_left : Z) | Throws.
Arguments Returns {T}. Arguments Throws {T}.

Record result (T : Type) := Res {
  status : Z; bounds_status : Z; c_error_number : Z;
  ret : ext T;            (* NaN = std::nan("") *)
  errno_after : Z }.
Arguments Res {T}. Arguments status {T}. Arguments bounds_status {T}. Arguments c_error_number {T}.
Arguments ret {T}. Arguments errno_after {T}.

Section Model.
  Variable T : Type.
  Variable ltb : T -> T -> bool.

  (* IEEE-754 `<` on doubles *)
  Definition xltb (a b : ext T) : bool :=
    match a, b with
    | NaN, _ | _, NaN => false
    | MInf, MInf => false
    | MInf, _ => true
    | _, MInf => false
    | PInf, _ => false
    | _, PInf => true
    | Fin x, Fin y => ltb x y
    end.
  Definition isfinite (a : ext T) : bool := match a with Fin _ => true | _ => false end.

  Definition oob (b : bounds T) (v : ext T) : bool :=
    match b with
    | Lower lb => xltb v (Fin lb)
    | Upper ub => xltb (Fin ub) v
    | Both lb ub => xltb v (Fin lb) || xltb (Fin ub) v
    end.
  Definition oob_opt (ob : option (bounds T)) (v : ext T) : bool :=
    match ob with None => false | Some b => oob b v end.

  Record var := Var { v_bounds : option (bounds T); v_phys : option (bounds T) }.
  Record decl := Decl { inputs : list var; output : var }.

  (* rank (from i) of the first variable whose selected bounds are violated *)
  Fixpoint first_oob (sel : var -> option (bounds T)) (i : nat) (vs : list var) (args : list (ext T)) : option nat :=
    match vs, args with
    | v :: vs', a :: args' => if oob_opt (sel v) a then Some i else first_oob sel (S i) vs' args'
    | _, _ => None
    end.

  (* does the emitted Strict branch restore errno before returning? *)
  Definition strict_restores (vr : variant) (b : bounds T) : bool :=
    match vr, b with AsFound, Upper _ => false | _, _ => true end.

  (* standard bounds of the inputs, in order (generic interface) *)
  Inductive scan := Stop (rank : nat) (restores : bool) | Cont (st bs : Z).
  Definition bound_step (vr : variant) (p : policy) (i : nat) (v : var) (a : ext T) (st bs : Z) : scan :=
    match v_bounds v with
    | None => Cont st bs
    | Some b =>
      if oob b a then
        match p with
        | PStrict => Stop i (strict_restores vr b)
        | PWarning => Cont 1 (Z.of_nat i)
        | PNone => Cont st bs
        end
      else Cont st bs
    end.
  Fixpoint scan_bounds (vr : variant) (p : policy) (i : nat) (vs : list var) (args : list (ext T)) (st bs : Z) : scan :=
    match vs, args with
    | v :: vs', a :: args' =>
      match bound_step vr p i v a st bs with
      | Stop r e => Stop r e
      | Cont st' bs' => scan_bounds vr p (S i) vs' args' st' bs'
      end
    | _, _ => Cont st bs
    end.

  (* end of the emitted function: errno test, errno restored, finiteness test *)
  Definition finish (vr : variant) (st bs : Z) (v : ext T) (el e0 : Z) : result T :=
    let st1 := if Z.eqb el 0 then st else -3 in
    let cen := if Z.eqb el 0 then 0 else el in
    let st2 := if isfinite v then st1 else -4 in
    let r := match vr with Documented => if Z.ltb st2 0 then NaN else v | _ => v end in
    Res st2 bs cen r e0.

  (* the generic-interface function *)
  Definition generic (vr : variant) (d : decl) (args : list (ext T)) (nargs : nat) (p : policy) (e0 : Z)
             (body : outcome T) : result T :=
    let n := length (inputs d) in
    if negb (Nat.eqb nargs n) then Res (-5) 0 0 NaN e0 else
    match first_oob v_phys 1 (inputs d) args with
    | Some i => Res (-1) (- Z.of_nat i) 0 NaN e0
    | None =>
      match scan_bounds vr p 1 (inputs d) args 0 0 with
      | Stop i restores => Res (-1) (- Z.of_nat i) 0 NaN (if restores then e0 else 0)
      | Cont st bs =>
        match body with
        | Throws => Res (-2) bs 0 NaN e0
        | Returns v el =>
          if oob_opt (v_phys (output d)) v then Res (-1) (- Z.of_nat (S n)) 0 NaN e0 else
          match bound_step vr p (S n) (output d) v st bs with
          | Stop i restores => Res (-1) (- Z.of_nat i) 0 NaN (if restores then e0 else el)
          | Cont st' bs' => finish vr st' bs' v el e0
          end
        end
      end
    end.

  (* C interface: int <name>_checkBounds(args...) *)
  Definition c_checkBounds (d : decl) (args : list (ext T)) : Z :=
    match first_oob v_phys 1 (inputs d) args with
    | Some i => - Z.of_nat i
    | None => match first_oob v_bounds 1 (inputs d) args with
              | Some i => Z.of_nat i
              | None => 0
              end
    end.

  (* ---- DSL options: parameters file (status -6), static parameters, disabled runtime checks ------------------- *)
  Definition pline_ok (l : pline) : bool :=
    match l with PBlank | PComment => true | PAssign known conv => known && conv | PTokens => false end.
  (* is the file `<name>-parameters.txt` of the current directory read at the first call? *)
  Definition reads_file (o : options) : bool := o_params o && negb (o_static o) && o_from_file o.
  (* `ok` member of the handler singleton; pf = None: no such file *)
  Definition handler_ok (o : options) (pf : option (list pline)) : bool :=
    match pf with None => true | Some ls => negb (reads_file o) || forallb pline_ok ls end.

  (* disable_runtime_checks: no errno bookkeeping, no argument count, no bounds, no errno / finiteness test *)
  Definition generic_nochecks (e0 : Z) (body : outcome T) : result T :=
    match body with
    | Throws => Res (-2) 0 0 NaN e0
    | Returns v el => Res 0 0 0 v (if Z.eqb el 0 then e0 else el)
    end.

  Definition generic_opt (vr : variant) (o : options) (pf : option (list pline)) (d : decl) (args : list (ext T))
             (nargs : nat) (p : policy) (e0 : Z) (body : outcome T) : result T :=
    if o_nochecks o then generic_nochecks e0 body else
    if Nat.eqb nargs (length (inputs d)) && negb (handler_ok o pf) then Res (-6) 0 0 NaN e0 else
    generic vr d args nargs p e0 body.

  (* ---- c++ interface (mfront/src/CppMaterialPropertyInterface.cxx) ------------------------------------------ *)
  (* policy in force: OUT_OF_BOUNDS_POLICY (STRICT / WARNING / anything else = nothing done) unless the DSL option
     out_of_bounds_policy_runtime_modification is false; default_out_of_bounds_policy when the variable is unset *)
  Definition cxx_policy (dflt : policy) (rtmod : bool) (env : option policy) : policy :=
    if rtmod then match env with Some p => p | None => dflt end else dflt.

  (* ranks (from i) of all the variables whose selected bounds are violated *)
  Fixpoint all_oob (sel : var -> option (bounds T)) (i : nat) (vs : list var) (args : list (ext T)) : list nat :=
    match vs, args with
    | v :: vs', a :: args' => if oob_opt (sel v) a then i :: all_oob sel (S i) vs' args' else all_oob sel (S i) vs' args'
    | _, _ => []
    end.

  (* static void checkBounds(args...): throws std::range_error naming a variable, or returns after having written
     the out-of-bounds variables to std::cerr (Warning) *)
  Inductive cxx_cb := CbThrow (rank : nat) (physical : bool) | CbPass (warned : list nat).
  Definition cxx_checkBounds (nochecks : bool) (d : decl) (args : list (ext T)) (p : policy) : cxx_cb :=
    if nochecks then CbPass [] else
    match first_oob v_phys 1 (inputs d) args with
    | Some i => CbThrow i true
    | None =>
      match p with
      | PStrict => match first_oob v_bounds 1 (inputs d) args with Some i => CbThrow i false | None => CbPass [] end
      | PWarning => CbPass (all_oob v_bounds 1 (inputs d) args)
      | PNone => CbPass []
      end
    end.

  (* double operator()(args...) const *)
  Inductive cxx_out :=
  | XRange (rank : nat) (physical : bool)     (* std::range_error naming the variable of that rank (n+1: output) *)
  | XRuntime                                  (* std::runtime_error: errno set or non-finite value *)
  | XLaw                                      (* the exception of the law goes through *)
  | XValue (v : ext T) (warned : list nat).
  Definition cxx_call (nochecks : bool) (d : decl) (args : list (ext T)) (p : policy) (body : outcome T) : cxx_out :=
    let n := length (inputs d) in
    match cxx_checkBounds nochecks d args p with
    | CbThrow i ph => XRange i ph
    | CbPass w =>
      match body with
      | Throws => XLaw
      | Returns v el =>
        if nochecks then XValue v [] else
        (* errno and finiteness are only looked at when the property has inputs *)
        if Nat.ltb 0 n && (negb (Z.eqb el 0) || negb (isfinite v)) then XRuntime else
        if oob_opt (v_phys (output d)) v then XRange (S n) true else
        if oob_opt (v_bounds (output d)) v then
          match p with
          | PStrict => XRange (S n) false
          | PWarning => XValue v (w ++ [S n])
          | PNone => XValue v w
          end
        else XValue v w
      end
    end.

  (* C interface, main function `double <name>(args...)`: the inputs are NOT checked there; nan for a violated
     physical bound of the output, an exception, errno set or a non-finite value (the last two only with inputs) *)
  Definition c_main (nochecks : bool) (d : decl) (body : outcome T) : ext T :=
    match body with
    | Throws => NaN
    | Returns v el =>
      if nochecks then v else
      if oob_opt (v_phys (output d)) v then NaN else
      if Nat.ltb 0 (length (inputs d)) && (negb (Z.eqb el 0) || negb (isfinite v)) then NaN else v
    end.
  (* `_checkBounds` with disable_runtime_checks: the function exists and returns 0 *)
  Definition c_checkBounds_opt (nochecks : bool) (d : decl) (args : list (ext T)) : Z :=
    if nochecks then 0 else c_checkBounds d args.
End Model.

Arguments Var {T}. Arguments Decl {T}.
Arguments v_bounds {T}. Arguments v_phys {T}. Arguments inputs {T}. Arguments output {T}.
Arguments XRange {T}. Arguments XRuntime {T}. Arguments XLaw {T}. Arguments XValue {T}.

(* C38 -- "all negative values indicate that the result is not usable; for a material property, the returned [value] is nan"
   (OutputStatus.h, docs/web/generic-material-property-interface.md), positive form: used when the generated code returns nan
   with status -3 / -4 (model variant `Documented`). *)
From Coq Require Import Reals List Bool ZArith.
From C38 Require Import C38Model C38Spec C38Proofs.
Local Open Scope Z_scope.

Theorem C38_negative_status_returns_nan : forall d args nargs p e0 body,
  status (generic R Rltb Documented d args nargs p e0 body) < 0 -> ret (generic R Rltb Documented d args nargs p e0 body) = NaN.
Proof. exact ret_documented. Qed.
Print Assumptions C38_negative_status_returns_nan.

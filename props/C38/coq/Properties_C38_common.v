(* C38 -- property theorems that hold for the code as found AND for the repaired code (any `vr`).
   Statements only; proofs are in C38Proofs.v.  Model instantiated with the reals (doubles = ext R: finite, +-inf, NaN). *)
From Coq Require Import Reals List Bool ZArith.
From C38 Require Import C38Model C38Spec C38Proofs.
Import ListNotations.
Local Open Scope Z_scope.

(* -5 for a wrong argument count, nan returned *)
Theorem C38_wrong_argument_count : forall vr d args nargs p e0 body, nargs <> length (inputs d) ->
  let g := generic R Rltb vr d args nargs p e0 body in status g = -5 /\ bounds_status g = 0 /\ ret g = NaN.
Proof. exact wrong_nargs. Qed.
Print Assumptions C38_wrong_argument_count.

(* physical bounds first and under every policy: -1 with minus the rank of the first offending argument, nan *)
Theorem C38_physical_bounds_first_any_policy : forall vr d args p e0 body i, first_viol v_phys d args i ->
  let g := generic R Rltb vr d args (length (inputs d)) p e0 body in
  status g = -1 /\ bounds_status g = - Z.of_nat i /\ ret g = NaN.
Proof. exact physical_first. Qed.
Print Assumptions C38_physical_bounds_first_any_policy.

(* Strict: -1 with minus the rank of the first argument out of its bounds *)
Theorem C38_strict_fails_with_minus_rank : forall vr d args e0 body i, no_viol v_phys d args -> first_viol v_bounds d args i ->
  let g := generic R Rltb vr d args (length (inputs d)) PStrict e0 body in
  status g = -1 /\ bounds_status g = - Z.of_nat i /\ ret g = NaN.
Proof. exact strict_bounds. Qed.
Print Assumptions C38_strict_fails_with_minus_rank.

(* Warning and None never fail because of standard bounds: a status -1 then comes from a physical bound *)
Theorem C38_warning_and_none_fail_only_on_physical_bounds : forall vr d args nargs p e0 body, p <> PStrict ->
  status (generic R Rltb vr d args nargs p e0 body) = -1 ->
  (exists i, first_viol v_phys d args i) \/ (exists v el, body = Returns v el /\ outside_opt (v_phys (output d)) v).
Proof. exact only_physical_fails. Qed.
Print Assumptions C38_warning_and_none_fail_only_on_physical_bounds.

(* Warning: status 1, positive rank, value still returned *)
Theorem C38_warning_reports_rank_and_returns_value : forall vr d args e0 x i, no_viol v_phys d args -> first_viol v_bounds d args i ->
  ~ outside_opt (v_phys (output d)) (Fin x) ->
  let g := generic R Rltb vr d args (length (inputs d)) PWarning e0 (Returns (Fin x) 0) in
  status g = 1 /\ 0 < bounds_status g /\ ret g = Fin x.
Proof. exact warning_reports. Qed.
Print Assumptions C38_warning_reports_rank_and_returns_value.

(* status 1 arises only under Warning, from a finite value computed without errno *)
Theorem C38_status_one_only_under_warning : forall vr d args nargs p e0 body,
  status (generic R Rltb vr d args nargs p e0 body) = 1 ->
  p = PWarning /\ exists x, body = Returns (Fin x) 0 /\ ret (generic R Rltb vr d args nargs p e0 body) = Fin x.
Proof. exact status_one. Qed.
Print Assumptions C38_status_one_only_under_warning.

(* None ignores standard bounds *)
Theorem C38_none_ignores_bounds : forall vr d args e0 x, no_viol v_phys d args -> ~ outside_opt (v_phys (output d)) (Fin x) ->
  let g := generic R Rltb vr d args (length (inputs d)) PNone e0 (Returns (Fin x) 0) in
  status g = 0 /\ bounds_status g = 0 /\ ret g = Fin x.
Proof. exact none_ignores_bounds. Qed.
Print Assumptions C38_none_ignores_bounds.

(* 0 inside bounds, bounds inclusive *)
Theorem C38_inside_bounds_status_zero : forall vr d args p e0 x, no_viol v_phys d args -> no_viol v_bounds d args ->
  ~ outside_opt (v_phys (output d)) (Fin x) -> ~ outside_opt (v_bounds (output d)) (Fin x) ->
  let g := generic R Rltb vr d args (length (inputs d)) p e0 (Returns (Fin x) 0) in
  status g = 0 /\ bounds_status g = 0 /\ ret g = Fin x.
Proof. exact all_inside. Qed.
Print Assumptions C38_inside_bounds_status_zero.

Theorem C38_bounds_inclusive : forall lb ub x,
  ((lb <= x <= ub)%R -> ~ outside (Both lb ub) (Fin x)) /\ ((lb <= x)%R -> ~ outside (Lower lb) (Fin x)) /\
  ((x <= ub)%R -> ~ outside (Upper ub) (Fin x)).
Proof. exact inclusive. Qed.
Print Assumptions C38_bounds_inclusive.

(* -4 for a non-finite result, -3 with c_error_number for errno left by the law *)
Theorem C38_errno_and_nonfinite_status : forall vr d args nargs p e0 v el,
  let g := generic R Rltb vr d args nargs p e0 (Returns v el) in
  status g <> -5 -> status g <> -1 ->
  (isfinite R v = false -> status g = -4) /\ (isfinite R v = true -> el <> 0 -> status g = -3 /\ c_error_number g = el).
Proof. exact c_errors. Qed.
Print Assumptions C38_errno_and_nonfinite_status.

(* an exception of the law gives -2 and nan (unless an earlier check already failed) *)
Theorem C38_exception_status : forall vr d args nargs p e0,
  let g := generic R Rltb vr d args nargs p e0 Throws in
  status g = -5 \/ status g = -1 \/ (status g = -2 /\ ret g = NaN).
Proof. exact exception_status. Qed.
Print Assumptions C38_exception_status.

(* C interface: <name>_checkBounds returns -rank (physical bounds first), +rank, or 0 *)
Theorem C38_checkBounds_physical : forall d args i, first_viol v_phys d args i -> c_checkBounds R Rltb d args = - Z.of_nat i.
Proof. exact cb_physical. Qed.
Print Assumptions C38_checkBounds_physical.

Theorem C38_checkBounds_bounds : forall d args i, no_viol v_phys d args -> first_viol v_bounds d args i ->
  c_checkBounds R Rltb d args = Z.of_nat i.
Proof. exact cb_bounds. Qed.
Print Assumptions C38_checkBounds_bounds.

Theorem C38_checkBounds_inside : forall d args, no_viol v_phys d args -> no_viol v_bounds d args -> c_checkBounds R Rltb d args = 0.
Proof. exact cb_inside. Qed.
Print Assumptions C38_checkBounds_inside.

(* "in the same situations": the C checkBounds and the generic interface report the same rank *)
Theorem C38_checkBounds_agrees_with_generic : forall vr d args e0 body,
  let cb := c_checkBounds R Rltb d args in
  (cb < 0 -> forall p, bounds_status (generic R Rltb vr d args (length (inputs d)) p e0 body) = cb) /\
  (0 < cb -> bounds_status (generic R Rltb vr d args (length (inputs d)) PStrict e0 body) = - cb).
Proof. exact cb_generic. Qed.
Print Assumptions C38_checkBounds_agrees_with_generic.

(* ---- extensions ---------------------------------------------------------------------------------------------- *)
(* every status is one of -5 .. 1 when no parameters file is involved *)
Theorem C38_status_range : forall vr d args nargs p e0 body, -5 <= status (generic R Rltb vr d args nargs p e0 body) <= 1.
Proof. exact status_range. Qed.
Print Assumptions C38_status_range.

(* NaN arguments: not specified by the documentation; the emitted tests are comparisons, which NaN passes *)
Theorem C38_nan_violates_no_bound_in_the_emitted_tests : forall b : bounds R, oob R Rltb b NaN = false.
Proof. exact nan_passes. Qed.
Print Assumptions C38_nan_violates_no_bound_in_the_emitted_tests.

(* status -6: the parameters file `<name>-parameters.txt` is read (parameters, not static, initialisation from file allowed)
   and has a line which is neither blank, nor a comment, nor `<parameter name> <number>`; nan, errno restored *)
Theorem C38_parameters_file_error_status : forall vr o pf d args p e0 body, o_nochecks o = false -> handler_ok o pf = false ->
  generic_opt R Rltb vr o pf d args (length (inputs d)) p e0 body = Res (-6) 0 0 NaN e0.
Proof. exact opt_minus6. Qed.
Print Assumptions C38_parameters_file_error_status.

Theorem C38_handler_fails_iff_bad_line : forall o pf,
  handler_ok o pf = false <-> reads_file o = true /\ exists ls, pf = Some ls /\ exists l, In l ls /\ bad_line l.
Proof. exact handler_not_ok. Qed.
Print Assumptions C38_handler_fails_iff_bad_line.

Theorem C38_status_minus_six_only_from_parameters_file : forall vr o pf d args nargs p e0 body,
  status (generic_opt R Rltb vr o pf d args nargs p e0 body) = -6 ->
  o_nochecks o = false /\ nargs = length (inputs d) /\ handler_ok o pf = false.
Proof. exact opt_minus6_only. Qed.
Print Assumptions C38_status_minus_six_only_from_parameters_file.

(* static parameters, parameters_initialization_from_file = false, no file, a well-formed file: nothing changes *)
Theorem C38_options_are_neutral_otherwise : forall vr o pf d args nargs p e0 body, o_nochecks o = false -> handler_ok o pf = true ->
  generic_opt R Rltb vr o pf d args nargs p e0 body = generic R Rltb vr d args nargs p e0 body.
Proof. exact opt_neutral. Qed.
Print Assumptions C38_options_are_neutral_otherwise.

Theorem C38_file_ignored_when_not_read : forall o pf, reads_file o = false -> handler_ok o pf = true.
Proof. exact handler_ok_without_file. Qed.
Print Assumptions C38_file_ignored_when_not_read.

(* disable_runtime_checks: no bounds, no argument count, no errno / finiteness test: 0 and the value, or -2 and nan *)
Theorem C38_disabled_runtime_checks : forall vr o pf d args nargs p e0 body, o_nochecks o = true ->
  let g := generic_opt R Rltb vr o pf d args nargs p e0 body in
  bounds_status g = 0 /\ c_error_number g = 0 /\
  match body with Throws => status g = -2 /\ ret g = NaN | Returns v _ => status g = 0 /\ ret g = v end.
Proof. exact opt_nochecks. Qed.
Print Assumptions C38_disabled_runtime_checks.

(* ---- c++ interface: static checkBounds and the functor ------------------------------------------------------- *)
(* physical bounds: std::range_error naming the first offender, under every policy *)
Theorem C38_cxx_checkBounds_physical : forall d args p i, first_viol v_phys d args i ->
  cxx_checkBounds R Rltb false d args p = CbThrow i true.
Proof. exact cxx_cb_physical. Qed.
Print Assumptions C38_cxx_checkBounds_physical.

Theorem C38_cxx_checkBounds_strict : forall d args i, no_viol v_phys d args -> first_viol v_bounds d args i ->
  cxx_checkBounds R Rltb false d args PStrict = CbThrow i false.
Proof. exact cxx_cb_strict. Qed.
Print Assumptions C38_cxx_checkBounds_strict.

(* Warning: never throws on standard bounds and reports exactly the out-of-bounds inputs *)
Theorem C38_cxx_checkBounds_warning : forall d args, no_viol v_phys d args ->
  exists w, cxx_checkBounds R Rltb false d args PWarning = CbPass w /\ forall i, In i w <-> viol_rank v_bounds d args i.
Proof. exact cxx_cb_warning. Qed.
Print Assumptions C38_cxx_checkBounds_warning.

Theorem C38_cxx_checkBounds_none : forall d args, no_viol v_phys d args -> cxx_checkBounds R Rltb false d args PNone = CbPass [].
Proof. exact cxx_cb_none. Qed.
Print Assumptions C38_cxx_checkBounds_none.

Theorem C38_cxx_checkBounds_inside : forall d args p, no_viol v_phys d args -> no_viol v_bounds d args ->
  cxx_checkBounds R Rltb false d args p = CbPass [].
Proof. exact cxx_cb_inside. Qed.
Print Assumptions C38_cxx_checkBounds_inside.

(* the three interfaces agree: what makes the c++ checkBounds throw makes the generic interface fail with minus that rank ... *)
Theorem C38_cxx_checkBounds_agrees_with_generic : forall vr d args p e0 body i ph,
  cxx_checkBounds R Rltb false d args p = CbThrow i ph ->
  let g := generic R Rltb vr d args (length (inputs d)) p e0 body in
  status g = -1 /\ bounds_status g = - Z.of_nat i /\ ret g = NaN.
Proof. exact cxx_cb_generic. Qed.
Print Assumptions C38_cxx_checkBounds_agrees_with_generic.

(* ... and is what the C interface's _checkBounds reports *)
Theorem C38_cxx_checkBounds_agrees_with_c : forall d args p,
  match cxx_checkBounds R Rltb false d args p with
  | CbThrow i true => c_checkBounds R Rltb d args = - Z.of_nat i
  | CbThrow i false => c_checkBounds R Rltb d args = Z.of_nat i /\ p = PStrict
  | CbPass w => 0 <= c_checkBounds R Rltb d args /\ forall i, In i w -> p = PWarning
  end.
Proof. exact cxx_cb_c. Qed.
Print Assumptions C38_cxx_checkBounds_agrees_with_c.

(* the functor: checkBounds first; the output's physical bounds under every policy, its bounds under Strict / Warning *)
Theorem C38_cxx_call_fails_as_checkBounds : forall d args p body i ph, cxx_checkBounds R Rltb false d args p = CbThrow i ph ->
  cxx_call R Rltb false d args p body = XRange i ph.
Proof. exact cxx_call_checkBounds. Qed.
Print Assumptions C38_cxx_call_fails_as_checkBounds.

Theorem C38_cxx_call_output_bounds : forall d args p w x, cxx_checkBounds R Rltb false d args p = CbPass w ->
  let r := cxx_call R Rltb false d args p (Returns (Fin x) 0) in
  (outside_opt (v_phys (output d)) (Fin x) -> r = XRange (S (length (inputs d))) true) /\
  (~ outside_opt (v_phys (output d)) (Fin x) -> outside_opt (v_bounds (output d)) (Fin x) ->
     match p with PStrict => r = XRange (S (length (inputs d))) false
                | PWarning => r = XValue (Fin x) (w ++ [S (length (inputs d))])
                | PNone => r = XValue (Fin x) w end) /\
  (~ outside_opt (v_phys (output d)) (Fin x) -> ~ outside_opt (v_bounds (output d)) (Fin x) -> r = XValue (Fin x) w).
Proof. exact cxx_call_output. Qed.
Print Assumptions C38_cxx_call_output_bounds.

Theorem C38_cxx_call_inside : forall d args p x, no_viol v_phys d args -> no_viol v_bounds d args ->
  ~ outside_opt (v_phys (output d)) (Fin x) -> ~ outside_opt (v_bounds (output d)) (Fin x) ->
  cxx_call R Rltb false d args p (Returns (Fin x) 0) = XValue (Fin x) [].
Proof. exact cxx_call_inside. Qed.
Print Assumptions C38_cxx_call_inside.

(* a value comes back only when nothing went wrong *)
Theorem C38_cxx_call_value_means_success : forall d args p body v w, cxx_call R Rltb false d args p body = XValue v w ->
  exists el w0, body = Returns v el /\ cxx_checkBounds R Rltb false d args p = CbPass w0 /\
                ~ outside_opt (v_phys (output d)) v /\ (p = PStrict -> ~ outside_opt (v_bounds (output d)) v) /\
                ((0 < length (inputs d))%nat -> el = 0 /\ isfinite R v = true).
Proof. exact cxx_call_value. Qed.
Print Assumptions C38_cxx_call_value_means_success.

(* C38 -- property theorems that hold for the code as found AND for the repaired code (any `vr`).
   Statements only; proofs are in C38Proofs.v.  Model instantiated with the reals (doubles = ext R: finite, +-inf, NaN). *)
From Coq Require Import Reals List Bool ZArith.
From C38 Require Import C38Model C38Spec C38Proofs.
Import ListNotations.
Local Open Scope Z_scope.

(* -5 for a wrong argument count, nan returned *)
Theorem C38_wrong_argument_count : forall vr d args nargs p e0 body, nargs <> length (inputs d) ->
  let g := generic R Rltb vr d args nargs p e0 body in status g = -5 /\ bounds_status g = 0 /\ ret g = NaN.
Proof. exact wrong_nargs. Qed.
Print Assumptions C38_wrong_argument_count.

(* physical bounds first and under every policy: -1 with minus the rank of the first offending argument, nan *)
Theorem C38_physical_bounds_first_any_policy : forall vr d args p e0 body i, first_viol v_phys d args i ->
  let g := generic R Rltb vr d args (length (inputs d)) p e0 body in
  status g = -1 /\ bounds_status g = - Z.of_nat i /\ ret g = NaN.
Proof. exact physical_first. Qed.
Print Assumptions C38_physical_bounds_first_any_policy.

(* Strict: -1 with minus the rank of the first argument out of its bounds *)
Theorem C38_strict_fails_with_minus_rank : forall vr d args e0 body i, no_viol v_phys d args -> first_viol v_bounds d args i ->
  let g := generic R Rltb vr d args (length (inputs d)) PStrict e0 body in
  status g = -1 /\ bounds_status g = - Z.of_nat i /\ ret g = NaN.
Proof. exact strict_bounds. Qed.
Print Assumptions C38_strict_fails_with_minus_rank.

(* Warning and None never fail because of standard bounds: a status -1 then comes from a physical bound *)
Theorem C38_warning_and_none_fail_only_on_physical_bounds : forall vr d args nargs p e0 body, p <> PStrict ->
  status (generic R Rltb vr d args nargs p e0 body) = -1 ->
  (exists i, first_viol v_phys d args i) \/ (exists v el, body = Returns v el /\ outside_opt (v_phys (output d)) v).
Proof. exact only_physical_fails. Qed.
Print Assumptions C38_warning_and_none_fail_only_on_physical_bounds.

(* Warning: status 1, positive rank, value still returned *)
Theorem C38_warning_reports_rank_and_returns_value : forall vr d args e0 x i, no_viol v_phys d args -> first_viol v_bounds d args i ->
  ~ outside_opt (v_phys (output d)) (Fin x) ->
  let g := generic R Rltb vr d args (length (inputs d)) PWarning e0 (Returns (Fin x) 0) in
  status g = 1 /\ 0 < bounds_status g /\ ret g = Fin x.
Proof. exact warning_reports. Qed.
Print Assumptions C38_warning_reports_rank_and_returns_value.

(* status 1 arises only under Warning, from a finite value computed without errno *)
Theorem C38_status_one_only_under_warning : forall vr d args nargs p e0 body,
  status (generic R Rltb vr d args nargs p e0 body) = 1 ->
  p = PWarning /\ exists x, body = Returns (Fin x) 0 /\ ret (generic R Rltb vr d args nargs p e0 body) = Fin x.
Proof. exact status_one. Qed.
Print Assumptions C38_status_one_only_under_warning.

(* None ignores standard bounds *)
Theorem C38_none_ignores_bounds : forall vr d args e0 x, no_viol v_phys d args -> ~ outside_opt (v_phys (output d)) (Fin x) ->
  let g := generic R Rltb vr d args (length (inputs d)) PNone e0 (Returns (Fin x) 0) in
  status g = 0 /\ bounds_status g = 0 /\ ret g = Fin x.
Proof. exact none_ignores_bounds. Qed.
Print Assumptions C38_none_ignores_bounds.

(* 0 inside bounds, bounds inclusive *)
Theorem C38_inside_bounds_status_zero : forall vr d args p e0 x, no_viol v_phys d args -> no_viol v_bounds d args ->
  ~ outside_opt (v_phys (output d)) (Fin x) -> ~ outside_opt (v_bounds (output d)) (Fin x) ->
  let g := generic R Rltb vr d args (length (inputs d)) p e0 (Returns (Fin x) 0) in
  status g = 0 /\ bounds_status g = 0 /\ ret g = Fin x.
Proof. exact all_inside. Qed.
Print Assumptions C38_inside_bounds_status_zero.

Theorem C38_bounds_inclusive : forall lb ub x,
  ((lb <= x <= ub)%R -> ~ outside (Both lb ub) (Fin x)) /\ ((lb <= x)%R -> ~ outside (Lower lb) (Fin x)) /\
  ((x <= ub)%R -> ~ outside (Upper ub) (Fin x)).
Proof. exact inclusive. Qed.
Print Assumptions C38_bounds_inclusive.

(* -4 for a non-finite result, -3 with c_error_number for errno left by the law *)
Theorem C38_errno_and_nonfinite_status : forall vr d args nargs p e0 v el,
  let g := generic R Rltb vr d args nargs p e0 (Returns v el) in
  status g <> -5 -> status g <> -1 ->
  (isfinite R v = false -> status g = -4) /\ (isfinite R v = true -> el <> 0 -> status g = -3 /\ c_error_number g = el).
Proof. exact c_errors. Qed.
Print Assumptions C38_errno_and_nonfinite_status.

(* an exception of the law gives -2 and nan (unless an earlier check already failed) *)
Theorem C38_exception_status : forall vr d args nargs p e0,
  let g := generic R Rltb vr d args nargs p e0 Throws in
  status g = -5 \/ status g = -1 \/ (status g = -2 /\ ret g = NaN).
Proof. exact exception_status. Qed.
Print Assumptions C38_exception_status.

(* C interface: <name>_checkBounds returns -rank (physical bounds first), +rank, or 0 *)
Theorem C38_checkBounds_physical : forall d args i, first_viol v_phys d args i -> c_checkBounds R Rltb d args = - Z.of_nat i.
Proof. exact cb_physical. Qed.
Print Assumptions C38_checkBounds_physical.

Theorem C38_checkBounds_bounds : forall d args i, no_viol v_phys d args -> first_viol v_bounds d args i ->
  c_checkBounds R Rltb d args = Z.of_nat i.
Proof. exact cb_bounds. Qed.
Print Assumptions C38_checkBounds_bounds.

Theorem C38_checkBounds_inside : forall d args, no_viol v_phys d args -> no_viol v_bounds d args -> c_checkBounds R Rltb d args = 0.
Proof. exact cb_inside. Qed.
Print Assumptions C38_checkBounds_inside.

(* "in the same situations": the C checkBounds and the generic interface report the same rank *)
Theorem C38_checkBounds_agrees_with_generic : forall vr d args e0 body,
  let cb := c_checkBounds R Rltb d args in
  (cb < 0 -> forall p, bounds_status (generic R Rltb vr d args (length (inputs d)) p e0 body) = cb) /\
  (0 < cb -> bounds_status (generic R Rltb vr d args (length (inputs d)) PStrict e0 body) = - cb).
Proof. exact cb_generic. Qed.
Print Assumptions C38_checkBounds_agrees_with_generic.

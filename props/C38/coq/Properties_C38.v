(* C38 -- errno clause, positive form: used when the tree restores errno in every branch (the check selects this file when
   the witness of finding F11 is NOT observed on the generated code; the model variant compared with the generated code on
   every case is then `Fixed` or `Documented`, see Properties_C38_ret*.v). *)
From Coq Require Import Reals List Bool ZArith.
From C38 Require Import C38Model C38Spec C38Proofs.
Local Open Scope Z_scope.

Theorem C38_errno_always_restored : forall vr d args nargs p e0 body, vr <> AsFound ->
  errno_after (generic R Rltb vr d args nargs p e0 body) = e0.
Proof. exact errno_repaired. Qed.
Print Assumptions C38_errno_always_restored.

(* also with parameters (status -6 included), static parameters, ...: every variant of the emission that keeps the runtime checks *)
Theorem C38_errno_always_restored_with_options : forall vr o pf d args nargs p e0 body, vr <> AsFound -> o_nochecks o = false ->
  errno_after (generic_opt R Rltb vr o pf d args nargs p e0 body) = e0.
Proof. exact opt_errno. Qed.
Print Assumptions C38_errno_always_restored_with_options.

(* C38 -- errno clause, positive form: used when the tree restores errno in every branch (the check selects this file when
   the witness of finding F11 is NOT observed on the generated code; the model variant `Fixed` is then the one compared
   with the generated code on every case). *)
From Coq Require Import Reals List Bool ZArith.
From C38 Require Import C38Model C38Spec C38Proofs.
Local Open Scope Z_scope.

Theorem C38_errno_always_restored : forall d args nargs p e0 body,
  errno_after (generic R Rltb Fixed d args nargs p e0 body) = e0.
Proof. exact errno_fixed. Qed.
Print Assumptions C38_errno_always_restored.

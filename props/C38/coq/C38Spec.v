(* C38 -- the documented contract (docs/web/generic-material-property-interface.md, OutputStatus.h), stated over the
   extended reals independently of the model's recursion: ranks are positions (from 1) found with nth_error. *)
From Coq Require Import Reals List Bool ZArith Lia.
From C38 Require Import C38Model.
Import ListNotations.
Local Open Scope R_scope.

Definition Rltb (a b : R) : bool := if Rlt_dec a b then true else false.

(* a double lies outside inclusive bounds; NaN compares false with everything *)
Definition outside (b : bounds R) (v : ext R) : Prop :=
  match v with
  | NaN => False
  | MInf => match b with Upper _ => False | _ => True end
  | PInf => match b with Lower _ => False | _ => True end
  | Fin x => match b with Lower lb => x < lb | Upper ub => x > ub | Both lb ub => x < lb \/ x > ub end
  end.
Definition outside_opt (ob : option (bounds R)) (v : ext R) : Prop :=
  match ob with None => False | Some b => outside b v end.

(* the j-th variable (from 0) has its selected bounds violated by the j-th argument *)
Definition viol_at (sel : var R -> option (bounds R)) (vs : list (var R)) (args : list (ext R)) (j : nat) : Prop :=
  exists v a, nth_error vs j = Some v /\ nth_error args j = Some a /\ outside_opt (sel v) a.
(* rank i (from 1) is the first violated one / nothing is violated *)
Definition first_viol sel (d : decl R) args (i : nat) : Prop :=
  (1 <= i)%nat /\ viol_at sel (inputs d) args (i - 1) /\ forall j, (j < i - 1)%nat -> ~ viol_at sel (inputs d) args j.
Definition no_viol sel (d : decl R) args : Prop := forall j, ~ viol_at sel (inputs d) args j.

Definition same_but_errno (r1 r2 : result R) : Prop :=
  status r1 = status r2 /\ bounds_status r1 = bounds_status r2 /\ c_error_number r1 = c_error_number r2 /\ ret r1 = ret r2.

(* ---- extensions: c++ interface, options, returned value ------------------------------------------------------ *)
(* rank i (from 1) designates an input whose selected bounds are violated *)
Definition viol_rank (sel : var R -> option (bounds R)) (d : decl R) (args : list (ext R)) (i : nat) : Prop :=
  (1 <= i)%nat /\ viol_at sel (inputs d) args (i - 1).

(* a line of the parameters file that the documentation of the handler calls an error *)
Definition bad_line (l : pline) : Prop :=
  l = PTokens \/ exists known conv, l = PAssign known conv /\ (known = false \/ conv = false).

(* two results that differ at most by the value returned with a negative status *)
Definition same_but_failed_ret (r1 r2 : result R) : Prop :=
  status r1 = status r2 /\ bounds_status r1 = bounds_status r2 /\ c_error_number r1 = c_error_number r2 /\
  errno_after r1 = errno_after r2 /\ ((0 <= status r1)%Z -> ret r1 = ret r2).

(* C38 -- returned value for a negative status on the tree as found: the check selects this file when the generated code is
   observed to return the computed value with status -3 / -4 (model variant `Fixed`, or `AsFound` together with F11). *)
From Coq Require Import Reals List Bool ZArith.
From C38 Require Import C38Model C38Spec C38Proofs.
Local Open Scope Z_scope.

(* false today: no input, law value 1 with errno left at EDOM -> status -3 and 1 returned *)
Theorem C38_negative_status_returns_nan_refuted :
  exists d args nargs p e0 body, status (generic R Rltb Fixed d args nargs p e0 body) < 0 /\
                                 ret (generic R Rltb Fixed d args nargs p e0 body) <> NaN.
Proof. exact ret_fixed_refuted. Qed.
Print Assumptions C38_negative_status_returns_nan_refuted.

(* with `return std::nan("")` for a negative final status the documented clause holds ... *)
Theorem C38_negative_status_returns_nan_once_repaired : forall d args nargs p e0 body,
  status (generic R Rltb Documented d args nargs p e0 body) < 0 -> ret (generic R Rltb Documented d args nargs p e0 body) = NaN.
Proof. exact ret_documented. Qed.
Print Assumptions C38_negative_status_returns_nan_once_repaired.

(* ... and nothing else changes: same status, bounds_status, c_error_number, errno; same value whenever the status is 0 or 1 *)
Theorem C38_repair_changes_only_failed_return_value : forall d args nargs p e0 body,
  same_but_failed_ret (generic R Rltb Fixed d args nargs p e0 body) (generic R Rltb Documented d args nargs p e0 body).
Proof. exact ret_variants_agree. Qed.
Print Assumptions C38_repair_changes_only_failed_return_value.

(* C38 -- lemmas about the contract model *)
From Coq Require Import Reals List Bool ZArith Lia Lra.
From C38 Require Import C38Model C38Spec.
Import ListNotations.
Local Open Scope Z_scope.

Lemma Rltb_true a b : Rltb a b = true <-> (a < b)%R.
Proof. unfold Rltb; destruct (Rlt_dec a b); split; intros; auto; try discriminate; contradiction. Qed.

Lemma oob_outside b v : oob R Rltb b v = true <-> outside b v.
Proof.
  destruct b, v; simpl; rewrite ?orb_true_iff, ?Rltb_true; unfold Rgt; try tauto;
    try (split; [discriminate | tauto]); try (split; [intros [H|H]; discriminate | tauto]);
    try (split; auto).
Qed.

Lemma oob_opt_outside ob v : oob_opt R Rltb ob v = true <-> outside_opt ob v.
Proof. destruct ob; simpl; [apply oob_outside | split; [discriminate | tauto]]. Qed.

Lemma oob_opt_false ob v : oob_opt R Rltb ob v = false <-> ~ outside_opt ob v.
Proof.
  rewrite <- oob_opt_outside. destruct (oob_opt R Rltb ob v); split; intros H; try discriminate; try reflexivity.
  exfalso; apply H; reflexivity.
Qed.

(* ---- first_oob finds the first violated position ----------------------------------------------------------- *)
Lemma first_oob_some sel k vs args i :
  first_oob R Rltb sel k vs args = Some i <->
  exists j, i = (k + j)%nat /\ viol_at sel vs args j /\ forall j', (j' < j)%nat -> ~ viol_at sel vs args j'.
Proof.
  revert k args; induction vs as [|v vs IH]; intros k args; simpl.
  - split; [discriminate | intros (j & _ & (w & a & H & _) & _); destruct j; discriminate].
  - destruct args as [|a args].
    + split; [discriminate | intros (j & _ & (w & a & _ & H & _) & _); destruct j; discriminate].
    + destruct (oob_opt R Rltb (sel v) a) eqn:E.
      * apply oob_opt_outside in E. split.
        -- intros H; inversion H; subst. exists 0%nat. split; [lia|]. split.
           ++ exists v, a; simpl; auto.
           ++ intros j' Hj; lia.
        -- intros (j & -> & Hv & Hmin). destruct j; [f_equal; lia|].
           exfalso. apply (Hmin 0%nat); [lia|]. exists v, a; simpl; auto.
      * apply oob_opt_false in E. rewrite IH. split.
        -- intros (j & -> & (w & b & H1 & H2 & H3) & Hmin). exists (S j). split; [lia|]. split.
           ++ exists w, b; simpl; auto.
           ++ intros j' Hj (w' & b' & G1 & G2 & G3). destruct j'; simpl in *.
              ** inversion G1; inversion G2; subst; contradiction.
              ** apply (Hmin j'); [lia|]. exists w', b'; auto.
        -- intros (j & -> & (w & b & H1 & H2 & H3) & Hmin). destruct j; simpl in *.
           ++ inversion H1; inversion H2; subst; contradiction.
           ++ exists j. split; [lia|]. split; [exists w, b; auto|].
              intros j' Hj (w' & b' & G1 & G2 & G3). apply (Hmin (S j')); [lia|]. exists w', b'; simpl; auto.
Qed.

Lemma first_oob_none sel k vs args :
  first_oob R Rltb sel k vs args = None <-> forall j, ~ viol_at sel vs args j.
Proof.
  revert k args; induction vs as [|v vs IH]; intros k args; simpl.
  - split; auto. intros _ j (w & a & H & _); destruct j; discriminate.
  - destruct args as [|a args].
    + split; auto. intros _ j (w & a & _ & H & _); destruct j; discriminate.
    + destruct (oob_opt R Rltb (sel v) a) eqn:E.
      * apply oob_opt_outside in E. split; [discriminate|]. intros H. exfalso. apply (H 0%nat). exists v, a; simpl; auto.
      * apply oob_opt_false in E. rewrite IH. split.
        -- intros H j (w & b & G1 & G2 & G3). destruct j; simpl in *.
           ++ inversion G1; inversion G2; subst; contradiction.
           ++ apply (H j). exists w, b; auto.
        -- intros H j (w & b & G1 & G2 & G3). apply (H (S j)). exists w, b; simpl; auto.
Qed.

Lemma first_viol_oob sel d args i :
  first_viol sel d args i <-> first_oob R Rltb sel 1 (inputs d) args = Some i.
Proof.
  rewrite first_oob_some. unfold first_viol. split.
  - intros (Hi & Hv & Hmin). exists (i - 1)%nat. split; [lia|]. split; auto.
  - intros (j & -> & Hv & Hmin). replace (1 + j - 1)%nat with j by lia. split; [lia|]. split; auto.
Qed.

Lemma no_viol_oob sel d args : no_viol sel d args <-> first_oob R Rltb sel 1 (inputs d) args = None.
Proof. rewrite first_oob_none. unfold no_viol. tauto. Qed.

(* ---- the scan of standard bounds ---------------------------------------------------------------------------- *)
Lemma scan_none vr k vs args st bs : scan_bounds R Rltb vr PNone k vs args st bs = Cont st bs.
Proof.
  revert k args; induction vs as [|v vs IH]; intros k args; simpl; auto.
  destruct args as [|a args]; auto. unfold bound_step.
  destruct (v_bounds v); [destruct (oob R Rltb b a)|]; apply IH.
Qed.

Lemma scan_warning vr k vs args st bs : exists st' bs', scan_bounds R Rltb vr PWarning k vs args st bs = Cont st' bs' /\
  (first_oob R Rltb v_bounds k vs args = None -> st' = st /\ bs' = bs) /\
  (first_oob R Rltb v_bounds k vs args <> None -> (1 <= k)%nat -> st' = 1 /\ 0 < bs').
Proof.
  revert k args st bs; induction vs as [|v vs IH]; intros k args st bs; simpl.
  - exists st, bs. split; [reflexivity|]. split; [intros _; auto | intros H0; exfalso; apply H0; reflexivity].
  - destruct args as [|a args].
    + exists st, bs. split; [reflexivity|]. split; [intros _; auto | intros H0; exfalso; apply H0; reflexivity].
    + unfold bound_step, oob_opt. destruct (v_bounds v) as [b|].
      * destruct (oob R Rltb b a).
        -- destruct (IH (S k) args 1 (Z.of_nat k)) as (st' & bs' & E & H2 & H3).
           exists st', bs'. split; auto. split; [discriminate|]. intros _ Hk.
           destruct (first_oob R Rltb v_bounds (S k) vs args) eqn:F.
           ++ apply H3; [discriminate | lia].
           ++ destruct (H2 eq_refl) as (-> & ->). split; auto. lia.
        -- destruct (IH (S k) args st bs) as (st' & bs' & E & H2 & H3).
           exists st', bs'. split; [exact E|]. split; [exact H2|]. intros Hn Hk. apply H3; [exact Hn | lia].
      * destruct (IH (S k) args st bs) as (st' & bs' & E & H2 & H3).
        exists st', bs'. split; [exact E|]. split; [exact H2|]. intros Hn Hk. apply H3; [exact Hn | lia].
Qed.

Lemma scan_strict vr k vs args st bs :
  match first_oob R Rltb v_bounds k vs args with
  | Some i => exists r, scan_bounds R Rltb vr PStrict k vs args st bs = Stop i r
  | None => scan_bounds R Rltb vr PStrict k vs args st bs = Cont st bs
  end.
Proof.
  revert k args; induction vs as [|v vs IH]; intros k args; simpl; auto.
  destruct args as [|a args]; auto. unfold bound_step, oob_opt.
  destruct (v_bounds v) as [b|]; [destruct (oob R Rltb b a)|]; try apply IH.
  eexists; reflexivity.
Qed.

Lemma bound_step_fixed p i v a st bs i' r : bound_step R Rltb Fixed p i v a st bs = Stop i' r -> r = true.
Proof.
  unfold bound_step. destruct (v_bounds v) as [b|]; [destruct (oob R Rltb b a); [destruct p|]|]; try discriminate.
  intros H; inversion H; reflexivity.
Qed.

Lemma scan_fixed_restores p k vs args st bs i r : scan_bounds R Rltb Fixed p k vs args st bs = Stop i r -> r = true.
Proof.
  revert k args st bs; induction vs as [|v vs IH]; intros k args st bs; simpl; try discriminate.
  destruct args as [|a args]; try discriminate.
  destruct (bound_step R Rltb Fixed p k v a st bs) eqn:B.
  - intros H; inversion H; subst. eapply bound_step_fixed; eauto.
  - apply IH.
Qed.

(* the two variants stop at the same rank / continue with the same status *)
Definition forget (s : scan) : scan := match s with Stop i _ => Stop i true | c => c end.

Lemma bound_step_variant p i v a st bs :
  forget (bound_step R Rltb AsFound p i v a st bs) = forget (bound_step R Rltb Fixed p i v a st bs).
Proof. unfold bound_step. destruct (v_bounds v) as [b|]; [destruct (oob R Rltb b a); [destruct p|]|]; reflexivity. Qed.

Lemma scan_variant p k vs args st bs :
  forget (scan_bounds R Rltb AsFound p k vs args st bs) = forget (scan_bounds R Rltb Fixed p k vs args st bs).
Proof.
  revert k args st bs; induction vs as [|v vs IH]; intros k args st bs; simpl; auto.
  destruct args as [|a args]; auto.
  pose proof (bound_step_variant p k v a st bs) as B.
  destruct (bound_step R Rltb AsFound p k v a st bs), (bound_step R Rltb Fixed p k v a st bs); simpl in B; inversion B; subst; auto.
Qed.

(* ---- theorems about `generic` ---------------------------------------------------------------------------- *)
Lemma errno_fixed d args nargs p e0 body : errno_after (generic R Rltb Fixed d args nargs p e0 body) = e0.
Proof.
  unfold generic. destruct (negb (Nat.eqb nargs (length (inputs d)))); simpl; auto.
  destruct (first_oob R Rltb v_phys 1 (inputs d) args); simpl; auto.
  destruct (scan_bounds R Rltb Fixed p 1 (inputs d) args 0 0) eqn:HS.
  - apply scan_fixed_restores in HS. subst. reflexivity.
  - destruct body; simpl; auto. destruct (oob_opt R Rltb (v_phys (output d)) v); simpl; auto.
    destruct (bound_step R Rltb Fixed p (S (length (inputs d))) (output d) v st bs) eqn:B.
    + apply bound_step_fixed in B; subst; reflexivity.
    + reflexivity.
Qed.

Lemma errno_asfound_refuted :
  exists d args nargs p e0 body, errno_after (generic R Rltb AsFound d args nargs p e0 body) <> e0.
Proof.
  exists (Decl [Var (Some (Upper 1%R)) None] (Var None None)), [Fin 2%R], 1%nat, PStrict, 33, (Returns (Fin 0%R) 0).
  unfold generic, Rltb; cbn. destruct (Rlt_dec 1 2) as [_|H]; [cbn; lia | exfalso; apply H; lra].
Qed.

Lemma variants_agree d args nargs p e0 body :
  same_but_errno (generic R Rltb AsFound d args nargs p e0 body) (generic R Rltb Fixed d args nargs p e0 body).
Proof.
  unfold same_but_errno, generic. destruct (negb (Nat.eqb nargs (length (inputs d)))); simpl; auto.
  destruct (first_oob R Rltb v_phys 1 (inputs d) args); simpl; auto.
  pose proof (scan_variant p 1 (inputs d) args 0 0) as HS.
  destruct (scan_bounds R Rltb AsFound p 1 (inputs d) args 0 0), (scan_bounds R Rltb Fixed p 1 (inputs d) args 0 0);
    simpl in HS; inversion HS; subst; simpl; auto.
  destruct body; simpl; auto. destruct (oob_opt R Rltb (v_phys (output d)) v); simpl; auto.
  pose proof (bound_step_variant p (S (length (inputs d))) (output d) v st0 bs0) as B.
  destruct (bound_step R Rltb AsFound p (S (length (inputs d))) (output d) v st0 bs0),
           (bound_step R Rltb Fixed p (S (length (inputs d))) (output d) v st0 bs0); simpl in B; inversion B; subst; simpl; auto.
Qed.

Lemma wrong_nargs vr d args nargs p e0 body : nargs <> length (inputs d) ->
  let g := generic R Rltb vr d args nargs p e0 body in status g = -5 /\ bounds_status g = 0 /\ ret g = NaN.
Proof.
  intros H. unfold generic. destruct (Nat.eqb nargs (length (inputs d))) eqn:E.
  - apply Nat.eqb_eq in E. contradiction.
  - simpl. auto.
Qed.

Lemma physical_first vr d args p e0 body i : first_viol v_phys d args i ->
  let g := generic R Rltb vr d args (length (inputs d)) p e0 body in
  status g = -1 /\ bounds_status g = - Z.of_nat i /\ ret g = NaN.
Proof.
  intros H. apply first_viol_oob in H. unfold generic. rewrite Nat.eqb_refl. simpl. rewrite H. simpl. auto.
Qed.

Lemma strict_bounds vr d args e0 body i : no_viol v_phys d args -> first_viol v_bounds d args i ->
  let g := generic R Rltb vr d args (length (inputs d)) PStrict e0 body in
  status g = -1 /\ bounds_status g = - Z.of_nat i /\ ret g = NaN.
Proof.
  intros Hp Hb. apply no_viol_oob in Hp. apply first_viol_oob in Hb.
  unfold generic. rewrite Nat.eqb_refl. simpl. rewrite Hp.
  pose proof (scan_strict vr 1 (inputs d) args 0 0) as HS. rewrite Hb in HS. destruct HS as (r & ->). simpl. auto.
Qed.

(* a status -1 under Warning or None can only come from a physical bound *)
Lemma only_physical_fails vr d args nargs p e0 body : p <> PStrict ->
  status (generic R Rltb vr d args nargs p e0 body) = -1 ->
  (exists i, first_viol v_phys d args i) \/
  (exists v el, body = Returns v el /\ outside_opt (v_phys (output d)) v).
Proof.
  intros Hp. unfold generic. destruct (negb (Nat.eqb nargs (length (inputs d)))); simpl; [discriminate|].
  destruct (first_oob R Rltb v_phys 1 (inputs d) args) eqn:F.
  - intros _. left. exists n. now apply first_viol_oob.
  - assert (HS : exists st bs, scan_bounds R Rltb vr p 1 (inputs d) args 0 0 = Cont st bs /\ (st = 0 \/ st = 1)).
    { destruct p; [| |contradiction].
      - rewrite scan_none. eauto.
      - destruct (scan_warning vr 1 (inputs d) args 0 0) as (st & bs & E & H1 & H2). exists st, bs. split; auto.
        destruct (first_oob R Rltb v_bounds 1 (inputs d) args) eqn:G.
        + right. apply H2; [discriminate | lia].
        + left. apply H1; reflexivity. }
    destruct HS as (st & bs & -> & Hst). destruct body as [v el|]; simpl; [|discriminate].
    destruct (oob_opt R Rltb (v_phys (output d)) v) eqn:O.
    + intros _. right. exists v, el. split; auto. now apply oob_opt_outside.
    + unfold bound_step. destruct (v_bounds (output d)) as [b|].
      * destruct (oob R Rltb b v); [destruct p; [| |contradiction]|]; unfold finish; simpl;
          destruct (Z.eqb el 0), (isfinite R v); simpl; intros H; try discriminate; destruct Hst; subst; discriminate.
      * unfold finish; simpl; destruct (Z.eqb el 0), (isfinite R v); simpl; intros H; try discriminate; destruct Hst; subst; discriminate.
Qed.

(* with policy None the standard bounds are ignored *)
Lemma none_ignores_bounds vr d args e0 x : no_viol v_phys d args -> ~ outside_opt (v_phys (output d)) (Fin x) ->
  let g := generic R Rltb vr d args (length (inputs d)) PNone e0 (Returns (Fin x) 0) in
  status g = 0 /\ bounds_status g = 0 /\ ret g = Fin x.
Proof.
  intros Hp Ho. apply no_viol_oob in Hp. apply oob_opt_false in Ho.
  unfold generic. rewrite Nat.eqb_refl. simpl. rewrite Hp, scan_none. simpl. rewrite Ho.
  unfold bound_step. destruct (v_bounds (output d)) as [b|]; [destruct (oob R Rltb b (Fin x))|]; unfold finish; simpl; auto.
Qed.

(* everything inside (bounds inclusive): status 0 under every policy *)
Lemma all_inside vr d args p e0 x : no_viol v_phys d args -> no_viol v_bounds d args ->
  ~ outside_opt (v_phys (output d)) (Fin x) -> ~ outside_opt (v_bounds (output d)) (Fin x) ->
  let g := generic R Rltb vr d args (length (inputs d)) p e0 (Returns (Fin x) 0) in
  status g = 0 /\ bounds_status g = 0 /\ ret g = Fin x.
Proof.
  intros Hp Hb Ho Hob. apply no_viol_oob in Hp. apply no_viol_oob in Hb. apply oob_opt_false in Ho. apply oob_opt_false in Hob.
  unfold generic. rewrite Nat.eqb_refl. simpl. rewrite Hp.
  assert (HS : scan_bounds R Rltb vr p 1 (inputs d) args 0 0 = Cont 0 0).
  { destruct p.
    - apply scan_none.
    - destruct (scan_warning vr 1 (inputs d) args 0 0) as (st & bs & E & H1 & _). destruct (H1 Hb) as (-> & ->). exact E.
    - pose proof (scan_strict vr 1 (inputs d) args 0 0) as HS. rewrite Hb in HS. exact HS. }
  rewrite HS. simpl. rewrite Ho. unfold bound_step. unfold oob_opt in Hob.
  destruct (v_bounds (output d)) as [b|]; [rewrite Hob|]; unfold finish; simpl; auto.
Qed.

(* status 1 only under Warning, with a positive rank and the computed value returned *)
Lemma status_one vr d args nargs p e0 body :
  status (generic R Rltb vr d args nargs p e0 body) = 1 ->
  p = PWarning /\ exists x, body = Returns (Fin x) 0 /\ ret (generic R Rltb vr d args nargs p e0 body) = Fin x.
Proof.
  unfold generic. destruct (negb (Nat.eqb nargs (length (inputs d)))); simpl; [discriminate|].
  destruct (first_oob R Rltb v_phys 1 (inputs d) args); simpl; [discriminate|].
  destruct p.
  - rewrite scan_none. destruct body as [v el|]; simpl; [|discriminate].
    destruct (oob_opt R Rltb (v_phys (output d)) v); simpl; [discriminate|].
    unfold bound_step. destruct (v_bounds (output d)) as [b|]; [destruct (oob R Rltb b v)|]; unfold finish; simpl;
      destruct (Z.eqb el 0), (isfinite R v); simpl; discriminate.
  - destruct (scan_warning vr 1 (inputs d) args 0 0) as (st & bs & -> & _ & _).
    destruct body as [v el|]; simpl; [|discriminate].
    destruct (oob_opt R Rltb (v_phys (output d)) v); simpl; [discriminate|].
    intros H. split; auto.
    assert (G : exists st' bs', bound_step R Rltb vr PWarning (S (length (inputs d))) (output d) v st bs = Cont st' bs').
    { unfold bound_step. destruct (v_bounds (output d)) as [b|]; [destruct (oob R Rltb b v)|]; eauto. }
    destruct G as (st' & bs' & G). rewrite G in *. unfold finish in *; simpl in *.
    destruct (Z.eqb el 0) eqn:E; destruct v; simpl in *; try discriminate.
    apply Z.eqb_eq in E; subst. exists v. auto.
  - pose proof (scan_strict vr 1 (inputs d) args 0 0) as HS.
    destruct (first_oob R Rltb v_bounds 1 (inputs d) args).
    + destruct HS as (r & ->). simpl. discriminate.
    + rewrite HS. destruct body as [v el|]; simpl; [|discriminate].
      destruct (oob_opt R Rltb (v_phys (output d)) v); simpl; [discriminate|].
      unfold bound_step. destruct (v_bounds (output d)) as [b|]; [destruct (oob R Rltb b v)|]; unfold finish; simpl;
        destruct (Z.eqb el 0), (isfinite R v); simpl; discriminate.
Qed.

(* Warning reports an out-of-bounds argument with status 1 and its (positive) rank, and still returns the value *)
Lemma warning_reports vr d args e0 x i : no_viol v_phys d args -> first_viol v_bounds d args i ->
  ~ outside_opt (v_phys (output d)) (Fin x) ->
  let g := generic R Rltb vr d args (length (inputs d)) PWarning e0 (Returns (Fin x) 0) in
  status g = 1 /\ 0 < bounds_status g /\ ret g = Fin x.
Proof.
  intros Hp Hb Ho. apply no_viol_oob in Hp. apply first_viol_oob in Hb. apply oob_opt_false in Ho.
  unfold generic. rewrite Nat.eqb_refl. simpl. rewrite Hp.
  destruct (scan_warning vr 1 (inputs d) args 0 0) as (st & bs & -> & _ & H2).
  destruct H2 as (-> & Hbs); [rewrite Hb; discriminate | lia |].
  simpl. rewrite Ho. unfold bound_step.
  destruct (v_bounds (output d)) as [b|]; [destruct (oob R Rltb b (Fin x))|]; unfold finish; simpl; repeat split; auto; lia.
Qed.

(* errno left by the law / non-finite value, when every check passed *)
Lemma c_errors vr d args nargs p e0 v el :
  let g := generic R Rltb vr d args nargs p e0 (Returns v el) in
  status g <> -5 -> status g <> -1 ->
  (isfinite R v = false -> status g = -4) /\
  (isfinite R v = true -> el <> 0 -> status g = -3 /\ c_error_number g = el).
Proof.
  unfold generic. destruct (negb (Nat.eqb nargs (length (inputs d)))); simpl; [intros H; exfalso; apply H; reflexivity|].
  destruct (first_oob R Rltb v_phys 1 (inputs d) args); simpl; [intros _ H; exfalso; apply H; reflexivity|].
  destruct (scan_bounds R Rltb vr p 1 (inputs d) args 0 0); simpl; [intros _ H; exfalso; apply H; reflexivity|].
  destruct (oob_opt R Rltb (v_phys (output d)) v); simpl; [intros _ H; exfalso; apply H; reflexivity|].
  destruct (bound_step R Rltb vr p (S (length (inputs d))) (output d) v st bs); simpl; [intros _ H; exfalso; apply H; reflexivity|].
  intros _ _. unfold finish; simpl. split.
  - intros ->. reflexivity.
  - intros -> Hel. destruct (Z.eqb el 0) eqn:E; [apply Z.eqb_eq in E; contradiction|]. simpl. auto.
Qed.

Lemma exception_status vr d args nargs p e0 :
  let g := generic R Rltb vr d args nargs p e0 Throws in
  status g = -5 \/ status g = -1 \/ (status g = -2 /\ ret g = NaN).
Proof.
  unfold generic. destruct (negb (Nat.eqb nargs (length (inputs d)))); simpl; auto.
  destruct (first_oob R Rltb v_phys 1 (inputs d) args); simpl; auto.
  destruct (scan_bounds R Rltb vr p 1 (inputs d) args 0 0); simpl; auto.
Qed.

Lemma inclusive lb ub x :
  ((lb <= x <= ub)%R -> ~ outside (Both lb ub) (Fin x)) /\ ((lb <= x)%R -> ~ outside (Lower lb) (Fin x)) /\
  ((x <= ub)%R -> ~ outside (Upper ub) (Fin x)).
Proof. simpl. repeat split; intros; lra. Qed.

(* ---- C interface ------------------------------------------------------------------------------------------ *)
Lemma cb_physical d args i : first_viol v_phys d args i -> c_checkBounds R Rltb d args = - Z.of_nat i.
Proof. intros H. apply first_viol_oob in H. unfold c_checkBounds. rewrite H. reflexivity. Qed.

Lemma cb_bounds d args i : no_viol v_phys d args -> first_viol v_bounds d args i -> c_checkBounds R Rltb d args = Z.of_nat i.
Proof.
  intros Hp H. apply no_viol_oob in Hp. apply first_viol_oob in H. unfold c_checkBounds. rewrite Hp, H. reflexivity.
Qed.

Lemma cb_inside d args : no_viol v_phys d args -> no_viol v_bounds d args -> c_checkBounds R Rltb d args = 0.
Proof.
  intros Hp H. apply no_viol_oob in Hp. apply no_viol_oob in H. unfold c_checkBounds. rewrite Hp, H. reflexivity.
Qed.

(* the C checkBounds and the generic interface agree *)
Lemma cb_generic vr d args e0 body :
  let cb := c_checkBounds R Rltb d args in
  (cb < 0 -> forall p, bounds_status (generic R Rltb vr d args (length (inputs d)) p e0 body) = cb) /\
  (0 < cb -> bounds_status (generic R Rltb vr d args (length (inputs d)) PStrict e0 body) = - cb).
Proof.
  unfold c_checkBounds, generic. rewrite Nat.eqb_refl. simpl.
  destruct (first_oob R Rltb v_phys 1 (inputs d) args) as [i|].
  - split; [intros _ p; reflexivity | intros H; lia].
  - pose proof (scan_strict vr 1 (inputs d) args 0 0) as HS.
    destruct (first_oob R Rltb v_bounds 1 (inputs d) args) as [i|].
    + split; [intros H; lia|]. intros _. destruct HS as (r & ->). simpl. lia.
    + split; intros H; lia.
Qed.

(* C38 -- lemmas about the contract model *)
From Coq Require Import Reals List Bool ZArith Lia Lra.
From C38 Require Import C38Model C38Spec.
Import ListNotations.
Local Open Scope Z_scope.

Lemma Rltb_true a b : Rltb a b = true <-> (a < b)%R.
Proof. unfold Rltb; destruct (Rlt_dec a b); split; intros; auto; try discriminate; contradiction. Qed.

Lemma oob_outside b v : oob R Rltb b v = true <-> outside b v.
Proof.
  destruct b, v; simpl; rewrite ?orb_true_iff, ?Rltb_true; unfold Rgt; try tauto;
    try (split; [discriminate | tauto]); try (split; [intros [H|H]; discriminate | tauto]);
    try (split; auto).
Qed.

Lemma oob_opt_outside ob v : oob_opt R Rltb ob v = true <-> outside_opt ob v.
Proof. destruct ob; simpl; [apply oob_outside | split; [discriminate | tauto]]. Qed.

Lemma oob_opt_false ob v : oob_opt R Rltb ob v = false <-> ~ outside_opt ob v.
Proof.
  rewrite <- oob_opt_outside. destruct (oob_opt R Rltb ob v); split; intros H; try discriminate; try reflexivity.
  exfalso; apply H; reflexivity.
Qed.

(* ---- first_oob finds the first violated position ----------------------------------------------------------- *)
Lemma first_oob_some sel k vs args i :
  first_oob R Rltb sel k vs args = Some i <->
  exists j, i = (k + j)%nat /\ viol_at sel vs args j /\ forall j', (j' < j)%nat -> ~ viol_at sel vs args j'.
Proof.
  revert k args; induction vs as [|v vs IH]; intros k args; simpl.
  - split; [discriminate | intros (j & _ & (w & a & H & _) & _); destruct j; discriminate].
  - destruct args as [|a args].
    + split; [discriminate | intros (j & _ & (w & a & _ & H & _) & _); destruct j; discriminate].
    + destruct (oob_opt R Rltb (sel v) a) eqn:E.
      * apply oob_opt_outside in E. split.
        -- intros H; inversion H; subst. exists 0%nat. split; [lia|]. split.
           ++ exists v, a; simpl; auto.
           ++ intros j' Hj; lia.
        -- intros (j & -> & Hv & Hmin). destruct j; [f_equal; lia|].
           exfalso. apply (Hmin 0%nat); [lia|]. exists v, a; simpl; auto.
      * apply oob_opt_false in E. rewrite IH. split.
        -- intros (j & -> & (w & b & H1 & H2 & H3) & Hmin). exists (S j). split; [lia|]. split.
           ++ exists w, b; simpl; auto.
           ++ intros j' Hj (w' & b' & G1 & G2 & G3). destruct j'; simpl in *.
              ** inversion G1; inversion G2; subst; contradiction.
              ** apply (Hmin j'); [lia|]. exists w', b'; auto.
        -- intros (j & -> & (w & b & H1 & H2 & H3) & Hmin). destruct j; simpl in *.
           ++ inversion H1; inversion H2; subst; contradiction.
           ++ exists j. split; [lia|]. split; [exists w, b; auto|].
              intros j' Hj (w' & b' & G1 & G2 & G3). apply (Hmin (S j')); [lia|]. exists w', b'; simpl; auto.
Qed.

Lemma first_oob_none sel k vs args :
  first_oob R Rltb sel k vs args = None <-> forall j, ~ viol_at sel vs args j.
Proof.
  revert k args; induction vs as [|v vs IH]; intros k args; simpl.
  - split; auto. intros _ j (w & a & H & _); destruct j; discriminate.
  - destruct args as [|a args].
    + split; auto. intros _ j (w & a & _ & H & _); destruct j; discriminate.
    + destruct (oob_opt R Rltb (sel v) a) eqn:E.
      * apply oob_opt_outside in E. split; [discriminate|]. intros H. exfalso. apply (H 0%nat). exists v, a; simpl; auto.
      * apply oob_opt_false in E. rewrite IH. split.
        -- intros H j (w & b & G1 & G2 & G3). destruct j; simpl in *.
           ++ inversion G1; inversion G2; subst; contradiction.
           ++ apply (H j). exists w, b; auto.
        -- intros H j (w & b & G1 & G2 & G3). apply (H (S j)). exists w, b; simpl; auto.
Qed.

Lemma first_viol_oob sel d args i :
  first_viol sel d args i <-> first_oob R Rltb sel 1 (inputs d) args = Some i.
Proof.
  rewrite first_oob_some. unfold first_viol. split.
  - intros (Hi & Hv & Hmin). exists (i - 1)%nat. split; [lia|]. split; auto.
  - intros (j & -> & Hv & Hmin). replace (1 + j - 1)%nat with j by lia. split; [lia|]. split; auto.
Qed.

Lemma no_viol_oob sel d args : no_viol sel d args <-> first_oob R Rltb sel 1 (inputs d) args = None.
Proof. rewrite first_oob_none. unfold no_viol. tauto. Qed.

(* ---- the scan of standard bounds ---------------------------------------------------------------------------- *)
Lemma scan_none vr k vs args st bs : scan_bounds R Rltb vr PNone k vs args st bs = Cont st bs.
Proof.
  revert k args; induction vs as [|v vs IH]; intros k args; simpl; auto.
  destruct args as [|a args]; auto. unfold bound_step.
  destruct (v_bounds v); [destruct (oob R Rltb b a)|]; apply IH.
Qed.

Lemma scan_warning vr k vs args st bs : exists st' bs', scan_bounds R Rltb vr PWarning k vs args st bs = Cont st' bs' /\
  (first_oob R Rltb v_bounds k vs args = None -> st' = st /\ bs' = bs) /\
  (first_oob R Rltb v_bounds k vs args <> None -> (1 <= k)%nat -> st' = 1 /\ 0 < bs').
Proof.
  revert k args st bs; induction vs as [|v vs IH]; intros k args st bs; simpl.
  - exists st, bs. split; [reflexivity|]. split; [intros _; auto | intros H0; exfalso; apply H0; reflexivity].
  - destruct args as [|a args].
    + exists st, bs. split; [reflexivity|]. split; [intros _; auto | intros H0; exfalso; apply H0; reflexivity].
    + unfold bound_step, oob_opt. destruct (v_bounds v) as [b|].
      * destruct (oob R Rltb b a).
        -- destruct (IH (S k) args 1 (Z.of_nat k)) as (st' & bs' & E & H2 & H3).
           exists st', bs'. split; auto. split; [discriminate|]. intros _ Hk.
           destruct (first_oob R Rltb v_bounds (S k) vs args) eqn:F.
           ++ apply H3; [discriminate | lia].
           ++ destruct (H2 eq_refl) as (-> & ->). split; auto. lia.
        -- destruct (IH (S k) args st bs) as (st' & bs' & E & H2 & H3).
           exists st', bs'. split; [exact E|]. split; [exact H2|]. intros Hn Hk. apply H3; [exact Hn | lia].
      * destruct (IH (S k) args st bs) as (st' & bs' & E & H2 & H3).
        exists st', bs'. split; [exact E|]. split; [exact H2|]. intros Hn Hk. apply H3; [exact Hn | lia].
Qed.

Lemma scan_strict vr k vs args st bs :
  match first_oob R Rltb v_bounds k vs args with
  | Some i => exists r, scan_bounds R Rltb vr PStrict k vs args st bs = Stop i r
  | None => scan_bounds R Rltb vr PStrict k vs args st bs = Cont st bs
  end.
Proof.
  revert k args; induction vs as [|v vs IH]; intros k args; simpl; auto.
  destruct args as [|a args]; auto. unfold bound_step, oob_opt.
  destruct (v_bounds v) as [b|]; [destruct (oob R Rltb b a)|]; try apply IH.
  eexists; reflexivity.
Qed.

Lemma bound_step_fixed vr p i v a st bs i' r : vr <> AsFound -> bound_step R Rltb vr p i v a st bs = Stop i' r -> r = true.
Proof.
  intros Hvr. unfold bound_step. destruct (v_bounds v) as [b|]; [destruct (oob R Rltb b a); [destruct p|]|]; try discriminate.
  intros H; inversion H. destruct vr; [contradiction | reflexivity | reflexivity].
Qed.

Lemma scan_fixed_restores vr p k vs args st bs i r : vr <> AsFound -> scan_bounds R Rltb vr p k vs args st bs = Stop i r -> r = true.
Proof.
  intros Hvr. revert k args st bs; induction vs as [|v vs IH]; intros k args st bs; simpl; try discriminate.
  destruct args as [|a args]; try discriminate.
  destruct (bound_step R Rltb vr p k v a st bs) eqn:B.
  - intros H; inversion H; subst. eapply bound_step_fixed; eauto.
  - apply IH.
Qed.

(* the two variants stop at the same rank / continue with the same status *)
Definition forget (s : scan) : scan := match s with Stop i _ => Stop i true | c => c end.

Lemma bound_step_variant p i v a st bs :
  forget (bound_step R Rltb AsFound p i v a st bs) = forget (bound_step R Rltb Fixed p i v a st bs).
Proof. unfold bound_step. destruct (v_bounds v) as [b|]; [destruct (oob R Rltb b a); [destruct p|]|]; reflexivity. Qed.

Lemma scan_variant p k vs args st bs :
  forget (scan_bounds R Rltb AsFound p k vs args st bs) = forget (scan_bounds R Rltb Fixed p k vs args st bs).
Proof.
  revert k args st bs; induction vs as [|v vs IH]; intros k args st bs; simpl; auto.
  destruct args as [|a args]; auto.
  pose proof (bound_step_variant p k v a st bs) as B.
  destruct (bound_step R Rltb AsFound p k v a st bs), (bound_step R Rltb Fixed p k v a st bs); simpl in B; inversion B; subst; auto.
Qed.

(* ---- theorems about `generic` ---------------------------------------------------------------------------- *)
Lemma errno_repaired vr d args nargs p e0 body : vr <> AsFound -> errno_after (generic R Rltb vr d args nargs p e0 body) = e0.
Proof.
  intros Hvr. unfold generic. destruct (negb (Nat.eqb nargs (length (inputs d)))); simpl; auto.
  destruct (first_oob R Rltb v_phys 1 (inputs d) args); simpl; auto.
  destruct (scan_bounds R Rltb vr p 1 (inputs d) args 0 0) eqn:HS.
  - apply scan_fixed_restores in HS; auto. subst. reflexivity.
  - destruct body; simpl; auto. destruct (oob_opt R Rltb (v_phys (output d)) v); simpl; auto.
    destruct (bound_step R Rltb vr p (S (length (inputs d))) (output d) v st bs) eqn:B.
    + apply bound_step_fixed in B; auto; subst; reflexivity.
    + reflexivity.
Qed.

Lemma errno_fixed d args nargs p e0 body : errno_after (generic R Rltb Fixed d args nargs p e0 body) = e0.
Proof. apply errno_repaired; discriminate. Qed.

Lemma errno_asfound_refuted :
  exists d args nargs p e0 body, errno_after (generic R Rltb AsFound d args nargs p e0 body) <> e0.
Proof.
  exists (Decl [Var (Some (Upper 1%R)) None] (Var None None)), [Fin 2%R], 1%nat, PStrict, 33, (Returns (Fin 0%R) 0).
  unfold generic, Rltb; cbn. destruct (Rlt_dec 1 2) as [_|H]; [cbn; lia | exfalso; apply H; lra].
Qed.

Lemma variants_agree d args nargs p e0 body :
  same_but_errno (generic R Rltb AsFound d args nargs p e0 body) (generic R Rltb Fixed d args nargs p e0 body).
Proof.
  unfold same_but_errno, generic. destruct (negb (Nat.eqb nargs (length (inputs d)))); simpl; auto.
  destruct (first_oob R Rltb v_phys 1 (inputs d) args); simpl; auto.
  pose proof (scan_variant p 1 (inputs d) args 0 0) as HS.
  destruct (scan_bounds R Rltb AsFound p 1 (inputs d) args 0 0), (scan_bounds R Rltb Fixed p 1 (inputs d) args 0 0);
    simpl in HS; inversion HS; subst; simpl; auto.
  destruct body; simpl; auto. destruct (oob_opt R Rltb (v_phys (output d)) v); simpl; auto.
  pose proof (bound_step_variant p (S (length (inputs d))) (output d) v st0 bs0) as B.
  destruct (bound_step R Rltb AsFound p (S (length (inputs d))) (output d) v st0 bs0),
           (bound_step R Rltb Fixed p (S (length (inputs d))) (output d) v st0 bs0); simpl in B; inversion B; subst; simpl; auto.
Qed.

Lemma wrong_nargs vr d args nargs p e0 body : nargs <> length (inputs d) ->
  let g := generic R Rltb vr d args nargs p e0 body in status g = -5 /\ bounds_status g = 0 /\ ret g = NaN.
Proof.
  intros H. unfold generic. destruct (Nat.eqb nargs (length (inputs d))) eqn:E.
  - apply Nat.eqb_eq in E. contradiction.
  - simpl. auto.
Qed.

Lemma physical_first vr d args p e0 body i : first_viol v_phys d args i ->
  let g := generic R Rltb vr d args (length (inputs d)) p e0 body in
  status g = -1 /\ bounds_status g = - Z.of_nat i /\ ret g = NaN.
Proof.
  intros H. apply first_viol_oob in H. unfold generic. rewrite Nat.eqb_refl. simpl. rewrite H. simpl. auto.
Qed.

Lemma strict_bounds vr d args e0 body i : no_viol v_phys d args -> first_viol v_bounds d args i ->
  let g := generic R Rltb vr d args (length (inputs d)) PStrict e0 body in
  status g = -1 /\ bounds_status g = - Z.of_nat i /\ ret g = NaN.
Proof.
  intros Hp Hb. apply no_viol_oob in Hp. apply first_viol_oob in Hb.
  unfold generic. rewrite Nat.eqb_refl. simpl. rewrite Hp.
  pose proof (scan_strict vr 1 (inputs d) args 0 0) as HS. rewrite Hb in HS. destruct HS as (r & ->). simpl. auto.
Qed.

(* a status -1 under Warning or None can only come from a physical bound *)
Lemma only_physical_fails vr d args nargs p e0 body : p <> PStrict ->
  status (generic R Rltb vr d args nargs p e0 body) = -1 ->
  (exists i, first_viol v_phys d args i) \/
  (exists v el, body = Returns v el /\ outside_opt (v_phys (output d)) v).
Proof.
  intros Hp. unfold generic. destruct (negb (Nat.eqb nargs (length (inputs d)))); simpl; [discriminate|].
  destruct (first_oob R Rltb v_phys 1 (inputs d) args) eqn:F.
  - intros _. left. exists n. now apply first_viol_oob.
  - assert (HS : exists st bs, scan_bounds R Rltb vr p 1 (inputs d) args 0 0 = Cont st bs /\ (st = 0 \/ st = 1)).
    { destruct p; [| |contradiction].
      - rewrite scan_none. eauto.
      - destruct (scan_warning vr 1 (inputs d) args 0 0) as (st & bs & E & H1 & H2). exists st, bs. split; auto.
        destruct (first_oob R Rltb v_bounds 1 (inputs d) args) eqn:G.
        + right. apply H2; [discriminate | lia].
        + left. apply H1; reflexivity. }
    destruct HS as (st & bs & -> & Hst). destruct body as [v el|]; simpl; [|discriminate].
    destruct (oob_opt R Rltb (v_phys (output d)) v) eqn:O.
    + intros _. right. exists v, el. split; auto. now apply oob_opt_outside.
    + unfold bound_step. destruct (v_bounds (output d)) as [b|].
      * destruct (oob R Rltb b v); [destruct p; [| |contradiction]|]; unfold finish; simpl;
          destruct (Z.eqb el 0), (isfinite R v); simpl; intros H; try discriminate; destruct Hst; subst; discriminate.
      * unfold finish; simpl; destruct (Z.eqb el 0), (isfinite R v); simpl; intros H; try discriminate; destruct Hst; subst; discriminate.
Qed.

(* with policy None the standard bounds are ignored *)
Lemma none_ignores_bounds vr d args e0 x : no_viol v_phys d args -> ~ outside_opt (v_phys (output d)) (Fin x) ->
  let g := generic R Rltb vr d args (length (inputs d)) PNone e0 (Returns (Fin x) 0) in
  status g = 0 /\ bounds_status g = 0 /\ ret g = Fin x.
Proof.
  intros Hp Ho. apply no_viol_oob in Hp. apply oob_opt_false in Ho.
  unfold generic. rewrite Nat.eqb_refl. simpl. rewrite Hp, scan_none. simpl. rewrite Ho.
  unfold bound_step. destruct (v_bounds (output d)) as [b|]; [destruct (oob R Rltb b (Fin x))|]; destruct vr; unfold finish; simpl; auto.
Qed.

(* everything inside (bounds inclusive): status 0 under every policy *)
Lemma all_inside vr d args p e0 x : no_viol v_phys d args -> no_viol v_bounds d args ->
  ~ outside_opt (v_phys (output d)) (Fin x) -> ~ outside_opt (v_bounds (output d)) (Fin x) ->
  let g := generic R Rltb vr d args (length (inputs d)) p e0 (Returns (Fin x) 0) in
  status g = 0 /\ bounds_status g = 0 /\ ret g = Fin x.
Proof.
  intros Hp Hb Ho Hob. apply no_viol_oob in Hp. apply no_viol_oob in Hb. apply oob_opt_false in Ho. apply oob_opt_false in Hob.
  unfold generic. rewrite Nat.eqb_refl. simpl. rewrite Hp.
  assert (HS : scan_bounds R Rltb vr p 1 (inputs d) args 0 0 = Cont 0 0).
  { destruct p.
    - apply scan_none.
    - destruct (scan_warning vr 1 (inputs d) args 0 0) as (st & bs & E & H1 & _). destruct (H1 Hb) as (-> & ->). exact E.
    - pose proof (scan_strict vr 1 (inputs d) args 0 0) as HS. rewrite Hb in HS. exact HS. }
  rewrite HS. simpl. rewrite Ho. unfold bound_step. unfold oob_opt in Hob.
  destruct (v_bounds (output d)) as [b|]; [rewrite Hob|]; destruct vr; unfold finish; simpl; auto.
Qed.

(* status 1 only under Warning, with a positive rank and the computed value returned *)
Lemma status_one vr d args nargs p e0 body :
  status (generic R Rltb vr d args nargs p e0 body) = 1 ->
  p = PWarning /\ exists x, body = Returns (Fin x) 0 /\ ret (generic R Rltb vr d args nargs p e0 body) = Fin x.
Proof.
  unfold generic. destruct (negb (Nat.eqb nargs (length (inputs d)))); simpl; [discriminate|].
  destruct (first_oob R Rltb v_phys 1 (inputs d) args); simpl; [discriminate|].
  destruct p.
  - rewrite scan_none. destruct body as [v el|]; simpl; [|discriminate].
    destruct (oob_opt R Rltb (v_phys (output d)) v); simpl; [discriminate|].
    unfold bound_step. destruct (v_bounds (output d)) as [b|]; [destruct (oob R Rltb b v)|]; unfold finish; simpl;
      destruct (Z.eqb el 0), (isfinite R v); simpl; discriminate.
  - destruct (scan_warning vr 1 (inputs d) args 0 0) as (st & bs & -> & _ & _).
    destruct body as [v el|]; simpl; [|discriminate].
    destruct (oob_opt R Rltb (v_phys (output d)) v); simpl; [discriminate|].
    intros H. split; auto.
    assert (G : exists st' bs', bound_step R Rltb vr PWarning (S (length (inputs d))) (output d) v st bs = Cont st' bs').
    { unfold bound_step. destruct (v_bounds (output d)) as [b|]; [destruct (oob R Rltb b v)|]; eauto. }
    destruct G as (st' & bs' & G). rewrite G in *. unfold finish in *; simpl in *.
    destruct (Z.eqb el 0) eqn:E; destruct v; simpl in *; try discriminate.
    apply Z.eqb_eq in E; subst. exists v. split; auto. destruct vr; auto.
  - pose proof (scan_strict vr 1 (inputs d) args 0 0) as HS.
    destruct (first_oob R Rltb v_bounds 1 (inputs d) args).
    + destruct HS as (r & ->). simpl. discriminate.
    + rewrite HS. destruct body as [v el|]; simpl; [|discriminate].
      destruct (oob_opt R Rltb (v_phys (output d)) v); simpl; [discriminate|].
      unfold bound_step. destruct (v_bounds (output d)) as [b|]; [destruct (oob R Rltb b v)|]; unfold finish; simpl;
        destruct (Z.eqb el 0), (isfinite R v); simpl; discriminate.
Qed.

(* Warning reports an out-of-bounds argument with status 1 and its (positive) rank, and still returns the value *)
Lemma warning_reports vr d args e0 x i : no_viol v_phys d args -> first_viol v_bounds d args i ->
  ~ outside_opt (v_phys (output d)) (Fin x) ->
  let g := generic R Rltb vr d args (length (inputs d)) PWarning e0 (Returns (Fin x) 0) in
  status g = 1 /\ 0 < bounds_status g /\ ret g = Fin x.
Proof.
  intros Hp Hb Ho. apply no_viol_oob in Hp. apply first_viol_oob in Hb. apply oob_opt_false in Ho.
  unfold generic. rewrite Nat.eqb_refl. simpl. rewrite Hp.
  destruct (scan_warning vr 1 (inputs d) args 0 0) as (st & bs & -> & _ & H2).
  destruct H2 as (-> & Hbs); [rewrite Hb; discriminate | lia |].
  simpl. rewrite Ho. unfold bound_step.
  destruct (v_bounds (output d)) as [b|]; [destruct (oob R Rltb b (Fin x))|]; destruct vr; unfold finish; simpl; repeat split; auto; lia.
Qed.

(* errno left by the law / non-finite value, when every check passed *)
Lemma c_errors vr d args nargs p e0 v el :
  let g := generic R Rltb vr d args nargs p e0 (Returns v el) in
  status g <> -5 -> status g <> -1 ->
  (isfinite R v = false -> status g = -4) /\
  (isfinite R v = true -> el <> 0 -> status g = -3 /\ c_error_number g = el).
Proof.
  unfold generic. destruct (negb (Nat.eqb nargs (length (inputs d)))); simpl; [intros H; exfalso; apply H; reflexivity|].
  destruct (first_oob R Rltb v_phys 1 (inputs d) args); simpl; [intros _ H; exfalso; apply H; reflexivity|].
  destruct (scan_bounds R Rltb vr p 1 (inputs d) args 0 0); simpl; [intros _ H; exfalso; apply H; reflexivity|].
  destruct (oob_opt R Rltb (v_phys (output d)) v); simpl; [intros _ H; exfalso; apply H; reflexivity|].
  destruct (bound_step R Rltb vr p (S (length (inputs d))) (output d) v st bs); simpl; [intros _ H; exfalso; apply H; reflexivity|].
  intros _ _. unfold finish; simpl. split.
  - intros ->. reflexivity.
  - intros -> Hel. destruct (Z.eqb el 0) eqn:E; [apply Z.eqb_eq in E; contradiction|]. simpl. auto.
Qed.

Lemma exception_status vr d args nargs p e0 :
  let g := generic R Rltb vr d args nargs p e0 Throws in
  status g = -5 \/ status g = -1 \/ (status g = -2 /\ ret g = NaN).
Proof.
  unfold generic. destruct (negb (Nat.eqb nargs (length (inputs d)))); simpl; auto.
  destruct (first_oob R Rltb v_phys 1 (inputs d) args); simpl; auto.
  destruct (scan_bounds R Rltb vr p 1 (inputs d) args 0 0); simpl; auto.
Qed.

Lemma inclusive lb ub x :
  ((lb <= x <= ub)%R -> ~ outside (Both lb ub) (Fin x)) /\ ((lb <= x)%R -> ~ outside (Lower lb) (Fin x)) /\
  ((x <= ub)%R -> ~ outside (Upper ub) (Fin x)).
Proof. simpl. repeat split; intros; lra. Qed.

(* ---- C interface ------------------------------------------------------------------------------------------ *)
Lemma cb_physical d args i : first_viol v_phys d args i -> c_checkBounds R Rltb d args = - Z.of_nat i.
Proof. intros H. apply first_viol_oob in H. unfold c_checkBounds. rewrite H. reflexivity. Qed.

Lemma cb_bounds d args i : no_viol v_phys d args -> first_viol v_bounds d args i -> c_checkBounds R Rltb d args = Z.of_nat i.
Proof.
  intros Hp H. apply no_viol_oob in Hp. apply first_viol_oob in H. unfold c_checkBounds. rewrite Hp, H. reflexivity.
Qed.

Lemma cb_inside d args : no_viol v_phys d args -> no_viol v_bounds d args -> c_checkBounds R Rltb d args = 0.
Proof.
  intros Hp H. apply no_viol_oob in Hp. apply no_viol_oob in H. unfold c_checkBounds. rewrite Hp, H. reflexivity.
Qed.

(* the C checkBounds and the generic interface agree *)
Lemma cb_generic vr d args e0 body :
  let cb := c_checkBounds R Rltb d args in
  (cb < 0 -> forall p, bounds_status (generic R Rltb vr d args (length (inputs d)) p e0 body) = cb) /\
  (0 < cb -> bounds_status (generic R Rltb vr d args (length (inputs d)) PStrict e0 body) = - cb).
Proof.
  unfold c_checkBounds, generic. rewrite Nat.eqb_refl. simpl.
  destruct (first_oob R Rltb v_phys 1 (inputs d) args) as [i|].
  - split; [intros _ p; reflexivity | intros H; lia].
  - pose proof (scan_strict vr 1 (inputs d) args 0 0) as HS.
    destruct (first_oob R Rltb v_bounds 1 (inputs d) args) as [i|].
    + split; [intros H; lia|]. intros _. destruct HS as (r & ->). simpl. lia.
    + split; intros H; lia.
Qed.

(* ==== extensions ============================================================================================== *)
(* ---- value returned with a negative status ------------------------------------------------------------------ *)
Lemma ret_documented d args nargs p e0 body :
  status (generic R Rltb Documented d args nargs p e0 body) < 0 -> ret (generic R Rltb Documented d args nargs p e0 body) = NaN.
Proof.
  unfold generic. destruct (negb (Nat.eqb nargs (length (inputs d)))); simpl; auto.
  destruct (first_oob R Rltb v_phys 1 (inputs d) args); simpl; auto.
  destruct (scan_bounds R Rltb Documented p 1 (inputs d) args 0 0); simpl; auto.
  destruct body; simpl; auto. destruct (oob_opt R Rltb (v_phys (output d)) v); simpl; auto.
  destruct (bound_step R Rltb Documented p (S (length (inputs d))) (output d) v st bs); simpl; auto.
  intros H. apply Z.ltb_lt in H. rewrite H. reflexivity.
Qed.

Lemma ret_fixed_refuted :
  exists d args nargs p e0 body, status (generic R Rltb Fixed d args nargs p e0 body) < 0 /\
                                 ret (generic R Rltb Fixed d args nargs p e0 body) <> NaN.
Proof.
  exists (Decl [] (Var None None)), [], 0%nat, PNone, 0, (Returns (Fin 1%R) 33).
  cbn. split; [lia | discriminate].
Qed.

Lemma bound_step_fixed_documented p i v a st bs :
  bound_step R Rltb Fixed p i v a st bs = bound_step R Rltb Documented p i v a st bs.
Proof.
  unfold bound_step. destruct (v_bounds v) as [b|]; [destruct (oob R Rltb b a); [destruct p|]|]; try reflexivity.
Qed.

Lemma scan_fixed_documented p k vs args st bs :
  scan_bounds R Rltb Fixed p k vs args st bs = scan_bounds R Rltb Documented p k vs args st bs.
Proof.
  revert k args st bs; induction vs as [|v vs IH]; intros k args st bs; simpl; auto.
  destruct args as [|a args]; auto. rewrite bound_step_fixed_documented.
  destruct (bound_step R Rltb Documented p k v a st bs); auto.
Qed.

Lemma ret_variants_agree d args nargs p e0 body :
  same_but_failed_ret (generic R Rltb Fixed d args nargs p e0 body) (generic R Rltb Documented d args nargs p e0 body).
Proof.
  unfold same_but_failed_ret, generic. destruct (negb (Nat.eqb nargs (length (inputs d)))); simpl; [repeat split; auto|].
  destruct (first_oob R Rltb v_phys 1 (inputs d) args); simpl; [repeat split; auto|].
  rewrite scan_fixed_documented.
  destruct (scan_bounds R Rltb Documented p 1 (inputs d) args 0 0); simpl; [repeat split; auto|].
  destruct body; simpl; [|repeat split; auto]. destruct (oob_opt R Rltb (v_phys (output d)) v); simpl; [repeat split; auto|].
  rewrite bound_step_fixed_documented.
  destruct (bound_step R Rltb Documented p (S (length (inputs d))) (output d) v st bs); simpl; [repeat split; auto|].
  repeat split; auto. intros H. apply Z.ltb_ge in H. rewrite H. reflexivity.
Qed.

(* ---- NaN arguments pass every test of the emitted code (comparisons with NaN are false) ------------------- *)
Lemma nan_passes (b : bounds R) : oob R Rltb b NaN = false.
Proof. destruct b; reflexivity. Qed.

(* ---- status range: needed to show that -6 only comes from the parameters file ------------------------------- *)
Lemma bound_step_status vr p i v a st bs st' bs' :
  bound_step R Rltb vr p i v a st bs = Cont st' bs' -> st = 0 \/ st = 1 -> st' = 0 \/ st' = 1.
Proof.
  unfold bound_step. destruct (v_bounds v) as [b|]; [destruct (oob R Rltb b a); [destruct p|]|];
    intros H; inversion H; subst; auto.
Qed.

Lemma scan_status vr p k vs args st bs st' bs' :
  scan_bounds R Rltb vr p k vs args st bs = Cont st' bs' -> st = 0 \/ st = 1 -> st' = 0 \/ st' = 1.
Proof.
  revert k args st bs; induction vs as [|v vs IH]; intros k args st bs; simpl.
  - intros H; inversion H; subst; auto.
  - destruct args as [|a args]; [intros H; inversion H; subst; auto|].
    destruct (bound_step R Rltb vr p k v a st bs) eqn:B; [discriminate|].
    intros H Hst. eapply IH; eauto. eapply bound_step_status; eauto.
Qed.

Lemma status_range vr d args nargs p e0 body :
  -5 <= status (generic R Rltb vr d args nargs p e0 body) <= 1.
Proof.
  unfold generic. destruct (negb (Nat.eqb nargs (length (inputs d)))); simpl; [lia|].
  destruct (first_oob R Rltb v_phys 1 (inputs d) args); simpl; [lia|].
  destruct (scan_bounds R Rltb vr p 1 (inputs d) args 0 0) eqn:HS; simpl; [lia|].
  apply scan_status in HS; auto.
  destruct body as [v el|]; simpl; [|lia]. destruct (oob_opt R Rltb (v_phys (output d)) v); simpl; [lia|].
  destruct (bound_step R Rltb vr p (S (length (inputs d))) (output d) v st bs) eqn:B; simpl; [lia|].
  apply bound_step_status in B; auto.
  destruct (Z.eqb el 0), (isfinite R v); lia.
Qed.

(* ---- DSL options ------------------------------------------------------------------------------------------ *)
Lemma pline_bad l : pline_ok l = false <-> bad_line l.
Proof.
  unfold bad_line. destruct l as [| |k c|]; simpl; split; try discriminate; auto.
  - intros [H|(k & c & H & _)]; discriminate.
  - intros [H|(k & c & H & _)]; discriminate.
  - intros H. right. exists k, c. split; auto. destruct k, c; auto; discriminate.
  - intros [H|(k' & c' & H & [-> | ->])]; [discriminate| |]; inversion H; subst; auto. apply andb_false_r.
Qed.

Lemma handler_not_ok o pf :
  handler_ok o pf = false <-> reads_file o = true /\ exists ls, pf = Some ls /\ exists l, In l ls /\ bad_line l.
Proof.
  unfold handler_ok. destruct pf as [ls|].
  - rewrite orb_false_iff, negb_false_iff. split.
    + intros (Hr & Hf). split; auto. exists ls. split; auto.
      induction ls as [|l ls IH]; simpl in Hf; [discriminate|].
      apply andb_false_iff in Hf. destruct Hf as [Hf|Hf].
      * exists l. split; [left; auto | now apply pline_bad].
      * destruct (IH Hf) as (l' & Hin & Hb). exists l'. split; [right; auto | auto].
    + intros (Hr & ls' & E & l & Hin & Hb). inversion E; subst ls'. split; auto.
      induction ls as [|l' ls IH]; simpl in *; [contradiction|].
      apply andb_false_iff. destruct Hin as [->|Hin]; [left; now apply pline_bad | right; auto].
  - split; [discriminate | intros (_ & ls & E & _); discriminate].
Qed.

Lemma opt_minus6 vr o pf d args p e0 body : o_nochecks o = false -> handler_ok o pf = false ->
  generic_opt R Rltb vr o pf d args (length (inputs d)) p e0 body = Res (-6) 0 0 NaN e0.
Proof. intros Hn Hh. unfold generic_opt. rewrite Hn, Hh, Nat.eqb_refl. reflexivity. Qed.

Lemma opt_minus6_only vr o pf d args nargs p e0 body :
  status (generic_opt R Rltb vr o pf d args nargs p e0 body) = -6 ->
  o_nochecks o = false /\ nargs = length (inputs d) /\ handler_ok o pf = false.
Proof.
  unfold generic_opt. destruct (o_nochecks o).
  - destruct body; simpl; discriminate.
  - destruct (Nat.eqb nargs (length (inputs d))) eqn:E; simpl.
    + destruct (handler_ok o pf); simpl.
      * intros H. pose proof (status_range vr d args nargs p e0 body). lia.
      * intros _. apply Nat.eqb_eq in E. auto.
    + intros H. pose proof (status_range vr d args nargs p e0 body). lia.
Qed.

Lemma opt_neutral vr o pf d args nargs p e0 body : o_nochecks o = false -> handler_ok o pf = true ->
  generic_opt R Rltb vr o pf d args nargs p e0 body = generic R Rltb vr d args nargs p e0 body.
Proof. intros Hn Hh. unfold generic_opt. rewrite Hn, Hh. simpl. rewrite andb_false_r. reflexivity. Qed.

Lemma handler_ok_without_file o pf : reads_file o = false -> handler_ok o pf = true.
Proof. intros H. unfold handler_ok. destruct pf; auto. rewrite H. reflexivity. Qed.

Lemma opt_nochecks vr o pf d args nargs p e0 body : o_nochecks o = true ->
  let g := generic_opt R Rltb vr o pf d args nargs p e0 body in
  bounds_status g = 0 /\ c_error_number g = 0 /\
  match body with Throws => status g = -2 /\ ret g = NaN | Returns v _ => status g = 0 /\ ret g = v end.
Proof. intros Hn. unfold generic_opt. rewrite Hn. destruct body; simpl; auto. Qed.

Lemma opt_errno vr o pf d args nargs p e0 body : vr <> AsFound -> o_nochecks o = false ->
  errno_after (generic_opt R Rltb vr o pf d args nargs p e0 body) = e0.
Proof.
  intros Hvr Hn. unfold generic_opt. rewrite Hn.
  destruct (Nat.eqb nargs (length (inputs d)) && negb (handler_ok o pf)); [reflexivity | now apply errno_repaired].
Qed.

(* ---- c++ interface ---------------------------------------------------------------------------------------- *)
Lemma all_oob_in sel k vs args i :
  In i (all_oob R Rltb sel k vs args) <-> exists j, i = (k + j)%nat /\ viol_at sel vs args j.
Proof.
  revert k args; induction vs as [|v vs IH]; intros k args; simpl.
  - split; [tauto | intros (j & _ & (w & a & H & _)); destruct j; discriminate].
  - destruct args as [|a args]; simpl.
    + split; [tauto | intros (j & _ & (w & a & _ & H & _)); destruct j; discriminate].
    + destruct (oob_opt R Rltb (sel v) a) eqn:E.
      * simpl. rewrite IH. split.
        -- intros [<- | (j & -> & (w & b & H1 & H2 & H3))].
           ++ exists 0%nat. split; [lia|]. exists v, a. simpl. repeat split; auto. now apply oob_opt_outside.
           ++ exists (S j). split; [lia|]. exists w, b; simpl; auto.
        -- intros (j & -> & (w & b & H1 & H2 & H3)). destruct j; simpl in *.
           ++ left; lia.
           ++ right. exists j. split; [lia|]. exists w, b; auto.
      * rewrite IH. apply oob_opt_false in E. split.
        -- intros (j & -> & (w & b & H1 & H2 & H3)). exists (S j). split; [lia|]. exists w, b; simpl; auto.
        -- intros (j & -> & (w & b & H1 & H2 & H3)). destruct j; simpl in *.
           ++ inversion H1; inversion H2; subst; contradiction.
           ++ exists j. split; [lia|]. exists w, b; auto.
Qed.

Lemma all_oob_ranks sel d args i : In i (all_oob R Rltb sel 1 (inputs d) args) <-> viol_rank sel d args i.
Proof.
  rewrite all_oob_in. unfold viol_rank. split.
  - intros (j & -> & H). split; [lia|]. replace (1 + j - 1)%nat with j by lia. exact H.
  - intros (Hi & H). exists (i - 1)%nat. split; [lia | exact H].
Qed.

Lemma cxx_cb_physical d args p i : first_viol v_phys d args i -> cxx_checkBounds R Rltb false d args p = CbThrow i true.
Proof. intros H. apply first_viol_oob in H. unfold cxx_checkBounds. rewrite H. reflexivity. Qed.

Lemma cxx_cb_strict d args i : no_viol v_phys d args -> first_viol v_bounds d args i ->
  cxx_checkBounds R Rltb false d args PStrict = CbThrow i false.
Proof.
  intros Hp H. apply no_viol_oob in Hp. apply first_viol_oob in H. unfold cxx_checkBounds. rewrite Hp, H. reflexivity.
Qed.

Lemma cxx_cb_warning d args : no_viol v_phys d args ->
  exists w, cxx_checkBounds R Rltb false d args PWarning = CbPass w /\ forall i, In i w <-> viol_rank v_bounds d args i.
Proof.
  intros Hp. apply no_viol_oob in Hp. unfold cxx_checkBounds. rewrite Hp.
  eexists. split; [reflexivity|]. intros i. apply all_oob_ranks.
Qed.

Lemma cxx_cb_none d args : no_viol v_phys d args -> cxx_checkBounds R Rltb false d args PNone = CbPass [].
Proof. intros Hp. apply no_viol_oob in Hp. unfold cxx_checkBounds. rewrite Hp. reflexivity. Qed.

Lemma cxx_cb_inside d args p : no_viol v_phys d args -> no_viol v_bounds d args ->
  cxx_checkBounds R Rltb false d args p = CbPass [].
Proof.
  intros Hp Hb. pose proof Hb as Hb'. apply no_viol_oob in Hp. apply no_viol_oob in Hb. unfold cxx_checkBounds. rewrite Hp.
  destruct p; auto; [|rewrite Hb; reflexivity].
  f_equal. destruct (all_oob R Rltb v_bounds 1 (inputs d) args) as [|i l] eqn:E; auto.
  exfalso. assert (Hin : In i (all_oob R Rltb v_bounds 1 (inputs d) args)) by (rewrite E; left; auto).
  apply all_oob_ranks in Hin. destruct Hin as (_ & Hv). exact (Hb' _ Hv).
Qed.

(* what makes checkBounds throw makes the generic interface fail with the same rank *)
Lemma cxx_cb_generic vr d args p e0 body i ph : cxx_checkBounds R Rltb false d args p = CbThrow i ph ->
  let g := generic R Rltb vr d args (length (inputs d)) p e0 body in
  status g = -1 /\ bounds_status g = - Z.of_nat i /\ ret g = NaN.
Proof.
  unfold cxx_checkBounds, generic. rewrite Nat.eqb_refl. simpl.
  destruct (first_oob R Rltb v_phys 1 (inputs d) args) as [j|].
  - intros H; inversion H; subst. simpl. auto.
  - destruct p; try discriminate.
    pose proof (scan_strict vr 1 (inputs d) args 0 0) as HS.
    destruct (first_oob R Rltb v_bounds 1 (inputs d) args) as [j|]; [|discriminate].
    intros H; inversion H; subst. destruct HS as (r & ->). simpl. auto.
Qed.

(* ... and is what the C interface's _checkBounds reports *)
Lemma cxx_cb_c d args p :
  match cxx_checkBounds R Rltb false d args p with
  | CbThrow i true => c_checkBounds R Rltb d args = - Z.of_nat i
  | CbThrow i false => c_checkBounds R Rltb d args = Z.of_nat i /\ p = PStrict
  | CbPass w => 0 <= c_checkBounds R Rltb d args /\ forall i, In i w -> p = PWarning
  end.
Proof.
  unfold cxx_checkBounds, c_checkBounds.
  destruct (first_oob R Rltb v_phys 1 (inputs d) args) as [j|]; [reflexivity|].
  destruct p; destruct (first_oob R Rltb v_bounds 1 (inputs d) args) as [j|]; simpl; try (split; [lia | intros i []]); auto;
    split; try lia; auto.
Qed.

Lemma cxx_call_inside d args p x : no_viol v_phys d args -> no_viol v_bounds d args ->
  ~ outside_opt (v_phys (output d)) (Fin x) -> ~ outside_opt (v_bounds (output d)) (Fin x) ->
  cxx_call R Rltb false d args p (Returns (Fin x) 0) = XValue (Fin x) [].
Proof.
  intros Hp Hb Ho Hob. apply oob_opt_false in Ho. apply oob_opt_false in Hob.
  unfold cxx_call. rewrite (cxx_cb_inside d args p Hp Hb). simpl. rewrite andb_false_r. rewrite Ho, Hob. reflexivity.
Qed.

Lemma cxx_call_checkBounds d args p body i ph : cxx_checkBounds R Rltb false d args p = CbThrow i ph ->
  cxx_call R Rltb false d args p body = XRange i ph.
Proof. intros H. unfold cxx_call. rewrite H. reflexivity. Qed.

(* the output: physical bounds under every policy, standard bounds under Strict; errno / non-finite values first *)
Lemma cxx_call_output d args p w x : cxx_checkBounds R Rltb false d args p = CbPass w ->
  let r := cxx_call R Rltb false d args p (Returns (Fin x) 0) in
  (outside_opt (v_phys (output d)) (Fin x) -> r = XRange (S (length (inputs d))) true) /\
  (~ outside_opt (v_phys (output d)) (Fin x) -> outside_opt (v_bounds (output d)) (Fin x) ->
     match p with PStrict => r = XRange (S (length (inputs d))) false
                | PWarning => r = XValue (Fin x) (w ++ [S (length (inputs d))])
                | PNone => r = XValue (Fin x) w end) /\
  (~ outside_opt (v_phys (output d)) (Fin x) -> ~ outside_opt (v_bounds (output d)) (Fin x) -> r = XValue (Fin x) w).
Proof.
  intros H. unfold cxx_call. rewrite H. simpl. rewrite andb_false_r. repeat split.
  - intros Ho. apply oob_opt_outside in Ho. rewrite Ho. reflexivity.
  - intros Ho Hob. apply oob_opt_false in Ho. apply oob_opt_outside in Hob. rewrite Ho, Hob. destruct p; reflexivity.
  - intros Ho Hob. apply oob_opt_false in Ho. apply oob_opt_false in Hob. rewrite Ho, Hob. reflexivity.
Qed.

(* a value is returned only when nothing went wrong *)
Lemma cxx_call_value d args p body v w : cxx_call R Rltb false d args p body = XValue v w ->
  exists el w0, body = Returns v el /\ cxx_checkBounds R Rltb false d args p = CbPass w0 /\
                ~ outside_opt (v_phys (output d)) v /\ (p = PStrict -> ~ outside_opt (v_bounds (output d)) v) /\
                ((0 < length (inputs d))%nat -> el = 0 /\ isfinite R v = true).
Proof.
  unfold cxx_call. destruct (cxx_checkBounds R Rltb false d args p) as [i ph|w0]; [discriminate|].
  destruct body as [v' el|]; [|discriminate]. simpl.
  destruct (Nat.ltb 0 (length (inputs d)) && (negb (Z.eqb el 0) || negb (isfinite R v'))) eqn:E; [discriminate|].
  destruct (oob_opt R Rltb (v_phys (output d)) v') eqn:Ho; [discriminate|].
  intros HH.
  assert (Hv : v' = v).
  { destruct (oob_opt R Rltb (v_bounds (output d)) v'); [destruct p; try discriminate|]; inversion HH; auto. }
  subst v'. exists el, w0. split; auto. split; auto. split; [now apply oob_opt_false|]. split.
  - intros ->. destruct (oob_opt R Rltb (v_bounds (output d)) v) eqn:Hob; [discriminate HH | now apply oob_opt_false].
  - intros Hn. apply Nat.ltb_lt in Hn. rewrite Hn in E. simpl in E. apply orb_false_iff in E. destruct E as (E1 & E2).
    apply negb_false_iff in E1. apply negb_false_iff in E2. apply Z.eqb_eq in E1. auto.
Qed.
